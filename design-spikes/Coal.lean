namespace Coal

abbrev Iv := Int × Int

def mem (x : Int) (r : Iv) : Prop := r.1 ≤ x ∧ x ≤ r.2
def memL (x : Int) (rs : List Iv) : Prop := ∃ r ∈ rs, mem x r

/-- Go coalesce: `cur` is cr[i]; inputs sorted by lower bound -/
def go (cur : Iv) : List Iv → List Iv
  | [] => [cur]
  | r :: rs =>
    if cur.2 + 1 < r.1 then cur :: go r rs
    else if cur.2 < r.2 then go (cur.1, r.2) rs
    else go cur rs

def coalesce : List Iv → List Iv
  | [] => []
  | r :: rs => go r rs

/-- sorted by lower bound, every part valid -/
def SortedLo : List Iv → Prop
  | [] => True
  | [r] => r.1 ≤ r.2
  | r :: s :: rest => r.1 ≤ r.2 ∧ r.1 ≤ s.1 ∧ SortedLo (s :: rest)

/-- output shape: valid parts, strictly separated by at least one missing value -/
def SDC : List Iv → Prop
  | [] => True
  | [r] => r.1 ≤ r.2
  | r :: s :: rest => r.1 ≤ r.2 ∧ r.2 + 1 < s.1 ∧ SDC (s :: rest)

theorem sortedLo_tail {r : Iv} {rs : List Iv} (h : SortedLo (r :: rs)) : SortedLo rs := by
  cases rs with
  | nil => trivial
  | cons s rest => exact h.2.2

theorem sortedLo_head {r : Iv} {rs : List Iv} (h : SortedLo (r :: rs)) : r.1 ≤ r.2 := by
  cases rs with
  | nil => exact h
  | cons s rest => exact h.1

/-- first element of `go cur rs` starts at cur.1 -/
theorem go_head (cur : Iv) (rs : List Iv) : ∃ hi tl, go cur rs = (cur.1, hi) :: tl ∧ cur.2 ≤ hi := by
  induction rs generalizing cur with
  | nil => exact ⟨cur.2, [], rfl, Int.le_refl _⟩
  | cons r rs ih =>
    unfold go
    split
    · exact ⟨cur.2, go r rs, rfl, Int.le_refl _⟩
    · split
      · obtain ⟨hi, tl, h, hle⟩ := ih (cur.1, r.2)
        exact ⟨hi, tl, h, by simp at hle; omega⟩
      · exact ih cur

theorem go_sdc (cur : Iv) (rs : List Iv) (hc : cur.1 ≤ cur.2)
    (hs : SortedLo rs) (hlo : ∀ r ∈ rs, cur.1 ≤ r.1) : SDC (go cur rs) := by
  induction rs generalizing cur with
  | nil => exact hc
  | cons r rs ih =>
    have hr : r.1 ≤ r.2 := sortedLo_head hs
    have hrs : SortedLo rs := sortedLo_tail hs
    have hlo_r : ∀ q ∈ rs, r.1 ≤ q.1 := by
      intro q hq
      cases rs with
      | nil => cases hq
      | cons s rest =>
        have h1 : r.1 ≤ s.1 := hs.2.1
        rcases List.mem_cons.mp hq with rfl | hq'
        · exact h1
        · -- sortedness is transitive along the list
          have : ∀ (l : List Iv) (a : Iv), SortedLo (a :: l) → ∀ q ∈ l, a.1 ≤ q.1 := by
            intro l
            induction l with
            | nil => intro a _ q hq; cases hq
            | cons b l ihl =>
              intro a ha q hq
              rcases List.mem_cons.mp hq with rfl | hq
              · exact ha.2.1
              · exact Int.le_trans ha.2.1 (ihl b ha.2.2 q hq)
          exact Int.le_trans h1 (this rest s hs.2.2 q hq')
    unfold go
    split
    · rename_i hgap
      have hsub := ih r hr hrs hlo_r
      obtain ⟨hi, tl, heq, _⟩ := go_head r rs
      rw [heq] at hsub ⊢
      exact ⟨hc, hgap, hsub⟩
    · split
      · exact ih (cur.1, r.2) (by have := hlo r (List.mem_cons_self ..); simp; omega) hrs
          (fun q hq => hlo q (List.mem_cons_of_mem _ hq))
      · exact ih cur hc hrs (fun q hq => hlo q (List.mem_cons_of_mem _ hq))

theorem go_mem (cur : Iv) (rs : List Iv) (hc : cur.1 ≤ cur.2)
    (hs : SortedLo rs) (hlo : ∀ r ∈ rs, cur.1 ≤ r.1) (x : Int) :
    memL x (go cur rs) ↔ (mem x cur ∨ memL x rs) := by
  induction rs generalizing cur with
  | nil => simp [go, memL]
  | cons r rs ih =>
    have hr : r.1 ≤ r.2 := sortedLo_head hs
    have hrs : SortedLo rs := sortedLo_tail hs
    have hcr : cur.1 ≤ r.1 := hlo r (List.mem_cons_self ..)
    have hlo' : ∀ q ∈ rs, cur.1 ≤ q.1 := fun q hq => hlo q (List.mem_cons_of_mem _ hq)
    have hlo_r : ∀ q ∈ rs, r.1 ≤ q.1 := by
      have : ∀ (l : List Iv) (a : Iv), SortedLo (a :: l) → ∀ q ∈ l, a.1 ≤ q.1 := by
        intro l
        induction l with
        | nil => intro a _ q hq; cases hq
        | cons b l ihl =>
          intro a ha q hq
          rcases List.mem_cons.mp hq with rfl | hq
          · exact ha.2.1
          · exact Int.le_trans ha.2.1 (ihl b ha.2.2 q hq)
      exact this rs r hs
    have hsplit : memL x (r :: rs) ↔ (mem x r ∨ memL x rs) := by
      simp [memL]
    unfold go
    split
    · rw [hsplit, ← ih r hr hrs hlo_r]
      simp [memL]
    · rename_i hgap
      split
      · rename_i hext
        rw [ih (cur.1, r.2) (by simp; omega) hrs hlo', hsplit]
        unfold mem; simp
        constructor
        · rintro (⟨h1, h2⟩ | h)
          · by_cases hx : x ≤ cur.2
            · exact Or.inl ⟨h1, hx⟩
            · exact Or.inr (Or.inl ⟨by omega, h2⟩)
          · exact Or.inr (Or.inr h)
        · rintro (⟨h1, h2⟩ | ⟨h1, h2⟩ | h)
          · exact Or.inl ⟨h1, by omega⟩
          · exact Or.inl ⟨by omega, h2⟩
          · exact Or.inr h
      · rename_i hext
        rw [ih cur hc hrs hlo', hsplit]
        unfold mem
        constructor
        · rintro (h | h)
          · exact Or.inl h
          · exact Or.inr (Or.inr h)
        · rintro (h | ⟨h1, h2⟩ | h)
          · exact Or.inl h
          · exact Or.inl ⟨by omega, by omega⟩
          · exact Or.inr h

theorem coalesce_spec (rs : List Iv) (hs : SortedLo rs) :
    SDC (coalesce rs) ∧ ∀ x, memL x (coalesce rs) ↔ memL x rs := by
  cases rs with
  | nil => exact ⟨trivial, fun x => Iff.rfl⟩
  | cons r rs =>
    have hr := sortedLo_head hs
    have hrs := sortedLo_tail hs
    have hlo : ∀ q ∈ rs, r.1 ≤ q.1 := by
      have : ∀ (l : List Iv) (a : Iv), SortedLo (a :: l) → ∀ q ∈ l, a.1 ≤ q.1 := by
        intro l
        induction l with
        | nil => intro a _ q hq; cases hq
        | cons b l ihl =>
          intro a ha q hq
          rcases List.mem_cons.mp hq with rfl | hq
          · exact ha.2.1
          · exact Int.le_trans ha.2.1 (ihl b ha.2.2 q hq)
      exact this rs r hs
    refine ⟨go_sdc r rs hr hrs hlo, fun x => ?_⟩
    unfold coalesce
    rw [go_mem r rs hr hrs hlo x]
    simp [memL]

end Coal
