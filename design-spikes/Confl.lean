/-!
Abstract confluence of "apply pending augments until none is applicable".

Flat view of a forest: a state is the list (set) of node paths it contains.  An augment needs
its target path to exist, adds child paths below it, and collides when one of its child roots
is already there.  Claim: if ONE complete collision-free run exists, then every collision-free
run stays inside it, can never reach a collision, and every complete one ends in the same set
of paths with the same augments unapplied.
-/
namespace Confl

abbrev Path := List String

structure Aug where
  id : Nat
  target : Path
  roots : List String
  adds : List Path
deriving DecidableEq

abbrev St := List Path

def root (a : Aug) (k : String) : Path := a.target ++ [k]

/-- every added path lies below one of the roots, and the roots themselves are added -/
structure WFAug (a : Aug) : Prop where
  below : ∀ p ∈ a.adds, ∃ k ∈ a.roots, ∃ r, root a k ++ r = p
  roots_in : ∀ k ∈ a.roots, root a k ∈ a.adds

def Applicable (a : Aug) (s : St) : Prop := a.target ∈ s
def Collides (a : Aug) (s : St) : Prop := ∃ k ∈ a.roots, root a k ∈ s
def app (a : Aug) (s : St) : St := a.adds ++ s

/-- non-empty prefixes of present paths are present -/
def PrefixClosed (s : St) : Prop := ∀ p r, p ≠ [] → p ++ r ∈ s → p ∈ s

/-- state after applying a sequence, oldest first -/
def after (s0 : St) : List Aug → St
  | [] => s0
  | a :: seq => after (app a s0) seq

/-- `seq` is a collision-free run from `s0` drawing from pending set `P` (ids unique) -/
def Valid (P : List Aug) (s0 : St) : List Aug → Prop
  | [] => True
  | a :: seq => a ∈ P ∧ Applicable a s0 ∧ ¬ Collides a s0 ∧ (∀ b ∈ seq, b.id ≠ a.id) ∧ Valid P (app a s0) seq

/-- nothing left to do -/
def Complete (P : List Aug) (s0 : St) (seq : List Aug) : Prop :=
  ∀ a ∈ P, (∀ b ∈ seq, b.id ≠ a.id) → ¬ Applicable a (after s0 seq)

theorem mem_after (s0 : St) (seq : List Aug) (p : Path) :
    p ∈ after s0 seq ↔ p ∈ s0 ∨ ∃ a ∈ seq, p ∈ a.adds := by
  induction seq generalizing s0 with
  | nil => simp [after]
  | cons a seq ih =>
    simp only [after, ih, app, List.mem_append, List.mem_cons]
    constructor
    · rintro ((h | h) | ⟨b, hb, h⟩)
      · exact Or.inr ⟨a, Or.inl rfl, h⟩
      · exact Or.inl h
      · exact Or.inr ⟨b, Or.inr hb, h⟩
    · rintro (h | ⟨b, (rfl | hb), h⟩)
      · exact Or.inl (Or.inr h)
      · exact Or.inl (Or.inl h)
      · exact Or.inr ⟨b, hb, h⟩

theorem after_mono (s0 : St) (seq : List Aug) {p : Path} (h : p ∈ s0) : p ∈ after s0 seq :=
  (mem_after s0 seq p).mpr (Or.inl h)

theorem after_append (s0 : St) (xs ys : List Aug) : after s0 (xs ++ ys) = after (after s0 xs) ys := by
  induction xs generalizing s0 with
  | nil => rfl
  | cons a xs ih => simp [after, ih]

/-- Splitting a valid run at an element: state before it, the element's conditions. -/
theorem valid_split (P : List Aug) (s0 : St) (seq : List Aug) (hv : Valid P s0 seq)
    (a : Aug) (ha : a ∈ seq) :
    ∃ xs ys, seq = xs ++ a :: ys ∧ Applicable a (after s0 xs) ∧ ¬ Collides a (after s0 xs)
      ∧ (∀ b ∈ xs, b.id ≠ a.id) ∧ (∀ b ∈ ys, b.id ≠ a.id) ∧ a ∈ P := by
  induction seq generalizing s0 with
  | nil => cases ha
  | cons c seq ih =>
    obtain ⟨hcP, hca, hcc, hcid, hrest⟩ := hv
    rcases List.mem_cons.mp ha with rfl | ha'
    · exact ⟨[], seq, rfl, hca, hcc, by simp, hcid, hcP⟩
    · obtain ⟨xs, ys, rfl, h1, h2, h3, h4, h5⟩ := ih (app c s0) hrest ha'
      refine ⟨c :: xs, ys, rfl, h1, h2, ?_, h4, h5⟩
      intro b hb
      rcases List.mem_cons.mp hb with rfl | hb
      · have := hcid a (by simp); exact fun h => this h.symm
      · exact h3 b hb

theorem prefixClosed_app (a : Aug) (s : St) (hw : WFAug a) (hp : PrefixClosed s)
    (happ : Applicable a s) (hne : a.target ≠ [])
    (hclosed : ∀ p ∈ a.adds, ∀ q r, q ++ r = p → a.target.length < q.length → q ∈ a.adds) :
    PrefixClosed (app a s) := by
  intro p r hpne hmem
  simp only [app, List.mem_append] at hmem ⊢
  rcases hmem with h | h
  · -- p ++ r added by a: either p is longer than target (so added) or p is a prefix of target
    by_cases hlen : a.target.length < p.length
    · exact Or.inl (hclosed _ h p r rfl hlen)
    · right
      obtain ⟨k, _, r', hr'⟩ := hw.below _ h
      -- p ++ r = target ++ [k] ++ r', and |p| ≤ |target| so p is a prefix of target
      have hpre : ∃ t, p ++ t = a.target := by
        have h1 : p ++ r = a.target ++ ([k] ++ r') := by
          rw [← hr']; simp [root, List.append_assoc]
        have hle : p.length ≤ a.target.length := by omega
        have hp_eq : p = List.take p.length a.target := by
          have := congrArg (List.take p.length) h1
          simpa [List.take_append_of_le_length hle] using this
        exact ⟨(a.target.drop p.length),
          (congrArg (· ++ a.target.drop p.length) hp_eq).trans (List.take_append_drop _ _)⟩
      obtain ⟨t, ht⟩ := hpre
      exact hp p t hpne (by rw [ht]; exact happ)
  · exact Or.inr (hp p r hpne h)

/-- extra well-formedness used for prefix closure -/
structure WFAug' (a : Aug) : Prop extends WFAug a where
  tne : a.target ≠ []
  closed : ∀ p ∈ a.adds, ∀ q r, q ++ r = p → a.target.length < q.length → q ∈ a.adds

theorem prefixClosed_after (P : List Aug) (hP : ∀ a ∈ P, WFAug' a) (s0 : St) (seq : List Aug)
    (hp : PrefixClosed s0) (hv : Valid P s0 seq) : PrefixClosed (after s0 seq) := by
  induction seq generalizing s0 with
  | nil => exact hp
  | cons a seq ih =>
    obtain ⟨haP, haa, _, _, hrest⟩ := hv
    have hw := hP a haP
    exact ih (app a s0) (prefixClosed_app a s0 hw.toWFAug hp haa hw.tne hw.closed) hrest

/-- The key step.  `seq1` is a complete valid run.  Any valid run `seq2` applies only
    augments that `seq1` applies. -/
theorem subsumed (P : List Aug) (hid : ∀ a ∈ P, ∀ b ∈ P, a.id = b.id → a = b)
    (s0 : St) (seq1 : List Aug) (hv1 : Valid P s0 seq1) (hc1 : Complete P s0 seq1) :
    ∀ (seq2 : List Aug) (s : St), (∀ p ∈ s, p ∈ after s0 seq1) → Valid P s seq2 →
      (∀ a ∈ seq2, a ∈ seq1) ∧ (∀ p ∈ after s seq2, p ∈ after s0 seq1) := by
  intro seq2
  induction seq2 with
  | nil => intro s hs _; exact ⟨by simp, by simpa [after] using hs⟩
  | cons a seq2 ih =>
    intro s hs hv2
    obtain ⟨haP, haa, _, _, hrest⟩ := hv2
    -- a is applicable in the final state of run 1, hence was applied there
    have ha1 : a ∈ seq1 := by
      apply Classical.byContradiction
      intro hnot
      have hids : ∀ b ∈ seq1, b.id ≠ a.id := by
        intro b hb heq
        have hbP : b ∈ P := (valid_split P s0 seq1 hv1 b hb).choose_spec.choose_spec.2.2.2.2.2
        have := hid b hbP a haP heq
        exact hnot (this ▸ hb)
      exact hc1 a haP hids (hs _ haa)
    have hs' : ∀ p ∈ app a s, p ∈ after s0 seq1 := by
      intro p hp
      simp only [app, List.mem_append] at hp
      rcases hp with h | h
      · exact (mem_after s0 seq1 p).mpr (Or.inr ⟨a, ha1, h⟩)
      · exact hs p h
    obtain ⟨h1, h2⟩ := ih (app a s) hs' hrest
    refine ⟨?_, by simpa [after] using h2⟩
    intro b hb
    rcases List.mem_cons.mp hb with rfl | hb
    · exact ha1
    · exact h1 b hb


/-- In a collision-free run no child root of a member is present at the start or added by
    another member. -/
theorem no_overlap (P : List Aug) (hP : ∀ a ∈ P, WFAug' a) (s : St) (seq : List Aug)
    (hp : PrefixClosed s) (hv : Valid P s seq) :
    ∀ y ∈ seq, ∀ k ∈ y.roots, root y k ∉ s ∧ ∀ x ∈ seq, x.id ≠ y.id → root y k ∉ x.adds := by
  induction seq generalizing s with
  | nil => intro y hy; cases hy
  | cons c seq ih =>
    obtain ⟨hcP, hca, hcc, hcid, hrest⟩ := hv
    have hwc := hP c hcP
    have hp' : PrefixClosed (app c s) :=
      prefixClosed_app c s hwc.toWFAug hp hca hwc.tne hwc.closed
    have ih' := ih (app c s) hp' hrest
    intro y hy k hk
    rcases List.mem_cons.mp hy with rfl | hy'
    · -- y is the head
      refine ⟨fun h => hcc ⟨k, hk, h⟩, ?_⟩
      intro x hx hxid
      rcases List.mem_cons.mp hx with rfl | hx'
      · exact absurd rfl hxid
      · intro hmem
        -- x is applied later; its roots are not in app y s
        have hxP : x ∈ P := (valid_split P (app y s) seq hrest x hx').choose_spec.choose_spec.2.2.2.2.2
        obtain ⟨kx, hkx, r, hr⟩ := (hP x hxP).below _ hmem
        have hnot := (ih' x hx' kx hkx).1
        apply hnot
        simp only [app, List.mem_append]
        by_cases hre : r = []
        · subst hre
          left
          have : root x kx = root y k := by simpa using hr
          rw [this]; exact hwc.roots_in k hk
        · right
          -- root x kx is a proper prefix of y.target ++ [k], hence a prefix of y.target
          have hlast : ∃ r', r = r' ++ [k] ∧ root x kx ++ r' = y.target := by
            have h1 : root x kx ++ r = y.target ++ [k] := hr
            refine ⟨r.dropLast, ?_, ?_⟩
            · have hl := List.dropLast_concat_getLast hre
              have : r.getLast hre = k := by
                have := congrArg (fun l => l.getLast?) h1
                simp [List.getLast?_append, List.getLast?_eq_some_getLast hre] at this
                exact this
              rw [← this]; exact hl.symm
            · have := congrArg List.dropLast h1
              simpa [List.dropLast_append_of_ne_nil hre] using this
          obtain ⟨r', _, hr'⟩ := hlast
          exact hp (root x kx) r' (by simp [root]) (by rw [hr']; exact hca)
    · -- y in the tail
      have hy_ih := ih' y hy' k hk
      refine ⟨fun h => hy_ih.1 (by simp [app, h]), ?_⟩
      intro x hx hxid
      rcases List.mem_cons.mp hx with rfl | hx'
      · exact fun h => hy_ih.1 (by simp [app, h])
      · exact hy_ih.2 x hx' hxid

/-- (B) A collision-free run can never reach a collision, given that a complete
    collision-free run exists. -/
theorem never_collides (P : List Aug) (hP : ∀ a ∈ P, WFAug' a)
    (hid : ∀ a ∈ P, ∀ b ∈ P, a.id = b.id → a = b)
    (s0 : St) (hp0 : PrefixClosed s0)
    (seq1 : List Aug) (hv1 : Valid P s0 seq1) (hc1 : Complete P s0 seq1)
    (seq2 : List Aug) (hv2 : Valid P s0 seq2)
    (a : Aug) (haP : a ∈ P) (hpend : ∀ b ∈ seq2, b.id ≠ a.id)
    (happ : Applicable a (after s0 seq2)) : ¬ Collides a (after s0 seq2) := by
  obtain ⟨hsub, hst⟩ := subsumed P hid s0 seq1 hv1 hc1 seq2 s0 (fun p hp => after_mono s0 seq1 hp) hv2
  have ha1 : a ∈ seq1 := by
    apply Classical.byContradiction
    intro hnot
    have hids : ∀ b ∈ seq1, b.id ≠ a.id := by
      intro b hb heq
      have hbP : b ∈ P := (valid_split P s0 seq1 hv1 b hb).choose_spec.choose_spec.2.2.2.2.2
      exact hnot ((hid b hbP a haP heq) ▸ hb)
    exact hc1 a haP hids (hst _ happ)
  rintro ⟨k, hk, hroot⟩
  have hno := no_overlap P hP s0 seq1 hp0 hv1 a ha1 k hk
  rcases (mem_after s0 seq2 _).mp hroot with h | ⟨b, hb, h⟩
  · exact hno.1 h
  · exact hno.2 b (hsub b hb) (hpend b hb) h

/-- (C) Two complete collision-free runs end in the same set of paths and apply the same augments. -/
theorem confluent (P : List Aug) (hid : ∀ a ∈ P, ∀ b ∈ P, a.id = b.id → a = b)
    (s0 : St) (seq1 seq2 : List Aug)
    (hv1 : Valid P s0 seq1) (hc1 : Complete P s0 seq1)
    (hv2 : Valid P s0 seq2) (hc2 : Complete P s0 seq2) :
    (∀ p, p ∈ after s0 seq1 ↔ p ∈ after s0 seq2) ∧ (∀ a, a ∈ seq1 ↔ a ∈ seq2) := by
  obtain ⟨h21, s21⟩ := subsumed P hid s0 seq1 hv1 hc1 seq2 s0 (fun p hp => after_mono s0 seq1 hp) hv2
  obtain ⟨h12, s12⟩ := subsumed P hid s0 seq2 hv2 hc2 seq1 s0 (fun p hp => after_mono s0 seq2 hp) hv1
  exact ⟨fun p => ⟨s12 p, s21 p⟩, fun a => ⟨h12 a, h21 a⟩⟩

end Confl
