/-! Identity closure: Go's `addChildren` pre-order walk over `Values` lists that are
    partly direct, partly already closed, computes exactly the strict descendants. -/
namespace Ident

abbrev Id := Nat

/-- strict descendants in the base-edge graph given by `direct` -/
inductive Desc (direct : Id → List Id) : Id → Id → Prop where
  | base {i j} : j ∈ direct i → Desc direct i j
  | step {i k j} : k ∈ direct i → Desc direct k j → Desc direct i j

def appendIfNotIn (ids : List Id) (x : Id) : List Id := if x ∈ ids then ids else ids ++ [x]

/-- Go: addChildren(r, ids) with an explicit recursion budget -/
def addChildren (vals : Id → List Id) : Nat → Id → List Id → Option (List Id)
  | 0, _, _ => none
  | fuel+1, r, ids =>
    (vals r).foldlM (fun acc ch => addChildren vals fuel ch acc) (appendIfNotIn ids r)

/-- what the Go loop has established so far: every Values list lies between the direct
    children and the strict descendants -/
structure Inv (direct vals : Id → List Id) : Prop where
  lower : ∀ i j, j ∈ direct i → j ∈ vals i
  upper : ∀ i j, j ∈ vals i → Desc direct i j

theorem desc_trans {direct : Id → List Id} {a b c : Id}
    (h1 : Desc direct a b) (h2 : Desc direct b c) : Desc direct a c := by
  induction h1 with
  | base h => exact Desc.step h h2
  | step h _ ih => exact Desc.step h (ih h2)

/-- rank strictly decreases along descendants -/
theorem rank_desc {direct : Id → List Id} (rank : Id → Nat)
    (hr : ∀ i j, j ∈ direct i → rank j < rank i) {a b : Id} (h : Desc direct a b) : rank b < rank a := by
  induction h with
  | base h => exact hr _ _ h
  | step h _ ih => exact Nat.lt_trans ih (hr _ _ h)

theorem mem_appendIfNotIn (ids : List Id) (x y : Id) : y ∈ appendIfNotIn ids x ↔ y ∈ ids ∨ y = x := by
  unfold appendIfNotIn
  split
  · constructor
    · exact Or.inl
    · rintro (h | rfl) <;> assumption
  · simp

/-- Main lemma: with enough fuel the walk from r succeeds and adds exactly r and its strict descendants. -/
theorem addChildren_spec (direct vals : Id → List Id) (rank : Id → Nat)
    (hr : ∀ i j, j ∈ direct i → rank j < rank i) (hinv : Inv direct vals) :
    ∀ (n : Nat) (r : Id) (ids : List Id) (fuel : Nat), rank r < n → rank r < fuel →
      ∃ out, addChildren vals fuel r ids = some out ∧
        ∀ y, y ∈ out ↔ (y ∈ ids ∨ y = r ∨ Desc direct r y) := by
  intro n
  induction n with
  | zero => intro r ids fuel h; omega
  | succ n ih =>
    intro r ids fuel hrn hrf
    obtain ⟨fuel', rfl⟩ : ∃ f, fuel = f + 1 := ⟨fuel - 1, by omega⟩
    unfold addChildren
    -- fold over the children list, generalised over a sublist `cs` of `vals r`
    have key : ∀ (cs : List Id) (acc : List Id), (∀ c ∈ cs, c ∈ vals r) →
        ∃ out, cs.foldlM (fun acc ch => addChildren vals fuel' ch acc) acc = some out ∧
          ∀ y, y ∈ out ↔ (y ∈ acc ∨ ∃ c ∈ cs, (y = c ∨ Desc direct c y)) := by
      intro cs
      induction cs with
      | nil => intro acc _; exact ⟨acc, rfl, by simp⟩
      | cons c cs ihc =>
        intro acc hsub
        have hc : Desc direct r c := hinv.upper r c (hsub c (List.mem_cons_self ..))
        have hrc : rank c < rank r := rank_desc rank hr hc
        obtain ⟨o1, ho1, hm1⟩ := ih c acc fuel' (by omega) (by omega)
        obtain ⟨o2, ho2, hm2⟩ := ihc o1 (fun x hx => hsub x (List.mem_cons_of_mem _ hx))
        refine ⟨o2, by simp [List.foldlM, ho1, ho2], ?_⟩
        intro y
        rw [hm2, hm1]
        simp only [List.mem_cons, exists_eq_or_imp]
        constructor
        · rintro ((h | h | h) | h)
          · exact Or.inl h
          · exact Or.inr (Or.inl (Or.inl h))
          · exact Or.inr (Or.inl (Or.inr h))
          · exact Or.inr (Or.inr h)
        · rintro (h | (h | h) | h)
          · exact Or.inl (Or.inl h)
          · exact Or.inl (Or.inr (Or.inl h))
          · exact Or.inl (Or.inr (Or.inr h))
          · exact Or.inr h
    obtain ⟨out, hout, hmem⟩ := key (vals r) (appendIfNotIn ids r) (fun _ h => h)
    refine ⟨out, hout, ?_⟩
    intro y
    rw [hmem, mem_appendIfNotIn]
    constructor
    · rintro ((h | h) | ⟨c, hc, (rfl | h)⟩)
      · exact Or.inl h
      · exact Or.inr (Or.inl h)
      · exact Or.inr (Or.inr (hinv.upper r _ hc))
      · exact Or.inr (Or.inr (desc_trans (hinv.upper r c hc) h))
    · rintro (h | h | h)
      · exact Or.inl (Or.inl h)
      · exact Or.inl (Or.inr h)
      · right
        -- a strict descendant is a direct child or below one; direct children are in vals r
        cases h with
        | base hd => exact ⟨y, hinv.lower r y hd, Or.inl rfl⟩
        | step hd hrest => exact ⟨_, hinv.lower r _ hd, Or.inr hrest⟩

end Ident
