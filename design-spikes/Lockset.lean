namespace LS

abbrev Tid := Nat
abbrev Mutex := Nat
abbrev Loc := Nat

inductive Ev where
  | lock (m : Mutex)      -- exclusive
  | rlock (m : Mutex)     -- shared
  | unlock (m : Mutex)
  | runlock (m : Mutex)
  | read (l : Loc)
  | write (l : Loc)
deriving DecidableEq, Repr

/-- how a thread currently holds a mutex -/
structure Held where
  excl : List Mutex
  shared : List Mutex
deriving Repr

def Held.empty : Held := ⟨[], []⟩

/-- a thread = what it holds + the events it still has to run -/
structure Thread where
  held : Held
  todo : List Ev

abbrev State := List Thread   -- thread id = index

def exclHeldBy (s : State) (m : Mutex) : List Nat :=
  (List.range s.length).filter fun i => match s[i]? with | some t => m ∈ t.held.excl | none => false
def sharedHeldBy (s : State) (m : Mutex) : List Nat :=
  (List.range s.length).filter fun i => match s[i]? with | some t => m ∈ t.held.shared | none => false

/-- mutual exclusion invariant of the lock table (derived from per-thread held sets):
    if i holds m exclusively nobody else holds it in any mode -/
def Excl (s : State) : Prop :=
  ∀ (i j : Nat) (ti tj : Thread) (m : Mutex), s[i]? = some ti → s[j]? = some tj → i ≠ j →
    m ∈ ti.held.excl → (m ∉ tj.held.excl ∧ m ∉ tj.held.shared)

/-- one step of thread i -/
inductive Step : State → State → Prop where
  | lock (s : State) (i : Nat) (t : Thread) (m : Mutex) (rest : List Ev) :
      s[i]? = some t → t.todo = Ev.lock m :: rest →
      (∀ (j : Nat) (tj : Thread), s[j]? = some tj → (m ∉ tj.held.excl ∧ m ∉ tj.held.shared)) →   -- free
      Step s (s.set i ⟨⟨m :: t.held.excl, t.held.shared⟩, rest⟩)
  | rlock (s : State) (i : Nat) (t : Thread) (m : Mutex) (rest : List Ev) :
      s[i]? = some t → t.todo = Ev.rlock m :: rest →
      (∀ (j : Nat) (tj : Thread), s[j]? = some tj → m ∉ tj.held.excl) →                            -- no writer
      Step s (s.set i ⟨⟨t.held.excl, m :: t.held.shared⟩, rest⟩)
  | unlock (s : State) (i : Nat) (t : Thread) (m : Mutex) (rest : List Ev) :
      s[i]? = some t → t.todo = Ev.unlock m :: rest →
      Step s (s.set i ⟨⟨t.held.excl.erase m, t.held.shared⟩, rest⟩)
  | runlock (s : State) (i : Nat) (t : Thread) (m : Mutex) (rest : List Ev) :
      s[i]? = some t → t.todo = Ev.runlock m :: rest →
      Step s (s.set i ⟨⟨t.held.excl, t.held.shared.erase m⟩, rest⟩)
  | access (s : State) (i : Nat) (t : Thread) (e : Ev) (rest : List Ev) :
      s[i]? = some t → t.todo = e :: rest → (∃ l, e = Ev.read l ∨ e = Ev.write l) →
      Step s (s.set i ⟨t.held, rest⟩)

inductive Reach (s0 : State) : State → Prop where
  | refl : Reach s0 s0
  | step {s s' : State} : Reach s0 s → Step s s' → Reach s0 s'

theorem getElem?_set_cases {α} (l : List α) (i j : Nat) (a : α) (x : α)
    (h : (l.set i a)[j]? = some x) : (j = i ∧ x = a) ∨ (j ≠ i ∧ l[j]? = some x) := by
  by_cases hji : j = i
  · subst hji
    left
    by_cases hlt : j < l.length
    · simp [List.getElem?_set_self hlt] at h; exact ⟨rfl, h.symm⟩
    · have : (l.set j a)[j]? = none := by simp [List.getElem?_eq_none]; omega
      rw [this] at h; cases h
  · right
    rw [List.getElem?_set_ne (fun h => hji h.symm)] at h
    exact ⟨hji, h⟩

theorem excl_step (s s' : State) (hinv : Excl s) (h : Step s s') : Excl s' := by
  cases h with
  | lock i t m rest hi htodo hfree =>
    intro a b ta tb m' ha hb hab hm'
    rcases getElem?_set_cases _ _ _ _ _ ha with ⟨rfl, rfl⟩ | ⟨hai, ha'⟩ <;>
    rcases getElem?_set_cases _ _ _ _ _ hb with ⟨hbi, rfl⟩ | ⟨hbi, hb'⟩
    · exact absurd hbi.symm hab |> False.elim
    · simp only [List.mem_cons] at hm'
      rcases hm' with rfl | hm'
      · exact hfree b tb hb'
      · exact hinv a b t tb m' hi hb' hab hm'
    · have := hinv a i ta t m' ha' hi hai hm'
      have hf := hfree a ta ha'
      simp only [List.mem_cons]
      refine ⟨fun h => ?_, this.2⟩
      rcases h with rfl | h
      · exact hf.1 hm'
      · exact this.1 h
    · exact hinv a b ta tb m' ha' hb' hab hm'
  | rlock i t m rest hi htodo hfree =>
    intro a b ta tb m' ha hb hab hm'
    rcases getElem?_set_cases _ _ _ _ _ ha with ⟨rfl, rfl⟩ | ⟨hai, ha'⟩ <;>
    rcases getElem?_set_cases _ _ _ _ _ hb with ⟨hbi, rfl⟩ | ⟨hbi, hb'⟩
    · exact absurd hbi.symm hab |> False.elim
    · exact hinv a b t tb m' hi hb' hab hm'
    · have := hinv a i ta t m' ha' hi hai hm'
      simp only [List.mem_cons]
      refine ⟨this.1, fun h => ?_⟩
      rcases h with rfl | h
      · exact hfree a ta ha' hm'
      · exact this.2 h
    · exact hinv a b ta tb m' ha' hb' hab hm'
  | unlock i t m rest hi htodo =>
    intro a b ta tb m' ha hb hab hm'
    rcases getElem?_set_cases _ _ _ _ _ ha with ⟨rfl, rfl⟩ | ⟨hai, ha'⟩ <;>
    rcases getElem?_set_cases _ _ _ _ _ hb with ⟨hbi, rfl⟩ | ⟨hbi, hb'⟩
    · exact absurd hbi.symm hab |> False.elim
    · exact hinv a b t tb m' hi hb' hab (List.mem_of_mem_erase hm')
    · have := hinv a i ta t m' ha' hi hai hm'
      exact ⟨fun h => this.1 (List.mem_of_mem_erase h), this.2⟩
    · exact hinv a b ta tb m' ha' hb' hab hm'
  | runlock i t m rest hi htodo =>
    intro a b ta tb m' ha hb hab hm'
    rcases getElem?_set_cases _ _ _ _ _ ha with ⟨rfl, rfl⟩ | ⟨hai, ha'⟩ <;>
    rcases getElem?_set_cases _ _ _ _ _ hb with ⟨hbi, rfl⟩ | ⟨hbi, hb'⟩
    · exact absurd hbi.symm hab |> False.elim
    · exact hinv a b t tb m' hi hb' hab hm'
    · have := hinv a i ta t m' ha' hi hai hm'
      exact ⟨this.1, fun h => this.2 (List.mem_of_mem_erase h)⟩
    · exact hinv a b ta tb m' ha' hb' hab hm'
  | access i t e rest hi htodo _ =>
    intro a b ta tb m' ha hb hab hm'
    rcases getElem?_set_cases _ _ _ _ _ ha with ⟨rfl, rfl⟩ | ⟨hai, ha'⟩ <;>
    rcases getElem?_set_cases _ _ _ _ _ hb with ⟨hbi, rfl⟩ | ⟨hbi, hb'⟩
    · exact absurd hbi.symm hab |> False.elim
    · exact hinv a b t tb m' hi hb' hab hm'
    · exact hinv a i ta t m' ha' hi hai hm'
    · exact hinv a b ta tb m' ha' hb' hab hm'

theorem excl_reach (s0 s : State) (h0 : Excl s0) (h : Reach s0 s) : Excl s := by
  induction h with
  | refl => exact h0
  | step _ hs ih => exact excl_step _ _ ih hs

/-- a data race: two different threads whose next events are conflicting accesses to one location -/
def Race (s : State) : Prop :=
  ∃ (i j : Nat) (ti tj : Thread) (l : Loc) (ri rj : List Ev), i ≠ j ∧ s[i]? = some ti ∧ s[j]? = some tj ∧
    ti.todo = Ev.write l :: ri ∧ (tj.todo = Ev.write l :: rj ∨ tj.todo = Ev.read l :: rj)

/-- the discipline, stated on states: whenever a thread is about to write l it holds guard l
    exclusively, and whenever it is about to read l it holds guard l in some mode -/
def Disciplined (guard : Loc → Mutex) (s : State) : Prop :=
  ∀ (i : Nat) (t : Thread) (l : Loc) (r : List Ev), s[i]? = some t →
    (t.todo = Ev.write l :: r → guard l ∈ t.held.excl) ∧
    (t.todo = Ev.read l :: r → guard l ∈ t.held.excl ∨ guard l ∈ t.held.shared)

theorem lockset_race_free (guard : Loc → Mutex) (s0 s : State)
    (h0 : Excl s0) (hr : Reach s0 s) (hd : Disciplined guard s) : ¬ Race s := by
  rintro ⟨i, j, ti, tj, l, ri, rj, hij, hi, hj, hwi, hj'⟩
  have hex := excl_reach s0 s h0 hr
  have hgi := (hd i ti l ri hi).1 hwi
  have hno := hex i j ti tj (guard l) hi hj hij hgi
  rcases hj' with hwj | hrj
  · exact hno.1 ((hd j tj l rj hj).1 hwj)
  · rcases (hd j tj l rj hj).2 hrj with h | h
    · exact hno.1 h
    · exact hno.2 h

end LS
