namespace NumProbe

structure Num where
  value : Nat
  fd : Nat
  neg : Bool
deriving DecidableEq, Repr

def W : Nat := 2^64

/-- Go: pow10 (uint64, wrapping) -/
def pow10 : Nat → Nat
  | 0 => 1
  | e+1 => (pow10 e * 10) % W

def trunc (n : Num) : Nat := n.value / pow10 n.fd
/-- Go: frac(): (n.Value - Trunc*pow10(fd)) * pow10(18-fd), all uint64 -/
def frac (n : Num) : Nat :=
  let i := (trunc n * pow10 n.fd) % W
  (((n.value + W - i) % W) * pow10 (18 - n.fd)) % W

def goLess (n m : Num) : Bool :=
  if n.neg && !m.neg then true
  else if !n.neg && m.neg then false
  else
    let nt := trunc n; let mt := trunc m
    let lt0 := decide (nt < mt)
    if nt = mt then
      let nf := frac n; let mf := frac m
      if nf = mf then false
      else
        let lt := decide (nf < mf)
        if n.neg then !lt else lt
    else if n.neg then !lt0 else lt0

/-- exact value scaled by 10^18 -/
def scaled (n : Num) : Int :=
  let s : Int := (n.value * 10^(18 - n.fd) : Nat)
  if n.neg then -s else s

structure WF (n : Num) : Prop where
  hv : n.value < W
  hfd : n.fd ≤ 18

theorem pow10_eq (e : Nat) (h : e ≤ 19) : pow10 e = 10^e := by
  induction e with
  | zero => rfl
  | succ k ih =>
    have hk : k ≤ 18 := by omega
    have : pow10 k = 10^k := ih (by omega)
    unfold pow10
    rw [this]
    have hlt : 10^k * 10 < W := by
      have : 10^k ≤ 10^18 := Nat.pow_le_pow_right (by decide) hk
      unfold W; omega
    rw [Nat.mod_eq_of_lt hlt, Nat.pow_succ]

theorem ten18 (f : Nat) (h : f ≤ 18) : 10^f * 10^(18 - f) = 10^18 := by
  rw [← Nat.pow_add]; congr 1; omega

theorem scaled_split (n : Num) (h : WF n) :
    n.value * 10^(18 - n.fd) = trunc n * 10^18 + frac n ∧ frac n < 10^18 := by
  have hp := pow10_eq n.fd (by have := h.hfd; omega)
  have hq := pow10_eq (18 - n.fd) (by omega)
  have hpos : 0 < 10^n.fd := Nat.pow_pos (by decide)
  have hdm := Nat.div_add_mod n.value (10^n.fd)
  have hmodlt : n.value % 10^n.fd < 10^n.fd := Nat.mod_lt _ hpos
  have hmul : n.value / 10^n.fd * 10^n.fd ≤ n.value := Nat.div_mul_le_self _ _
  have hi : (trunc n * pow10 n.fd) % W = n.value / 10^n.fd * 10^n.fd := by
    unfold trunc; rw [hp]; apply Nat.mod_eq_of_lt; have := h.hv; omega
  have hsub : (n.value + W - n.value / 10^n.fd * 10^n.fd) % W = n.value % 10^n.fd := by
    have : n.value + W - n.value / 10^n.fd * 10^n.fd = n.value % 10^n.fd + W := by
      have := Nat.mul_comm (10^n.fd) (n.value / 10^n.fd); omega
    rw [this, Nat.add_mod_right]; apply Nat.mod_eq_of_lt; have := h.hv; omega
  have h18 := ten18 n.fd h.hfd
  have hfraclt : n.value % 10^n.fd * 10^(18 - n.fd) < 10^18 := by
    rw [← h18]; exact Nat.mul_lt_mul_of_pos_right hmodlt (Nat.pow_pos (by decide))
  have hfrac : frac n = n.value % 10^n.fd * 10^(18 - n.fd) := by
    unfold frac; simp only [hi, hsub, hq]
    apply Nat.mod_eq_of_lt; unfold W; omega
  refine ⟨?_, by rw [hfrac]; exact hfraclt⟩
  rw [hfrac]; unfold trunc; rw [hp]
  calc n.value * 10^(18 - n.fd)
      = (10^n.fd * (n.value / 10^n.fd) + n.value % 10^n.fd) * 10^(18 - n.fd) := by rw [hdm]
    _ = n.value / 10^n.fd * (10^n.fd * 10^(18 - n.fd)) + n.value % 10^n.fd * 10^(18 - n.fd) := by
        rw [Nat.add_mul, Nat.mul_comm (10^n.fd) (n.value / 10^n.fd), Nat.mul_assoc]
    _ = _ := by rw [h18]

/-- lexicographic comparison of (quotient, remainder) is comparison of the number -/
theorem lex_lt (a b c d B : Nat) (hb : b < B) (hd : d < B) :
    a * B + b < c * B + d ↔ (a < c ∨ (a = c ∧ b < d)) := by
  constructor
  · intro h
    by_cases hac : a < c
    · exact Or.inl hac
    · by_cases hca : c < a
      · exfalso
        have : (c + 1) * B ≤ a * B := Nat.mul_le_mul_right B hca
        rw [Nat.add_mul] at this; omega
      · have : a = c := by omega
        subst this; right; exact ⟨rfl, by omega⟩
  · rintro (h | ⟨rfl, h⟩)
    · have : (a + 1) * B ≤ c * B := Nat.mul_le_mul_right B h
      rw [Nat.add_mul] at this; omega
    · omega

/-- the ordering theorem for numbers that are not negative zero -/
theorem less_iff_partial (n m : Num) (hn : WF n) (hm : WF m)
    (hn0 : n.neg = true → n.value ≠ 0) (hm0 : m.neg = true → m.value ≠ 0) :
    goLess n m = true ↔ scaled n < scaled m := by
  obtain ⟨hns, hnf⟩ := scaled_split n hn
  obtain ⟨hms, hmf⟩ := scaled_split m hm
  have hlex := lex_lt (trunc n) (frac n) (trunc m) (frac m) (10^18) hnf hmf
  have hlex' := lex_lt (trunc m) (frac m) (trunc n) (frac n) (10^18) hmf hnf
  have hpn : 0 < 10^(18 - n.fd) := Nat.pow_pos (by decide)
  have hpm : 0 < 10^(18 - m.fd) := Nat.pow_pos (by decide)
  unfold goLess scaled
  cases hnn : n.neg <;> cases hmn : m.neg
  · -- both non-negative
    simp only [Bool.false_and, Bool.not_false, Bool.and_false, Bool.false_eq_true, if_false]
    rw [hns, hms]
    have e : ((trunc n * 10^18 + frac n : Nat) : Int) < ((trunc m * 10^18 + frac m : Nat) : Int)
        ↔ trunc n * 10^18 + frac n < trunc m * 10^18 + frac m := by omega
    rw [e, hlex]
    by_cases h1 : trunc n = trunc m
    · by_cases h2 : frac n = frac m
      · simp [h1, h2]
      · simp [h1, h2]
    · simp [h1]
  · -- n ≥ 0, m < 0 : false
    simp only [Bool.false_and, Bool.not_true, Bool.not_false, Bool.and_self, Bool.false_eq_true, if_false, if_true, Bool.true_and]
    have hmv := hm0 hmn
    have h0 : 0 < m.value * 10^(18 - m.fd) := Nat.mul_pos (by omega) hpm
    simp only [false_iff]
    omega
  · -- n < 0, m ≥ 0 : true
    simp only [Bool.true_and, Bool.not_false, if_true, true_iff, Bool.false_eq_true, if_false]
    have hnv := hn0 hnn
    have h0 : 0 < n.value * 10^(18 - n.fd) := Nat.mul_pos (by omega) hpn
    omega
  · -- both negative
    simp only [Bool.true_and, Bool.not_true, Bool.false_eq_true, if_false, Bool.and_false, if_true]
    rw [hns, hms]
    have e : -((trunc n * 10^18 + frac n : Nat) : Int) < -((trunc m * 10^18 + frac m : Nat) : Int)
        ↔ trunc m * 10^18 + frac m < trunc n * 10^18 + frac n := by omega
    rw [e, hlex']
    by_cases h1 : trunc n = trunc m
    · by_cases h2 : frac n = frac m
      · simp [h1, h2]
      · simp [h1, h2]; omega
    · simp [h1]; omega

/-- and the full-strength statement is false of the code: negative zero -/
theorem less_iff_fails : ¬ (∀ n m : Num, WF n → WF m → (goLess n m = true ↔ scaled n < scaled m)) := by
  intro h
  have := h ⟨0, 0, true⟩ ⟨0, 0, false⟩ ⟨by decide, by decide⟩ ⟨by decide, by decide⟩
  simp [goLess, scaled] at this

end NumProbe
