namespace QStr

def isBlank (c : Char) : Bool := c == ' ' || c == '\t'

def adv (col : Nat) (c : Char) : Nat :=
  if c = '\t' then (col + 8) / 8 * 8 else col + 1

def trimTrailing (t : List Char) : List Char := (t.reverse.dropWhile isBlank).reverse

/-! ## impl: the single-pass loop of lexQString (no escapes in this probe) -/
structure QS where
  text : List Char
  over : Bool
  tcol : Nat

def stepQ (indent : Nat) (s : QS) (c : Char) : QS :=
  if c = '\n' then { text := trimTrailing s.text ++ ['\n'], over := false, tcol := 0 }
  else if isBlank c then
    if !s.over && adv s.tcol c ≤ indent then { s with tcol := adv s.tcol c }
    else { text := s.text ++ [c], over := true, tcol := adv s.tcol c }
  else { text := s.text ++ [c], over := true, tcol := adv s.tcol c }

def implQ (indent tcol0 : Nat) (raw : List Char) : List Char :=
  (raw.foldl (stepQ indent) ⟨[], true, tcol0⟩).text

/-! ## spec: RFC 7950 6.1.3 as separate passes over lines -/
def stripIndent (indent : Nat) : Nat → List Char → List Char
  | _, [] => []
  | col, c :: cs =>
    if isBlank c && adv col c ≤ indent then stripIndent indent (adv col c) cs else c :: cs

/-- split at line feeds: `lines "a\nb" = ["a","b"]`, always non-empty -/
def lines : List Char → List (List Char)
  | [] => [[]]
  | c :: cs =>
    match lines cs with
    | [] => [[c]]   -- unreachable
    | l :: ls => if c = '\n' then [] :: l :: ls else (c :: l) :: ls

/-- all lines but the last lose trailing blanks; all but the first lose indentation -/
def specLines (indent : Nat) (first : Bool) : List (List Char) → List Char
  | [] => []
  | [l] => if first then l else stripIndent indent 0 l
  | l :: rest =>
    trimTrailing (if first then l else stripIndent indent 0 l) ++ '\n' :: specLines indent false rest

def specQ (indent : Nat) (raw : List Char) : List Char := specLines indent true (lines raw)

/-! ## refinement -/

/-- in "over" mode a line without line feed is appended verbatim -/
theorem fold_line_over (indent : Nat) (l : List Char) (hl : '\n' ∉ l) :
    ∀ (t : List Char) (col : Nat),
    (l.foldl (stepQ indent) ⟨t, true, col⟩).text = t ++ l ∧
    (l.foldl (stepQ indent) ⟨t, true, col⟩).over = true := by
  induction l with
  | nil => intro t col; simp
  | cons c cs ih =>
    intro t col
    have hc : c ≠ '\n' := by intro h; apply hl; simp [h]
    have hcs : '\n' ∉ cs := by intro h; apply hl; simp [h]
    simp only [List.foldl_cons]
    have : stepQ indent ⟨t, true, col⟩ c = ⟨t ++ [c], true, adv col c⟩ := by
      unfold stepQ; simp [hc]
    rw [this]
    have := ih hcs (t ++ [c]) (adv col c)
    simpa using this

/-- in "not over" mode the line is appended after indentation stripping -/
theorem fold_line_notover (indent : Nat) (l : List Char) (hl : '\n' ∉ l) :
    ∀ (t : List Char) (col : Nat),
    (l.foldl (stepQ indent) ⟨t, false, col⟩).text = t ++ stripIndent indent col l := by
  induction l with
  | nil => intro t col; simp [stripIndent]
  | cons c cs ih =>
    intro t col
    have hc : c ≠ '\n' := by intro h; apply hl; simp [h]
    have hcs : '\n' ∉ cs := by intro h; apply hl; simp [h]
    simp only [List.foldl_cons]
    by_cases hb : isBlank c = true
    · by_cases hle : adv col c ≤ indent
      · have h1 : stepQ indent ⟨t, false, col⟩ c = ⟨t, false, adv col c⟩ := by
          unfold stepQ; simp [hc, hb, hle]
        have h2 : stripIndent indent col (c :: cs) = stripIndent indent (adv col c) cs := by
          simp [stripIndent, hb, hle]
        rw [h1, h2]; exact ih hcs t (adv col c)
      · have h1 : stepQ indent ⟨t, false, col⟩ c = ⟨t ++ [c], true, adv col c⟩ := by
          unfold stepQ; simp [hc, hb, hle]
        have h2 : stripIndent indent col (c :: cs) = c :: cs := by
          simp [stripIndent, hb, hle]
        rw [h1, h2, (fold_line_over indent cs hcs _ _).1]; simp
    · have h1 : stepQ indent ⟨t, false, col⟩ c = ⟨t ++ [c], true, adv col c⟩ := by
        unfold stepQ; simp [hc, hb]
      have h2 : stripIndent indent col (c :: cs) = c :: cs := by
        simp [stripIndent, hb]
      rw [h1, h2, (fold_line_over indent cs hcs _ _).1]; simp

end QStr
