namespace Probe

structure EData where
  name : String
  cfg : Option Bool
deriving Repr, DecidableEq

inductive Entry where
  | node (d : EData) (kids : List Entry)
deriving Repr

namespace Entry
def data : Entry → EData | node d _ => d
def kids : Entry → List Entry | node _ k => k

def lookup (n : String) : List Entry → Option Entry
  | [] => none
  | e :: es => if e.data.name = n then some e else lookup n es

def find : Entry → List String → Option Entry
  | e, [] => some e
  | e, p :: ps => match lookup p e.kids with
    | none => none
    | some c => find c ps

/-- all (path, node) pairs below e -/
def paths : Entry → List (List String × Entry)
  | node d ks => ([], node d ks) :: pathsL ks
where pathsL : List Entry → List (List String × Entry)
  | [] => []
  | k :: ks => ((paths k).map fun (p, x) => (k.data.name :: p, x)) ++ pathsL ks

def size : Entry → Nat
  | node _ ks => 1 + sizeL ks
where sizeL : List Entry → Nat
  | [] => 0
  | k :: ks => size k + sizeL ks

/-- keys unique at every level -/
def WF : Entry → Prop
  | node _ ks => (ks.map (·.data.name)).Nodup ∧ WFL ks
where WFL : List Entry → Prop
  | [] => True
  | k :: ks => WF k ∧ WFL ks
end Entry

open Entry

theorem lookup_of_mem_nodup {ks : List Entry} {k : Entry} (hm : k ∈ ks)
    (hn : (ks.map (·.data.name)).Nodup) : lookup k.data.name ks = some k := by
  induction ks with
  | nil => cases hm
  | cons a as ih =>
    simp only [List.map_cons, List.nodup_cons] at hn
    unfold lookup
    cases List.mem_cons.mp hm with
    | inl h => subst h; simp
    | inr h =>
      have : a.data.name ≠ k.data.name := by
        intro heq; apply hn.1; rw [heq]; exact List.mem_map.mpr ⟨k, h, rfl⟩
      simp [this, ih h hn.2]

mutual
theorem find_paths (e : Entry) (hwf : WF e) : ∀ px ∈ paths e, find e px.1 = some px.2 := by
  match e with
  | node d ks =>
    intro px hpx
    unfold paths at hpx
    cases List.mem_cons.mp hpx with
    | inl h => subst h; simp [find]
    | inr h =>
      unfold WF at hwf
      exact find_pathsL d ks ks hwf.1 (fun _ h => h) hwf.2 px h
theorem find_pathsL (d : EData) (all ks : List Entry) (hn : (all.map (·.data.name)).Nodup)
    (hsub : ∀ k ∈ ks, k ∈ all) (hwf : WF.WFL ks) :
    ∀ px ∈ paths.pathsL ks, find (node d all) px.1 = some px.2 := by
  match ks with
  | [] => intro px h; simp [paths.pathsL] at h
  | k :: rest =>
    intro px h
    unfold paths.pathsL at h
    unfold WF.WFL at hwf
    cases List.mem_append.mp h with
    | inl h1 =>
      obtain ⟨⟨p, x⟩, hpx, rfl⟩ := List.mem_map.mp h1
      have hk : k ∈ all := hsub k (List.mem_cons_self ..)
      simp only [find, kids, lookup_of_mem_nodup hk hn]
      exact find_paths k hwf.1 (p, x) hpx
    | inr h2 =>
      exact find_pathsL d all rest hn (fun k hk => hsub k (List.mem_cons_of_mem _ hk)) hwf.2 px h2
end

end Probe
