package main

import (
	"fmt"
	"math/rand"
	"strings"
)

// Amplifiers: chains of k levels in which every level refers to the previous level b times, for
// every kind of reference the library follows.  Whatever the library recomputes per reference, or
// whatever list it concatenates per level, then costs b^k: 1 KB of text is enough to exhaust time
// and memory (D64: errors of nested uses doubled per level; D65: a failing typedef below unions was
// resolved 2^k times).  Every family keeps the RESULT small (no legal b^k tree), so any
// super-polynomial cost is the library's; the families whose result is b^k nodes by the rules of
// YANG (uses in b different containers per level) are run only at levels where b^k is small.
//
// Each family comes clean and with ONE fault at the bottom: an unknown type, an unknown grouping,
// a bad range, or a cycle closing at the bottom (the bottom refers to the top).

type amplifier struct {
	name   string
	faults []string // "" = clean
	maxPow int      // > 0: the result has b^k nodes; run only while b^k <= maxPow
	gen    func(k, b int, fault string) (names, texts []string)
}

const ampHeader = "module amp { namespace \"urn:amp\"; prefix amp;\n"

func one(text string) ([]string, []string) { return []string{"amp.yang"}, []string{text} }

// bottomType: the type of the bottom leaf / typedef for a fault.
func bottomType(fault, top string) string {
	switch fault {
	case "unknown-type":
		return "type nosuch;"
	case "bad-range":
		return "type uint8 { range \"300..200|-1\"; }"
	case "cycle":
		return "type " + top + ";"
	}
	return "type string;"
}

var amplifiers = []amplifier{
	{name: "uses once per level below a bad leaf (D64 shape)", faults: []string{"", "unknown-type", "bad-range", "unknown-grouping", "cycle"},
		gen: func(k, b int, fault string) ([]string, []string) {
			var sb strings.Builder
			sb.WriteString(ampHeader)
			switch fault {
			case "unknown-grouping":
				sb.WriteString("grouping g0 { uses nosuch; leaf x { type string; } }\n")
			case "cycle":
				fmt.Fprintf(&sb, "grouping g0 { uses g%d; leaf x { type string; } }\n", k)
			default:
				fmt.Fprintf(&sb, "grouping g0 { leaf x { %s } }\n", bottomType(fault, "string"))
			}
			for i := 1; i <= k; i++ {
				fmt.Fprintf(&sb, "grouping g%d { container c { uses g%d; } }\n", i, i-1)
			}
			fmt.Fprintf(&sb, "uses g%d;\n}\n", k)
			return one(sb.String())
		}},
	{name: "uses b times per level into one container (name collisions, result stays linear)", faults: []string{"", "unknown-type", "bad-range", "unknown-grouping", "cycle"},
		gen: func(k, b int, fault string) ([]string, []string) {
			var sb strings.Builder
			sb.WriteString(ampHeader)
			switch fault {
			case "unknown-grouping":
				sb.WriteString("grouping g0 { uses nosuch; leaf x { type string; } }\n")
			case "cycle":
				fmt.Fprintf(&sb, "grouping g0 { uses g%d; leaf x { type string; } }\n", k)
			default:
				fmt.Fprintf(&sb, "grouping g0 { leaf x { %s } }\n", bottomType(fault, "string"))
			}
			for i := 1; i <= k; i++ {
				fmt.Fprintf(&sb, "grouping g%d { container c {%s } }\n", i, strings.Repeat(fmt.Sprintf(" uses g%d;", i-1), b))
			}
			fmt.Fprintf(&sb, "uses g%d;\n}\n", k)
			return one(sb.String())
		}},
	{name: "uses in b containers per level (the result has b^k nodes: small levels only)", faults: []string{"", "unknown-type", "unknown-grouping"}, maxPow: 5000,
		gen: func(k, b int, fault string) ([]string, []string) {
			var sb strings.Builder
			sb.WriteString(ampHeader)
			if fault == "unknown-grouping" {
				sb.WriteString("grouping g0 { uses nosuch; }\n")
			} else {
				fmt.Fprintf(&sb, "grouping g0 { leaf x { %s } }\n", bottomType(fault, "string"))
			}
			for i := 1; i <= k; i++ {
				fmt.Fprintf(&sb, "grouping g%d {", i)
				for j := 0; j < b; j++ {
					fmt.Fprintf(&sb, " container c%d { uses g%d; }", j, i-1)
				}
				sb.WriteString(" }\n")
			}
			fmt.Fprintf(&sb, "uses g%d;\n}\n", k)
			return one(sb.String())
		}},
	{name: "uses in the b cases of a choice per level (b^k nodes: small levels only)", faults: []string{"", "unknown-type"}, maxPow: 5000,
		gen: func(k, b int, fault string) ([]string, []string) {
			var sb strings.Builder
			sb.WriteString(ampHeader)
			fmt.Fprintf(&sb, "grouping g0 { leaf x { %s } }\n", bottomType(fault, "string"))
			for i := 1; i <= k; i++ {
				fmt.Fprintf(&sb, "grouping g%d { choice ch {", i)
				for j := 0; j < b; j++ {
					fmt.Fprintf(&sb, " case k%d { container c%d { uses g%d; } }", j, j, i-1)
				}
				sb.WriteString(" } }\n")
			}
			fmt.Fprintf(&sb, "uses g%d;\n}\n", k)
			return one(sb.String())
		}},
	{name: "typedef of a union naming the previous typedef b times (D65 shape)", faults: []string{"", "unknown-type", "bad-range", "cycle"},
		gen: func(k, b int, fault string) ([]string, []string) {
			var sb strings.Builder
			sb.WriteString(ampHeader)
			fmt.Fprintf(&sb, "typedef t0 { %s }\n", bottomType(fault, fmt.Sprintf("t%d", k)))
			for i := 1; i <= k; i++ {
				fmt.Fprintf(&sb, "typedef t%d { type union {%s } }\n", i, strings.Repeat(fmt.Sprintf(" type t%d;", i-1), b))
			}
			fmt.Fprintf(&sb, "leaf l { type t%d; }\n}\n", k)
			return one(sb.String())
		}},
	{name: "typedef of a union of b different restrictions of the previous typedef", faults: []string{"", "unknown-type", "bad-range"},
		gen: func(k, b int, fault string) ([]string, []string) {
			var sb strings.Builder
			sb.WriteString(ampHeader)
			if fault == "" {
				sb.WriteString("typedef t0 { type string; }\n")
			} else {
				fmt.Fprintf(&sb, "typedef t0 { %s }\n", bottomType(fault, "string"))
			}
			for i := 1; i <= k; i++ {
				fmt.Fprintf(&sb, "typedef t%d { type union {", i)
				for j := 0; j < b; j++ {
					fmt.Fprintf(&sb, " type t%d { pattern \"p%d\"; }", i-1, j)
				}
				sb.WriteString(" } }\n")
			}
			fmt.Fprintf(&sb, "leaf l { type t%d; }\n}\n", k)
			return one(sb.String())
		}},
	{name: "typedef chain with b leaves and a default per level", faults: []string{"", "unknown-type", "bad-range", "cycle"},
		gen: func(k, b int, fault string) ([]string, []string) {
			var sb strings.Builder
			sb.WriteString(ampHeader)
			fmt.Fprintf(&sb, "typedef t0 { %s }\n", bottomType(fault, fmt.Sprintf("t%d", k)))
			for i := 1; i <= k; i++ {
				fmt.Fprintf(&sb, "typedef t%d { type t%d; }\n", i, i-1)
				for j := 0; j < b; j++ {
					fmt.Fprintf(&sb, "leaf l%d_%d { type t%d; }\n", i, j, i)
				}
			}
			sb.WriteString("}\n")
			return one(sb.String())
		}},
	{name: "identity diamonds: b identities per level, each based on all b of the previous level", faults: []string{"", "unknown-base", "cycle"},
		gen: func(k, b int, fault string) ([]string, []string) {
			var sb strings.Builder
			sb.WriteString(ampHeader)
			for j := 0; j < b; j++ {
				switch fault {
				case "unknown-base":
					fmt.Fprintf(&sb, "identity i0_%d { base nosuch; }\n", j)
				case "cycle":
					fmt.Fprintf(&sb, "identity i0_%d { base i%d_0; }\n", j, k)
				default:
					fmt.Fprintf(&sb, "identity i0_%d;\n", j)
				}
			}
			for i := 1; i <= k; i++ {
				for j := 0; j < b; j++ {
					fmt.Fprintf(&sb, "identity i%d_%d {", i, j)
					for q := 0; q < b; q++ {
						fmt.Fprintf(&sb, " base i%d_%d;", i-1, q)
					}
					sb.WriteString(" }\n")
				}
			}
			fmt.Fprintf(&sb, "leaf l { type identityref { base i0_0; } }\nleaf m { type identityref { base i%d_0; } }\n}\n", k)
			return one(sb.String())
		}},
	{name: "leafref chain, b leafrefs per level onto the previous level", faults: []string{"", "unknown-type"},
		gen: func(k, b int, fault string) ([]string, []string) {
			var sb strings.Builder
			sb.WriteString(ampHeader)
			fmt.Fprintf(&sb, "leaf r0_0 { %s }\n", bottomType(fault, "string"))
			for i := 1; i <= k; i++ {
				for j := 0; j < b; j++ {
					fmt.Fprintf(&sb, "leaf r%d_%d { type leafref { path \"../r%d_0\"; } }\n", i, j, i-1)
				}
			}
			fmt.Fprintf(&sb, "typedef lr { type leafref { path \"/amp:r%d_0\"; } }\nleaf top { type union { type lr; type lr; } }\n}\n", k)
			return one(sb.String())
		}},
	{name: "augment chain: b augments per level onto the node the previous level adds", faults: []string{"", "unknown-type", "missing-target"},
		gen: func(k, b int, fault string) ([]string, []string) {
			var sb strings.Builder
			sb.WriteString(ampHeader)
			sb.WriteString("container c0;\n")
			path := "/amp:c0"
			if k > 40 {
				k = 40 // the loop is quadratic in the chain and every path has k steps
			}
			for i := 1; i <= k; i++ {
				for j := 0; j < b; j++ {
					if j == 0 {
						fmt.Fprintf(&sb, "augment %q { container c%d; }\n", path, i)
					} else {
						fmt.Fprintf(&sb, "augment %q { leaf x%d_%d { type string; } }\n", path, i, j)
					}
				}
				path += fmt.Sprintf("/amp:c%d", i)
			}
			switch fault {
			case "unknown-type":
				fmt.Fprintf(&sb, "augment %q { leaf bad { type nosuch; } }\n", path)
			case "missing-target":
				fmt.Fprintf(&sb, "augment %q { leaf bad { type string; } }\n", path+"/amp:nosuch")
			}
			sb.WriteString("}\n")
			return one(sb.String())
		}},
	{name: "b uses per level, each with an augment and a refine of the used container", faults: []string{"", "unknown-type"},
		gen: func(k, b int, fault string) ([]string, []string) {
			var sb strings.Builder
			sb.WriteString(ampHeader)
			fmt.Fprintf(&sb, "grouping g0 { container c { leaf x { %s } } }\n", bottomType(fault, "string"))
			for i := 1; i <= k; i++ {
				fmt.Fprintf(&sb, "grouping g%d {", i)
				for j := 0; j < b; j++ {
					fmt.Fprintf(&sb, " uses g%d { augment c { leaf a%d_%d { type string; } } refine c { description d; } }", i-1, i, j)
				}
				sb.WriteString(" }\n")
			}
			fmt.Fprintf(&sb, "uses g%d;\n}\n", k)
			return one(sb.String())
		}},
	{name: "include diamonds: b submodules per level, each including all b of the previous level", faults: []string{"", "unknown-type", "absent-include", "cycle"},
		gen: func(k, b int, fault string) ([]string, []string) {
			var names, texts []string
			if k > 40 {
				k = 40
			}
			for i := 0; i <= k; i++ {
				for j := 0; j < b; j++ {
					var sb strings.Builder
					fmt.Fprintf(&sb, "submodule s%d_%d { belongs-to amp { prefix amp; }\n", i, j)
					if i > 0 {
						for q := 0; q < b; q++ {
							fmt.Fprintf(&sb, " include s%d_%d;\n", i-1, q)
						}
					} else {
						switch fault {
						case "absent-include":
							sb.WriteString(" include nosuch;\n")
						case "cycle":
							fmt.Fprintf(&sb, " include s%d_0;\n", k)
						}
					}
					ty := "type string;"
					if i == 0 && fault == "unknown-type" {
						ty = "type nosuch;"
					}
					fmt.Fprintf(&sb, " grouping g%d_%d { leaf x%d_%d { %s } }\n leaf l%d_%d { type string; }\n", i, j, i, j, ty, i, j)
					if i > 0 {
						fmt.Fprintf(&sb, " container c%d_%d { uses g%d_0; }\n", i, j, i-1)
					}
					sb.WriteString("}\n")
					names = append(names, fmt.Sprintf("s%d_%d.yang", i, j))
					texts = append(texts, sb.String())
				}
			}
			var sb strings.Builder
			sb.WriteString(ampHeader)
			for j := 0; j < b; j++ {
				fmt.Fprintf(&sb, " include s%d_%d;\n", k, j)
			}
			sb.WriteString("}\n")
			names = append(names, "amp.yang")
			texts = append(texts, sb.String())
			return names, texts
		}},
	{name: "import diamonds: b modules per level, each importing all b of the previous level and deriving types and identities", faults: []string{"", "unknown-type", "cycle"},
		gen: func(k, b int, fault string) ([]string, []string) {
			var names, texts []string
			if k > 40 {
				k = 40
			}
			for i := 0; i <= k; i++ {
				for j := 0; j < b; j++ {
					var sb strings.Builder
					fmt.Fprintf(&sb, "module m%d_%d { namespace \"urn:m%d_%d\"; prefix p;\n", i, j, i, j)
					if i > 0 {
						for q := 0; q < b; q++ {
							fmt.Fprintf(&sb, " import m%d_%d { prefix q%d; }\n", i-1, q, q)
						}
						sb.WriteString(" typedef t { type union {")
						for q := 0; q < b; q++ {
							fmt.Fprintf(&sb, " type q%d:t;", q)
						}
						sb.WriteString(" } }\n identity id {")
						for q := 0; q < b; q++ {
							fmt.Fprintf(&sb, " base q%d:id;", q)
						}
						sb.WriteString(" }\n grouping g { uses q0:g; }\n")
					} else {
						if fault == "cycle" {
							fmt.Fprintf(&sb, " import m%d_0 { prefix top; }\n typedef t { type top:t; }\n identity id { base top:id; }\n grouping g { uses top:g; }\n", k)
						} else {
							fmt.Fprintf(&sb, " typedef t { %s }\n identity id;\n grouping g { leaf x { type t; } }\n", bottomType(fault, "string"))
						}
					}
					sb.WriteString(" leaf l { type t; }\n container c { uses g; }\n}\n")
					names = append(names, fmt.Sprintf("m%d_%d.yang", i, j))
					texts = append(texts, sb.String())
				}
			}
			return names, texts
		}},
	{name: "feature and extension references, b per level", faults: []string{""},
		gen: func(k, b int, fault string) ([]string, []string) {
			var sb strings.Builder
			sb.WriteString(ampHeader)
			sb.WriteString("feature f0;\nextension e0 { argument a; }\n")
			for i := 1; i <= k; i++ {
				fmt.Fprintf(&sb, "feature f%d {%s }\n", i, strings.Repeat(fmt.Sprintf(" if-feature f%d;", i-1), b))
				fmt.Fprintf(&sb, "extension e%d { argument a;%s }\n", i, strings.Repeat(fmt.Sprintf(" amp:e%d x;", i-1), b))
			}
			fmt.Fprintf(&sb, "grouping g { leaf x { type string; if-feature f%d; amp:e%d y; } }\n", k, k)
			sb.WriteString(strings.Repeat("container c { uses g; }\n", 1))
			for j := 0; j < b; j++ {
				fmt.Fprintf(&sb, "container u%d { uses g; }\n", j)
			}
			sb.WriteString("}\n")
			return one(sb.String())
		}},
	{name: "deviations: b deviations per level of a container chain, onto nodes that other deviations change", faults: []string{"", "unknown-type", "removed-target"},
		gen: func(k, b int, fault string) ([]string, []string) {
			var sb strings.Builder
			sb.WriteString(ampHeader)
			if k > 40 {
				k = 40
			}
			for i := 0; i < k; i++ {
				fmt.Fprintf(&sb, "container c%d { leaf l%d { type string; default d; }\n", i, i)
			}
			sb.WriteString(strings.Repeat("}", k))
			sb.WriteString("\n")
			path := ""
			for i := 0; i < k; i++ {
				path += fmt.Sprintf("/amp:c%d", i)
				for j := 0; j < b; j++ {
					switch j % 3 {
					case 0:
						fmt.Fprintf(&sb, "deviation %q { deviate replace { default r%d; } }\n", path+fmt.Sprintf("/amp:l%d", i), j)
					case 1:
						fmt.Fprintf(&sb, "deviation %q { deviate add { config false; } }\n", path)
					default:
						fmt.Fprintf(&sb, "deviation %q { deviate delete { default r0; } deviate add { default n; } }\n", path+fmt.Sprintf("/amp:l%d", i))
					}
				}
			}
			switch fault {
			case "unknown-type":
				fmt.Fprintf(&sb, "deviation %q { deviate replace { type nosuch; } }\n", path+fmt.Sprintf("/amp:l%d", k-1))
			case "removed-target":
				fmt.Fprintf(&sb, "deviation \"/amp:c0\" { deviate not-supported; }\ndeviation %q { deviate replace { type int8; } }\n", path+fmt.Sprintf("/amp:l%d", k-1))
			}
			sb.WriteString("}\n")
			return one(sb.String())
		}},
}

var ampLevels = []int{10, 20, 40, 80}
var ampBranch = []int{2, 3}

func pow(b, k int) int {
	p := 1
	for i := 0; i < k; i++ {
		p *= b
		if p > 1<<30 {
			return p
		}
	}
	return p
}

// amplifierHistories lists the deterministic amplifier cases.
func amplifierHistories() []History {
	var out []History
	for _, a := range amplifiers {
		for _, b := range ampBranch {
			for _, k := range ampLevels {
				if a.maxPow > 0 {
					// the largest level at which the legal result stays small, once
					kk := k
					for pow(b, kk) > a.maxPow {
						kk--
					}
					if kk != k && k != ampLevels[0] {
						continue
					}
					k = kk
				}
				for _, f := range a.faults {
					names, texts := a.gen(k, b, f)
					fault := f
					if fault == "" {
						fault = "clean"
					}
					h := newHistory(streamNames[streamDeep], fmt.Sprintf("amplifier: %s; k=%d b=%d; %s", a.name, k, b, fault), names, texts)
					out = append(out, h)
				}
			}
		}
	}
	return out
}

// opAmplifier adds one amplifier of random family, level, branching and fault to the set, so that
// the chains also meet the other modules and mutations of a history.
func opAmplifier(r *rand.Rand, fs *[]*mfile) string {
	a := amplifiers[r.Intn(len(amplifiers))]
	b := 2 + r.Intn(2)
	k := 8 + r.Intn(40)
	if a.maxPow > 0 {
		for pow(b, k) > a.maxPow/4 {
			k--
		}
	}
	f := a.faults[r.Intn(len(a.faults))]
	names, texts := a.gen(k, b, f)
	for i := range names {
		nf := &mfile{Name: names[i], Raw: texts[i]}
		if tops, ok := parseTree(texts[i], names[i]); ok && r.Intn(2) == 0 {
			nf = &mfile{Name: names[i], Tops: tops} // open to the other operators
		}
		*fs = append(*fs, nf)
	}
	if f == "" {
		f = "clean"
	}
	return fmt.Sprintf("amplifier %q k=%d b=%d %s", a.name, k, b, f)
}
