package main

import (
	"fmt"
	"math/rand"
	"strings"
)

var byteSnippets = []string{
	"\"", "'", "/*", "*/", "//", "{", "}", ";", "\\", "\\\"", "\"+\"", "+", "\n", "\r\n", "\t", " ", "\x00", "\xff", "\xc0\x80",
	"\xed\xa0\x80", "\xf4\x90\x80\x80", "\xe2\x80", "\xef\xbb\xbf", "é", "☃", "𝔘", "\"\\x\"", "\"\\", "\" + \"", "'\n", "/*/", "/**/",
	"{{", "}}", "};", ";;", "{}", "\x7f", "\x1b", "\v", "\f",
}

// byteMutate applies 1–4 byte-level edits to t.
func byteMutate(r *rand.Rand, t string) (string, []string) {
	b := []byte(t)
	var ops []string
	k := 1 + r.Intn(4)
	for i := 0; i < k; i++ {
		pos := 0
		if len(b) > 0 {
			pos = r.Intn(len(b) + 1)
		}
		switch r.Intn(10) {
		case 9: // lexer errors up to and past the limit, then one of every lexer construct
			b = []byte(errorPileMutate(r, string(b)))
			ops = append(ops, "error-pile")
		case 0: // flip a bit
			if len(b) > 0 {
				p := r.Intn(len(b))
				b[p] ^= 1 << uint(r.Intn(8))
				ops = append(ops, "bit-flip")
			}
		case 1: // random byte
			if len(b) > 0 {
				b[r.Intn(len(b))] = byte(r.Intn(256))
				ops = append(ops, "random-byte")
			}
		case 2: // delete a byte or a short range
			if len(b) > 0 {
				p := r.Intn(len(b))
				n := 1 + r.Intn(4)
				if p+n > len(b) {
					n = len(b) - p
				}
				b = append(b[:p:p], b[p+n:]...)
				ops = append(ops, "delete-bytes")
			}
		case 3, 4: // insert a lexically interesting snippet
			s := byteSnippets[r.Intn(len(byteSnippets))]
			b = append(b[:pos:pos], append([]byte(s), b[pos:]...)...)
			ops = append(ops, "insert-snippet")
		case 5: // drop one brace (unbalanced)
			var idx []int
			for j, c := range b {
				if c == '{' || c == '}' {
					idx = append(idx, j)
				}
			}
			if len(idx) > 0 {
				p := idx[r.Intn(len(idx))]
				b = append(b[:p:p], b[p+1:]...)
				ops = append(ops, "drop-brace")
			}
		case 6: // cut the text anywhere (unterminated string / comment / block)
			if len(b) > 0 {
				b = b[:r.Intn(len(b))]
				ops = append(ops, "cut")
			}
		case 7: // duplicate a range
			if len(b) > 1 {
				p := r.Intn(len(b))
				n := 1 + r.Intn(40)
				if p+n > len(b) {
					n = len(b) - p
				}
				d := append([]byte{}, b[p:p+n]...)
				b = append(b[:p:p], append(d, b[p:]...)...)
				ops = append(ops, "duplicate-range")
			}
		case 8: // swap two bytes
			if len(b) > 1 {
				p, q := r.Intn(len(b)), r.Intn(len(b))
				b[p], b[q] = b[q], b[p]
				ops = append(ops, "swap-bytes")
			}
		}
	}
	return string(b), ops
}

// manyErrors builds a text with n lexical errors (the lexer drops its input after eight).
func manyErrors(r *rand.Rand, n int) string {
	var sb strings.Builder
	bad := []string{"a \"\\q\";\n", "b \"\\x\" ;\n", "c 'x\n", "\"\\z\" d;\n", "e \"a\" + ;\n", "f \"\\", "g /* \n", "h \"\\0\";\n"}
	sb.WriteString("module m {\n")
	for i := 0; i < n; i++ {
		sb.WriteString(bad[r.Intn(5)])
	}
	if r.Intn(2) == 0 {
		sb.WriteString(bad[5+r.Intn(3)])
	}
	sb.WriteString("}\n")
	return sb.String()
}

// deepText builds a text nested depth levels deep.
//
//	kind 0: valid module with nested containers (goes through the whole resolver and the read API)
//	kind 1: nested statements of an unknown keyword (parser only; the builder rejects the top)
//	kind 2: opening braces only (unbalanced)
//	kind 3: bare blocks "{{{{…}}}}" (a block without a keyword)
//	kind 4: nested groupings, each using the next (deep resolver recursion through uses)
//	kind 5: deep statement nesting that is never closed
//	kind 6: a chain of typedefs, each defined by the next
//	kind 7: a chain of identities, each based on the next
//	kind 8: a deep union of unions
//	kind 9: a chain of augments, each targeting the node the previous one adds
func deepText(kind, depth int) string {
	var sb strings.Builder
	switch kind {
	case 0:
		sb.WriteString("module deep { namespace \"urn:deep\"; prefix d;\n")
		for i := 0; i < depth; i++ {
			sb.WriteString("container c {")
		}
		sb.WriteString(" leaf l { type string; } ")
		sb.WriteString(strings.Repeat("}", depth))
		sb.WriteString("\n}\n")
	case 1:
		for i := 0; i < depth; i++ {
			sb.WriteString("a b {")
		}
		sb.WriteString(strings.Repeat("}", depth))
	case 2:
		for i := 0; i < depth; i++ {
			sb.WriteString("a b {")
		}
	case 3:
		sb.WriteString("module m ")
		sb.WriteString(strings.Repeat("{", depth))
		sb.WriteString(strings.Repeat("}", depth))
	case 4:
		sb.WriteString("module deepg { namespace \"urn:deepg\"; prefix d;\n")
		for i := 0; i < depth; i++ {
			fmt.Fprintf(&sb, "grouping g%d { container c%d { uses g%d; } }\n", i, i, i+1)
		}
		fmt.Fprintf(&sb, "grouping g%d { leaf l { type string; } }\nuses g0;\n}\n", depth)
	case 5:
		sb.WriteString("module m { namespace \"urn:m\"; prefix m; ")
		for i := 0; i < depth; i++ {
			sb.WriteString("container c { ")
		}
	case 6:
		sb.WriteString("module deept { namespace \"urn:deept\"; prefix d;\n")
		for i := 0; i < depth; i++ {
			fmt.Fprintf(&sb, "typedef t%d { type t%d; }\n", i, i+1)
		}
		fmt.Fprintf(&sb, "typedef t%d { type string; }\nleaf l { type t0; }\n}\n", depth)
	case 7:
		sb.WriteString("module deepi { namespace \"urn:deepi\"; prefix d;\n")
		for i := 0; i < depth; i++ {
			fmt.Fprintf(&sb, "identity i%d { base i%d; }\n", i, i+1)
		}
		fmt.Fprintf(&sb, "identity i%d;\nleaf l { type identityref { base i%d; } }\n}\n", depth, depth)
	case 8:
		sb.WriteString("module deepu { namespace \"urn:deepu\"; prefix d;\nleaf l { ")
		for i := 0; i < depth; i++ {
			sb.WriteString("type union { type int8; ")
		}
		sb.WriteString("type string; ")
		sb.WriteString(strings.Repeat("}", depth))
		sb.WriteString(" }\n}\n")
	case 9:
		sb.WriteString("module deepa { namespace \"urn:deepa\"; prefix d;\ncontainer c0;\n")
		path := "/d:c0"
		// written in reverse so that each pass of the augment loop can apply only one
		var lines []string
		for i := 0; i < depth; i++ {
			lines = append(lines, fmt.Sprintf("augment %q { container c%d; }\n", path, i+1))
			path += fmt.Sprintf("/d:c%d", i+1)
		}
		for i := len(lines) - 1; i >= 0; i-- {
			sb.WriteString(lines[i])
		}
		sb.WriteString("}\n")
	}
	return sb.String()
}

var deepKindNames = []string{"valid nested containers", "nested unknown statements", "open braces only", "bare blocks",
	"chain of groupings via uses", "unclosed nested containers", "chain of typedefs", "chain of identities", "union of unions",
	"chain of augments (reverse order)"}
