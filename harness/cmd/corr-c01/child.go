package main

import (
	"bufio"
	"encoding/base64"
	"encoding/json"
	"errors"
	"fmt"
	"io"
	"os"
	"regexp"
	"runtime"
	"runtime/debug"
	"strings"
	"syscall"
	"time"
	"unicode/utf8"

	"github.com/openconfig/goyang/pkg/yang"
	"verif/harness/lib"
)

// History is one C01 case: source texts (any bytes) in load order, handed to one Modules value,
// then Process, then read access to everything that comes back.
type History struct {
	Names []string `json:"names"`
	// Texts holds the texts when all of them are valid UTF-8, TextsB64 (base64) otherwise.
	Texts    []string `json:"texts,omitempty"`
	TextsB64 []string `json:"texts_b64,omitempty"`
	// options of Modules.ParseOptions
	IgnoreCircular     bool `json:"ignore_circular,omitempty"`
	IgnoreNotSupported bool `json:"ignore_not_supported,omitempty"`
	// provenance, for the evidence only
	Stream string `json:"stream,omitempty"`
	What   string `json:"what,omitempty"`
	// corpus cases: the fault of the history must be reported, through errors of Process
	// (ExpectErrors) or by Modules.Parse rejecting a text (ExpectRejected)
	ExpectErrors   bool `json:"expect_errors,omitempty"`
	ExpectRejected bool `json:"expect_rejected,omitempty"`
	// ExpectClean: Process of what was accepted returns no error (a rejected text leaves no trace)
	ExpectClean bool `json:"expect_clean,omitempty"`
	// NoModel: the Lean driver is not asked (the compiled model is exponential on this input)
	NoModel bool `json:"no_model,omitempty"`
	// resource limits of this history in the child (0 = the defaults, see limits)
	CPUSeconds float64 `json:"cpu_s,omitempty"`
	MemMiB     int     `json:"mem_mib,omitempty"`
	// WallMs: set by the parent on the request only (never stored): the wall-clock bound after which the
	// child reports by itself what it is stuck in (the parent's own timer is the backstop)
	WallMs int64 `json:"wall_ms,omitempty"`
}

func newHistory(stream, what string, names []string, texts []string) History {
	h := History{Names: names, Stream: stream, What: what}
	h.setTexts(texts)
	return h
}

func (h *History) setTexts(texts []string) {
	h.Texts, h.TextsB64 = nil, nil
	ok := true
	for _, t := range texts {
		if !utf8.ValidString(t) {
			ok = false
		}
	}
	if ok {
		h.Texts = texts
		return
	}
	for _, t := range texts {
		h.TextsB64 = append(h.TextsB64, base64.StdEncoding.EncodeToString([]byte(t)))
	}
}

// All returns the texts as Go strings (arbitrary bytes).
func (h *History) All() []string {
	if len(h.TextsB64) == 0 {
		return h.Texts
	}
	out := make([]string, len(h.TextsB64))
	for i, b := range h.TextsB64 {
		d, _ := base64.StdEncoding.DecodeString(b)
		out[i] = string(d)
	}
	return out
}

func (h *History) Bytes() int {
	n := 0
	for _, t := range h.All() {
		n += len(t)
	}
	return n
}

// Key identifies a history for de-duplication (texts, names, options).
func (h *History) Key() string {
	var sb strings.Builder
	for i, t := range h.All() {
		sb.WriteString(h.Names[i])
		sb.WriteByte(0)
		sb.WriteString(t)
		sb.WriteByte(1)
	}
	fmt.Fprintf(&sb, "%v%v", h.IgnoreCircular, h.IgnoreNotSupported)
	return sb.String()
}

// Report is what the child answers for a history it survived.
type Report struct {
	Parsed   []bool   `json:"parsed"`   // yang.Parse alone accepted text i
	Stmts    int      `json:"stmts"`    // statements seen by yang.Parse over all texts
	Accepted []bool   `json:"accepted"` // Modules.Parse accepted text i
	Errs     []string `json:"errs"`     // canonical error records of Process ("E file:line:col:class")
	NErrs    int      `json:"nerrs"`    // number of errors Process returned
	Trees    int      `json:"trees"`    // module and submodule entries walked
	Nodes    int      `json:"nodes"`    // entries visited by the walk
	Wire     string   `json:"wire"`     // wire format of the accepted texts (only when every text parses and the set is small)
	Micros   int64    `json:"micros"`   // time spent in goyang for this history
	Panic    string   `json:"panic"`    // recovered panic (value and stack head): a crash
	Phase    string   `json:"phase"`    // what was running when it panicked
	Notes    []string `json:"notes,omitempty"`
	Resource string   `json:"resource,omitempty"` // a resource limit was exceeded (the child stops): a violation
	Hang     bool     `json:"hang,omitempty"`     // the limit exceeded is the wall-clock bound
	Calls    int64    `json:"calls,omitempty"`    // accessor calls made by the reflective read-back
	Side     int      `json:"side,omitempty"`     // entries kept beside the children that were walked
	Methods  []string `json:"methods,omitempty"`  // accessors met for the first time by this child: "type.method: called | why not"
	PeakMiB  int      `json:"peak_mib,omitempty"` // highest runtime.MemStats.Sys seen while the history ran
	CPUms    int64    `json:"cpu_ms,omitempty"`   // processor time the history took
	RawErrs  []string `json:"raw_errs,omitempty"` // replay only: the messages as goyang words them
}

const maxWireBytes = 24 << 10 // texts above this are survival-only (the Lean driver is not asked)
const maxWalkNodes = 400000

// runHistory performs the history on the real goyang packages.
func runHistory(h History) (rep Report) {
	setPhase("start")
	defer func() {
		if r := recover(); r != nil {
			rep.Panic = fmt.Sprint(r) + "\n" + stackHead(debug.Stack())
			rep.Phase = getPhase()
			rep.Phase += whereNow()
		}
	}()
	t0 := time.Now()
	texts := h.All()
	allParse := true
	size := 0
	// 1. the generic parser alone on every text, and a walk over what it returns
	for i, t := range texts {
		size += len(t)
		setPhase(fmt.Sprintf("yang.Parse text %d", i))
		ss, err := yang.Parse(t, h.Names[i])
		rep.Parsed = append(rep.Parsed, err == nil)
		if err != nil {
			allParse = false
			_ = err.Error()
			continue
		}
		setPhase(fmt.Sprintf("walk statements of text %d", i))
		for _, s := range ss {
			rep.Stmts += walkStmt(s)
		}
	}
	// 2. load into one Modules value, errors ignored
	ms := yang.NewModules()
	ms.ParseOptions.IgnoreSubmoduleCircularDependencies = h.IgnoreCircular
	ms.ParseOptions.DeviateOptions.IgnoreDeviateNotSupported = h.IgnoreNotSupported
	var accNames, accTexts []string
	for i, t := range texts {
		setPhase(fmt.Sprintf("Modules.Parse text %d", i))
		err := ms.Parse(t, h.Names[i])
		rep.Accepted = append(rep.Accepted, err == nil)
		if err == nil {
			accNames = append(accNames, h.Names[i])
			accTexts = append(accTexts, t)
		} else {
			_ = err.Error()
		}
	}
	// 3. Process
	setPhase("Modules.Process")
	errs := ms.Process()
	rep.NErrs = len(errs)
	setPhase("error messages")
	rep.Errs = lib.CanonErrs(unquoted(errs))
	if os.Getenv("VERIF_C01_RAW") == "1" {
		for i, e := range errs {
			if i < 40 {
				m := e.Error()
				if len(m) > 400 {
					m = m[:400] + "…"
				}
				rep.RawErrs = append(rep.RawErrs, m)
			}
		}
	}
	// 4. read access to whatever came back, errors or not
	seenMod := map[*yang.Module]bool{}
	rb := newReadback()
	if os.Getenv("VERIF_C01_RAW") == "1" {
		rb.byType = map[string]int64{}
	}
	w := &walker{seen: map[*yang.Entry]bool{}, rb: rb}
	var mods []*yang.Module
	for _, mm := range []map[string]*yang.Module{ms.Modules, ms.SubModules} {
		for _, k := range lib.SortedKeys(mm) {
			m := mm[k]
			if m == nil || seenMod[m] {
				continue
			}
			seenMod[m] = true
			mods = append(mods, m)
			setPhase("identities of " + k)
			for _, id := range m.Identities() {
				_ = id.PrefixedName()
				for _, v := range id.Values {
					if v != nil {
						_ = v.Name
						_ = v.PrefixedName()
					}
				}
			}
			setPhase("ToEntry " + k)
			e := yang.ToEntry(m)
			rep.Trees++
			setPhase("read-back: walk of the tree of " + k)
			w.maxDepth = 0
			w.walk(e, 0)
			setPhase("Print " + k)
			if e != nil && w.n < maxWalkNodes {
				printable(e, w.maxDepth).Print(io.Discard)
			}
		}
	}
	// 4b. the AST behind the trees: every Node implementer, every Value and Statement; ToEntry of every
	// grouping node; then the entries kept beside the children (Augments, Augmented, Deviations and
	// their Deviate entries, Uses[i].Grouping, the grouping entries), with everything below them
	for _, m := range mods {
		setPhase("read-back: AST nodes of " + m.Name)
		rb.node(m, 0)
	}
	for i := 0; i < len(rb.groups); i++ {
		g := rb.groups[i]
		setPhase("ToEntry of grouping " + g.Name)
		if ge := yang.ToEntry(g); ge != nil {
			rb.side = append(rb.side, ge)
		}
	}
	setPhase("read-back: entries kept beside the children (Augments, Augmented, Deviations, Deviate, Uses, groupings)")
	main := w.n
	w.sideMode, w.mainNodes = true, main
	rb.findLeft = 2
	for len(rb.side) > 0 {
		e := rb.side[len(rb.side)-1]
		rb.side = rb.side[:len(rb.side)-1]
		w.walk(e, 0)
	}
	rep.Side = w.n - main
	setPhase("read-back: resolved types on the AST")
	for i := 0; i < len(rb.ytypes); i++ {
		rb.ytype(rb.ytypes[i], nil, 0)
	}
	rep.Nodes = main
	rep.Calls = rb.calls
	for _, k := range lib.SortedKeys(rb.byType) {
		rep.RawErrs = append(rep.RawErrs, fmt.Sprintf("read-back calls on %s: %d", k, rb.byType[k]))
	}
	rep.Methods = rb.fresh
	if w.cyclic != "" {
		rep.Notes = append(rep.Notes, w.cyclic)
	}
	// 5. the same texts for the Lean resolver model
	if allParse && size <= maxWireBytes && len(accNames) > 0 {
		setPhase("wire format")
		if wire, err := lib.WireFiles(accNames, accTexts); err == nil {
			rep.Wire = wire
		}
	}
	rep.Micros = time.Since(t0).Microseconds()
	return rep
}

var quotedRe = regexp.MustCompile(`"[^"]*"`)

// unquoted drops the quoted parts of the messages (user-chosen names and paths, e.g. the entry
// path "/baz-augment") before they are reduced to classes by keyword.
func unquoted(errs []error) []error {
	out := make([]error, len(errs))
	for i, e := range errs {
		out[i] = errors.New(quotedRe.ReplaceAllString(e.Error(), `""`))
	}
	return out
}

func walkStmt(s *yang.Statement) int {
	n := 1
	_ = s.Location()
	_ = s.Keyword
	_ = s.Argument
	_ = s.NName()
	for _, c := range s.SubStatements() {
		n += walkStmt(c)
	}
	return n
}

type walker struct {
	seen      map[*yang.Entry]bool
	n         int
	cyclic    string
	maxDepth  int
	seenT     map[*yang.YangType]bool
	rb        *readback
	sideMode  bool // walking entries kept beside the children: meeting a known entry again is expected
	mainNodes int
}

// fullNodes: the reflective read-back runs on the first so many entries of a history, where the
// heavy rule holds (an accessor that walks to the root, like Path, costs the square of the depth: on
// every entry down to depth 150, below that on every 500th level and on every entry without
// children); the fixed calls below are made on every entry.  maxSideNodes bounds the walk over the
// entries kept beside the children (a chain of k groupings has k^2/2 grouping entries).
const fullNodes = 5000
const fullSideNodes = 2500
const maxSideNodes = 8000

// heavyAt decides where the calls whose own cost grows with the square of the depth (Path and
// Find with the node's own path build a string per ancestor) are made: on every node down to depth
// 150, below that on every 500th level and on every node without children.  All other calls are
// made on every node.
func heavyAt(e *yang.Entry, depth int) bool {
	return depth <= 150 || depth%500 == 0 || (len(e.Dir) == 0 && e.RPC == nil)
}

// walk visits e, its Dir and its rpc input / output and calls the read API on each node.
func (w *walker) walk(e *yang.Entry, depth int) (height int) {
	if e == nil {
		return 0
	}
	if w.seen[e] {
		if w.cyclic == "" && !w.sideMode {
			w.cyclic = "entry reachable twice: " + e.Name
		}
		return writeHeight + 1
	}
	w.seen[e] = true
	w.n++
	if w.n > maxWalkNodes || (w.sideMode && w.n-w.mainNodes > maxSideNodes) {
		return writeHeight + 1
	}
	if depth > w.maxDepth {
		w.maxDepth = depth
	}
	curEntry.Store(e)
	_ = e.GetErrors()
	_ = e.ReadOnly()
	_ = e.Namespace()
	if !guardRootNotModule || rootIsModule(e) {
		_, _ = e.InstantiatingModule()
	}
	_ = e.DefaultValues()
	_, _ = e.SingleDefaultValue()
	w.readType(e.Type, 0)
	// every exported accessor, by reflection (readback.go)
	if heavyAt(e, depth) && ((!w.sideMode && w.n <= fullNodes) || (w.sideMode && w.n-w.mainNodes <= fullSideNodes)) {
		w.rb.entry(e, depth, true)
	}
	// Find: own path, a bogus path, relative paths
	if heavyAt(e, depth) {
		p := e.Path()
		if !guardRootNotModule || !absolutePrefixed(p) || rootIsModule(e) {
			_ = e.Find(p)
		}
	}
	_ = e.Find("/nosuch:zz/yy")
	_ = e.Find("/zz")
	_ = e.Find("../" + e.Name)
	_ = e.Find("zz/../..")
	_ = e.Find("./.")
	if e.RPC != nil {
		// before looking at input / output: Find creates absent ones
		_ = e.Find("input")
		_ = e.Find("output/zz")
	}
	// Print writes an indented listing, quadratic in the depth: from the root when the tree is
	// shallow, else from the nodes 400 levels above the deepest ones (decided on the way back)
	full := (!w.sideMode && w.n <= fullNodes) || (w.sideMode && w.n-w.mainNodes <= fullSideNodes)
	up := func(h int) {
		if h+1 > height {
			height = h + 1
		}
	}
	for _, k := range lib.SortedKeys(e.Dir) {
		up(w.walk(e.Dir[k], depth+1))
	}
	if e.RPC != nil {
		if e.RPC.Input != nil {
			up(w.walk(e.RPC.Input, depth+1))
		}
		if e.RPC.Output != nil {
			up(w.walk(e.RPC.Output, depth+1))
		}
	}
	// the accessors that write what is below e, where that is not deep
	if full && (height <= writeLowHeight || (depth == 0 && height <= writeHeight)) {
		curEntry.Store(e)
		w.rb.entryWriters(e)
	}
	return height
}

// readType reads a resolved type: the printed forms of its range and length restrictions, the
// tables of an enumeration or bits type, recursively over the members of a union.
func (w *walker) readType(t *yang.YangType, depth int) {
	if t == nil || depth > 64 {
		return
	}
	if w.seenT == nil {
		w.seenT = map[*yang.YangType]bool{}
	}
	if w.seenT[t] {
		return
	}
	w.seenT[t] = true
	_ = t.Range.String()
	_ = t.Length.String()
	_ = t.Range.Validate()
	_ = t.Length.Validate()
	for _, r := range t.Range {
		_ = r.Valid()
		_ = r.Min.String()
		_ = r.Max.String()
	}
	for _, r := range t.Length {
		_ = r.Min.String()
		_ = r.Max.String()
	}
	for _, en := range []*yang.EnumType{t.Enum, t.Bit} {
		if en != nil {
			_ = en.Names()
			_ = en.Values()
			_ = en.NameMap()
		}
	}
	_ = t.Equal(t.Root)
	if t.Root != t {
		w.readType(t.Root, depth+1)
	}
	for _, m := range t.Type {
		w.readType(m, depth+1)
	}
}

// printable returns the node to print: the root of a shallow tree, else the ancestor 400 levels
// above the first deepest node.
func printable(root *yang.Entry, maxDepth int) *yang.Entry {
	if maxDepth <= 400 {
		return root
	}
	e := root
	for d := 0; d < maxDepth-400; d++ {
		var next *yang.Entry
		for _, k := range lib.SortedKeys(e.Dir) {
			if c := e.Dir[k]; c != nil && (len(c.Dir) > 0 || c.RPC != nil) {
				next = c
				break
			}
		}
		if next == nil {
			break
		}
		e = next
	}
	return e
}

// stackHead keeps the frames of a panic stack up to the first few goyang frames (the crash site).
func stackHead(st []byte) string {
	lines := strings.Split(string(st), "\n")
	var out []string
	goy := 0
	for i := 0; i < len(lines) && len(out) < 40; i++ {
		l := lines[i]
		if strings.Contains(l, "runtime/debug.Stack") || strings.Contains(l, "runtime/debug/stack.go") {
			continue
		}
		out = append(out, l)
		if strings.Contains(l, "/pkg/yang/") || strings.Contains(l, "/pkg/indent/") {
			goy++
			if goy >= 4 {
				break
			}
		}
	}
	return strings.Join(out, "\n")
}

// crashSite extracts "file.go:line" of the first goyang frame from a crash report.
func crashSite(msg string) string {
	for _, l := range strings.Split(msg, "\n") {
		l = strings.TrimSpace(l)
		if i := strings.Index(l, "/pkg/yang/"); i >= 0 && strings.Contains(l, ".go:") {
			s := l[i+len("/pkg/yang/"):]
			if j := strings.IndexByte(s, ' '); j > 0 {
				s = s[:j]
			}
			return s
		}
	}
	return ""
}

// limits returns the resource limits of a history in the child: processor time (user + system of
// the whole process, so independent of how busy the machine is) and memory obtained from the
// system (runtime.MemStats.Sys: heap, stacks, runtime structures).  Defaults: 10 s + 1 ms per byte
// of input and 1 GiB + 4 KiB per byte of input; the depth cases that are known to need more say so.
func (h *History) limits() (cpu time.Duration, memBytes uint64) {
	n := h.Bytes()
	cpu = 10*time.Second + time.Duration(n)*time.Millisecond
	if h.CPUSeconds > 0 {
		cpu = time.Duration(h.CPUSeconds * float64(time.Second))
	}
	memBytes = 1<<30 + uint64(n)*4096
	if h.MemMiB > 0 {
		memBytes = uint64(h.MemMiB) << 20
	}
	return
}

func cpuTime() time.Duration {
	var ru syscall.Rusage
	if syscall.Getrusage(syscall.RUSAGE_SELF, &ru) != nil {
		return 0
	}
	return time.Duration(ru.Utime.Nano() + ru.Stime.Nano())
}

// watchdog samples processor time and memory while a history runs.  When a limit is exceeded it
// answers for the history itself (the worker goroutine cannot be stopped) and ends the child.
type watchdog struct {
	stop chan struct{}
	done chan struct{}
	peak uint64
}

func startWatchdog(h *History, wr *bufio.Writer) *watchdog {
	w := &watchdog{stop: make(chan struct{}), done: make(chan struct{})}
	cpuLimit, memLimit := h.limits()
	cpu0 := cpuTime()
	t0 := time.Now()
	wallLimit := time.Duration(h.WallMs) * time.Millisecond
	go func() {
		defer close(w.done)
		tick := time.NewTicker(25 * time.Millisecond)
		defer tick.Stop()
		var ms runtime.MemStats
		for {
			select {
			case <-w.stop:
				return
			case <-tick.C:
			}
			runtime.ReadMemStats(&ms)
			held := ms.Sys - ms.HeapReleased
			if held > w.peak {
				w.peak = held
			}
			used := cpuTime() - cpu0
			why := ""
			hang := false
			switch {
			case held > memLimit:
				why = fmt.Sprintf("memory: %d MiB held, limit %d MiB (input %d bytes)", held>>20, memLimit>>20, h.Bytes())
			case used > cpuLimit:
				why = fmt.Sprintf("processor time: %.1f s used, limit %.1f s (input %d bytes)", used.Seconds(), cpuLimit.Seconds(), h.Bytes())
			case wallLimit > 0 && time.Since(t0) > wallLimit:
				why = fmt.Sprintf("wall clock: no return within %v (%.1f s of processor time used; input %d bytes)", wallLimit, used.Seconds(), h.Bytes())
				hang = true
			}
			if why != "" {
				// what the history is stuck in: the phase, the accessor call under way, the stack of its goroutine
				why += "; stuck in: " + getPhase() + whereNow() + "\n" + historyStack()
				rep := Report{Resource: why, Hang: hang, Phase: getPhase() + whereNow(), PeakMiB: int(w.peak >> 20), CPUms: used.Milliseconds()}
				b, _ := json.Marshal(rep)
				wr.WriteString(base64.StdEncoding.EncodeToString(b))
				wr.WriteByte('\n')
				wr.Flush()
				os.Exit(0)
			}
		}
	}()
	return w
}

// whereNow words the accessor call (or the entry) the read-back is at.
func whereNow() string {
	if c := describeCall(); c != "" {
		return ": read-back call " + c
	}
	if e := curEntry.Load(); e != nil {
		return ": at entry " + safePath(e)
	}
	return ""
}

// historyStack returns the head of the stack of the goroutine that runs the history (taken from
// another goroutine: the runtime stops the world for it, also inside a loop without calls).
func historyStack() string {
	buf := make([]byte, 1<<20)
	buf = buf[:runtime.Stack(buf, true)]
	for _, g := range strings.Split(string(buf), "\n\n") {
		if strings.Contains(g, "main.runHistory") {
			return stackHead([]byte(g))
		}
	}
	return ""
}

func (w *watchdog) end() uint64 {
	close(w.stop)
	<-w.done
	return w.peak
}

// childMain serves histories until stdin closes: one base64 line in, one base64 line out.
func childMain() {
	// nothing may be picked up from disk: an absent import or include must stay absent
	if dir := os.Getenv("VERIF_C01_DIR"); dir != "" {
		if err := os.Chdir(dir); err != nil {
			fmt.Fprintln(os.Stderr, "child: chdir:", err)
			os.Exit(3)
		}
	}
	debug.SetMaxStack(512 << 20)
	// a hard cap on the address space: a runaway allocation (e.g. reading a device file) ends this
	// child with "out of memory" instead of taking the machine down
	var lim syscall.Rlimit
	if syscall.Getrlimit(syscall.RLIMIT_AS, &lim) == nil {
		const capAS = 4 << 30
		if lim.Cur > capAS { // RLIM_INFINITY is the largest value
			lim.Cur = capAS
			syscall.Setrlimit(syscall.RLIMIT_AS, &lim)
		}
	}
	// the protocol pipe moves to another descriptor and descriptor 0 becomes /dev/null, so that
	// nothing goyang might read from "/dev/stdin" can steal protocol input or block
	in := os.Stdin
	if fd, err := syscall.Dup(0); err == nil {
		if null, err := os.Open(os.DevNull); err == nil {
			if syscall.Dup3(int(null.Fd()), 0, 0) == nil {
				in = os.NewFile(uintptr(fd), "protocol")
			}
			null.Close()
		}
	}
	rd := bufio.NewReaderSize(in, 1<<20)
	var lastPeak uint64
	wr := bufio.NewWriterSize(os.Stdout, 1<<20)
	for {
		line, err := rd.ReadString('\n')
		if strings.TrimSpace(line) != "" {
			var rep Report
			in, derr := base64.StdEncoding.DecodeString(strings.TrimSpace(line))
			var h History
			if derr != nil || json.Unmarshal(in, &h) != nil || len(h.Names) != len(h.All()) {
				rep.Panic = "bad request"
				rep.Phase = "protocol"
			} else {
				// start from a small heap, so that the peak is this history's
				if lastPeak > 192<<20 {
					debug.FreeOSMemory()
				}
				wd := startWatchdog(&h, wr)
				c0 := cpuTime()
				rep = runHistory(h)
				peak := wd.end()
				var ms runtime.MemStats
				runtime.ReadMemStats(&ms)
				if held := ms.Sys - ms.HeapReleased; held > peak {
					peak = held
				}
				lastPeak = peak
				rep.PeakMiB = int(peak >> 20)
				rep.CPUms = (cpuTime() - c0).Milliseconds()
				if _, memLimit := h.limits(); peak > memLimit && rep.Panic == "" {
					rep.Resource = fmt.Sprintf("memory: %d MiB held, limit %d MiB (input %d bytes)", peak>>20, memLimit>>20, h.Bytes())
				}
			}
			b, _ := json.Marshal(rep)
			wr.WriteString(base64.StdEncoding.EncodeToString(b))
			wr.WriteByte('\n')
			wr.Flush()
		}
		if err != nil {
			return
		}
	}
}
