package main

import (
	"fmt"
	"strings"
)

// Stream vi: two deterministic families about arguments that name schema nodes.
//
// (a) DEVIATIONS OF EVERY PROPERTY ONTO EVERY KIND OF TARGET.  ApplyDeviate copies what a deviate
//     statement says onto the target entry without looking at the target's kind: a container ends up
//     with a Type, a choice with a default, an rpc with units, a leaf with list bounds refused.
//     Every accessor must cope with such an entry, so each property (type - with typedefs that carry a
//     default of every base -, default, units, config, mandatory, min-/max-elements, unique, must, and
//     all of them at once) is deviated (add / replace / delete, and not-supported) onto each kind of
//     node: container, list, leaf, leaf-list, choice, case, implied case and the node in it, anydata,
//     anyxml, rpc, its input / output (written and absent), notification, action and its input, nodes
//     that came through uses and through augment, key and mandatory leaves, and a missing node; from
//     the module itself and from an importing module.  The read-back then calls every accessor on the
//     deviated trees and on the deviate entries kept under Deviations[i].
//
// (b) BRACKET SHAPES IN PATH ARGUMENTS.  Key predicates belong to instance identifiers and leafref
//     paths, not to schema node identifiers, but every argument is a string: balanced, unbalanced,
//     reversed, nested and empty brackets at every step position (after a step, as a step of their own,
//     in front of the path, at its end) in augment, deviation, uses-augment, refine, leafref path
//     (absolute and relative, also in a typedef), key, unique, must and when.

const devKindsModule = `module dk {
  namespace "urn:dk";
  prefix dk;
  identity idb;
  identity idd { base idb; }
  typedef pct { type uint8 { range "0..100"; } default 50; }
  typedef en { type enumeration { enum a; enum b; } default b; }
  typedef un { type union { type pct; type string; } default 7; }
  typedef idr { type identityref { base idb; } default idd; }
  typedef plain { type string { length "1..8"; } }
  typedef chain { type pct; }
  grouping g { container gc { leaf gl { type pct; } } }
  container c {
    leaf a { type pct; }
    leaf-list b { type pct; }
    leaf m { type string; mandatory true; }
    leaf d { type string; default x; }
  }
  list l { key k; unique v; min-elements 1; leaf k { type string; } leaf v { type int8; } }
  leaf lf { type string; }
  leaf-list ll { type string; }
  choice ch { case ca { leaf x { type string; } } leaf short { type string; } }
  anydata ad;
  anyxml ax;
  rpc r { input { leaf i { type string; } } output { leaf o { type string; } } }
  rpc bare;
  notification n { leaf nl { type string; } }
  container act { action go { input { leaf ai { type string; } } } }
  container u { uses g; }
  augment "/dk:c" { container viaaug; }
%s}
`

const devKindsImporter = `module dv {
  namespace "urn:dv";
  prefix dv;
  import dk { prefix dk; }
  typedef mine { type int16; default -3; }
%s}
`

var devTargets = []struct{ kind, path string }{
	{"container", "/dk:c"}, {"list", "/dk:l"}, {"leaf", "/dk:lf"}, {"leaf-list", "/dk:ll"}, {"choice", "/dk:ch"}, {"case", "/dk:ch/dk:ca"},
	{"implied case", "/dk:ch/dk:short"}, {"leaf in an implied case", "/dk:ch/dk:short/dk:short"}, {"anydata", "/dk:ad"}, {"anyxml", "/dk:ax"},
	{"rpc", "/dk:r"}, {"rpc input", "/dk:r/dk:input"}, {"rpc output", "/dk:r/dk:output"}, {"rpc without body", "/dk:bare"},
	{"absent rpc input", "/dk:bare/dk:input"}, {"notification", "/dk:n"}, {"action", "/dk:act/dk:go"}, {"action input", "/dk:act/dk:go/dk:input"},
	{"absent action output", "/dk:act/dk:go/dk:output"}, {"container through uses", "/dk:u/dk:gc"}, {"leaf through uses", "/dk:u/dk:gc/dk:gl"},
	{"container through augment", "/dk:c/dk:viaaug"}, {"leaf with typedef default", "/dk:c/dk:a"}, {"leaf-list with typedef default", "/dk:c/dk:b"},
	{"mandatory leaf", "/dk:c/dk:m"}, {"leaf with default", "/dk:c/dk:d"}, {"key leaf", "/dk:l/dk:k"}, {"missing node", "/dk:c/dk:nosuch"},
	{"module root", "/"},
}

var devProps = []struct{ name, body string }{
	{"type with default (uint8 typedef)", "type %Ppct;"},
	{"type with default (enumeration typedef)", "type %Pen;"},
	{"type with default (union typedef)", "type %Pun;"},
	{"type with default (identityref typedef)", "type %Pidr;"},
	{"type with default through a typedef chain", "type %Pchain;"},
	{"type without default (typedef)", "type %Pplain;"},
	{"builtin type", "type string;"},
	{"unknown type", "type %Pnosuch;"},
	{"type with default and mandatory", "type %Ppct; mandatory true;"},
	{"type with default and min-elements", "type %Ppct; min-elements 1;"},
	{"default", "default x;"},
	{"two defaults", "default x; default y;"},
	{"units", "units u;"},
	{"config false", "config false;"},
	{"config true", "config true;"},
	{"mandatory true", "mandatory true;"},
	{"mandatory false", "mandatory false;"},
	{"min-elements", "min-elements 2;"},
	{"max-elements", "max-elements 1;"},
	{"max-elements unbounded", "max-elements unbounded;"},
	{"unique", "unique v;"},
	{"must", "must \"../x\";"},
	{"every property", "type %Ppct; default 7; units u; config false; mandatory false; min-elements 1; max-elements 3;"},
}

func devHistory(what string, own bool, devs string) History {
	if own {
		return newHistory(streamNames[streamDevKinds], what, []string{"dk.yang"}, []string{fmt.Sprintf(devKindsModule, devs)})
	}
	return newHistory(streamNames[streamDevKinds], what, []string{"dk.yang", "dv.yang"},
		[]string{fmt.Sprintf(devKindsModule, ""), fmt.Sprintf(devKindsImporter, devs)})
}

func devKindHistories(thorough bool) []History {
	var out []History
	for _, t := range devTargets {
		for pi, p := range devProps {
			for _, how := range []string{"add", "replace", "delete"} {
				// quick tier: delete only for every third property (the type properties are all in add / replace)
				if !thorough && how == "delete" && pi%3 != 0 {
					continue
				}
				body := strings.ReplaceAll(p.body, "%P", "dk:")
				out = append(out, devHistory(fmt.Sprintf("deviate %s { %s } onto a %s (%s)", how, p.name, t.kind, t.path), true,
					fmt.Sprintf("  deviation %q { deviate %s { %s } }\n", t.path, how, body)))
			}
		}
		// not-supported, alone and followed by a second deviation of the node that is gone
		out = append(out, devHistory("deviate not-supported onto a "+t.kind, true, fmt.Sprintf("  deviation %q { deviate not-supported; }\n", t.path)))
		out = append(out, devHistory("deviate not-supported, then replace type onto a "+t.kind, true,
			fmt.Sprintf("  deviation %q { deviate not-supported; }\n  deviation %q { deviate replace { type dk:pct; } }\n", t.path, t.path)))
		// several deviate statements in one deviation; the type first, the default deleted afterwards
		out = append(out, devHistory("deviate add type, then delete default, then replace units onto a "+t.kind, true,
			fmt.Sprintf("  deviation %q { deviate add { type dk:en; } deviate delete { default x; } deviate replace { units u; } }\n", t.path)))
		// from an importing module: its own typedef and the imported one
		for _, ty := range []string{"dk:pct", "mine", "dv:mine", "dk:idr"} {
			out = append(out, devHistory(fmt.Sprintf("importing module: deviate replace { type %s } onto a %s (%s)", ty, t.kind, t.path), false,
				fmt.Sprintf("  deviation %q { deviate replace { type %s; } }\n", t.path, ty)))
		}
	}
	return out
}

// ---------------------------------------------------------------------------------------------
// (b) brackets

const bracketModule = `module bk {
  namespace "urn:bk";
  prefix bk;
  grouping g { container gc { leaf gl { type string; } } }
  container c { list l { key k; leaf k { type string; } leaf v { type string; } container in { leaf deep { type string; } } } }
  container u { uses g; }
%s}
`

// bracketSites: a statement with a path argument; %s is the path; steps are the path's steps, abs
// says whether it is written with a leading "/".
var bracketSites = []struct {
	name  string
	tmpl  string
	steps []string
	abs   bool
}{
	{"augment", "  augment %s { leaf extra { type string; } }\n", []string{"bk:c", "bk:l", "bk:in"}, true},
	{"deviation add", "  deviation %s { deviate add { units u; } }\n", []string{"bk:c", "bk:l", "bk:v"}, true},
	{"deviation not-supported", "  deviation %s { deviate not-supported; }\n", []string{"bk:c", "bk:l", "bk:v"}, true},
	{"uses-augment", "  container w { uses g { augment %s { leaf e { type string; } } } }\n", []string{"gc"}, false},
	{"refine", "  container w { uses g { refine %s { description d; } } }\n", []string{"gc", "gl"}, false},
	{"leafref path (absolute)", "  leaf lr { type leafref { path %s; } }\n", []string{"bk:c", "bk:l", "bk:k"}, true},
	{"leafref path (relative)", "  container w { leaf lr { type leafref { path %s; } } }\n", []string{"..", "..", "c", "l", "k"}, false},
	{"leafref path in a typedef", "  typedef lt { type leafref { path %s; } } leaf lr { type lt; }\n", []string{"bk:c", "bk:l", "bk:k"}, true},
	{"key", "  list l2 { key %s; leaf k { type string; } leaf v { type string; } }\n", []string{"k"}, false},
	{"unique", "  list l3 { key k; unique %s; leaf k { type string; } container w { leaf v { type string; } } }\n", []string{"w", "v"}, false},
	{"must", "  leaf mu { type string; must %s; }\n", []string{"..", "c", "l"}, false},
	{"when", "  leaf wh { type string; when %s; }\n", []string{"..", "c", "l"}, false},
}

func quoteYang(s string) string {
	return `"` + strings.ReplaceAll(strings.ReplaceAll(s, `\`, `\\`), `"`, `\"`) + `"`
}

func bracketHistories(thorough bool) []History {
	var out []History
	for _, site := range bracketSites {
		for _, sh := range bracketShapes {
			var forms []struct{ where, path string }
			join := func(ss []string) string {
				p := strings.Join(ss, "/")
				if site.abs {
					p = "/" + p
				}
				return p
			}
			for i := range site.steps {
				c := append([]string{}, site.steps...)
				c[i] += sh
				forms = append(forms, struct{ where, path string }{fmt.Sprintf("after step %d", i+1), join(c)})
				if thorough || i == len(site.steps)-1 {
					c2 := append(append(append([]string{}, site.steps[:i]...), sh), site.steps[i:]...)
					forms = append(forms, struct{ where, path string }{fmt.Sprintf("a step of its own before step %d", i+1), join(c2)})
				}
			}
			forms = append(forms, struct{ where, path string }{"in front of the path", sh + join(site.steps)})
			forms = append(forms, struct{ where, path string }{"the whole argument", sh})
			for _, f := range forms {
				out = append(out, newHistory(streamNames[streamDevKinds], fmt.Sprintf("bracket shape %q %s in %s: %q", sh, f.where, site.name, f.path),
					[]string{"bk.yang"}, []string{fmt.Sprintf(bracketModule, fmt.Sprintf(site.tmpl, quoteYang(f.path)))}))
			}
		}
	}
	return out
}

func devKindsAndBrackets(thorough bool) []History {
	return append(devKindHistories(thorough), bracketHistories(thorough)...)
}
