package main

import (
	"fmt"
	"math/rand"
	"strings"
)

// The lexer counts its errors and, when the limit (8) is passed, wipes its input and answers end
// of file.  The only lexer error that can occur more than once in a text is the invalid escape
// sequence in a double-quoted string (the others — a missing closing quote or comment end — are
// found at the end of the input), and its branch is the one that keeps lexing the same string
// after reporting.  The texts below pile such errors up to and past the limit and then continue
// with every kind of lexer construct, so that "the state after the limit was hit" is exercised
// for each of them.

// escaped characters that make `\c` an invalid escape (everything but n, t, ", \)
var badEscapes = []string{"q", "x", "0", "z", "'", " ", "/", "*", "{", ";", "N", "é", "☃", "𝔘", "\u00a0", "\ufffd", "\xff", "\xc3", "\xe2\x82", "\x00", "\x7f", "\r"}

// nonASCIIEscapes: the escaped character is a valid non-ASCII rune of 2, 3 and 4 bytes
var nonASCIIEscapes = []string{"é", "ÿ", "\u0080", "\u07ff", "☃", "\u0800", "\uffff", "\ufffe", "𝔘", "\U0010ffff", "\u00a0", "ｑ"}

// errTails: what follows the pile — one of every lexer construct.
var errTails = []struct{ name, text string }{
	{"invalid escape before a 2-byte rune", "\"\\é and more\";"},
	{"invalid escape before a 3-byte rune", "\"\\☃ and more\";"},
	{"invalid escape before a 4-byte rune", "\"\\𝔘 and more\";"},
	{"invalid escape before U+FFFD", "\"\\\ufffd x\";"},
	{"invalid escape before an invalid byte", "\"\\\xff x\";"},
	{"invalid escape before a truncated rune", "\"\\\xe2\x82"},
	{"invalid escape before NUL", "\"\\\x00\";"},
	{"invalid escape before a line break", "\"a\\\n   b\";"},
	{"invalid escape at the end of the text", "\"\\"},
	{"several invalid escapes before non-ASCII runes", "\"\\é\\☃\\𝔘\\q\\é\";"},
	{"non-ASCII text without escape", "\"René ☃ 𝔘\";"},
	{"valid escapes", "\"a\\n\\t\\\"\\\\b\";"},
	{"multi-line string with indentation", "\"first\n      second é\n\tthird\";"},
	{"unterminated double-quoted string", "\"never closed é"},
	{"unterminated single-quoted string", "'never closed é"},
	{"single-quoted string", "'\\q \\é kept verbatim';"},
	{"unterminated block comment", "x; /* never closed é"},
	{"block comment", "/* c \\q é */ x;"},
	{"line comment", "// c \\q é\n x;"},
	{"stray closing brace", "x; } } }"},
	{"stray opening brace", "{ { {"},
	{"concatenation", "\"a\" + \"\\q\" + 'c' + \"\\é\";"},
	{"dangling plus", "\"a\" + ;"},
	{"unquoted non-ASCII", "Renéé☃;"},
	{"unquoted with invalid bytes", "a\xffb\xc3;"},
	{"pattern argument with escapes", "pattern \"\\d+\\é\\q\";"},
	{"plain statements", "x y; z { w; }"},
	{"nothing", ""},
}

// errorPile writes n statements-worth of invalid escapes in one of several layouts.
func errorPile(r *rand.Rand, n int, layout int) string {
	var sb strings.Builder
	esc := func() string {
		if r.Intn(3) == 0 {
			return "\\" + badEscapes[r.Intn(len(badEscapes))]
		}
		return "\\q"
	}
	switch layout % 4 {
	case 0: // all in one string
		sb.WriteString("description \"")
		for i := 0; i < n; i++ {
			sb.WriteString(esc())
		}
		// the string stays open: the tail continues it
		return sb.String()
	case 1: // one statement each
		for i := 0; i < n; i++ {
			fmt.Fprintf(&sb, "  description \"%s\";\n", esc())
		}
	case 2: // spread over strings of a concatenation and nested blocks
		sb.WriteString("container c {\n")
		for i := 0; i < n; i++ {
			if i%3 == 0 {
				fmt.Fprintf(&sb, " reference \"a%sb\" + \"c\";\n", esc())
			} else {
				fmt.Fprintf(&sb, " leaf l%d { description \"%s%s\"; }\n", i, esc(), strings.Repeat("x", r.Intn(3)))
			}
		}
		sb.WriteString("}\n")
	default: // two per string, multi-line
		for i := 0; i < n; i += 2 {
			if i+1 < n {
				fmt.Fprintf(&sb, "  contact \"line one %s\n     line two %s\";\n", esc(), esc())
			} else {
				fmt.Fprintf(&sb, "  contact \"%s\";\n", esc())
			}
		}
	}
	return sb.String()
}

// errorBudgetText: a module text with n invalid escapes, then the tail, then ordinary statements.
func errorBudgetText(r *rand.Rand, n, layout, tail int) string {
	var sb strings.Builder
	sb.WriteString("module m { namespace \"urn:m\"; prefix m;\n")
	pile := errorPile(r, n, layout)
	sb.WriteString(pile)
	t := errTails[tail%len(errTails)].text
	if layout%4 == 0 {
		// the pile left a string open: continue inside it
		t = strings.TrimPrefix(t, "\"")
		if !strings.Contains(errTails[tail%len(errTails)].text, "\"") {
			t = "\"; " + t
		}
	} else {
		sb.WriteString("  contact ")
	}
	sb.WriteString(t)
	sb.WriteString("\n  leaf after { type string; description \"René\"; }\n}\n")
	return sb.String()
}

// errorPileMutate inserts a pile of 6–12 invalid escapes and a tail into an existing text at a
// statement boundary (or anywhere); what follows in the text is lexed after the limit was hit.
func errorPileMutate(r *rand.Rand, t string) string {
	n := 6 + r.Intn(7)
	layout := 1 + r.Intn(3)
	tail := errTails[r.Intn(len(errTails))].text
	if r.Intn(3) == 0 {
		tail = "\"\\" + nonASCIIEscapes[r.Intn(len(nonASCIIEscapes))] + " tail\";"
	}
	frag := errorPile(r, n, layout) + " contact " + tail + "\n"
	if r.Intn(4) == 0 {
		// everything in one string
		frag = errorPile(r, n, 0) + strings.TrimPrefix(tail, "\"") + "\n"
	}
	var cuts []int
	for i := 0; i < len(t); i++ {
		if t[i] == ';' || t[i] == '{' {
			cuts = append(cuts, i+1)
		}
	}
	pos := 0
	switch {
	case len(cuts) > 0 && r.Intn(5) != 0:
		pos = cuts[r.Intn(len(cuts))]
	case len(t) > 0:
		pos = r.Intn(len(t) + 1)
	}
	return t[:pos] + "\n" + frag + t[pos:]
}
