package main

import (
	"fmt"
	"math/rand"
)

// Faults of module-set structure combined with definitions that share a name: a submodule
// included by a module it does not belong to, a submodule whose owner is absent, identities /
// typedefs / groupings of one name in several (sub)modules (name ties in every sorted closure).

func moduleFiles(fs []*mfile, kw string) []*mfile {
	var out []*mfile
	for _, f := range fs {
		if f.Raw == "" && len(f.Tops) == 1 && f.Tops[0].Kw == kw {
			out = append(out, f)
		}
	}
	return out
}

func prefixOf(top *mnode) string {
	_, _, p := modInfo(site{node: top})
	return p
}

// opIdentityCluster plants a base identity in one module and identities of ONE name derived from
// it (through a prefixed base) in several other modules and submodules, among them — half of the
// time — a submodule that is included by a module it does not belong to.
func opIdentityCluster(r *rand.Rand, fs *[]*mfile) string {
	pick := func(ss ...string) string { return ss[r.Intn(len(ss))] }
	// the base module: an existing module of the set or a new one
	baseName, basePfx := "idb", "ib"
	mods := moduleFiles(*fs, "module")
	if len(mods) > 0 && r.Intn(2) == 0 {
		b := mods[r.Intn(len(mods))]
		baseName = b.Tops[0].Arg
		if p := prefixOf(b.Tops[0]); p != "" {
			basePfx = p
		}
		insertKid(b.Tops[0], -1, st("identity", "root"))
		if r.Intn(3) == 0 {
			insertKid(b.Tops[0], -1, st("identity", "tie", st("base", "root")))
		}
	} else {
		b := st("module", baseName, st("namespace", "urn:"+baseName), st("prefix", basePfx), st("identity", "root"))
		if r.Intn(3) == 0 {
			b.Kids = append(b.Kids, st("identity", "mid", st("base", "root")), st("identity", "tie", st("base", "mid")))
		}
		*fs = append(*fs, &mfile{Name: baseName + ".yang", Tops: []*mnode{b}})
	}
	impPfx := pick(basePfx, "ib2")
	tieName := pick("tie", "tie", "d", "root")
	derived := func() []*mnode {
		out := []*mnode{st("import", baseName, st("prefix", impPfx)), st("identity", tieName, st("base", impPfx+":root"))}
		if r.Intn(3) == 0 {
			out = append(out, st("identity", "sub-"+tieName, st("base", tieName)))
		}
		if r.Intn(3) == 0 {
			out = append(out, st("leaf", "idl", st("type", "identityref", st("base", pick(tieName, impPfx+":root", impPfx+":"+tieName)))))
		}
		if r.Intn(4) == 0 {
			out = append(out, st("typedef", "tie", st("type", "identityref", st("base", impPfx+":root"))), st("grouping", "tie", st("leaf", "x", st("type", "tie"))))
		}
		return out
	}
	// derivers: existing modules / submodules of the set and new modules
	n := 1 + r.Intn(3)
	for i := 0; i < n; i++ {
		all := append(moduleFiles(*fs, "module"), moduleFiles(*fs, "submodule")...)
		if len(all) > 0 && r.Intn(2) == 0 {
			f := all[r.Intn(len(all))]
			if f.Tops[0].Arg == baseName {
				continue
			}
			for _, c := range derived() {
				insertKid(f.Tops[0], -1, c)
			}
		} else {
			name := fmt.Sprintf("idc%d", i)
			m := st("module", name, append([]*mnode{st("namespace", "urn:"+name), st("prefix", name)}, derived()...)...)
			*fs = append(*fs, &mfile{Name: name + ".yang", Tops: []*mnode{m}})
		}
	}
	what := fmt.Sprintf("identities named %s derived from %s:root in several modules", tieName, baseName)
	if r.Intn(2) == 0 {
		// the foreign submodule
		owner := pick("absent-owner", baseName, "fsub", "idc0")
		if len(mods) > 0 && r.Intn(3) == 0 {
			owner = mods[r.Intn(len(mods))].Tops[0].Arg
		}
		sub := st("submodule", "fsub", append([]*mnode{st("belongs-to", owner, st("prefix", "fo"))}, derived()...)...)
		*fs = append(*fs, &mfile{Name: "fsub.yang", Tops: []*mnode{sub}})
		// included by a module it does not belong to
		var includer *mnode
		cands := moduleFiles(*fs, "module")
		if len(cands) > 0 && r.Intn(3) != 0 {
			includer = cands[r.Intn(len(cands))].Tops[0]
		} else {
			includer = st("module", "finc", st("namespace", "urn:finc"), st("prefix", "finc"))
			*fs = append(*fs, &mfile{Name: "finc.yang", Tops: []*mnode{includer}})
		}
		insertKid(includer, 2, st("include", "fsub"))
		what += "; submodule fsub of " + owner + " included by " + includer.Arg
	}
	if r.Intn(2) == 0 {
		r.Shuffle(len(*fs), func(i, j int) { (*fs)[i], (*fs)[j] = (*fs)[j], (*fs)[i] })
	}
	return what
}

// opForeignSubmodule re-points a belongs-to, or drops the owner of a submodule, and lets another
// module of the set include the submodule.
func opForeignSubmodule(r *rand.Rand, fs *[]*mfile) string {
	subs := moduleFiles(*fs, "submodule")
	if len(subs) == 0 {
		return ""
	}
	sub := subs[r.Intn(len(subs))]
	var bt *mnode
	for _, k := range sub.Tops[0].Kids {
		if k.Kw == "belongs-to" {
			bt = k
		}
	}
	if bt == nil {
		return ""
	}
	owner := bt.Arg
	what := ""
	mods := moduleFiles(*fs, "module")
	if r.Intn(2) == 0 {
		// re-point
		to := "absent-owner"
		if len(mods) > 0 && r.Intn(2) == 0 {
			to = mods[r.Intn(len(mods))].Tops[0].Arg
		} else if r.Intn(4) == 0 {
			to = sub.Tops[0].Arg
		}
		bt.Arg = to
		what = "belongs-to of " + sub.Tops[0].Arg + " re-pointed to " + to
	} else {
		// drop the owner
		for i, f := range *fs {
			if f.Raw == "" && len(f.Tops) == 1 && f.Tops[0].Kw == "module" && f.Tops[0].Arg == owner {
				*fs = append((*fs)[:i:i], (*fs)[i+1:]...)
				break
			}
		}
		what = "owner " + owner + " of " + sub.Tops[0].Arg + " dropped"
	}
	// another module includes the submodule
	mods = moduleFiles(*fs, "module")
	if len(mods) > 0 && r.Intn(4) != 0 {
		inc := mods[r.Intn(len(mods))].Tops[0]
		insertKid(inc, 2, st("include", sub.Tops[0].Arg))
		what += ", included by " + inc.Arg
	}
	return what
}

// opShareName gives a definition the name of a definition of the same kind elsewhere in the set
// (another module, submodule or scope): identities, typedefs, groupings, features, extensions,
// data nodes.  For identities the base statements are copied too, so both derive from one base.
func opShareName(r *rand.Rand, fs *[]*mfile) string {
	kinds := []string{"identity", "identity", "typedef", "grouping", "feature", "extension", "container", "leaf", "rpc", "notification"}
	ss := sites(*fs)
	for try := 0; try < 6; try++ {
		kw := kinds[r.Intn(len(kinds))]
		a, ok := pickSite(r, ss, func(s site) bool { return s.node.Kw == kw })
		if !ok {
			continue
		}
		b, ok := pickSite(r, ss, func(s site) bool { return s.node.Kw == kw && s.node != a.node && s.node.Arg != a.node.Arg })
		if !ok {
			continue
		}
		b.node.Arg = a.node.Arg
		if kw == "identity" && r.Intn(2) == 0 {
			// same base, written with the prefix under which b's module knows a's module when a is elsewhere
			for _, k := range a.node.Kids {
				if k.Kw == "base" {
					insertKid(b.node, -1, k.clone())
				}
			}
		}
		return fmt.Sprintf("%s %s now exists twice", kw, a.node.Arg)
	}
	return ""
}
