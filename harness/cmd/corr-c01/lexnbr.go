package main

import (
	"fmt"
	"math/rand"
	"strings"
)

// Lexical neighbourhoods (stream vii, and an operator of the grammar and byte streams).
//
// The lexer walks the text rune by rune with a one-rune look-ahead (next / backup / peek): every
// place where it decides something on an ASCII character - the characters below - is also a place
// where the cursor arithmetic meets whatever stands directly before and after that character.  The
// family puts every such character next to runes of every UTF-8 length, to ill-formed sequences
// (width 1 with the value U+FFFD) and to NUL, in every lexical context: inside / at the start / at
// the end of an unquoted token, in keyword position, in both kinds of quoted string, in both kinds
// of comment, directly after a closing quote, as the first and as the last bytes of the text, and
// in long runs.  A text on which Parse does not return is reported through the time bounds of the
// child (phase "yang.Parse text i" and the stack of the lexer loop), a cursor that leaves the text
// as a panic.

// lexSig: the characters (and the two-character openers made of them) the lexer gives meaning to.
var lexSig = []string{"/", "*", "+", "\"", "'", ";", "{", "}", "\\", " ", "\t", "\r", "\n", "//", "/*", "*/", "\\\"", "\r\n"}

type lexNeighbour struct {
	name string
	s    string
}

// lexNbrCore is run by every tier: one rune of each UTF-8 length, the ill-formed shapes, NUL.
var lexNbrCore = []lexNeighbour{
	{"the 2-byte rune U+00E9", "é"},
	{"the 3-byte rune U+20AC", "€"},
	{"the 4-byte rune U+1D518", "\U0001d518"},
	{"the invalid byte 0xFF", "\xff"},
	{"a truncated 2-byte sequence (0xC3)", "\xc3"},
	{"a truncated 3-byte sequence (0xE2 0x82)", "\xe2\x82"},
	{"NUL", "\x00"},
}

// lexNbrMore: the boundary runes of each length and the remaining ill-formed shapes (thorough tier: all of
// them; quick tier: two of them, chosen by the seed).
var lexNbrMore = []lexNeighbour{
	{"the 2-byte rune U+0080", "\u0080"},
	{"the 2-byte rune U+07FF", "\u07ff"},
	{"the 3-byte rune U+0800", "\u0800"},
	{"the 3-byte rune U+FFFD", "\ufffd"},
	{"the 3-byte rune U+FEFF (byte order mark)", "\ufeff"},
	{"the 3-byte rune U+FFFF", "\uffff"},
	{"the 3-byte rune U+2028 (line separator)", "\u2028"},
	{"the 4-byte rune U+10000", "\U00010000"},
	{"the 4-byte rune U+10FFFF", "\U0010ffff"},
	{"a lone continuation byte (0x80)", "\x80"},
	{"an overlong NUL (0xC0 0x80)", "\xc0\x80"},
	{"an overlong slash (0xC0 0xAF)", "\xc0\xaf"},
	{"an encoded surrogate (0xED 0xA0 0x80)", "\xed\xa0\x80"},
	{"a sequence beyond U+10FFFF (0xF4 0x90 0x80 0x80)", "\xf4\x90\x80\x80"},
	{"a truncated 4-byte sequence (0xF0 0x9F 0x98)", "\xf0\x9f\x98"},
	{"DEL", "\x7f"},
}

func lexNbrAll() []lexNeighbour {
	return append(append([]lexNeighbour{}, lexNbrCore...), lexNbrMore...)
}

var lexArrangements = []string{"directly before", "directly after", "on both sides of"}

// lexCore puts the neighbour n next to the significant character s.
func lexCore(s, n string, arrangement int) string {
	switch arrangement {
	case 0:
		return n + s
	case 1:
		return s + n
	}
	return n + s + n
}

const lexHdr = "module m { namespace urn:m; prefix m; "

// lexContexts: where the core is placed; each gives one text.
var lexContexts = []struct {
	name string
	text func(c string) string
}{
	{"inside an unquoted argument", func(c string) string { return lexHdr + "description ab" + c + "cd; }\n" }},
	{"at the start of an unquoted argument", func(c string) string { return lexHdr + "description " + c + "cd; }\n" }},
	{"at the end of an unquoted argument", func(c string) string { return lexHdr + "description ab" + c + "; }\n" }},
	{"inside an unquoted keyword", func(c string) string { return lexHdr + "ab" + c + "cd x; }\n" }},
	{"twice in a path-like unquoted argument", func(c string) string { return lexHdr + "container c { description a/b" + c + "c/d" + c + "/e; } }" }},
	{"as the first bytes of the text", func(c string) string { return c + lexHdr + "}\n" }},
	{"after the first letter of the text", func(c string) string { return "x" + c + ";" }},
	{"as the whole text", func(c string) string { return c }},
	{"as the last bytes of the text", func(c string) string { return lexHdr + "} " + c }},
	{"as the last bytes of the text, inside an unquoted token", func(c string) string { return lexHdr + "description ab" + c }},
	{"inside a double-quoted string", func(c string) string { return lexHdr + "description \"ab" + c + "cd\"; }\n" }},
	{"inside a single-quoted string", func(c string) string { return lexHdr + "description 'ab" + c + "cd'; }\n" }},
	{"directly after a closing quote", func(c string) string { return lexHdr + "description \"ab\"" + c + "cd; }\n" }},
	{"inside a block comment", func(c string) string { return lexHdr + "/* ab" + c + "cd */ }\n" }},
	{"inside a line comment", func(c string) string { return lexHdr + "// ab" + c + "cd\n }\n" }},
	{"64 times in one unquoted argument", func(c string) string { return lexHdr + "description " + strings.Repeat("a"+c, 64) + "; }\n" }},
	{"200 times, nothing else", func(c string) string { return strings.Repeat(c, 200) }},
}

// lexNeighbourHistories is the deterministic stream vii: significant character x neighbour x
// arrangement x context, one small text per history.
func lexNeighbourHistories(thorough bool, r *rand.Rand) []History {
	nbrs := append([]lexNeighbour{}, lexNbrCore...)
	if thorough {
		nbrs = lexNbrAll()
	} else {
		p := r.Perm(len(lexNbrMore))
		nbrs = append(nbrs, lexNbrMore[p[0]], lexNbrMore[p[1]])
	}
	var out []History
	for _, s := range lexSig {
		for _, n := range nbrs {
			for a := range lexArrangements {
				c := lexCore(s, n.s, a)
				for _, ctx := range lexContexts {
					what := fmt.Sprintf("%s %s %q, %s", n.name, lexArrangements[a], s, ctx.name)
					out = append(out, newHistory(streamNames[streamLex], what, []string{"lex.yang"}, []string{ctx.text(c)}))
				}
			}
		}
	}
	return out
}

// randomLexCore: a significant character with neighbours of the whole table, sometimes two
// different neighbours, sometimes several cores in a row.
func randomLexCore(r *rand.Rand) (core, what string) {
	all := lexNbrAll()
	one := func() (string, string) {
		s := lexSig[r.Intn(len(lexSig))]
		n := all[r.Intn(len(all))]
		switch a := r.Intn(4); a {
		case 3:
			n2 := all[r.Intn(len(all))]
			return n.s + s + n2.s, fmt.Sprintf("%s and %s around %q", n.name, n2.name, s)
		default:
			return lexCore(s, n.s, a), fmt.Sprintf("%s %s %q", n.name, lexArrangements[a], s)
		}
	}
	core, what = one()
	switch r.Intn(6) {
	case 0: // the same several times, letters between
		k := 2 + r.Intn(30)
		core = strings.Repeat(core+"a", k)
		what += fmt.Sprintf(" x%d", k)
	case 1: // two different cores back to back
		c2, w2 := one()
		core += c2
		what += ", then " + w2
	}
	return
}

func isWordByte(c byte) bool {
	return c >= 'a' && c <= 'z' || c >= 'A' && c <= 'Z' || c >= '0' && c <= '9' || c == '-' || c == '_' || c == ':' || c == '.'
}

func isLexSigByte(c byte) bool {
	switch c {
	case '/', '*', '+', '"', '\'', ';', '{', '}', '\\', ' ', '\t', '\r', '\n':
		return true
	}
	return false
}

// lexNeighbourMutate is the byte-level operator: a neighbour next to a significant character that
// is already in the text, a core inside a word of the text (keywords and unquoted arguments are
// words), at its very start or end, or a long run.
func lexNeighbourMutate(r *rand.Rand, t string) (string, string) {
	all := lexNbrAll()
	switch mode := r.Intn(8); {
	case mode <= 2: // beside a significant character of the text
		var idx []int
		for i := 0; i < len(t); i++ {
			if isLexSigByte(t[i]) {
				idx = append(idx, i)
			}
		}
		if len(idx) > 0 {
			p := idx[r.Intn(len(idx))]
			n := all[r.Intn(len(all))]
			a := r.Intn(3)
			var nt string
			switch a {
			case 0:
				nt = t[:p] + n.s + t[p:]
			case 1:
				nt = t[:p+1] + n.s + t[p+1:]
			default:
				nt = t[:p] + n.s + t[p:p+1] + n.s + t[p+1:]
			}
			return nt, fmt.Sprintf("%s %s the %q at byte %d", n.name, lexArrangements[a], t[p:p+1], p)
		}
	case mode <= 5: // inside a word of the text
		var idx []int
		for i := 1; i < len(t); i++ {
			if isWordByte(t[i-1]) && isWordByte(t[i]) {
				idx = append(idx, i)
			}
		}
		if len(idx) > 0 {
			p := idx[r.Intn(len(idx))]
			c, w := randomLexCore(r)
			return t[:p] + c + t[p:], fmt.Sprintf("inside the word at byte %d: %s", p, w)
		}
	case mode == 6: // the first bytes
		c, w := randomLexCore(r)
		if r.Intn(2) == 0 {
			return "x" + c + t, "after a first letter put in front of the text: " + w
		}
		return c + t, "as the first bytes of the text: " + w
	}
	c, w := randomLexCore(r)
	if r.Intn(2) == 0 {
		return t + "ab" + c, "as the last bytes of the text, in an unquoted token: " + w
	}
	return t + c, "as the last bytes of the text: " + w
}

// opLexRawArg is the grammar-level operator: the argument of a statement becomes an unquoted token
// (written as it is, not quoted by the renderer) with a core inside, at its start or at its end.
func opLexRawArg(r *rand.Rand, fs []*mfile) string {
	s, ok := pickSite(r, sites(fs), func(s site) bool { return s.node.HasArg && s.file.Raw == "" })
	if !ok {
		return ""
	}
	word := func(a string) string {
		var sb strings.Builder
		for i := 0; i < len(a) && sb.Len() < 12; i++ {
			if isWordByte(a[i]) {
				sb.WriteByte(a[i])
			}
		}
		if sb.Len() == 0 {
			return "ab"
		}
		return sb.String()
	}
	c, w := randomLexCore(r)
	base := word(s.node.Arg)
	switch r.Intn(4) {
	case 0:
		s.node.Arg = c + base
		w = "at the start: " + w
	case 1:
		s.node.Arg = base + c
		w = "at the end: " + w
	default:
		k := 1 + r.Intn(len(base))
		s.node.Arg = base[:k] + c + base[k:]
		w = fmt.Sprintf("after %d byte(s): %s", k, w)
	}
	s.node.RawArg = true
	return fmt.Sprintf("unquoted argument of %s, %s", s.node.Kw, w)
}
