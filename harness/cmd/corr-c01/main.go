// corr-c01: no input can crash, overflow or hang the loader and resolver.
//
// Histories (sequences of source texts loaded into one Modules value, Process, then read access
// to everything that comes back) are run on the real goyang packages in crash-isolated children
// under a wall-clock bound of 5 s + 2 ms/byte.  A dead child (fatal error: stack overflow, out of
// memory), a panic (recovered in the child and reported) or a timeout is a violation.  Histories
// whose texts all parse and that the Lean resolver model interprets are in addition compared with
// the model (ok / error outcome and error set); the rest is survival-only and counted as such.
package main

import (
	"bufio"
	"encoding/json"
	"fmt"
	"math/rand"
	"os"
	"os/exec"
	"path/filepath"
	"regexp"
	"sort"
	"strings"
	"sync"
	"sync/atomic"
	"time"

	"verif/harness/gen"
	"verif/harness/lib"
)

const (
	streamCorpus = iota
	streamRepo
	streamGrammar
	streamBytes
	streamDeep
	streamRevCycle
	streamDevKinds
	streamLex
)

var streamNames = []string{"i-corpus", "ii-repo-texts", "iii-grammar-mutation", "iv-byte-mutation", "iv-depth-and-error-budget", "v-revision-twins-and-cycles", "vi-deviations-onto-every-kind-and-bracket-paths", "vii-lexical-neighbourhoods"}

// job is one history to run: explicit, or generated from (stream, idx) and the seed.
type job struct {
	stream int
	idx    int
	h      *History
	deep   *deepCase
	amp    bool
}

type deepCase struct {
	kind, depth int
}

// pool of seed sets for the mutation streams
type seedPool struct {
	singles []Seed
	groups  [][]Seed
	trees   map[string][]*mnode // parsed seeds by text
}

func (p *seedPool) filesOf(seeds []Seed) []*mfile {
	var fs []*mfile
	for _, s := range seeds {
		t, ok := p.trees[s.Text]
		if !ok {
			// a seed the generic parser rejects is kept as raw text
			fs = append(fs, &mfile{Name: s.Name, Raw: s.Text})
			continue
		}
		f := &mfile{Name: s.Name}
		for _, x := range t {
			f.Tops = append(f.Tops, x.clone())
		}
		fs = append(fs, f)
	}
	return fs
}

func (p *seedPool) pick(r *rand.Rand) []*mfile {
	switch {
	case len(p.groups) > 0 && r.Intn(3) == 0:
		return p.filesOf(p.groups[r.Intn(len(p.groups))])
	case r.Intn(2) == 0:
		return p.filesOf([]Seed{p.singles[r.Intn(len(p.singles))]})
	default:
		return p.filesOf([]Seed{p.singles[r.Intn(len(p.singles))], p.singles[r.Intn(len(p.singles))]})
	}
}

func genSet(r *rand.Rand) []*mfile {
	cfg := gen.Default()
	if r.Intn(4) == 0 {
		cfg.BadRate = 1.0
	}
	set := gen.Generate(r, cfg)
	names, texts := set.Files()
	var fs []*mfile
	for i := range names {
		t, ok := parseTree(texts[i], names[i])
		if !ok {
			fs = append(fs, &mfile{Name: names[i], Raw: texts[i]})
			continue
		}
		fs = append(fs, &mfile{Name: names[i], Tops: t})
	}
	return fs
}

func historyOf(stream, what string, fs []*mfile) History {
	var names, texts []string
	for _, f := range fs {
		names = append(names, f.Name)
		texts = append(texts, f.text())
	}
	return newHistory(stream, what, names, texts)
}

// makeHistory generates the idx-th history of a mutation stream; every choice comes from the seed.
func makeHistory(f *lib.Flags, pool *seedPool, stream, idx int) (History, []string) {
	r := f.Rand(stream*100000000 + idx)
	var base []*mfile
	origin := "generated set"
	if r.Intn(2) == 0 {
		base = genSet(r)
	} else {
		base = pool.pick(r)
		origin = "repository text"
	}
	var h History
	var ops []string
	// the lexical-neighbourhood operator (lexnbr.go) draws from a generator of its own, so that the
	// histories of the other operators are the same with and without it
	r2 := f.Rand(stream*100000000 + 50000000 + idx)
	switch stream {
	case streamGrammar:
		fs, what, o := mutateSet(r, base)
		ops = o
		if len(fs) == 0 {
			fs = base
		}
		if r2.Intn(6) == 0 {
			if d := opLexRawArg(r2, fs); d != "" {
				what = append(what, d)
				ops = append(ops, "lexical-neighbourhood")
			}
		}
		h = historyOf(streamNames[stream], origin+": "+strings.Join(what, "; "), fs)
	case streamBytes:
		fs := base
		k := r.Intn(len(fs))
		t, o := byteMutate(r, fs[k].text())
		if len(t) == 0 {
			t = "\x00"
		}
		fs[k].Raw = t
		ops = o
		lexWhat := ""
		if r2.Intn(5) == 0 {
			fs[k].Raw, lexWhat = lexNeighbourMutate(r2, fs[k].Raw)
			lexWhat = "; lexical-neighbourhood: " + lexWhat
			ops = append(ops, "lexical-neighbourhood")
		}
		if r.Intn(6) == 0 {
			// a second damaged file
			k2 := r.Intn(len(fs))
			t2, _ := byteMutate(r, fs[k2].text())
			if t2 != "" {
				fs[k2].Raw = t2
			}
		}
		h = historyOf(streamNames[stream], origin+": "+strings.Join(o, ",")+lexWhat, fs)
	}
	if r.Intn(8) == 0 || (hasOp(ops, "include-cycle") && r.Intn(2) == 0) {
		h.IgnoreCircular = true
	}
	if r.Intn(8) == 0 {
		h.IgnoreNotSupported = true
	}
	return h, ops
}

// compareOutcome compares the error records of Process with the model's.  When Go reports a link
// failure (an import or include that cannot be resolved) only "errors vs no errors" is compared:
// what else is reported after a failed link depends on the partially linked state, which the
// identity and type layers leave outside their models.  Everywhere else the full error sets
// (position and class) must be equal.
func compareOutcome(goErrs, modelErrs []string) (same bool, mode string) {
	for _, e := range goErrs {
		if c := errClassOf(e); c == "no-such-module" || c == "no-such-submodule" {
			return len(modelErrs) > 0, "errors-vs-none(link failure)"
		}
	}
	g := append([]string{}, goErrs...)
	m := append([]string{}, modelErrs...)
	sort.Strings(g)
	sort.Strings(m)
	return strings.Join(g, "\n") == strings.Join(m, "\n"), "full error set"
}

func errClassOf(rec string) string {
	if i := strings.LastIndexByte(rec, ':'); i >= 0 {
		return rec[i+1:]
	}
	return rec
}

// clauseOf names the clause of property C01 that a crashed history violates.
func clauseOf(v *Verdict) string {
	switch v.Kind {
	case "panic":
		return "violates C01 'reported through returned errors, never through a panic'"
	case "died":
		if strings.Contains(v.Msg, "stack overflow") || strings.Contains(v.Msg, "stack exceeds") {
			return "violates C01 'never through ... a fatal runtime error, unbounded recursion' (stack overflow: the worker child died; the history was re-run alone to name it)"
		}
		if strings.Contains(v.Msg, "out of memory") {
			return "violates C01 'never through ... a fatal runtime error' (out of memory: the worker child died)"
		}
		return "violates C01 'never through a panic, a fatal runtime error ...' (the worker child died)"
	case "resource":
		return "violates C01 'every call returns in bounded time ... never a hang' (limit of the history exceeded in the worker child)"
	case "timeout":
		return "violates C01 'every call returns in bounded time ... never a hang' (confirmed by a second run alone with four times the bound)"
	}
	return "runner obligation"
}

// knownTag returns the id of a known, not yet repaired finding whose narrow signature matches.
func knownTag(h *History, v *Verdict) string {
	return ""
}

// driver is a Lean driver process that can be killed when it does not answer.
type driver struct {
	path  string
	cmd   *exec.Cmd
	in    *bufio.Writer
	lines chan string
}

func (d *driver) start() error {
	cmd := exec.Command(d.path)
	ip, err := cmd.StdinPipe()
	if err != nil {
		return err
	}
	op, err := cmd.StdoutPipe()
	if err != nil {
		return err
	}
	cmd.Stderr = nil
	if err := cmd.Start(); err != nil {
		return err
	}
	d.cmd = cmd
	d.in = bufio.NewWriterSize(ip, 1<<20)
	d.lines = make(chan string, 1)
	rd := bufio.NewReaderSize(op, 1<<20)
	lines := d.lines
	go func() {
		for {
			s, err := rd.ReadString('\n')
			if s != "" {
				lines <- strings.TrimRight(s, "\n")
			}
			if err != nil {
				close(lines)
				return
			}
		}
	}()
	return nil
}

func (d *driver) stop() {
	if d.cmd != nil {
		d.cmd.Process.Kill()
		d.cmd.Wait()
		d.cmd = nil
	}
}

// ask returns the answer, or ok=false when the driver died or stayed silent for 15 s.
func (d *driver) ask(req string) (string, bool) {
	if d.cmd == nil {
		if err := d.start(); err != nil {
			return "", false
		}
	}
	d.in.WriteString(req + "\n!flush\n")
	if err := d.in.Flush(); err != nil {
		d.stop()
		return "", false
	}
	select {
	case s, ok := <-d.lines:
		if !ok {
			d.stop()
			return "", false
		}
		return s, true
	case <-time.After(15 * time.Second):
		d.stop()
		return "", false
	}
}

type streamStats struct {
	Histories     int64 `json:"histories"`
	Distinct      int64 `json:"distinct"`
	ReachBuilder  int64 `json:"reach_ast_builder"`
	AllParse      int64 `json:"all_texts_parse"`
	SomeAccepted  int64 `json:"some_text_accepted_by_Modules.Parse"`
	ProcessOK     int64 `json:"process_without_errors"`
	ProcessErrors int64 `json:"process_with_errors"`
	Compared      int64 `json:"compared_with_model"`
	SurvivalOnly  int64 `json:"survival_only"`
	Crashes       int64 `json:"crashes"`
	Nodes         int64 `json:"entries_walked"`
}

type agg struct {
	mu         sync.Mutex
	res        *lib.Result
	distinct   *lib.Distinct
	nontriv    *lib.Distinct
	streams    [8]streamStats
	ops        map[string]int64
	whyFuzz    map[string]int64
	errClass   map[string]int64
	crashSeen  map[string]int // de-duplicate reported crashes by site
	driverBad  int64
	maxMicros  int64
	maxPeakMiB int
	maxCPUms   int64
	deepNotes  []string
	ampNotes   []string
	samples    int
	// expensive crashes (dead child, resource limit, confirmed timeout) of the deterministic stream v:
	// past 24 of them the rest of the stream is skipped (each costs seconds; the first ones name the fault)
	costly  int64
	skipped int64
	// hangs: histories that ran into the time bounds (confirmed timeout, processor-time limit).  Each costs
	// 15 s or more; when a change makes a call hang that every history makes (a read-back accessor), all of
	// them would: past 24 the rest of the run is skipped and counted (the first ones name the fault)
	hangs       int64
	hangSkipped int64
	// reflective read-back
	methods     map[string]string
	calls       int64
	sideEntries int64
}

func main() {
	if lib.IsChild() {
		childMain()
		return
	}
	f := lib.ParseFlags()
	emptyDir := filepath.Join(lib.Root(), ".work/c01", fmt.Sprintf("empty-%d", os.Getpid()))
	os.RemoveAll(emptyDir)
	if err := os.MkdirAll(emptyDir, 0o755); err != nil {
		lib.Fatal("%v", err)
	}
	defer os.RemoveAll(emptyDir)
	if f.Replay != "" {
		code := replay(f, emptyDir)
		os.RemoveAll(emptyDir)
		os.Exit(code)
	}
	res := lib.NewResult("C01", f)
	a := &agg{res: res, distinct: lib.NewDistinct(), nontriv: lib.NewDistinct(), ops: map[string]int64{}, whyFuzz: map[string]int64{},
		errClass: map[string]int64{}, crashSeen: map[string]int{}, methods: map[string]string{}}

	// obligation: the model layer contains no `partial` definition (Proto.lean is the I/O loop of
	// the driver executables, not a model function)
	for _, hit := range partialDefs() {
		res.AddDisagreement(lib.Disagreement{Kind: "obligation", Input: hit, Go: "", SpecVerdict: "",
			What: "a `partial` definition in the Lean model layer: totality (bounded recursion) is no longer guaranteed by the kernel: " + hit})
	}

	// ---- input streams, in this order
	var jobs []job
	corpus, err := loadCorpus()
	if err != nil {
		lib.Fatal("corpus: %v", err)
	}
	for i := range corpus {
		jobs = append(jobs, job{stream: streamCorpus, idx: i, h: &corpus[i]})
	}
	files := repoYangFiles()
	snips, groups, err := testSnippets()
	if err != nil {
		lib.Fatal("test snippets: %v", err)
	}
	singles := append(append([]Seed{}, files...), snips...)
	if len(singles) == 0 {
		lib.Fatal("no YANG texts found under %s", repoRoot)
	}
	res.Distribution["repo_yang_files"] = len(files)
	res.Distribution["repo_test_snippets"] = len(snips)
	res.Distribution["repo_test_snippet_groups"] = len(groups)
	k := 0
	addRepo := func(what string, seeds ...Seed) {
		var names, texts []string
		for _, s := range seeds {
			names = append(names, s.Name)
			texts = append(texts, s.Text)
		}
		h := newHistory(streamNames[streamRepo], what, names, texts)
		jobs = append(jobs, job{stream: streamRepo, idx: k, h: &h})
		k++
	}
	for _, s := range singles {
		addRepo("alone: "+s.Origin, s)
	}
	for _, g := range groups {
		addRepo("group: "+g[0].Origin, g...)
		rev := append([]Seed{}, g...)
		for i, j := 0, len(rev)-1; i < j; i, j = i+1, j-1 {
			rev[i], rev[j] = rev[j], rev[i]
		}
		addRepo("group reversed: "+g[0].Origin, rev...)
	}
	// all testdata files together (they import each other), both orders
	addRepo("all .yang files", files...)
	{
		rev := append([]Seed{}, files...)
		for i, j := 0, len(rev)-1; i < j; i, j = i+1, j-1 {
			rev[i], rev[j] = rev[j], rev[i]
		}
		addRepo("all .yang files reversed", rev...)
	}
	nPairs := 2500
	if f.Thorough() {
		nPairs = len(singles) * len(singles)
	}
	if nPairs >= len(singles)*len(singles) {
		for _, x := range singles {
			for _, y := range singles {
				addRepo("pair", x, y)
			}
		}
	} else {
		r := f.Rand(99000001)
		for i := 0; i < nPairs; i++ {
			x, y := singles[r.Intn(len(singles))], singles[r.Intn(len(singles))]
			addRepo("pair", x, y)
		}
	}
	pool := &seedPool{singles: singles, groups: groups, trees: map[string][]*mnode{}}
	for _, s := range singles {
		if t, ok := parseTree(s.Text, s.Name); ok {
			pool.trees[s.Text] = t
		}
	}
	nGrammar, nBytes := 12000, 4500
	if f.Thorough() {
		nGrammar, nBytes = 1400000, 520000
	}
	if v := os.Getenv("VERIF_C01_SCALE"); v != "" {
		var pct int
		fmt.Sscan(v, &pct)
		if pct > 0 {
			nGrammar, nBytes = nGrammar*pct/100, nBytes*pct/100
		}
	}
	// depth and error-budget cases first among the generated ones: they take longest
	depths := []int{10, 100, 1000, 10000}
	for kind := range deepKindNames {
		for _, d := range depths {
			if (kind == 4 || kind == 6) && d > 1000 {
				continue // expansion is quadratic in the chain length: legal but large (DESIGN 7.1, partial scope)
			}
			if kind == 7 && d > 1000 {
				continue
			}
			if kind == 7 && d == 1000 {
				d = 600 // the identity closure is ~O(n^4) on a base chain (identity.go addChildren): bounded, but 10 s at 1000
			}
			if kind == 9 && d > 100 {
				continue // the augment loop is cubic in a reversed chain
			}
			jobs = append(jobs, job{stream: streamDeep, idx: kind*100000 + d, deep: &deepCase{kind, d}})
		}
	}
	for n := 7; n <= 24; n++ {
		r := f.Rand(98000000 + n)
		h := newHistory(streamNames[streamDeep], fmt.Sprintf("%d lexical errors in one file", n), []string{"errs.yang"}, []string{manyErrors(r, n)})
		jobs = append(jobs, job{stream: streamDeep, idx: n, h: &h})
	}
	// revision twins and include / import cycles (deterministic families, see revcycle.go)
	for i, h := range revCycleHistories(f.Thorough()) {
		h := h
		jobs = append(jobs, job{stream: streamRevCycle, idx: i, h: &h})
	}
	// deviations of every property onto every kind of target, bracket shapes in every path argument (devkinds.go)
	for i, h := range devKindsAndBrackets(f.Thorough()) {
		h := h
		jobs = append(jobs, job{stream: streamDevKinds, idx: i, h: &h})
	}
	// lexical neighbourhoods: every significant character beside runes of every width, ill-formed bytes and NUL, in every lexical context (lexnbr.go)
	for i, h := range lexNeighbourHistories(f.Thorough(), f.Rand(96000000)) {
		h := h
		jobs = append(jobs, job{stream: streamLex, idx: i, h: &h})
	}
	// amplifiers: k levels, each referring to the previous one b times, for every kind of reference
	for i, h := range amplifierHistories() {
		h := h
		jobs = append(jobs, job{stream: streamDeep, idx: 2000000 + i, h: &h, amp: true})
	}
	// the lexer's error limit: 7–10 invalid escapes in each layout, then each kind of lexer construct
	for n := 7; n <= 10; n++ {
		for layout := 0; layout < 4; layout++ {
			for tail := range errTails {
				r := f.Rand(97000000 + n*10000 + layout*1000 + tail)
				h := newHistory(streamNames[streamDeep], fmt.Sprintf("%d invalid escapes (layout %d), then: %s", n, layout, errTails[tail].name),
					[]string{"errs.yang"}, []string{errorBudgetText(r, n, layout, tail)})
				jobs = append(jobs, job{stream: streamDeep, idx: 1000000 + n*10000 + layout*1000 + tail, h: &h})
			}
		}
	}
	for i := 0; i < nGrammar; i++ {
		jobs = append(jobs, job{stream: streamGrammar, idx: i})
	}
	for i := 0; i < nBytes; i++ {
		jobs = append(jobs, job{stream: streamBytes, idx: i})
	}

	if only := os.Getenv("VERIF_C01_ONLY"); only == "amp" {
		var keep []job
		for _, j := range jobs {
			if j.amp {
				keep = append(keep, j)
			}
		}
		jobs = keep
	} else if only == "revcycle" || only == "corpus" || only == "devkinds" || only == "lex" {
		var keep []job
		for _, j := range jobs {
			if (only == "revcycle" && j.stream == streamRevCycle) || (only == "corpus" && j.stream == streamCorpus) || (only == "devkinds" && j.stream == streamDevKinds) || (only == "lex" && j.stream == streamLex) {
				keep = append(keep, j)
			}
		}
		jobs = keep
	}
	if only := os.Getenv("VERIF_C01_ONLY"); strings.HasPrefix(only, "stream") {
		// debugging aid: stream0 .. stream7
		var keep []job
		for _, j := range jobs {
			if fmt.Sprintf("stream%d", j.stream) == only {
				keep = append(keep, j)
			}
		}
		jobs = keep
	}
	if dir := os.Getenv("VERIF_C01_DUMP"); dir != "" {
		// debugging aid: write the explicit histories of the selected jobs as replayable files
		os.MkdirAll(dir, 0o755)
		for i, j := range jobs {
			if j.h != nil {
				raw, _ := json.MarshalIndent(j.h, "", " ")
				os.WriteFile(filepath.Join(dir, fmt.Sprintf("%05d.json", i)), raw, 0o644)
			}
		}
	}
	// ---- run
	var next int64 = -1
	var wg sync.WaitGroup
	procs := f.Procs
	if procs < 1 {
		procs = 1
	}
	for p := 0; p < procs; p++ {
		wg.Add(1)
		go func() {
			defer wg.Done()
			w := &isolated{emptyDir: emptyDir}
			defer w.close()
			d := &driver{path: f.Driver}
			defer d.stop()
			for {
				i := atomic.AddInt64(&next, 1)
				if i >= int64(len(jobs)) {
					return
				}
				j := jobs[i]
				if j.stream == streamRevCycle && atomic.LoadInt64(&a.costly) >= 24 {
					atomic.AddInt64(&a.skipped, 1)
					continue
				}
				if atomic.LoadInt64(&a.hangs) >= 24 {
					atomic.AddInt64(&a.hangSkipped, 1)
					continue
				}
				var h History
				var ops []string
				switch {
				case j.h != nil:
					h = *j.h
				case j.deep != nil:
					h = newHistory(streamNames[streamDeep], fmt.Sprintf("%s, depth %d", deepKindNames[j.deep.kind], j.deep.depth),
						[]string{"deep.yang"}, []string{deepText(j.deep.kind, j.deep.depth)})
				default:
					h, ops = makeHistory(f, pool, j.stream, j.idx)
				}
				v := w.run(&h)
				if v.Crashed && v.Kind != "panic" && j.stream == streamRevCycle {
					atomic.AddInt64(&a.costly, 1)
				}
				if v.Crashed && (v.Kind == "timeout" || v.Kind == "resource") {
					atomic.AddInt64(&a.hangs, 1)
				}
				a.evaluate(f, d, j, &h, &v, ops)
			}
		}()
	}
	wg.Wait()

	// ---- evidence
	var total, survival, compared int64
	for s := range a.streams {
		st := a.streams[s]
		total += st.Histories
		survival += st.SurvivalOnly
		compared += st.Compared
		res.Distribution["stream "+streamNames[s]] = st
	}
	res.Evaluations = total
	res.DistinctNontrivial = a.nontriv.Len()
	res.Distribution["distinct_histories"] = a.distinct.Len()
	res.Distribution["compared_with_model"] = compared
	res.Distribution["survival_only(fuzz share)"] = survival
	if total > 0 {
		res.Distribution["fuzz_share_percent"] = float64(survival*1000/total) / 10
	}
	res.Distribution["survival_only_reasons"] = a.whyFuzz
	res.Distribution["mutation_operators"] = a.ops
	res.Distribution["go_error_classes(process)"] = a.errClass
	res.Distribution["lean_driver_failures"] = a.driverBad
	if a.skipped > 0 {
		res.Distribution["stream_v_histories_skipped_after_24_dead_children"] = a.skipped
	}
	if a.hangSkipped > 0 {
		res.Distribution["histories_skipped_after_24_that_ran_into_the_time_bounds"] = a.hangSkipped
	}
	var inv []string
	for k, v := range a.methods {
		inv = append(inv, k+": "+v)
	}
	sort.Strings(inv)
	res.Distribution["readback_accessors(listed by reflection at run time)"] = inv
	res.Distribution["readback_accessor_calls"] = a.calls
	res.Distribution["readback_entries_beside_the_children"] = a.sideEntries
	res.Distribution["max_go_time_ms_of_one_history"] = a.maxMicros / 1000
	res.Distribution["max_cpu_ms_of_one_history"] = a.maxCPUms
	res.Distribution["max_memory_held_mib_of_one_history"] = a.maxPeakMiB
	sort.Strings(a.deepNotes)
	res.Notes = append(res.Notes, a.deepNotes...)
	sort.Strings(a.ampNotes)
	res.Distribution["amplifier_cases"] = a.ampNotes
	res.Notes = append(res.Notes,
		"super-linear families are capped (polynomial time is bounded time; the bound only tells a hang from slow progress): chain of groupings / typedefs 1000, "+
			"chain of identities 600 (resolveIdentities is about O(n^4) on a base chain, identity.go addChildren: 0.3 s at 300, 1.6 s at 600, 10 s at 1000, 132 s at 2000 "+
			"measured on this tree), reversed augment chain 100 (the augment loop is cubic on it)",
		"limits per history, enforced in the crash-isolated child by a watchdog (a history that exceeds one is a `resource` violation with the input as replay): "+
			"processor time 10 s + 1 ms per input byte (user + system time of the child, so independent of machine load), memory held 1 GiB + 4 KiB per input byte "+
			"(runtime.MemStats Sys - HeapReleased, sampled every 25 ms; GOMEMLIMIT=768MiB, address space capped at 4 GiB, max stack 512 MiB); "+
			"in the parent: wall clock "+boundText+" (a timeout is a `hang` violation after a second run with four times the budget; at 90% of the wall budget the child answers by itself with the phase, "+
			"the accessor call under way and the stack of the history's goroutine, so a hang inside Process or inside a read-back call is named); empty working directory",
		"amplifier family (deterministic, in the depth stream): for every kind of reference the library follows, k = 10, 20, 40, 80 levels each referring to the previous level "+
			"b = 2, 3 times, clean and with one fault at the bottom; the measured processor time and memory of every case are listed under distribution.amplifier_cases "+
			"(on the repaired tree all grow polynomially; families whose legal result has b^k nodes run only at levels with b^k <= 5000)",
		"fuzz share: histories outside the modelled domain (a text does not parse, no text accepted, texts above 24 KiB, statements the resolver model does "+
			"not interpret: refine, augment below uses, relative augment paths, posix-pattern, undecodable strings) are checked for survival only",
		"model comparison: full error sets (position, class) of Process; when Go reports a link failure (no-such-module / no-such-submodule) only errors-vs-no-errors, "+
			"because what else is reported after a failed link depends on partially linked state outside the identity/type models")
	res.Rule = "histories = sequences of source texts loaded (errors ignored) into one Modules, Process, ToEntry of every module and submodule, full walk " +
		"(Dir, RPC input/output) calling GetErrors, Path, ReadOnly, Namespace, InstantiatingModule, DefaultValues, Find (own path, bogus, relative), Print, and on every " +
		"resolved type (recursively over union members) Range/Length String and Validate, enum and bit tables; then the read-back by reflection (readback.go): every exported " +
		"method of *Entry, *YangType, *EnumType, *Value, *Statement, the range types and every Node implementer that is reachable from what came back - listed at run time, so a new " +
		"accessor is called without the runner being edited; methods without parameters, and with parameters that are synthesised: Find(path) with the path pool of the entry (own path, " +
		"specials, the bracket shapes [k=1] [ ] ][ ]k[ [[ ]] [] nested and unbalanced after every step, as a step of their own, in front, after the name alone, relative forms), other string " +
		"parameters with the names the receiver holds and strangers, io.Writer (Print, Write), bool, int64 / uint64, the receiver's own type (Equal, Contains, Less); the tree-changing " +
		"methods Augment / ApplyDeviate / FixChoice / Set / SetNext / Sort are on a deny list, index parameters (Less, Swap) are not synthesised; the list of methods met with called / why not " +
		"is in distribution.readback_accessors - on every entry reachable after Process, errors or not: the children and the entries kept beside them (Augments, Augmented, " +
		"Deviations[i].Entry and the entries of their Deviate maps, Uses[i].Grouping, any entry-typed field by reflection), ToEntry of every grouping node of the AST, the AST nodes down to every Value and Statement; " +
		"bounds of the read-back's own work: all accessors on the first 5000 entries of the trees and the first 2500 beside them where the heavy rule holds (depth <= 150, every 500th level, entries without children), " +
		"the whole Find pool on the first 4 + 2 entries and a moving window of it on the others, writers on walk roots up to 40 levels high and on everything up to 2 levels high within 1 MiB of output, 400 types, 8000 entries beside the children; " +
		"a panic in any call names receiver type, method, argument and entry path; " +
		"also yang.Parse alone on every text. Streams in order: corpus/C01 (crash witnesses of DESIGN section 8), every .yang file and every YANG literal of " +
		"pkg/yang/*_test.go alone / as written groups / in pairs, grammar-aware mutation of generated sets and of those texts (incl. numeric boundary arguments " +
		"combined with range/length restrictions and typedef chains, texts that Modules.Parse rejects late after typedef-bearing statements, submodules included by a module they do not belong to or whose owner is " +
		"absent, identities / typedefs / groupings of one name in several (sub)modules derived from one base, and the whole family of schema-node-identifier arguments " +
		"- relative / absolute x unprefixed / own / import / unknown prefix x existing / missing target x ., .., //, trailing /, empty - in refine, augment, uses-augment, " +
		"deviation, leafref path, key, unique, must, when), byte-level mutation, nesting " +
		"depth up to 10^4, amplifier chains (k levels x b references per level for every kind of reference, clean and with one fault at the bottom), 7-24 lexical errors per file, and the lexer's error limit (7-10 invalid escapes in four layouts followed by each kind of lexer construct, " +
		"in particular invalid escapes before multi-byte runes; the same as a byte-level operator on existing texts), and the deterministic stream v (revcycle.go): " +
		"(a) twins - several texts under ONE module or submodule name (revision then unrevisioned, unrevisioned then revision, two revisions ascending / descending, the same text twice, " +
		"three-text mixes) x 14 bodies that need the module's back pointers (typedefs of identityref with local / own-prefix / imported base, prefixed types, unions, leafrefs, prefixed uses, " +
		"augments, deviations, includes, prefixed extensions, unknown prefixes and bases) x importer / includer with and without revision-date; (b) include cycles among submodules and import " +
		"cycles among modules of length 1-4 x revision statements on all / none / some members x includes with / without revision-date (also one asking for an absent revision) x look-ups that " +
		"fail in the owner or inside the cycle (unknown grouping, grouping / typedef / identity of the owner or of the last member used from inside, unknown typedef, unknown identity base, " +
		"unknown extension prefix, names under the prefix of the next member) x IgnoreSubmoduleCircularDependencies off / on; the same two shapes are grammar operators (revision-twin, " +
		"include-cycle) on generated sets and repository texts; the deterministic stream vi (devkinds.go): (a) deviate add / replace / delete of every property (type with typedefs that carry a default of " +
		"every base, through a typedef chain, without default, builtin, unknown; default, two defaults, units, config, mandatory, min-/max-elements, unique, must, all at once) and not-supported, several deviate " +
		"statements in one deviation, from the module itself and from an importing module, onto every kind of target (container, list, leaf, leaf-list, choice, case, implied case, anydata, anyxml, rpc, written and " +
		"absent input / output, notification, action, nodes through uses and augment, key / mandatory / defaulted leaves, a missing node, the root); (b) the bracket shapes at every step position (after a step, " +
		"a step of their own, in front, the whole argument) of the path argument of augment, deviation, uses-augment, refine, leafref path (absolute, relative, in a typedef), key, unique, must, when; the same shapes are in the " +
		"pool of the path-argument grammar operator; the deterministic stream vii (lexnbr.go): every character the lexer gives meaning to (/ * + \" ' ; { } \\ space tab CR LF and the pairs // /* */ \\\" CRLF) with, directly before it / directly after it / on both sides, " +
		"a rune of every UTF-8 length (2, 3, 4 bytes), an invalid byte, truncated sequences and NUL in every tier, plus the boundary runes of each length (U+0080, U+07FF, U+0800, U+FFFD, U+FEFF, U+FFFF, U+2028, U+10000, U+10FFFF), a lone continuation byte, overlong forms, an encoded surrogate, a sequence beyond U+10FFFF, DEL (all in the thorough tier, two chosen by the seed in the quick tier), " +
		"each in 17 lexical contexts, one small text per history: inside / at the start / at the end of an unquoted argument, inside an unquoted keyword, twice in a path-like unquoted argument, as the first bytes of the text, after its first letter, as the whole text, as its last bytes (after a complete module; inside an open unquoted token), inside a double-quoted and a single-quoted string, " +
		"directly after a closing quote, inside a block and a line comment, 64 times in one unquoted argument, 200 times and nothing else; the same neighbourhoods are an operator (lexical-neighbourhood, drawn from a generator of its own so that the other operators' histories are unchanged) on one in six grammar histories (the argument of a statement is written as an unquoted token with such a core " +
		"inside, at its start or its end - the renderer quotes every other argument that needs it) and on one in five byte-level histories (beside a significant character that is in the text, inside a word of the text, at its very start / end, in runs). A history that runs into its time bounds is reported by the child itself (phase, accessor call under way, entry, stack of the history's goroutine) and confirmed by a second run alone in a fresh child; " +
		"past 24 such histories the rest of the run is skipped and counted (a change that makes a read-back accessor hang makes every history hang). A dead child (stack overflow, out of memory) is confirmed by running the history again alone in a fresh child. evaluations = histories run; distinct_nontrivial = distinct histories (by hash of names, texts, " +
		"options) in which at least one text passes the generic parser, i.e. reaches the AST builder"
	res.Write(f.Out)
}

var partialRe = regexp.MustCompile(`(?m)^\s*(private\s+|protected\s+)?partial\s+def\b`)

// partialDefs lists `partial def`s in lean/Goyang/Model (Proto.lean excepted: the stdin loop).
func partialDefs() []string {
	var out []string
	files, _ := filepath.Glob(lib.Root() + "/lean/Goyang/Model/*.lean")
	for _, p := range files {
		if filepath.Base(p) == "Proto.lean" {
			continue
		}
		b, err := os.ReadFile(p)
		if err != nil {
			continue
		}
		for _, loc := range partialRe.FindAllIndex(b, -1) {
			line := 1 + strings.Count(string(b[:loc[0]]), "\n")
			out = append(out, fmt.Sprintf("%s:%d", p, line))
		}
	}
	return out
}

func hasOp(ops []string, name string) bool {
	for _, o := range ops {
		if o == name {
			return true
		}
	}
	return false
}

func anyRejected(acc []bool) bool {
	for _, a := range acc {
		if !a {
			return true
		}
	}
	return false
}

func expectText(h *History) string {
	if h.ExpectClean {
		if h.ExpectRejected {
			return "a text rejected by Modules.Parse and no errors from Process of what was accepted"
		}
		return "no errors from Process"
	}
	switch {
	case h.ExpectErrors && h.ExpectRejected:
		return "errors from Process and a text rejected by Modules.Parse"
	case h.ExpectErrors:
		return "errors from Process"
	}
	return "a text rejected by Modules.Parse"
}

func firstWords(s string, n int) string {
	f := strings.Fields(s)
	if len(f) > n {
		f = f[:n]
	}
	return strings.Join(f, " ")
}

func short(s string, n int) string {
	if len(s) > n {
		return s[:n] + "…"
	}
	return s
}

func firstLine(s string) string {
	if i := strings.IndexByte(s, '\n'); i > 0 {
		return s[:i]
	}
	return s
}

// inputSummary is what the evidence shows of a history (the full history is the replay).
func inputSummary(h *History) map[string]any {
	texts := h.All()
	var heads []string
	for _, t := range texts {
		heads = append(heads, short(fmt.Sprintf("%q", short(t, 400)), 600))
	}
	return map[string]any{"stream": h.Stream, "what": short(h.What, 300), "names": h.Names, "texts": heads, "bytes": h.Bytes()}
}

func (a *agg) evaluate(f *lib.Flags, d *driver, j job, h *History, v *Verdict, ops []string) {
	key := h.Key()
	isNew := a.distinct.Add(key)
	reach := false
	allParse := len(v.Rep.Parsed) > 0
	someAcc := false
	for _, p := range v.Rep.Parsed {
		if p {
			reach = true
		} else {
			allParse = false
		}
	}
	for _, p := range v.Rep.Accepted {
		if p {
			someAcc = true
		}
	}
	// correspondence with the Lean resolver model, where the history is inside its domain
	why := ""
	var modelErrs []string
	compared := false
	if !v.Crashed {
		switch {
		case !allParse:
			why = "a text does not pass the generic parser"
		case j.amp || hasOp(ops, "amplifier") || h.NoModel:
			// the compiled model mirrors the loops of the Go code on lists; the amplifiers are about the
			// resources the Go side takes
			why = "amplifier case (the model is not asked)"
		case j.deep != nil && j.deep.depth > 200:
			// the compiled model mirrors the polynomial-time loops of the Go code on lists (the identity
			// closure takes 38 s at a chain of 400): the depth cases are about the Go side surviving
			why = "depth case above 200 (the model is not asked)"
		case v.Rep.Wire == "":
			if !someAcc {
				why = "no text accepted by Modules.Parse"
			} else {
				why = "texts above 24 KiB"
			}
		default:
			b := func(x bool) string {
				if x {
					return "1"
				}
				return "0"
			}
			ans, ok := d.ask("process " + b(h.IgnoreCircular) + " " + b(h.IgnoreNotSupported) + " " + v.Rep.Wire)
			switch {
			case !ok:
				why = "lean driver failed"
				n := atomic.AddInt64(&a.driverBad, 1)
				if n <= 5 {
					raw, _ := json.Marshal(h)
					os.WriteFile(fmt.Sprintf(lib.Root()+"/.work/c01/driver-fail-%d.json", n), raw, 0o644)
				}
			case strings.HasPrefix(ans, "outsideModel"):
				why = "statement the resolver model does not interpret (" + strings.TrimSpace(strings.TrimPrefix(ans, "outsideModel")) + ")"
			case ans == "bad-op":
				why = "lean driver failed"
				atomic.AddInt64(&a.driverBad, 1)
			default:
				compared = true
				if ans != "" {
					for _, rec := range strings.Split(ans, " ; ") {
						if strings.HasPrefix(rec, "E ") {
							modelErrs = append(modelErrs, rec)
						}
					}
				}
			}
		}
	}

	a.mu.Lock()
	defer a.mu.Unlock()
	st := &a.streams[j.stream]
	st.Histories++
	if isNew {
		st.Distinct++
	}
	if reach {
		st.ReachBuilder++
		a.nontriv.Add(key)
	}
	for _, o := range ops {
		a.ops[o]++
	}
	if v.Crashed {
		st.Crashes++
		site := crashSite(v.Msg)
		sig := v.Kind + " " + site
		if site == "" {
			sig = v.Kind + " " + short(firstLine(v.Msg), 80)
		}
		if v.Kind == "resource" || v.Kind == "timeout" {
			// the message carries measurements: one signature per place it is stuck in, else per family of inputs
			if site != "" {
				sig = "time bound " + site + " " + firstWords(v.Rep.Phase, 2)
			} else {
				sig = v.Kind + " " + strings.SplitN(h.What, ";", 2)[0]
			}
		}
		a.crashSeen[sig]++
		// every crash of the corpus is reported; of the generated streams at most 3 per site
		if j.stream == streamCorpus || a.crashSeen[sig] <= 3 {
			kind := "crash"
			switch v.Kind {
			case "infrastructure":
				kind = "obligation"
			case "resource":
				kind = "resource"
			case "timeout":
				kind = "hang"
			}
			a.res.Disagreements = append(a.res.Disagreements, lib.Disagreement{Kind: kind, Input: inputSummary(h),
				Go: short(v.Msg, 3000), SpecVerdict: "violates", Known: knownTag(h, v),
				What:   fmt.Sprintf("%s: %s (%s) [goyang %s on a %s history: %s]", clauseOf(v), short(firstLine(v.Msg), 420), site, v.Kind, h.Stream, short(h.What, 240)),
				Replay: h})
		}
		n, _ := a.res.Distribution["disagreements_total"].(int)
		a.res.Distribution["disagreements_total"] = n + 1
		return
	}
	if h.ExpectErrors && v.Rep.NErrs == 0 || h.ExpectRejected && !anyRejected(v.Rep.Accepted) || h.ExpectClean && v.Rep.NErrs != 0 {
		n, _ := a.res.Distribution["disagreements_total"].(int)
		a.res.Distribution["disagreements_total"] = n + 1
		a.res.Disagreements = append(a.res.Disagreements, lib.Disagreement{Kind: "spec", Input: inputSummary(h),
			Go: map[string]any{"accepted": v.Rep.Accepted, "process_errors": v.Rep.Errs}, SpecVerdict: "violates",
			What:   "a corpus history is no longer answered as expected (expected: " + expectText(h) + ")",
			Replay: h})
	}
	if allParse {
		st.AllParse++
	}
	if someAcc {
		st.SomeAccepted++
	}
	if v.Rep.NErrs == 0 {
		st.ProcessOK++
	} else {
		st.ProcessErrors++
	}
	st.Nodes += int64(v.Rep.Nodes)
	a.calls += v.Rep.Calls
	a.sideEntries += int64(v.Rep.Side)
	for _, m := range v.Rep.Methods {
		if i := strings.Index(m, ": "); i > 0 {
			a.methods[m[:i]] = m[i+2:]
		}
	}
	for _, e := range v.Rep.Errs {
		a.errClass[errClassOf(e)]++
	}
	if v.Rep.Micros > a.maxMicros {
		a.maxMicros = v.Rep.Micros
	}
	if v.Rep.PeakMiB > a.maxPeakMiB {
		a.maxPeakMiB = v.Rep.PeakMiB
	}
	if v.Rep.CPUms > a.maxCPUms {
		a.maxCPUms = v.Rep.CPUms
	}
	if j.deep != nil {
		a.deepNotes = append(a.deepNotes, fmt.Sprintf("depth case %d (%s) depth %6d: %7d bytes, goyang time %8.1f ms (bound %v), cpu %d ms, memory %d MiB, parsed=%v accepted=%v process errors=%d entries walked=%d",
			j.deep.kind, deepKindNames[j.deep.kind], j.deep.depth, h.Bytes(), float64(v.Rep.Micros)/1000, bound(h), v.Rep.CPUms, v.Rep.PeakMiB, v.Rep.Parsed, v.Rep.Accepted, v.Rep.NErrs, v.Rep.Nodes))
	}
	if j.amp {
		a.ampNotes = append(a.ampNotes, fmt.Sprintf("%s: %d bytes in %d text(s), cpu %d ms, memory %d MiB, process errors=%d, entries walked=%d",
			h.What, h.Bytes(), len(h.Names), v.Rep.CPUms, v.Rep.PeakMiB, v.Rep.NErrs, v.Rep.Nodes))
	}
	for _, n := range v.Rep.Notes {
		// an entry object reachable twice through Dir / RPC is a sharing defect (C04/C06), reported there; here it is only counted
		a.whyFuzz["note: "+short(n, 40)]++
	}
	if !compared {
		st.SurvivalOnly++
		a.whyFuzz[why]++
	} else {
		st.Compared++
		g := append([]string{}, v.Rep.Errs...)
		m := append([]string{}, modelErrs...)
		sort.Strings(g)
		sort.Strings(m)
		same, mode := compareOutcome(g, m)
		a.whyFuzz["compared: "+mode]++
		if !same {
			what := fmt.Sprintf("Process outcome differs from the model (%s): go %d error(s), model %d", mode, len(g), len(m))
			n, _ := a.res.Distribution["disagreements_total"].(int)
			a.res.Distribution["disagreements_total"] = n + 1
			if len(a.res.Disagreements) < 50 {
				a.res.Disagreements = append(a.res.Disagreements, lib.Disagreement{Kind: "correspondence", Input: inputSummary(h), Go: g, Model: m,
					SpecVerdict: "", What: what, Replay: h})
			}
		}
	}
	if a.samples < 8 && isNew && (j.stream != streamRepo || a.samples < 2) && int(st.Histories)%97 == 1 {
		a.samples++
		a.res.Samples = append(a.res.Samples, map[string]any{"history": inputSummary(h), "parsed": v.Rep.Parsed, "accepted": v.Rep.Accepted,
			"process_errors": v.Rep.Errs, "entries_walked": v.Rep.Nodes, "compared_with_model": compared})
	}
}

// replay re-runs exactly the recorded history in a child and prints the crash report head.
func replay(f *lib.Flags, emptyDir string) int {
	raw, err := os.ReadFile(f.Replay)
	if err != nil {
		lib.Fatal("%v", err)
	}
	var p struct {
		Disagreement struct {
			Replay History `json:"replay"`
		} `json:"disagreement"`
	}
	if err := json.Unmarshal(raw, &p); err != nil {
		lib.Fatal("%v", err)
	}
	h := p.Disagreement.Replay
	if len(h.Names) == 0 {
		// a bare history (a corpus file) is accepted as well
		if err := json.Unmarshal(raw, &h); err != nil || len(h.Names) == 0 {
			lib.Fatal("no history in %s", f.Replay)
		}
	}
	for i, t := range h.All() {
		fmt.Printf("--- text %d, loaded as %s (%d bytes)\n%s\n", i, h.Names[i], len(t), short(fmt.Sprintf("%q", t), 4000))
	}
	os.Setenv("VERIF_C01_RAW", "1")
	w := &isolated{emptyDir: emptyDir}
	defer w.close()
	v := w.run(&h)
	if v.Crashed {
		fmt.Printf("goyang: %s after %v\n%s\n", v.Kind, v.Wall.Round(time.Millisecond), short(v.Msg, 6000))
		fmt.Println("crash site:", crashSite(v.Msg))
		return 1
	}
	fmt.Printf("goyang survived (%v): parsed=%v accepted=%v, Process returned %d error(s), %d entries walked\n",
		v.Wall.Round(time.Millisecond), v.Rep.Parsed, v.Rep.Accepted, v.Rep.NErrs, v.Rep.Nodes)
	for _, e := range v.Rep.Errs {
		fmt.Println("  go:   ", e)
	}
	for _, e := range v.Rep.RawErrs {
		fmt.Println("  go message:", e)
	}
	if h.ExpectErrors && v.Rep.NErrs == 0 || h.ExpectRejected && !anyRejected(v.Rep.Accepted) || h.ExpectClean && v.Rep.NErrs != 0 {
		fmt.Println("NOT AS EXPECTED: expected", expectText(&h))
		return 1
	}
	if v.Rep.Wire == "" || f.Driver == "" || h.NoModel {
		fmt.Println("survival-only history (outside the modelled domain)")
		return 0
	}
	d := &driver{path: f.Driver}
	defer d.stop()
	b := func(x bool) string {
		if x {
			return "1"
		}
		return "0"
	}
	ans, ok := d.ask("process " + b(h.IgnoreCircular) + " " + b(h.IgnoreNotSupported) + " " + v.Rep.Wire)
	if !ok {
		fmt.Println("lean driver failed")
		return 2
	}
	if strings.HasPrefix(ans, "outsideModel") {
		fmt.Println("model:", ans, "(survival-only)")
		return 0
	}
	var m []string
	for _, rec := range strings.Split(ans, " ; ") {
		if strings.HasPrefix(rec, "E ") {
			m = append(m, rec)
			fmt.Println("  model:", rec)
		}
	}
	g := append([]string{}, v.Rep.Errs...)
	sort.Strings(g)
	sort.Strings(m)
	same, mode := compareOutcome(g, m)
	fmt.Println("comparison:", mode)
	if !same {
		fmt.Println("DIFFERENT")
		return 1
	}
	fmt.Println("same")
	return 0
}
