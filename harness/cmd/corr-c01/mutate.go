package main

import (
	"fmt"
	"math/rand"
	"strings"

	"github.com/openconfig/goyang/pkg/yang"
)

// mnode is a statement tree the mutators work on.
type mnode struct {
	Kw     string
	Arg    string
	HasArg bool
	Kids   []*mnode
	// RawArg: the argument is written as it is (an unquoted token, whatever bytes it holds) instead of
	// being quoted by the renderer when it needs quoting (lexnbr.go)
	RawArg bool
}

// mfile is one source file of a set under mutation.
type mfile struct {
	Name string
	Tops []*mnode
	// Raw, when not empty, replaces the rendering of Tops (truncated or otherwise damaged text).
	Raw string
}

func fromStatement(s *yang.Statement) *mnode {
	n := &mnode{Kw: s.Keyword, Arg: s.Argument, HasArg: s.HasArgument}
	for _, c := range s.SubStatements() {
		n.Kids = append(n.Kids, fromStatement(c))
	}
	return n
}

// parseTree runs the generic parser on a seed text (parent process: seeds only, never mutants).
func parseTree(text, name string) (tops []*mnode, ok bool) {
	defer func() {
		if recover() != nil {
			tops, ok = nil, false
		}
	}()
	ss, err := yang.Parse(text, name)
	if err != nil {
		return nil, false
	}
	for _, s := range ss {
		tops = append(tops, fromStatement(s))
	}
	return tops, true
}

func (n *mnode) clone() *mnode {
	c := &mnode{Kw: n.Kw, Arg: n.Arg, HasArg: n.HasArg, RawArg: n.RawArg}
	for _, k := range n.Kids {
		c.Kids = append(c.Kids, k.clone())
	}
	return c
}

func cloneFiles(fs []*mfile) []*mfile {
	out := make([]*mfile, len(fs))
	for i, f := range fs {
		nf := &mfile{Name: f.Name, Raw: f.Raw}
		for _, t := range f.Tops {
			nf.Tops = append(nf.Tops, t.clone())
		}
		out[i] = nf
	}
	return out
}

func quoteArg(s string) string {
	plain := s != ""
	for i := 0; i < len(s) && plain; i++ {
		c := s[i]
		if c <= ' ' || c == ';' || c == '{' || c == '}' || c == '"' || c == '\'' || c == '\\' || c == '/' || c == '*' || c == '+' || c >= 0x7f {
			plain = false
		}
	}
	if plain {
		return s
	}
	return `"` + strings.ReplaceAll(strings.ReplaceAll(s, `\`, `\\`), `"`, `\"`) + `"`
}

func (n *mnode) render(sb *strings.Builder, ind string) {
	sb.WriteString(ind)
	sb.WriteString(n.Kw)
	if n.HasArg {
		sb.WriteByte(' ')
		if n.RawArg {
			sb.WriteString(n.Arg)
		} else {
			sb.WriteString(quoteArg(n.Arg))
		}
	}
	if len(n.Kids) == 0 {
		sb.WriteString(";\n")
		return
	}
	sb.WriteString(" {\n")
	for _, c := range n.Kids {
		c.render(sb, ind+" ")
	}
	sb.WriteString(ind + "}\n")
}

func (f *mfile) text() string {
	if f.Raw != "" {
		return f.Raw
	}
	var sb strings.Builder
	for _, t := range f.Tops {
		t.render(&sb, "")
	}
	return sb.String()
}

// site is a node with its parent and index (parent nil for a top-level statement of file).
type site struct {
	file   *mfile
	parent *mnode
	idx    int
	node   *mnode
	path   []*mnode // ancestors, outermost first
}

func sites(fs []*mfile) []site {
	var out []site
	var rec func(f *mfile, p *mnode, path []*mnode)
	rec = func(f *mfile, p *mnode, path []*mnode) {
		np := append(append([]*mnode{}, path...), p)
		for i, c := range p.Kids {
			out = append(out, site{file: f, parent: p, idx: i, node: c, path: np})
			rec(f, c, np)
		}
	}
	for _, f := range fs {
		for i, t := range f.Tops {
			out = append(out, site{file: f, parent: nil, idx: i, node: t})
			rec(f, t, nil)
		}
	}
	return out
}

var yangKeywords = []string{
	"action", "anydata", "anyxml", "argument", "augment", "base", "belongs-to", "bit", "case", "choice", "config",
	"contact", "container", "default", "description", "deviate", "deviation", "enum", "error-app-tag", "error-message",
	"extension", "feature", "fraction-digits", "grouping", "identity", "if-feature", "import", "include", "input", "key",
	"leaf", "leaf-list", "length", "list", "mandatory", "max-elements", "min-elements", "modifier", "module", "must",
	"namespace", "notification", "ordered-by", "organization", "output", "path", "pattern", "position", "prefix",
	"presence", "range", "reference", "refine", "require-instance", "revision", "revision-date", "rpc", "status",
	"submodule", "type", "typedef", "unique", "units", "uses", "value", "when", "yang-version", "yin-element",
	// spellings the builder's reflection could take for something else
	"Name", "Statement", "Parent", "Extensions", "Source", "Kind", "x:ext", "pa:posix-pattern", ":", "a:b:c", "",
}

var boundaryArgs = []string{
	"", "/", "..", ".", "a:b:c", ":", "a:", ":a", "/a:b/../c", "../..", "/..", "//", "/a//b", " ", "@", "m@2020-01-01", "a@",
	"0", "-1", "-0", "18446744073709551615", "18446744073709551616", "-9223372036854775809", "1e3", "0x10", "max", "min",
	"min..max", "1..", "..1", "|", "1|", "..|..", "1..2|2..3", "*/", "/*", "//x", "{", "}", ";", "\"", "'", "\\", "\\n",
	"é☃𝔘", "\x00", "a\x00b", "\xff\xfe", "\xc3", "\xed\xa0\x80", "true", "false", "TRUE", "unbounded", "user", "system",
	"not-supported", "add", "replace", "delete", "current", "input", "output", "/input", "/output", "string", "union",
	"identityref", "leafref", "enumeration", "bits", "decimal64", "empty", "int8", "uint64", "instance-identifier",
	"2020-01-01", "2020-13-45", "0000-00-00", "9999-99-99",
	// path separators: a module name must never be taken for a file path (D59)
	"/dev/zero", "/dev/stdin", "/dev/null", "../../etc/passwd", "/etc/passwd", "a/b", "./x", "/proc/self/environ", "..\\x", "/dev/zero@2020-01-01",
	"/", ".", "/tmp", "/dev/zero.yang",
}

func boundaryArg(r *rand.Rand) string {
	switch r.Intn(12) {
	case 0:
		return strings.Repeat("a", 1<<uint(8+r.Intn(9))) // 256 … 65536
	case 1:
		return strings.Repeat("/a", 1+r.Intn(300))
	case 2:
		return strings.Repeat("../", 1+r.Intn(50)) + "x"
	case 3:
		return strings.Repeat("p:", 1+r.Intn(40)) + "g"
	}
	return boundaryArgs[r.Intn(len(boundaryArgs))]
}

func pickSite(r *rand.Rand, ss []site, pred func(site) bool) (site, bool) {
	var c []int
	for i, s := range ss {
		if pred == nil || pred(s) {
			c = append(c, i)
		}
	}
	if len(c) == 0 {
		return site{}, false
	}
	return ss[c[r.Intn(len(c))]], true
}

func insertKid(p *mnode, at int, c *mnode) {
	if at < 0 || at > len(p.Kids) {
		at = len(p.Kids)
	}
	p.Kids = append(p.Kids, nil)
	copy(p.Kids[at+1:], p.Kids[at:])
	p.Kids[at] = c
}

func removeKid(p *mnode, at int) {
	p.Kids = append(p.Kids[:at:at], p.Kids[at+1:]...)
}

func st(kw, arg string, kids ...*mnode) *mnode {
	return &mnode{Kw: kw, Arg: arg, HasArg: true, Kids: kids}
}
func st0(kw string, kids ...*mnode) *mnode { return &mnode{Kw: kw, Kids: kids} }

// modInfo finds name and prefix of the (sub)module a site belongs to.
func modInfo(s site) (top *mnode, name, prefix string) {
	top = s.node
	if len(s.path) > 0 {
		top = s.path[0]
	}
	name = top.Arg
	for _, k := range top.Kids {
		if k.Kw == "prefix" {
			prefix = k.Arg
		}
		if k.Kw == "belongs-to" {
			for _, kk := range k.Kids {
				if kk.Kw == "prefix" {
					prefix = kk.Arg
				}
			}
		}
	}
	return
}

var dataKw = map[string]bool{"container": true, "list": true, "leaf": true, "leaf-list": true, "choice": true, "case": true,
	"anydata": true, "anyxml": true, "rpc": true, "action": true, "notification": true, "input": true, "output": true}

// schemaPath renders the absolute schema path of a data node site (names of its data-node
// ancestors), each step prefixed with pfx when withPrefix.
func schemaPath(s site, pfx string, withPrefix bool) string {
	var parts []string
	chain := append(append([]*mnode{}, s.path...), s.node)
	for _, n := range chain[1:] {
		if !dataKw[n.Kw] {
			continue
		}
		nm := n.Arg
		if n.Kw == "input" || n.Kw == "output" {
			nm = n.Kw
		}
		if withPrefix && pfx != "" {
			nm = pfx + ":" + nm
		}
		parts = append(parts, nm)
	}
	if len(parts) == 0 {
		return "/"
	}
	return "/" + strings.Join(parts, "/")
}

// mutation operators; each returns a short description or "" when not applicable.
type mutOp func(r *rand.Rand, fs *[]*mfile) string

func opKeywordSwap(r *rand.Rand, fs *[]*mfile) string {
	ss := sites(*fs)
	s, ok := pickSite(r, ss, nil)
	if !ok {
		return ""
	}
	old := s.node.Kw
	if r.Intn(2) == 0 {
		// the keyword of another statement of the set: a legal keyword in the wrong context
		o, _ := pickSite(r, ss, nil)
		s.node.Kw = o.node.Kw
	} else {
		s.node.Kw = yangKeywords[r.Intn(len(yangKeywords))]
	}
	return "keyword " + old + " -> " + s.node.Kw
}

func opDuplicate(r *rand.Rand, fs *[]*mfile) string {
	s, ok := pickSite(r, sites(*fs), func(s site) bool { return s.parent != nil })
	if !ok {
		return ""
	}
	insertKid(s.parent, s.idx+r.Intn(2), s.node.clone())
	return "duplicate " + s.node.Kw
}

func opDelete(r *rand.Rand, fs *[]*mfile) string {
	s, ok := pickSite(r, sites(*fs), func(s site) bool { return s.parent != nil })
	if !ok {
		return ""
	}
	removeKid(s.parent, s.idx)
	return "delete " + s.node.Kw
}

func opMove(r *rand.Rand, fs *[]*mfile) string {
	ss := sites(*fs)
	s, ok := pickSite(r, ss, func(s site) bool { return s.parent != nil })
	if !ok {
		return ""
	}
	inside := map[*mnode]bool{}
	var mark func(n *mnode)
	mark = func(n *mnode) {
		inside[n] = true
		for _, k := range n.Kids {
			mark(k)
		}
	}
	mark(s.node)
	d, ok := pickSite(r, ss, func(x site) bool { return !inside[x.node] })
	if !ok {
		return ""
	}
	removeKid(s.parent, s.idx)
	insertKid(d.node, r.Intn(len(d.node.Kids)+1), s.node)
	return "move " + s.node.Kw + " into " + d.node.Kw
}

func opBoundaryArg(r *rand.Rand, fs *[]*mfile) string {
	s, ok := pickSite(r, sites(*fs), nil)
	if !ok {
		return ""
	}
	a := boundaryArg(r)
	s.node.Arg = a
	s.node.HasArg = r.Intn(20) != 0
	if len(a) > 24 {
		a = a[:24] + "…"
	}
	return fmt.Sprintf("argument of %s := %q", s.node.Kw, a)
}

// opSelfRef plants a reference from a definition to itself or to its parent.
func opSelfRef(r *rand.Rand, fs *[]*mfile) string {
	ss := sites(*fs)
	s, ok := pickSite(r, ss, func(s site) bool {
		switch s.node.Kw {
		case "grouping", "typedef", "identity", "module", "submodule", "container", "list", "leaf", "choice", "rpc",
			"augment", "deviation", "uses", "feature", "extension", "leaf-list", "case", "notification", "action":
			return true
		}
		return false
	})
	if !ok {
		return ""
	}
	top, mname, pfx := modInfo(s)
	n := s.node
	name := n.Arg
	if r.Intn(3) == 0 && pfx != "" {
		name = pfx + ":" + name
	}
	// somewhere inside n
	inner := n
	for len(inner.Kids) > 0 && r.Intn(2) == 0 {
		c := inner.Kids[r.Intn(len(inner.Kids))]
		if c.Kw == "container" || c.Kw == "list" || c.Kw == "grouping" || c.Kw == "case" || c.Kw == "choice" {
			inner = c
		} else {
			break
		}
	}
	switch n.Kw {
	case "grouping":
		insertKid(inner, r.Intn(len(inner.Kids)+1), st("uses", name))
		if r.Intn(2) == 0 && s.parent != nil {
			insertKid(s.parent, -1, st("uses", name))
		}
		return "grouping " + n.Arg + " uses itself"
	case "uses":
		// the grouping it names gets a uses of the grouping the uses sits in (mutual)
		for _, a := range s.path {
			if a.Kw == "grouping" {
				for _, x := range ss {
					if x.node.Kw == "grouping" && x.node.Arg == strings.TrimPrefix(n.Arg, pfx+":") {
						insertKid(x.node, -1, st("uses", a.Arg))
						return "mutual uses " + a.Arg + " <-> " + x.node.Arg
					}
				}
			}
		}
		n.Kids = append(n.Kids, st("augment", "..", st("uses", n.Arg)))
		return "uses with augment of .. using itself"
	case "typedef":
		switch r.Intn(3) {
		case 0:
			n.Kids = []*mnode{st("type", name)}
		case 1:
			n.Kids = []*mnode{st("type", "union", st("type", "string"), st("type", name))}
		default:
			n.Kids = []*mnode{st("type", "leafref", st("path", "../"+n.Arg)), st("default", name)}
		}
		if s.parent != nil {
			insertKid(s.parent, -1, st("leaf", "selfl", st("type", name)))
		}
		return "typedef " + n.Arg + " defined by itself"
	case "identity":
		insertKid(n, -1, st("base", name))
		return "identity " + n.Arg + " based on itself"
	case "feature":
		insertKid(n, -1, st("if-feature", name))
		return "feature depends on itself"
	case "extension":
		insertKid(n, -1, &mnode{Kw: pfx + ":" + n.Arg, Arg: "x", HasArg: true})
		return "extension used in its own definition"
	case "module", "submodule":
		switch r.Intn(5) {
		case 4:
			paths := []string{"/dev/zero", "/dev/stdin", "../../etc/passwd", "/", "/dev/null", "a/b", "/etc/hostname"}
			p := paths[r.Intn(len(paths))]
			if r.Intn(2) == 0 {
				insertKid(n, r.Intn(len(n.Kids)+1), st("import", p, st("prefix", "pth")))
			} else {
				insertKid(n, r.Intn(len(n.Kids)+1), st("include", p))
			}
			return "import / include of a path: " + p
		case 0:
			insertKid(n, r.Intn(len(n.Kids)+1), st("include", mname))
			return "include of itself"
		case 1:
			insertKid(n, r.Intn(len(n.Kids)+1), st("import", mname, st("prefix", pfx)))
			return "import of itself under its own prefix"
		case 2:
			insertKid(n, r.Intn(len(n.Kids)+1), st("import", mname, st("prefix", "self")))
			insertKid(n, -1, st("uses", "self:self:self:g"))
			return "import of itself under another prefix"
		default:
			insertKid(n, -1, st("belongs-to", mname, st("prefix", pfx)))
			return "belongs-to itself"
		}
	case "augment":
		// the augment adds the node its own path names, or augments its own addition
		insertKid(top, -1, st("augment", n.Arg+"/"+pfxd(pfx, "selfc"), st("container", "selfc")))
		insertKid(n, -1, st("container", "selfc"))
		if r.Intn(2) == 0 {
			insertKid(n, -1, st("augment", n.Arg, st("leaf", "q", st("type", "string"))))
		}
		return "augment chained onto its own addition"
	case "deviation":
		insertKid(top, -1, st("deviation", n.Arg, st("deviate", "not-supported")))
		insertKid(top, -1, st("deviation", n.Arg, st("deviate", "replace", st("type", "nosuch"))))
		return "deviation repeated on a removed node"
	default:
		p := schemaPath(s, pfx, r.Intn(4) != 0)
		var parentPath string
		if i := strings.LastIndexByte(p, '/'); i > 0 {
			parentPath = p[:i]
		} else {
			parentPath = "/"
		}
		switch r.Intn(7) {
		case 0:
			insertKid(top, -1, st("augment", p, st("container", n.Arg), st("leaf", "al", st("type", "string"))))
			return "augment of " + p + " adding a node of the same name"
		case 1:
			// an augment placed inside the node it targets
			insertKid(n, -1, st("augment", p, st("leaf", "al", st("type", "string"))))
			return "augment inside its own target " + p
		case 2:
			insertKid(top, -1, st("augment", parentPath, n.clone()))
			return "augment of the parent " + parentPath + " re-adding the node"
		case 3:
			insertKid(top, -1, st("deviation", p, st("deviate", "not-supported")))
			insertKid(top, -1, st("augment", p, st("leaf", "al", st("type", "string"))))
			return "augment of a node removed by deviation " + p
		case 4:
			insertKid(top, -1, st("deviation", p, st("deviate", []string{"add", "replace", "delete"}[r.Intn(3)],
				st("default", "x"), st("min-elements", "2"), st("max-elements", "1"), st("config", "false"), st("mandatory", "true"),
				st("type", name), st("units", "u"))))
			return "deviation with every property on " + p
		case 5:
			insertKid(top, -1, st("deviation", parentPath, st("deviate", "not-supported")))
			insertKid(top, -1, st("deviation", p, st("deviate", "replace", st("type", "string"))))
			return "deviation below a removed parent " + parentPath
		default:
			insertKid(n, -1, st("uses", n.Arg))
			insertKid(n, -1, st("grouping", n.Arg, st("uses", n.Arg), n.clone()))
			return "node containing a grouping of its own name that uses itself"
		}
	}
}

func pfxd(pfx, name string) string {
	if pfx == "" {
		return name
	}
	return pfx + ":" + name
}

func opStripHeader(r *rand.Rand, fs *[]*mfile) string {
	s, ok := pickSite(r, sites(*fs), func(s site) bool {
		return s.parent != nil && len(s.path) == 1 &&
			(s.node.Kw == "namespace" || s.node.Kw == "prefix" || s.node.Kw == "belongs-to" || s.node.Kw == "yang-version")
	})
	if !ok {
		return ""
	}
	if s.node.Kw == "belongs-to" && r.Intn(2) == 0 {
		if r.Intn(2) == 0 {
			s.node.Kids = nil
			return "belongs-to without prefix"
		}
		s.node.Arg = []string{"absent", s.path[0].Arg, "a-s1", "b"}[r.Intn(4)]
		return "belongs-to names " + s.node.Arg
	}
	removeKid(s.parent, s.idx)
	return "module without " + s.node.Kw
}

func opRevisions(r *rand.Rand, fs *[]*mfile) string {
	if len(*fs) == 0 {
		return ""
	}
	f := (*fs)[r.Intn(len(*fs))]
	if len(f.Tops) == 0 {
		return ""
	}
	top := f.Tops[0]
	dates := []string{"2020-01-01", "2019-06-30", "2021-12-31", "2020-01-01", "", "x", "2021-13-45", "9999-99-99", "2020-1-1"}
	k := 1 + r.Intn(4)
	var used []string
	for i := 0; i < k; i++ {
		d := dates[r.Intn(len(dates))]
		used = append(used, d)
		insertKid(top, r.Intn(len(top.Kids)+1), st("revision", d))
	}
	switch r.Intn(3) {
	case 0:
		// a second copy of the file under another revision, loaded before or after
		c := cloneFiles([]*mfile{f})[0]
		c.Name = "rev-" + f.Name
		for _, k := range c.Tops[0].Kids {
			if k.Kw == "revision" {
				k.Arg = dates[r.Intn(len(dates))]
			}
		}
		at := r.Intn(len(*fs) + 1)
		*fs = append((*fs)[:at:at], append([]*mfile{c}, (*fs)[at:]...)...)
	case 1:
		// importers / includers ask for a revision that may not exist
		for _, s := range sites(*fs) {
			if (s.node.Kw == "import" || s.node.Kw == "include") && s.node.Arg == top.Arg {
				insertKid(s.node, -1, st("revision-date", dates[r.Intn(len(dates))]))
			}
		}
	}
	return "revisions " + strings.Join(used, ",")
}

// set-level operators
func opDropFile(r *rand.Rand, fs *[]*mfile) string {
	if len(*fs) < 2 {
		return ""
	}
	at := r.Intn(len(*fs))
	name := (*fs)[at].Name
	*fs = append((*fs)[:at:at], (*fs)[at+1:]...)
	return "without " + name
}

func opSameFileTwice(r *rand.Rand, fs *[]*mfile) string {
	if len(*fs) == 0 {
		return ""
	}
	f := (*fs)[r.Intn(len(*fs))]
	c := cloneFiles([]*mfile{f})[0]
	if r.Intn(2) == 0 {
		c.Name = "again-" + c.Name
	}
	at := r.Intn(len(*fs) + 1)
	*fs = append((*fs)[:at:at], append([]*mfile{c}, (*fs)[at:]...)...)
	return "twice " + f.Name
}

func opShuffle(r *rand.Rand, fs *[]*mfile) string {
	r.Shuffle(len(*fs), func(i, j int) { (*fs)[i], (*fs)[j] = (*fs)[j], (*fs)[i] })
	return "shuffled"
}

// opTruncate cuts one file after its k-th statement boundary (';', '{' or '}').
func opTruncate(r *rand.Rand, fs *[]*mfile) string {
	if len(*fs) == 0 {
		return ""
	}
	f := (*fs)[r.Intn(len(*fs))]
	t := f.text()
	var cuts []int
	for i := 0; i < len(t); i++ {
		if t[i] == ';' || t[i] == '{' || t[i] == '}' {
			cuts = append(cuts, i+1)
		}
	}
	if len(cuts) == 0 {
		return ""
	}
	k := r.Intn(len(cuts))
	f.Raw = t[:cuts[k]]
	if r.Intn(3) == 0 {
		// close what is open so that the prefix is a complete (smaller) module
		depth := strings.Count(f.Raw, "{") - strings.Count(f.Raw, "}")
		if depth > 0 {
			f.Raw += strings.Repeat("}", depth)
		}
	}
	return fmt.Sprintf("%s truncated at boundary %d/%d", f.Name, k, len(cuts))
}

var grammarOps = []struct {
	name   string
	weight int
	op     mutOp
}{
	{"keyword-swap", 14, opKeywordSwap},
	{"duplicate", 8, opDuplicate},
	{"delete", 8, opDelete},
	{"move", 8, opMove},
	{"self-reference", 22, opSelfRef},
	{"boundary-argument", 14, opBoundaryArg},
	{"strip-header", 5, opStripHeader},
	{"revisions", 5, opRevisions},
	{"drop-file", 5, opDropFile},
	{"same-file-twice", 3, opSameFileTwice},
	{"shuffle", 3, opShuffle},
	{"truncate", 5, opTruncate},
	{"numeric-boundary", 16, opNumericBoundary},
	{"rejected-late-text", 12, opRejectedLate},
	{"identity-cluster", 10, opIdentityCluster},
	{"foreign-submodule", 6, opForeignSubmodule},
	{"share-name", 7, opShareName},
	{"amplifier", 4, opAmplifier},
	{"path-argument", 18, opPathArgument},
	{"revision-twin", 9, opRevisionTwin},
	{"include-cycle", 9, opIncludeCycle},
}

// mutateSet applies 1–3 grammar-aware operators to a copy of the set.
func mutateSet(r *rand.Rand, seed []*mfile) (out []*mfile, what []string, ops []string) {
	out = cloneFiles(seed)
	total := 0
	for _, o := range grammarOps {
		total += o.weight
	}
	k := 1 + r.Intn(3)
	for i := 0; i < k; i++ {
		x := r.Intn(total)
		for _, o := range grammarOps {
			if x < o.weight {
				if d := o.op(r, &out); d != "" {
					what = append(what, d)
					ops = append(ops, o.name)
				}
				break
			}
			x -= o.weight
		}
	}
	return
}
