package main

import (
	"fmt"
	"math/rand"
	"strings"
)

// numericBoundaries are the values planted wherever a statement takes a number.
var numericBoundaries = []string{
	"-1", "0", "1", "18", "19", "36", "37", "63", "64", "65", "255", "256", "300",
	"2147483647", "2147483648", "2147483649", "-2147483648", "-2147483649",
	"4294967295", "4294967296", "4294967297",
	"9223372036854775807", "9223372036854775808", "9223372036854775809", "-9223372036854775808", "-9223372036854775809",
	"18446744073709551615", "18446744073709551616", "18446744073709551617", "-18446744073709551615",
	"+5", "0x10", "1_0", " 5 ", "-0", "00", "007", "1e2", "1.5", "0.1", "-0.000000000000000001", ".5", "5.", "--1", "",
	"92233720368547758.07", "-92233720368547758.08", "9223372036854775.807", "3.14159265358979323846264338327950288",
}

func numBoundary(r *rand.Rand) string {
	switch r.Intn(16) {
	case 0:
		return strings.Repeat("9", 20+r.Intn(400))
	case 1:
		return "-" + strings.Repeat("1", 20+r.Intn(100))
	case 2:
		return "0." + strings.Repeat("0", 1+r.Intn(300)) + "5"
	case 3:
		return strings.Repeat("0", 1+r.Intn(300)) + "7"
	case 4:
		// a multiple of 256 plus something: conversions to narrow integer types wrap
		return fmt.Sprint(256*(1+r.Intn(4)) + []int{0, 1, 18, 37, 63, 64, 200}[r.Intn(7)])
	}
	return numericBoundaries[r.Intn(len(numericBoundaries))]
}

// rangeExpr builds a range / length argument out of boundary numbers and the min / max keywords.
func rangeExpr(r *rand.Rand) string {
	end := func() string {
		switch r.Intn(5) {
		case 0:
			return "min"
		case 1:
			return "max"
		}
		return numBoundary(r)
	}
	fixed := []string{"min..max", "min", "max", "max..min", "max..max", "min..min", "min..max|max", "min|max", "0..max|min..0", "..", "|", "min..", "..max",
		"1..2|2..3", "5..1", "1 .. 2 | 4 .. 8", "min..0|0..max", "-1..1", "0|0", "max|min"}
	if r.Intn(3) == 0 {
		return fixed[r.Intn(len(fixed))]
	}
	n := 1 + r.Intn(3)
	var parts []string
	for i := 0; i < n; i++ {
		if r.Intn(3) == 0 {
			parts = append(parts, end())
		} else {
			parts = append(parts, end()+".."+end())
		}
	}
	sep := "|"
	if r.Intn(6) == 0 {
		sep = " | "
	}
	return strings.Join(parts, sep)
}

func dateBoundary(r *rand.Rand) string {
	d := []string{"2020-01-01", "0000-00-00", "9999-99-99", "2020-13-45", "2020-1-1", "20200101", "2020-01-01T00:00:00Z", "-2020-01-01", "2020-02-30",
		"99999-01-01", "2020-01-0", "", "1", "18446744073709551616-01-01", "2020-01-01@", "２０２０-01-01"}
	return d[r.Intn(len(d))]
}

var numericKw = map[string]bool{"fraction-digits": true, "value": true, "position": true, "min-elements": true, "max-elements": true,
	"range": true, "length": true, "revision": true, "revision-date": true}

var intTypes = []string{"int8", "int16", "int32", "int64", "uint8", "uint16", "uint32", "uint64"}

// numericConstruct builds statements (to be placed where data definitions and typedefs are
// allowed) in which boundary numbers meet restrictions: in the same type statement, through a
// chain of typedefs with the restriction on the derived type, and inside union members.
func numericConstruct(r *rand.Rand, tag string) []*mnode {
	dec := func(withRange bool) *mnode {
		t := st("type", "decimal64", st("fraction-digits", numBoundary(r)))
		if withRange {
			t.Kids = append(t.Kids, st("range", rangeExpr(r)))
		}
		if r.Intn(4) == 0 {
			// restriction first
			t.Kids[0], t.Kids[len(t.Kids)-1] = t.Kids[len(t.Kids)-1], t.Kids[0]
		}
		return t
	}
	intT := func() *mnode {
		return st("type", intTypes[r.Intn(len(intTypes))], st("range", rangeExpr(r)))
	}
	strT := func() *mnode {
		k := "string"
		if r.Intn(3) == 0 {
			k = "binary"
		}
		return st("type", k, st("length", rangeExpr(r)))
	}
	enumT := func() *mnode {
		t := st("type", "enumeration")
		for i := 0; i < 1+r.Intn(4); i++ {
			e := st("enum", fmt.Sprintf("e%d", i))
			if r.Intn(3) != 0 {
				e.Kids = append(e.Kids, st("value", numBoundary(r)))
			}
			t.Kids = append(t.Kids, e)
		}
		return t
	}
	bitsT := func() *mnode {
		t := st("type", "bits")
		for i := 0; i < 1+r.Intn(4); i++ {
			b := st("bit", fmt.Sprintf("b%d", i))
			if r.Intn(3) != 0 {
				b.Kids = append(b.Kids, st("position", numBoundary(r)))
			}
			t.Kids = append(t.Kids, b)
		}
		return t
	}
	anyT := func() *mnode {
		switch r.Intn(6) {
		case 0:
			return intT()
		case 1:
			return strT()
		case 2:
			return enumT()
		case 3:
			return bitsT()
		}
		return dec(r.Intn(4) != 0)
	}
	leaf := func(name string, t *mnode) *mnode {
		l := st("leaf", name, t)
		if r.Intn(3) == 0 {
			l.Kids = append(l.Kids, st("default", numBoundary(r)))
		}
		return l
	}
	n := func(s string) string { return s + tag }
	switch r.Intn(8) {
	case 0, 1: // restriction and boundary in the same type statement
		return []*mnode{leaf(n("nl"), dec(true))}
	case 2: // typedef chain, the restriction on the derived type
		base := dec(r.Intn(2) == 0)
		t1 := st("typedef", n("nt1"), base)
		t2 := st("typedef", n("nt2"), st("type", n("nt1"), st("range", rangeExpr(r))))
		if r.Intn(3) == 0 {
			t2.Kids = append(t2.Kids, st("default", numBoundary(r)))
		}
		use := st("type", n("nt2"))
		if r.Intn(2) == 0 {
			use.Kids = append(use.Kids, st("range", rangeExpr(r)))
		}
		out := []*mnode{t1, t2, leaf(n("nl"), use)}
		if r.Intn(2) == 0 {
			out[0], out[1] = out[1], out[0] // derived before base
		}
		return out
	case 3: // the derived type repeats fraction-digits
		t1 := st("typedef", n("nt1"), dec(false))
		use := st("type", n("nt1"), st("fraction-digits", numBoundary(r)), st("range", rangeExpr(r)))
		return []*mnode{t1, leaf(n("nl"), use)}
	case 4: // union members
		u := st("type", "union")
		for i := 0; i < 1+r.Intn(3); i++ {
			u.Kids = append(u.Kids, anyT())
		}
		if r.Intn(2) == 0 {
			return []*mnode{st("typedef", n("nu"), u), leaf(n("nl"), st("type", n("nu")))}
		}
		return []*mnode{leaf(n("nl"), u)}
	case 5: // int / string chains with restriction on the derived type
		var base, use *mnode
		if r.Intn(2) == 0 {
			base = intT()
			use = st("type", n("nt1"), st("range", rangeExpr(r)))
		} else {
			base = strT()
			use = st("type", n("nt1"), st("length", rangeExpr(r)))
		}
		return []*mnode{st("typedef", n("nt1"), base), leaf(n("nl"), use)}
	case 6: // list bounds
		l := st("leaf-list", n("nll"), anyT(), st("min-elements", numBoundary(r)), st("max-elements", numBoundary(r)))
		li := st("list", n("nli"), st("key", "k"), st("leaf", "k", st("type", "string")), st("min-elements", numBoundary(r)), st("max-elements", numBoundary(r)))
		return []*mnode{l, li}
	default:
		return []*mnode{leaf(n("nl"), anyT())}
	}
}

// opNumericBoundary: a number-taking statement of the set gets a boundary value (and its type
// statement a restriction to go with it), or a construct of boundary numbers is planted.
func opNumericBoundary(r *rand.Rand, fs *[]*mfile) string {
	ss := sites(*fs)
	if r.Intn(2) == 0 {
		if s, ok := pickSite(r, ss, func(s site) bool { return numericKw[s.node.Kw] }); ok {
			switch s.node.Kw {
			case "range", "length":
				s.node.Arg = rangeExpr(r)
			case "revision", "revision-date":
				s.node.Arg = dateBoundary(r)
			default:
				s.node.Arg = numBoundary(r)
			}
			what := fmt.Sprintf("%s := %q", s.node.Kw, short(s.node.Arg, 30))
			// in combination with a restriction in the same type statement
			if s.parent != nil && s.parent.Kw == "type" && r.Intn(2) == 0 {
				kw := "range"
				if s.parent.Arg == "string" || s.parent.Arg == "binary" {
					kw = "length"
				}
				has := false
				for _, k := range s.parent.Kids {
					if k.Kw == kw {
						has = true
						if r.Intn(2) == 0 {
							k.Arg = rangeExpr(r)
						}
					}
				}
				if !has {
					insertKid(s.parent, -1, st(kw, rangeExpr(r)))
				}
				what += " with " + kw
			}
			return what
		}
	}
	// plant a construct in a module, container, list, grouping …
	s, ok := pickSite(r, ss, func(s site) bool {
		switch s.node.Kw {
		case "module", "submodule", "container", "list", "grouping", "case", "notification", "input", "output", "augment":
			return true
		}
		return false
	})
	if !ok {
		return ""
	}
	for _, c := range numericConstruct(r, fmt.Sprint(r.Intn(3))) {
		insertKid(s.node, r.Intn(len(s.node.Kids)+1), c)
	}
	return "numeric boundary construct in " + s.node.Kw
}

// ---- texts that Modules.Parse rejects late

// typedefPayload: typedefs whose resolution needs the module context (identities, imports), and
// leaves that use them.
func typedefPayload(r *rand.Rand, ownPfx, impPfx string) []*mnode {
	pick := func(ss ...string) string { return ss[r.Intn(len(ss))] }
	idBase := pick("b-id", "i0", pfxd(ownPfx, "b-id"), pfxd(impPfx, "i0"), pfxd(impPfx, "base-id"), "nosuch:z", pfxd(ownPfx, "nosuch"))
	var t *mnode
	switch r.Intn(10) {
	case 0, 1, 2:
		t = st("type", "identityref", st("base", idBase))
	case 3, 4:
		t = st("type", pfxd(impPfx, pick("str", "t", "u", "v", "foo")))
	case 5:
		t = st("type", pick("nosuch", "some-type", "q:foo", pfxd(ownPfx, "undefined")))
	case 6:
		t = st("type", "union", st("type", "identityref", st("base", idBase)), st("type", pfxd(impPfx, "str")), st("type", "nosuch"))
	case 7:
		t = st("type", "leafref", st("path", pick("../x", "/"+pfxd(impPfx, "c")+"/"+pfxd(impPfx, "l"), "")))
	case 8:
		t = st("type", "rt") // itself
	default:
		t = st("type", "decimal64", st("fraction-digits", numBoundary(r)), st("range", rangeExpr(r)))
	}
	out := []*mnode{st("typedef", "rt", t)}
	if r.Intn(3) != 0 {
		out = append(out, st("leaf", "rl", st("type", "rt")))
	}
	if r.Intn(3) == 0 {
		out = append(out, st("typedef", "rt2", st("type", "rt")), st("leaf", "rl2", st("type", "rt2")))
	}
	if r.Intn(4) == 0 {
		out = append(out, st("identity", "b-id"), st("identity", "d-id", st("base", idBase)))
	}
	return out
}

// holder nests the payload 1–3 levels deep in statements that may hold typedefs.
func holder(r *rand.Rand, payload []*mnode) *mnode {
	kinds := []string{"container", "grouping", "list", "notification", "rpc-input", "choice-case", "augment"}
	cur := payload
	var top *mnode
	for d := 1 + r.Intn(3); d > 0; d-- {
		k := kinds[r.Intn(len(kinds))]
		name := fmt.Sprintf("h%d", d)
		switch k {
		case "list":
			top = st("list", name, append([]*mnode{st("key", "k"), st("leaf", "k", st("type", "string"))}, cur...)...)
		case "rpc-input":
			top = st("rpc", name, st0("input", cur...))
		case "choice-case":
			top = st("choice", name, st("case", name+"c", st("container", name+"cc", cur...)))
		case "augment":
			top = st("augment", "/h1", cur...)
		default:
			top = st(k, name, cur...)
		}
		cur = []*mnode{top}
	}
	return top
}

func renderNodes(ns ...*mnode) string {
	var sb strings.Builder
	for _, n := range ns {
		n.render(&sb, "")
	}
	return sb.String()
}

// opRejectedLate inserts a text that parses but that Modules.Parse rejects after typedef-bearing
// statements have been built — nothing of it may linger — among the texts of the set.
func opRejectedLate(r *rand.Rand, fs *[]*mfile) string {
	// an accepted module of the set to import (and to duplicate)
	var good *mfile
	goodName, goodPfx := "good", "g"
	var cands []*mfile
	for _, f := range *fs {
		if f.Raw == "" && len(f.Tops) == 1 && f.Tops[0].Kw == "module" {
			cands = append(cands, f)
		}
	}
	if len(cands) > 0 {
		good = cands[r.Intn(len(cands))]
		goodName = good.Tops[0].Arg
		_, _, p := modInfo(site{node: good.Tops[0]})
		if p != "" {
			goodPfx = p
		}
	}
	impPfx := goodPfx
	if r.Intn(4) == 0 {
		impPfx = "qq" // a prefix of the import statement that differs from the module's own
	}
	header := func(name, pfx string) []*mnode {
		h := []*mnode{st("namespace", "urn:"+name), st("prefix", pfx)}
		if r.Intn(3) != 0 {
			h = append(h, st("import", goodName, st("prefix", impPfx)))
		}
		if r.Intn(2) == 0 {
			h = append(h, st("identity", "b-id"))
		}
		return h
	}
	rejector := func() *mnode {
		switch r.Intn(7) {
		case 0:
			return st("prefix", "again")
		case 1:
			return st("Parent", "x")
		case 2:
			return st("belongs-to", "x", st("prefix", "y"))
		case 3:
			return st("leaf", "noType")
		case 4:
			return st("container", "bad", st("no-such-statement", "x"))
		case 5:
			return st("import", "noPrefix")
		}
		return &mnode{Kw: "no-such-statement"}
	}
	payload := typedefPayload(r, "b", impPfx)
	var text, what string
	switch r.Intn(8) {
	case 0, 1, 2: // a module rejected for its last statement
		body := header("bad", "b")
		if r.Intn(3) == 0 {
			body = append(body, payload...) // typedefs at module level
		} else {
			body = append(body, holder(r, payload))
		}
		body = append(body, rejector())
		kw := "module"
		if r.Intn(6) == 0 {
			kw = "submodule"
			body = append([]*mnode{st("belongs-to", goodName, st("prefix", "b"))}, body[2:]...)
		}
		text = renderNodes(st(kw, "bad", body...))
		what = "module rejected after a typedef-bearing statement"
	case 3, 4: // a fragment that is not a module
		switch r.Intn(4) {
		case 0:
			text = renderNodes(payload...)
		case 1:
			text = renderNodes(st("grouping", "frag", payload...))
		default:
			text = renderNodes(holder(r, payload))
		}
		what = "top-level fragment with typedefs"
	case 5: // the first module of the text is a duplicate of a loaded one, more follow
		dup := st("module", goodName, st("namespace", "urn:"+goodName), st("prefix", goodPfx))
		if good != nil && r.Intn(2) == 0 {
			dup = good.Tops[0].clone()
		}
		second := st("module", "second", append(header("second", "s"), payload...)...)
		text = renderNodes(dup, second)
		what = "duplicate module followed by a module with typedefs"
	case 6: // a good module with typedefs, then a bad one in the same text
		first := st("module", "first", append(header("first", "f"), holder(r, payload))...)
		bad := st("module", "bad2", st("namespace", "urn:bad2"), st("prefix", "b2"), rejector())
		text = renderNodes(first, bad)
		what = "good module with typedefs and a rejected module in one text"
	default: // two modules of the same name in one text
		a := st("module", "twin", append(header("twin", "t"), holder(r, payload))...)
		b := st("module", "twin", append(header("twin", "t"), payload...)...)
		text = renderNodes(a, b)
		what = "text holding a module twice"
	}
	nf := &mfile{Name: "rejected.yang", Raw: text}
	// before, between or after the other texts; sometimes twice
	at := r.Intn(len(*fs) + 1)
	*fs = append((*fs)[:at:at], append([]*mfile{nf}, (*fs)[at:]...)...)
	if r.Intn(5) == 0 {
		*fs = append(*fs, &mfile{Name: "rejected-again.yang", Raw: text})
	}
	return what
}
