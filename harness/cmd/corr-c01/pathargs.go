package main

import (
	"fmt"
	"math/rand"
	"strings"
)

// Schema node identifiers and paths are an input dimension of their own: every statement whose
// argument names a node (refine, augment, augment below uses, deviation, leafref path, key, unique;
// must / when are XPath) is fed the whole family — relative / absolute × unprefixed / own prefix /
// import prefix / unknown prefix × existing / non-existing target × ".", "..", "../..", "//",
// trailing "/", empty, key predicates and damaged brackets ("[k=1]", "[", "]", "][", "]k[", "[[", "]]",
// nested, unbalanced) at every step position — in particular absolute and prefixed forms where only
// descendant forms are legal (refine, uses-augment, unique, key) and the reverse.  Whatever code interprets such an
// argument, now or in future, meets all of them.

var pathKw = map[string]bool{"refine": true, "augment": true, "deviation": true, "path": true, "key": true, "unique": true, "must": true, "when": true}

// descPaths lists the chains of data-node names below n (up to four steps).
func descPaths(n *mnode, depth int) [][]string {
	var out [][]string
	if depth > 4 {
		return out
	}
	for _, c := range n.Kids {
		if !dataKw[c.Kw] || c.Kw == "input" || c.Kw == "output" {
			if c.Kw == "input" || c.Kw == "output" {
				out = append(out, []string{c.Kw})
				for _, p := range descPaths(c, depth+1) {
					out = append(out, append([]string{c.Kw}, p...))
				}
			}
			continue
		}
		out = append(out, []string{c.Arg})
		for _, p := range descPaths(c, depth+1) {
			out = append(out, append([]string{c.Arg}, p...))
		}
	}
	return out
}

// prefixesOf: own prefix, prefixes of the import statements, and an unknown one.
func prefixesOf(top *mnode) (own string, imports []string) {
	own = prefixOf(top)
	for _, k := range top.Kids {
		if k.Kw == "import" {
			for _, kk := range k.Kids {
				if kk.Kw == "prefix" {
					imports = append(imports, kk.Arg)
				}
			}
		}
	}
	return
}

var pathSpecials = []string{"", "/", ".", "..", "../..", "//", "/.", "/..", "./.", "a//b", "/a//b", "a/", "/a/", "a/./b", "a/../b", "../../../../../..",
	":", ":a", "a:", "/:a", "/a:", "a:b:c", "/a:b:c/d", " ", "a / b", "/ a", "a\tb", "a b", "a|b", "*", "/*", "a/*", "@a", "a[1]", "a[b='c']/d", "a[b=current()/../c]",
	"current()", "current()/..", "deref(../a)/b", "/a[", "a]", "(", "a and b", "1", "-1", "a/0", "\"", "'", "a\x00b", "é/☃", "/é:☃",
	// key predicates and what is left of them when damaged (the whole family is in bracketShapes, readback.go)
	"a[k=1]", "/a[k=1]/b", "[", "]", "][", "a][", "/a][", "a]k[", "/a/b]k[", "[[", "]]", "[]", "a[]", "a[[]", "a[]]", "]][[", "a[k=[1]]", "a[k=1][v=2]/b", "a[k=1", "ak=1]", "a]/[b", "a[/]b"}

// pathForm writes steps as a path in one of the forms of the family.
func pathForm(r *rand.Rand, steps []string, own string, imports []string) string {
	if len(steps) == 0 || r.Intn(9) == 0 {
		return pathSpecials[r.Intn(len(pathSpecials))]
	}
	steps = append([]string{}, steps...)
	if r.Intn(4) == 0 {
		// a target that does not exist: a wrong last, first or middle step
		steps[[]int{0, len(steps) - 1, r.Intn(len(steps))}[r.Intn(3)]] = "nosuch"
	}
	if r.Intn(8) == 0 {
		steps = append(steps, []string{".", "..", "nosuch", ""}[r.Intn(4)])
	}
	pfx := ""
	switch r.Intn(5) {
	case 0:
	case 1, 2:
		pfx = own
	case 3:
		if len(imports) > 0 {
			pfx = imports[r.Intn(len(imports))]
		} else {
			pfx = own
		}
	default:
		pfx = "zz"
	}
	mode := r.Intn(4) // prefix on every step, the first only, the last only, alternating
	var parts []string
	for i, s := range steps {
		p := ""
		if pfx != "" && s != "." && s != ".." && s != "" {
			switch mode {
			case 0:
				p = pfx
			case 1:
				if i == 0 {
					p = pfx
				}
			case 2:
				if i == len(steps)-1 {
					p = pfx
				}
			default:
				if i%2 == 0 {
					p = pfx
				}
			}
		}
		if p != "" {
			s = p + ":" + s
		}
		parts = append(parts, s)
	}
	if r.Intn(5) == 0 {
		// a bracket shape at a step position: after the step, in front of it, or as a step of its own
		sh := bracketShapes[r.Intn(len(bracketShapes))]
		k := r.Intn(len(parts))
		switch r.Intn(4) {
		case 0, 1:
			parts[k] += sh
		case 2:
			parts[k] = sh + parts[k]
		default:
			parts = append(parts[:k:k], append([]string{sh}, parts[k:]...)...)
		}
	}
	out := strings.Join(parts, "/")
	switch r.Intn(8) {
	case 0, 1, 2, 3:
		out = "/" + out // absolute
	case 4:
		out = "../" + out
	case 5:
		out = "./" + out
	}
	switch r.Intn(12) {
	case 0:
		out += "/"
	case 1:
		out = "/" + out
	case 2:
		out = strings.Replace(out, "/", "//", 1)
	}
	return out
}

func refineBody(r *rand.Rand) []*mnode {
	all := []*mnode{st("description", "refined"), st("default", []string{"x", "1", "true"}[r.Intn(3)]), st("config", []string{"true", "false", "maybe"}[r.Intn(3)]),
		st("mandatory", []string{"true", "false", ""}[r.Intn(3)]), st("min-elements", numBoundary(r)), st("max-elements", numBoundary(r)), st("presence", "p"),
		st("must", "../x"), st("if-feature", "f")}
	var out []*mnode
	for _, k := range all {
		if r.Intn(3) == 0 {
			out = append(out, k)
		}
	}
	if len(out) == 0 {
		out = append(out, all[r.Intn(4)])
	}
	return out
}

// opPathArgument gives a path-taking statement a member of the family, or plants such statements
// (refine and augment below a uses; key and unique in a list; leafref path, must and when on a
// leaf; augment and deviation in a module) with paths built from the names that exist.
func opPathArgument(r *rand.Rand, fs *[]*mfile) string {
	ss := sites(*fs)
	groupings := map[string]*mnode{}
	for _, s := range ss {
		if s.node.Kw == "grouping" {
			groupings[s.node.Arg] = s.node
		}
	}
	// the names a path in the context of site s can be built from
	stepsFor := func(s site) []string {
		top, _, _ := modInfo(s)
		var pool [][]string
		if s.node.Kw == "uses" || (s.parent != nil && s.parent.Kw == "uses") {
			u := s.node
			if u.Kw != "uses" {
				u = s.parent
			}
			name := u.Arg
			if i := strings.LastIndexByte(name, ':'); i >= 0 {
				name = name[i+1:]
			}
			if g := groupings[name]; g != nil {
				pool = descPaths(g, 0)
			}
		}
		if len(pool) == 0 || r.Intn(3) == 0 {
			pool = append(pool, descPaths(top, 0)...)
		}
		if len(pool) == 0 {
			return nil
		}
		return pool[r.Intn(len(pool))]
	}
	gen := func(s site) string {
		top, _, _ := modInfo(s)
		own, imps := prefixesOf(top)
		return pathForm(r, stepsFor(s), own, imps)
	}
	if r.Intn(3) == 0 {
		if s, ok := pickSite(r, ss, func(s site) bool { return pathKw[s.node.Kw] }); ok {
			old := s.node.Arg
			s.node.Arg = gen(s)
			if (s.node.Kw == "key" || s.node.Kw == "unique") && r.Intn(2) == 0 {
				s.node.Arg += " " + gen(s)
			}
			return fmt.Sprintf("%s %q -> %q", s.node.Kw, short(old, 30), short(s.node.Arg, 40))
		}
	}
	// plant
	var planted []string
	n := 1 + r.Intn(3)
	for i := 0; i < n; i++ {
		switch r.Intn(10) {
		case 0, 1, 2, 3: // refine below a uses
			if s, ok := pickSite(r, ss, func(s site) bool { return s.node.Kw == "uses" }); ok {
				insertKid(s.node, -1, st("refine", gen(s), refineBody(r)...))
				planted = append(planted, "refine")
			}
		case 4, 5: // augment below a uses
			if s, ok := pickSite(r, ss, func(s site) bool { return s.node.Kw == "uses" }); ok {
				insertKid(s.node, -1, st("augment", gen(s), st("leaf", "pa", st("type", "string"))))
				planted = append(planted, "uses-augment")
			}
		case 6: // key and unique of a list
			if s, ok := pickSite(r, ss, func(s site) bool { return s.node.Kw == "list" }); ok {
				kw := []string{"key", "unique"}[r.Intn(2)]
				arg := gen(s)
				if r.Intn(2) == 0 {
					arg += " " + gen(s)
				}
				replaced := false
				for _, k := range s.node.Kids {
					if k.Kw == kw && r.Intn(2) == 0 {
						k.Arg = arg
						replaced = true
					}
				}
				if !replaced {
					insertKid(s.node, 0, st(kw, arg))
				}
				planted = append(planted, kw)
			}
		case 7: // leafref path, must, when on a leaf
			if s, ok := pickSite(r, ss, func(s site) bool { return s.node.Kw == "leaf" || s.node.Kw == "leaf-list" }); ok {
				switch r.Intn(3) {
				case 0:
					for j, k := range s.node.Kids {
						if k.Kw == "type" {
							s.node.Kids[j] = st("type", "leafref", st("path", gen(s)))
						}
					}
					planted = append(planted, "leafref-path")
				case 1:
					insertKid(s.node, -1, st("must", gen(s)))
					planted = append(planted, "must")
				default:
					insertKid(s.node, -1, st("when", gen(s)))
					planted = append(planted, "when")
				}
			}
		default: // augment / deviation at module level
			if s, ok := pickSite(r, ss, func(s site) bool { return s.node.Kw == "module" || s.node.Kw == "submodule" }); ok {
				if r.Intn(2) == 0 {
					insertKid(s.node, -1, st("augment", gen(s), st("leaf", "pa", st("type", "string"))))
					planted = append(planted, "augment")
				} else {
					insertKid(s.node, -1, st("deviation", gen(s), st("deviate", []string{"not-supported", "add", "replace", "delete"}[r.Intn(4)], st("default", "x"))))
					planted = append(planted, "deviation")
				}
			}
		}
	}
	if len(planted) == 0 {
		return ""
	}
	return "path arguments: " + strings.Join(planted, ",")
}
