package main

import (
	"bufio"
	"bytes"
	"encoding/base64"
	"encoding/json"
	"fmt"
	"os"
	"os/exec"
	"strings"
	"sync"
	"time"
)

// A proc is one crash-isolated worker child (this executable re-run with VERIF_CHILD=1).
type proc struct {
	cmd    *exec.Cmd
	in     *bufio.Writer
	lines  chan string
	stderr *headWriter
}

// headWriter keeps the first 6 KiB written to it: the head of a Go crash report names the fault.
type headWriter struct {
	mu  sync.Mutex
	buf bytes.Buffer
}

func (t *headWriter) Write(p []byte) (int, error) {
	t.mu.Lock()
	defer t.mu.Unlock()
	if t.buf.Len() < 6144 {
		n := 6144 - t.buf.Len()
		if n > len(p) {
			n = len(p)
		}
		t.buf.Write(p[:n])
	}
	return len(p), nil
}

func (t *headWriter) String() string {
	t.mu.Lock()
	defer t.mu.Unlock()
	return t.buf.String()
}

func startProc(emptyDir string) (*proc, error) {
	exe, err := os.Executable()
	if err != nil {
		return nil, err
	}
	cmd := exec.Command(exe)
	cmd.Env = append(os.Environ(), "VERIF_CHILD=1", "GOMEMLIMIT=768MiB", "GOTRACEBACK=single", "VERIF_C01_DIR="+emptyDir)
	cmd.Dir = emptyDir
	ip, err := cmd.StdinPipe()
	if err != nil {
		return nil, err
	}
	op, err := cmd.StdoutPipe()
	if err != nil {
		return nil, err
	}
	p := &proc{cmd: cmd, in: bufio.NewWriterSize(ip, 1<<20), lines: make(chan string, 1), stderr: &headWriter{}}
	cmd.Stderr = p.stderr
	if err := cmd.Start(); err != nil {
		return nil, err
	}
	rd := bufio.NewReaderSize(op, 1<<20)
	go func() {
		for {
			s, err := rd.ReadString('\n')
			if s != "" {
				p.lines <- s
			}
			if err != nil {
				close(p.lines)
				return
			}
		}
	}()
	return p, nil
}

func (p *proc) kill() {
	p.cmd.Process.Kill()
	p.cmd.Wait()
}

// Verdict of one history on the Go side.
type Verdict struct {
	Rep     Report
	Crashed bool
	Kind    string // "panic" | "died" | "timeout" | "infrastructure"
	Msg     string
	Wall    time.Duration
}

// bound is the wall-clock limit of a history: 5 s + 2 ms per byte.  It is the runner's budget for
// telling a hang from slow progress, not part of the property: polynomial time is bounded time, and
// the input families with super-linear cost are capped in size (see the depth cases).
func bound(h *History) time.Duration {
	return 5*time.Second + 2*time.Duration(h.Bytes())*time.Millisecond
}

const boundText = "5 s + 2 ms/byte"

// isolated runs histories one at a time in a child, replacing the child when it dies or hangs.
type isolated struct {
	p        *proc
	emptyDir string
	served   []string // what the current child has answered so far (the last 16), oldest first
	nServed  int
}

func (w *isolated) close() {
	if w.p != nil {
		w.p.in.Flush()
		w.p.kill()
		w.p = nil
	}
}

// run performs h under the bound.  A timeout is confirmed by a second run in a fresh child with
// four times the bound (at least 60 s), so that a machine busy with other work does not turn slow
// progress into a reported hang; the second verdict counts.
func (w *isolated) run(h *History) Verdict {
	before, nBefore := append([]string{}, w.served...), w.nServed
	v := w.runOnce(h, bound(h))
	if v.Crashed && v.Kind == "died" {
		// A fatal runtime error (stack overflow, out of memory, a signal) ends the whole child, which
		// had answered other histories before: the culprit is named by running this history again,
		// alone, in a fresh child.
		b := 4 * bound(h)
		if b < 60*time.Second {
			b = 60 * time.Second
		}
		v2 := w.runOnce(h, b)
		switch {
		case v2.Crashed && (v2.Kind == "died" || v2.Kind == "resource" || v2.Kind == "panic"):
			note := "[confirmed: the history was run a second time, alone in a fresh child, and ended it again (first run: " + short(firstLine(v.Msg), 160) + ")]"
			v2.Msg = firstLine(v2.Msg) + "\n" + note + strings.TrimPrefix(v2.Msg, firstLine(v2.Msg))
			return v2
		case v2.Crashed:
			v.Msg += "\n[second run alone in a fresh child: " + v2.Kind + ": " + firstLine(v2.Msg) + "]"
		default:
			// not reproduced alone: the death depends on what the child had done before
			v.Msg = fmt.Sprintf("the child died while running this history; a fresh child survives it alone, so the death depends on the %d histories the child "+
				"had answered before (the last ones: %s)\n%s", nBefore, strings.Join(before, " | "), v.Msg)
		}
		return v
	}
	if v.Crashed && v.Kind == "timeout" {
		b := 4 * bound(h)
		if b < 60*time.Second {
			b = 60 * time.Second
		}
		v2 := w.runOnce(h, b)
		if !v2.Crashed {
			v2.Rep.Notes = append(v2.Rep.Notes, "slow: answered only within the extended bound")
		} else {
			note := "[confirmed: no answer within " + bound(h).String() + " at first; run a second time, alone in a fresh child, with " + b.String() + ": " + v2.Kind + "]"
			v2.Msg = firstLine(v2.Msg) + "\n" + note + strings.TrimPrefix(v2.Msg, firstLine(v2.Msg))
		}
		return v2
	}
	return v
}

func (w *isolated) runOnce(h *History, b time.Duration) Verdict {
	if w.p == nil {
		p, err := startProc(w.emptyDir)
		if err != nil {
			fmt.Fprintln(os.Stderr, "runner error: cannot start child:", err)
			os.Exit(2)
		}
		w.p = p
		w.served, w.nServed = nil, 0
	}
	defer func() {
		if w.p != nil {
			w.nServed++
			w.served = append(w.served, short(h.What, 80))
			if len(w.served) > 16 {
				w.served = w.served[1:]
			}
		}
	}()
	// the child reports by itself (phase, accessor call, stack) shortly before the parent would give up
	hh := *h
	hh.WallMs = (b - b/10).Milliseconds()
	req, _ := json.Marshal(&hh)
	t0 := time.Now()
	w.p.in.WriteString(base64.StdEncoding.EncodeToString(req))
	w.p.in.WriteByte('\n')
	w.p.in.Flush()
	timer := time.NewTimer(b)
	defer timer.Stop()
	select {
	case line, ok := <-w.p.lines:
		wall := time.Since(t0)
		if !ok {
			w.p.cmd.Wait()
			msg := w.p.stderr.String()
			w.p = nil
			return Verdict{Crashed: true, Kind: "died", Msg: "child died: " + msg, Wall: wall}
		}
		out, _ := base64.StdEncoding.DecodeString(strings.TrimSpace(line))
		var rep Report
		if err := json.Unmarshal(out, &rep); err != nil {
			return Verdict{Crashed: true, Kind: "infrastructure", Msg: "unreadable worker output: " + err.Error(), Wall: wall}
		}
		if rep.Panic != "" {
			return Verdict{Rep: rep, Crashed: true, Kind: "panic", Msg: "panic during " + rep.Phase + ": " + rep.Panic, Wall: wall}
		}
		if rep.Resource != "" {
			// the child has ended itself (or carries an oversized heap): start a fresh one
			w.p.in.Flush()
			w.p.kill()
			w.p = nil
			if rep.Hang {
				return Verdict{Rep: rep, Crashed: true, Kind: "timeout", Msg: "timeout: " + rep.Resource, Wall: wall}
			}
			return Verdict{Rep: rep, Crashed: true, Kind: "resource", Msg: "resource limit exceeded: " + rep.Resource, Wall: wall}
		}
		return Verdict{Rep: rep, Wall: wall}
	case <-timer.C:
		w.p.kill()
		msg := w.p.stderr.String()
		w.p = nil
		return Verdict{Crashed: true, Kind: "timeout", Msg: "timeout: no answer within " + b.String() + " (budget " + boundText + "; a timeout is reported after a second run with four times the budget, at least 60 s) " + msg, Wall: time.Since(t0)}
	}
}
