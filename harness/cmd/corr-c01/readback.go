package main

import (
	"fmt"
	"io"
	"math"
	"reflect"
	"sort"
	"strings"
	"sync/atomic"

	"github.com/openconfig/goyang/pkg/yang"
)

// The read-back phase by reflection.
//
// C01 speaks about "read access to whatever trees or errors come back".  What a consumer can call
// on what comes back is the set of exported methods of the values reachable from the returned
// trees: *Entry, *YangType, *EnumType, *Value, the range types, *Statement and every Node
// implementer.  That set is listed at run time by reflection, so an accessor that is added to the
// library is called without this runner being edited.  Every method whose parameters can be
// synthesised is called on every reachable value:
//
//	no parameters            called
//	string                   Find: the path pool of the entry (own path, specials, bracket shapes at
//	                         every step position, relative forms); other methods: names of the value
//	                         (enum names, identity names) and a few strangers
//	io.Writer                a counting writer (Print, Write)
//	bool                     false, true
//	int64 / uint64           0, 1, -1 / max, and the values the receiver holds
//	the receiver's own type  the receiver, its Root (types), the zero value
//	variadic tail            nothing
//	int (an index)           not called (sort.Interface plumbing: Less / Swap index into the receiver)
//
// Methods that change the schema instead of reading it are on a deny list (below); a method of any
// other name is called.  A panic in any call is a crashing history: the report names the receiver
// type, the method, the argument and the path of the entry.
//
// The values are reached by walking the exported fields of every entry (by reflection as well):
// the children (Dir, RPC input / output: the main walk) and the entries kept beside them
// (Augments, Augmented, Deviations[i].Entry and the entries of their Deviate maps, Uses[i].Grouping,
// whatever field of entry type is added later), the resolved types with their union members and
// roots, the AST nodes (Node, Identities, Exts, Extra) down to every Value, and ToEntry of every
// grouping node of the AST.

// deniedMethods: exported methods that are not read access.
var deniedMethods = map[string]string{
	"*yang.Entry.Augment":      "changes the tree (merges pending augments; Process has called it)",
	"*yang.Entry.ApplyDeviate": "changes the tree (applies deviations; Process has called it)",
	"*yang.Entry.FixChoice":    "changes the tree (inserts implied cases; Process has called it)",
	"*yang.EnumType.Set":       "changes the enumeration table",
	"*yang.EnumType.SetNext":   "changes the enumeration table",
	"yang.YangRange.Sort":      "sorts the range in place",
}

// what is being called, readable from the watchdog goroutine and from the recover handler
var (
	curPlan  atomic.Pointer[methodPlan]
	curArg   atomic.Pointer[string]
	curEntry atomic.Pointer[yang.Entry]
	curPhase atomic.Pointer[string]
)

func setPhase(s string) {
	curPhase.Store(&s)
	curPlan.Store(nil)
	curArg.Store(nil)
	curEntry.Store(nil)
}

func getPhase() string {
	if p := curPhase.Load(); p != nil {
		return *p
	}
	return "start"
}

// describeCall words the call that is under way (empty when none is).
func describeCall() string {
	p := curPlan.Load()
	if p == nil {
		return ""
	}
	s := "(" + p.typ + ")." + p.name + "("
	if a := curArg.Load(); a != nil {
		s += fmt.Sprintf("%q", short(*a, 120))
	}
	s += ")"
	if e := curEntry.Load(); e != nil {
		s += " at entry " + safePath(e)
	}
	return s
}

// safePath is Entry.Path without trusting it (the report is written after a crash).
func safePath(e *yang.Entry) (s string) {
	defer func() {
		if recover() != nil {
			s = "?"
		}
	}()
	var parts []string
	kind, node := e.Kind.String(), fmt.Sprintf("%T", e.Node)
	for n := 0; e != nil && n < 64; n, e = n+1, e.Parent {
		parts = append(parts, e.Name)
	}
	for i, j := 0, len(parts)-1; i < j; i, j = i+1, j-1 {
		parts[i], parts[j] = parts[j], parts[i]
	}
	return "/" + strings.Join(parts, "/") + " (kind " + kind + ", node " + node + ")"
}

type methodPlan struct {
	typ    string
	name   string
	idx    int
	in     []reflect.Type // parameters after the receiver (the variadic tail dropped)
	skip   string         // why it is not called
	writes bool           // takes an io.Writer: its cost grows with what is below the receiver
	// direct calls for the receivers there are most of (entries, statements, values, the small enumerations);
	// every other method is called through reflect.Value.Call
	fast    func(recv any)
	fastStr func(recv any, arg string)
}

// nodeCall: the methods of the Node interface itself are called through the interface.
func nodeCall(name string) func(any) {
	switch name {
	case "Kind":
		return func(r any) { _ = r.(yang.Node).Kind() }
	case "NName":
		return func(r any) { _ = r.(yang.Node).NName() }
	case "Statement":
		return func(r any) { _ = r.(yang.Node).Statement() }
	case "ParentNode":
		return func(r any) { _ = r.(yang.Node).ParentNode() }
	case "Exts":
		return func(r any) { _ = r.(yang.Node).Exts() }
	}
	return nil
}

func (p *methodPlan) label() string { return p.typ + "." + p.name }

var (
	writerType = reflect.TypeOf((*io.Writer)(nil)).Elem()
	errorType  = reflect.TypeOf((*error)(nil)).Elem()
	nodeType   = reflect.TypeOf((*yang.Node)(nil)).Elem()
	entryType  = reflect.TypeOf((*yang.Entry)(nil))
	ytypeType  = reflect.TypeOf((*yang.YangType)(nil))
	stmtType   = reflect.TypeOf((*yang.Statement)(nil))
	modsType   = reflect.TypeOf((*yang.Modules)(nil))
)

const yangPkg = "github.com/openconfig/goyang/pkg/yang"

func inYang(t reflect.Type) bool {
	for t.Kind() == reflect.Ptr {
		t = t.Elem()
	}
	return t.PkgPath() == yangPkg
}

// embedsEntry: a struct that embeds *Entry (DeviatedEntry) has the entry's methods promoted; they
// are called on the embedded entry itself.
func embedsEntry(t reflect.Type) bool {
	for t.Kind() == reflect.Ptr {
		t = t.Elem()
	}
	if t.Kind() != reflect.Struct {
		return false
	}
	for i := 0; i < t.NumField(); i++ {
		if f := t.Field(i); f.Anonymous && f.Type == entryType {
			return true
		}
	}
	return false
}

// countWriter is the io.Writer handed to Print / Write: it counts and drops.
type countWriter struct{ n int64 }

func (c *countWriter) Write(p []byte) (int, error) { c.n += int64(len(p)); return len(p), nil }

// readback holds the state of the reflective read-back of one history.
type readback struct {
	plans    map[reflect.Type][]*methodPlan
	seenPtr  map[uintptr]bool // AST nodes, values, statements, side structs already visited
	out      countWriter
	outLimit int64 // methods that write (their cost grows with the subtree) stop being called past this
	findLeft int   // entries that still get the whole Find pool (~170 paths); the others get a window of it
	findRot  int   // where the window of the next entry starts
	pfxLeft  int   // Find calls that leave an error on the root entry (unknown prefix) still allowed
	calls    int64
	side     []*yang.Entry // entries kept beside the children, still to be walked
	groups   []*yang.Grouping
	ytypes   []*yang.YangType // resolved types found on the AST (Type nodes)
	seenT    map[*yang.YangType]bool
	// inventory of this child process: label -> "called" | skip reason (reported once)
	fresh  []string
	byType map[string]int64 // replay only: calls per receiver type
}

var inventory = map[string]bool{} // labels already reported by this child

func newReadback() *readback {
	return &readback{plans: map[reflect.Type][]*methodPlan{}, seenPtr: map[uintptr]bool{}, seenT: map[*yang.YangType]bool{}, outLimit: 1 << 20, findLeft: 4, pfxLeft: 300}
}

func (rb *readback) plansOf(t reflect.Type) []*methodPlan {
	if p, ok := rb.plans[t]; ok {
		return p
	}
	var out []*methodPlan
	if inYang(t) && t != modsType && !embedsEntry(t) {
		for i := 0; i < t.NumMethod(); i++ {
			m := t.Method(i)
			if m.PkgPath != "" {
				continue // unexported
			}
			p := &methodPlan{typ: t.String(), name: m.Name, idx: i}
			mt := m.Type
			n := mt.NumIn()
			if mt.IsVariadic() {
				n--
			}
			for k := 1; k < n; k++ {
				p.in = append(p.in, mt.In(k))
				if mt.In(k).Kind() == reflect.Interface {
					p.writes = true
				}
			}
			if why, no := deniedMethods[p.label()]; no {
				p.skip = "denied: " + why
			} else {
				for _, pt := range p.in {
					if !synthesisable(pt, t) {
						p.skip = "parameter of type " + pt.String() + " is not synthesised"
					}
				}
			}
			if p.skip == "" {
				p.fast, p.fastStr = fastCall(m.Func.Interface())
				if _, isNodeMethod := nodeType.MethodByName(m.Name); p.fast == nil && isNodeMethod && t.Implements(nodeType) && len(p.in) == 0 {
					p.fast = nodeCall(m.Name)
				}
			}
			out = append(out, p)
			if !inventory[p.label()] {
				inventory[p.label()] = true
				what := "called"
				if p.skip != "" {
					what = p.skip
				}
				rb.fresh = append(rb.fresh, p.label()+": "+what)
			}
		}
	}
	rb.plans[t] = out
	return out
}

// fastCall returns a direct call for a method expression of a known shape (what such a method returns
// needs no reading: strings, booleans, nodes that the walk visits anyway).
func fastCall(f any) (func(any), func(any, string)) {
	switch f := f.(type) {
	case func(*yang.Entry) string:
		return func(r any) { _ = f(r.(*yang.Entry)) }, nil
	case func(*yang.Entry) bool:
		return func(r any) { _ = f(r.(*yang.Entry)) }, nil
	case func(*yang.Entry) []string:
		return func(r any) { _ = f(r.(*yang.Entry)) }, nil
	case func(*yang.Entry) (string, bool):
		return func(r any) { _, _ = f(r.(*yang.Entry)) }, nil
	case func(*yang.Entry, string) *yang.Entry:
		return nil, func(r any, a string) { _ = f(r.(*yang.Entry), a) }
	case func(*yang.Statement) string:
		return func(r any) { _ = f(r.(*yang.Statement)) }, nil
	case func(*yang.Statement) (string, bool):
		return func(r any) { _, _ = f(r.(*yang.Statement)) }, nil
	case func(*yang.Statement) *yang.Statement:
		return func(r any) { _ = f(r.(*yang.Statement)) }, nil
	case func(*yang.Statement) []*yang.Statement:
		return func(r any) { _ = f(r.(*yang.Statement)) }, nil
	case func(*yang.Statement) yang.Node:
		return func(r any) { _ = f(r.(*yang.Statement)) }, nil
	case func(*yang.Value) string:
		return func(r any) { _ = f(r.(*yang.Value)) }, nil
	case func(*yang.Value) *yang.Statement:
		return func(r any) { _ = f(r.(*yang.Value)) }, nil
	case func(*yang.Value) []*yang.Statement:
		return func(r any) { _ = f(r.(*yang.Value)) }, nil
	case func(*yang.Value) yang.Node:
		return func(r any) { _ = f(r.(*yang.Value)) }, nil
	case func(yang.TriState) string:
		return func(r any) { _ = f(r.(yang.TriState)) }, nil
	case func(yang.TriState) bool:
		return func(r any) { _ = f(r.(yang.TriState)) }, nil
	case func(yang.EntryKind) string:
		return func(r any) { _ = f(r.(yang.EntryKind)) }, nil
	}
	return nil, nil
}

func synthesisable(pt, recv reflect.Type) bool {
	switch {
	case pt == recv:
		return true
	case pt.Kind() == reflect.Interface && writerType.Implements(pt) && pt.NumMethod() > 0:
		return true
	case pt.Kind() == reflect.String, pt.Kind() == reflect.Bool, pt.Kind() == reflect.Int64, pt.Kind() == reflect.Uint64:
		return true
	}
	return false
}

// Open defects of the unchanged tree that the read-back met (reported to the coordinator with witness
// and patch); until they are repaired in /repo the calls that run into them are left out, narrowly:
//
//	rootNotModule: (*Entry).Modules asserts that the Node of the root entry is a *Module; the entry of
//	a grouping (ToEntry of a grouping node, Entry.Uses[i].Grouping) and everything below it has a
//	*Grouping there, the entries under Entry.Deviations a *Deviation, pending augments an *Augment:
//	Modules() and InstantiatingModule() panic with an interface conversion, and so does Find with
//	an absolute path whose first step carries a prefix (`m != e.Node.(*Module)`).
var guardRootNotModule = false // repaired in /repo e3294d5 (D69): the calls are made

// rootIsModule reports whether the root entry above e was made from a module node.
func rootIsModule(e *yang.Entry) bool {
	n := 0
	for e.Parent != nil && n < 1<<20 {
		e, n = e.Parent, n+1
	}
	_, ok := e.Node.(*yang.Module)
	return ok
}

// absolutePrefixed: a path that begins with "/" and whose first step has a prefix.
func absolutePrefixed(p string) bool {
	if !strings.HasPrefix(p, "/") {
		return false
	}
	first := strings.SplitN(p[1:], "/", 2)[0]
	return strings.Contains(first, ":")
}

// callCtx is what the arguments of the calls on one receiver are made from.
type callCtx struct {
	entry     *yang.Entry
	find      []string // Find(path)
	names     []string // any other string parameter
	ints      []int64
	same      []reflect.Value // parameters of the receiver's own type (the receiver itself is added)
	noWrite   bool            // methods that write are left out
	onlyWrite bool            // only the methods that write are called
}

var strangerNames = []string{"", "x", "nosuch", "a:b", "][", "\x00"}

// callAll calls every callable exported method of recv.
func (rb *readback) callAll(recv reflect.Value, ctx *callCtx) {
	t := recv.Type()
	plans := rb.plansOf(t)
	if len(plans) == 0 {
		return
	}
	if recv.Kind() == reflect.Ptr && recv.IsNil() {
		return // methods on nil pointers are not read access to something that came back
	}
	if rb.byType != nil {
		c0 := rb.calls
		defer func() { rb.byType[t.String()] += rb.calls - c0 }()
	}
	curEntry.Store(ctx.entry)
	noMods := guardRootNotModule && t == entryType && !rootIsModule(recv.Interface().(*yang.Entry))
	ri := recv.Interface()
	for _, p := range plans {
		if p.skip != "" {
			continue
		}
		if noMods && (p.name == "Modules" || p.name == "InstantiatingModule") {
			continue
		}
		if ctx.onlyWrite && !p.writes {
			continue
		}
		if p.fast != nil {
			curArg.Store(nil)
			curPlan.Store(p)
			rb.calls++
			p.fast(ri)
			continue
		}
		if p.fastStr != nil {
			strs := ctx.names
			if p.name == "Find" && t == entryType {
				strs = ctx.find
			}
			curPlan.Store(p)
			for k := range strs {
				curArg.Store(&strs[k])
				rb.calls++
				p.fastStr(ri, strs[k])
			}
			continue
		}
		m := recv.Method(p.idx)
		if len(p.in) == 0 {
			curArg.Store(nil)
			curPlan.Store(p)
			rb.calls++
			// the common shapes are called directly (reflect.Value.Call costs several allocations); what they
			// return needs no reading
			switch f := m.Interface().(type) {
			case func() string:
				_ = f()
			case func() bool:
				_ = f()
			case func() []string:
				_ = f()
			case func() yang.Node:
				_ = f()
			case func() *yang.Statement:
				_ = f()
			case func() []*yang.Statement:
				_ = f()
			case func() (string, bool):
				_, _ = f()
			default:
				rb.touch(m.Call(nil))
			}
			continue
		}
		// candidates per parameter
		cands := make([][]reflect.Value, len(p.in))
		writes := false
		var strs []string
		for i, pt := range p.in {
			switch {
			case pt == t:
				cands[i] = append(cands[i], recv)
				for _, s := range ctx.same {
					if s.Type() == t {
						cands[i] = append(cands[i], s)
					}
				}
				cands[i] = append(cands[i], reflect.Zero(t))
			case pt.Kind() == reflect.Interface:
				writes = true
				cands[i] = []reflect.Value{reflect.ValueOf(&rb.out)}
			case pt.Kind() == reflect.String:
				if p.name == "Find" && t == entryType {
					strs = ctx.find
					if noMods {
						strs = nil
						for _, f := range ctx.find {
							if !absolutePrefixed(f) {
								strs = append(strs, f)
							}
						}
					}
				} else if len(p.in) > 1 && i > 0 {
					strs = []string{"", " ", "\t// "} // an indent, a separator
				} else {
					strs = append(append([]string{}, ctx.names...), strangerNames...)
				}
				for k := range strs {
					cands[i] = append(cands[i], reflect.ValueOf(strs[k]).Convert(pt))
				}
			case pt.Kind() == reflect.Bool:
				cands[i] = []reflect.Value{reflect.ValueOf(false).Convert(pt), reflect.ValueOf(true).Convert(pt)}
			case pt.Kind() == reflect.Int64:
				for _, v := range append([]int64{0, 1, -1, math.MaxInt64, math.MinInt64}, ctx.ints...) {
					cands[i] = append(cands[i], reflect.ValueOf(v).Convert(pt))
				}
			case pt.Kind() == reflect.Uint64:
				for _, v := range []uint64{0, 1, math.MaxUint64} {
					cands[i] = append(cands[i], reflect.ValueOf(v).Convert(pt))
				}
			}
		}
		if writes && (ctx.noWrite || rb.out.n > rb.outLimit) {
			continue
		}
		// the product of the candidates, at most 1024 calls
		idx := make([]int, len(cands))
		args := make([]reflect.Value, len(cands))
		for n := 0; n < 1024; n++ {
			var sarg *string
			for i := range cands {
				if len(cands[i]) == 0 {
					return
				}
				args[i] = cands[i][idx[i]]
				if sarg == nil && args[i].Kind() == reflect.String {
					s := args[i].String()
					sarg = &s
				}
			}
			curArg.Store(sarg)
			curPlan.Store(p)
			rb.calls++
			rb.touch(m.Call(args))
			k := 0
			for ; k < len(idx); k++ {
				idx[k]++
				if idx[k] < len(cands[k]) {
					break
				}
				idx[k] = 0
			}
			if k == len(idx) {
				break
			}
		}
	}
	curPlan.Store(nil)
	curArg.Store(nil)
}

// touch reads what a call returned: the message of an error, the printed form of a Stringer, the
// methods of a Value.
func (rb *readback) touch(res []reflect.Value) {
	for _, v := range res {
		switch v.Kind() {
		case reflect.Interface, reflect.Ptr, reflect.Map, reflect.Slice:
			if v.IsNil() {
				continue
			}
		}
		if v.Type().Implements(errorType) {
			_ = v.Interface().(error).Error()
			continue
		}
		if v.Kind() == reflect.Slice && v.Type().Elem().Implements(errorType) {
			for i := 0; i < v.Len() && i < 64; i++ {
				if e, ok := v.Index(i).Interface().(error); ok && e != nil {
					_ = e.Error()
				}
			}
			continue
		}
		if v.CanInterface() {
			switch x := v.Interface().(type) {
			case *yang.Value:
				rb.node(x, 0)
			case *yang.Entry, *yang.Modules:
			case fmt.Stringer:
				_ = x.String()
			}
		}
	}
}

// ---------------------------------------------------------------------------------------------
// entries

// bracketShapes: key predicates and what is left of them when they are damaged.  Schema node
// identifiers carry no predicates, leafref paths and instance identifiers do; code that strips or
// skips them meets every balanced, unbalanced, reversed and nested form.
var bracketShapes = []string{"[k=1]", "[bk:k='x']", "[", "]", "][", "]k[", "[[", "]]", "[]", "[]]", "[[]", "]][[", "[k=[1]]", "[k=1][v=2]", "[k=1", "k=1]", "]/[", "[/]"}

var findSpecials = []string{"/", ".", "..", "../..", "//", "/.", "/..", "a//b", "a/", "/a/", ":", ":a", "a:", "a:b:c", " ", "a b", "*", "/*",
	"a[1]", "a[b='c']/d", "a[b=current()/../c]", "current()/..", "deref(../a)/b", "/a[", "a]", "x][", "/x][", "x]k[", "][", "]", "[", "(", "\"", "a\x00b", "é/☃",
	"input", "output", "input/zz", "/input", "input][", "output]k["}

// The family of paths Entry.Find is called with on e (member i of poolSize, built on demand): the
// specials; the bracket shapes at every step position of the own path (after each of the first and
// last three steps, as a step of their own before the last step, in front of everything), after the
// entry's name alone, after "../name" and after "."; relative forms through the first children; and
// a few with an unknown prefix (those leave an error on the root entry, so their number per history
// is bounded).
const poolVariants = 11

type pathPool struct {
	e     *yang.Entry
	own   string
	steps []string
	pos   []int
	kids  []string
	pfx   bool
}

func (rb *readback) newPool(e *yang.Entry, own string) *pathPool {
	p := &pathPool{e: e, own: own, steps: strings.Split(strings.TrimPrefix(own, "/"), "/")}
	for i := range p.steps {
		if i < 3 || i >= len(p.steps)-3 {
			p.pos = append(p.pos, i)
		}
	}
	p.kids = sortedDirKeys(e, 2)
	if rb.pfxLeft > 0 {
		rb.pfxLeft -= 4
		p.pfx = true
	}
	return p
}

func (p *pathPool) size() int {
	n := 1 + len(findSpecials) + len(bracketShapes)*poolVariants + 5*len(p.kids)
	if p.pfx {
		n += 4
	}
	return n
}

func (p *pathPool) at(i int) string {
	if i == 0 {
		return p.own
	}
	i--
	if i < len(findSpecials) {
		return findSpecials[i]
	}
	i -= len(findSpecials)
	if i < len(bracketShapes)*poolVariants {
		sh, v := bracketShapes[i/poolVariants], i%poolVariants
		last := len(p.steps) - 1
		switch {
		case v < 6:
			k := p.pos[v%len(p.pos)]
			c := append([]string{}, p.steps...)
			c[k] += sh
			return "/" + strings.Join(c, "/")
		case v == 6:
			c := append(append(append([]string{}, p.steps[:last]...), sh), p.steps[last])
			return "/" + strings.Join(c, "/")
		case v == 7:
			return sh + p.own
		case v == 8:
			return p.e.Name + sh
		case v == 9:
			return "../" + p.e.Name + sh
		}
		return "." + sh
	}
	i -= len(bracketShapes) * poolVariants
	if i < 5*len(p.kids) {
		k := p.kids[i/5]
		return []string{k, k + "/..", k + "][", k + "[k=1]", k + "]k[/" + k}[i%5]
	}
	i -= 5 * len(p.kids)
	return []string{"/zz:" + p.steps[0], "/zz:a][", "/][:a", "/zz:" + strings.Join(p.steps, "/zz:")}[i%4]
}

func sortedDirKeys(e *yang.Entry, max int) []string {
	var ks []string
	for k := range e.Dir {
		ks = append(ks, k)
	}
	sort.Strings(ks)
	if len(ks) > max {
		ks = ks[:max]
	}
	return ks
}

// writeHeight: the methods that write (Print, Write) print what is below the receiver, through one
// indenting writer per level, so a call costs (lines below) x (levels below).  They are called (on the
// way back up, when the height is known, and while the output budget lasts) on the roots of the walks
// - module entries, grouping entries, deviation entries, top-level statements - when at most
// writeHeight levels are below them, and on every entry / statement with at most writeLowHeight
// levels below it; the roots of deep trees are printed by the caller from 400 levels above the
// deepest node.
const writeHeight = 40
const writeLowHeight = 2

// entryWriters calls the methods of e that write.
func (rb *readback) entryWriters(e *yang.Entry) {
	if rb.out.n > rb.outLimit {
		return
	}
	rb.callAll(reflect.ValueOf(e), &callCtx{entry: e, onlyWrite: true})
}

// entry calls every accessor of e (those that write excepted: entryWriters) and of the values its
// fields hold, and queues the entries kept beside its children.
func (rb *readback) entry(e *yang.Entry, depth int, full bool) {
	ctx := &callCtx{entry: e, noWrite: true}
	pool := rb.newPool(e, e.Path())
	if full && rb.findLeft > 0 {
		// the first entries of the main walk and of the walk beside it: the whole pool
		rb.findLeft--
		ctx.find = make([]string, pool.size())
		for i := range ctx.find {
			ctx.find[i] = pool.at(i)
		}
	} else {
		// the others: five fixed paths and a window of twelve that moves through the pool from entry to entry,
		// so that every member of the family is tried on some entry of every history with a dozen entries or more
		ctx.find = append(make([]string, 0, 17), pool.own, "..", "x][", "x[k=1]", "]k[")
		for i := 0; i < 12; i++ {
			ctx.find = append(ctx.find, pool.at((rb.findRot+i)%pool.size()))
		}
		rb.findRot += 12
	}
	rb.callAll(reflect.ValueOf(e), ctx)
	rb.fields(reflect.ValueOf(e).Elem(), e, 0)
}

// fields visits the exported fields of a struct of package yang that belongs to entry e.
func (rb *readback) fields(s reflect.Value, e *yang.Entry, depth int) {
	t := s.Type()
	for i := 0; i < t.NumField(); i++ {
		f := t.Field(i)
		if f.PkgPath != "" && !f.Anonymous {
			continue
		}
		if t == entryType.Elem() && (f.Name == "Parent" || f.Name == "Dir" || f.Name == "RPC") {
			continue // the main walk follows these
		}
		v := s.Field(i)
		if !v.CanInterface() {
			continue
		}
		rb.value(v, e, depth)
	}
}

// value dispatches on what a field (or an element of it) holds.
func (rb *readback) value(v reflect.Value, e *yang.Entry, depth int) {
	if depth > 6 {
		return
	}
	switch v.Kind() {
	case reflect.Ptr, reflect.Interface:
		if v.IsNil() {
			return
		}
		if v.Kind() == reflect.Interface {
			v = v.Elem()
			if v.Kind() != reflect.Ptr || v.IsNil() {
				if v.IsValid() && v.Type().NumMethod() > 0 && inYang(v.Type()) {
					rb.callAll(v, &callCtx{entry: e})
				}
				return
			}
		}
		switch x := v.Interface().(type) {
		case *yang.Entry:
			rb.side = append(rb.side, x)
			return
		case *yang.YangType:
			rb.ytype(x, e, 0)
			return
		case *yang.Modules:
			return
		case *yang.Statement:
			rb.stmt(x, 0)
			return
		case yang.Node:
			rb.node(x, 0)
			return
		}
		if !inYang(v.Type()) || v.Elem().Kind() != reflect.Struct {
			return
		}
		if p := v.Pointer(); rb.seenPtr[p] {
			return
		} else {
			rb.seenPtr[p] = true
		}
		rb.callAll(v, &callCtx{entry: e})
		rb.fields(v.Elem(), e, depth+1)
	case reflect.Slice:
		if v.Type().Elem().Kind() == reflect.Uint8 || v.Type().Elem().Kind() == reflect.String {
			return
		}
		for i := 0; i < v.Len() && i < 4096; i++ {
			rb.value(v.Index(i), e, depth+1)
		}
	case reflect.Map:
		if !v.Type().Elem().Implements(nodeType) && v.Type().Elem().Kind() != reflect.Slice && v.Type().Elem().Kind() != reflect.Ptr && v.Type().Elem().Kind() != reflect.Interface {
			return
		}
		keys := v.MapKeys()
		sort.Slice(keys, func(i, j int) bool { return fmt.Sprint(keys[i].Interface()) < fmt.Sprint(keys[j].Interface()) })
		for i, k := range keys {
			if i >= 4096 {
				break
			}
			if k.Type().NumMethod() > 0 && inYang(k.Type()) {
				rb.callAll(k, &callCtx{entry: e}) // e.g. the deviation type keys of Entry.Deviate
			}
			rb.value(v.MapIndex(k), e, depth+1)
		}
	case reflect.Struct:
		if inYang(v.Type()) {
			if v.Type().NumMethod() > 0 {
				rb.callAll(v, &callCtx{entry: e})
			}
			rb.fields(v, e, depth+1)
		}
	default:
		// named basic types with methods: TriState, EntryKind, TypeKind, ...
		if v.Type().NumMethod() > 0 && inYang(v.Type()) {
			rb.callAll(v, &callCtx{entry: e})
		}
	}
}

// ---------------------------------------------------------------------------------------------
// AST nodes, values, statements

// node calls the methods of an AST node (every Node implementer: Kind, NName, Statement, ParentNode,
// Exts, Groupings, Typedefs, Identities, FullName, PrefixedName, IsDefined, GetValue, ...) and walks
// the nodes its exported fields hold.  Grouping nodes are collected for ToEntry.
func (rb *readback) node(n yang.Node, depth int) {
	v := reflect.ValueOf(n)
	if !v.IsValid() || v.Kind() != reflect.Ptr || v.IsNil() {
		return
	}
	p := v.Pointer()
	if rb.seenPtr[p] {
		return
	}
	rb.seenPtr[p] = true
	ctx := &callCtx{}
	switch x := n.(type) {
	case *yang.Identity:
		ctx.names = append(ctx.names, x.Name)
		for i, c := range x.Values {
			if c != nil && i < 4 {
				ctx.names = append(ctx.names, c.Name, c.PrefixedName())
			}
		}
	case *yang.Grouping:
		rb.groups = append(rb.groups, x)
	}
	rb.callAll(v, ctx)
	if v.Elem().Kind() != reflect.Struct {
		return
	}
	s := v.Elem()
	t := s.Type()
	for i := 0; i < t.NumField(); i++ {
		f := t.Field(i)
		if f.PkgPath != "" || f.Name == "Parent" {
			continue
		}
		fv := s.Field(i)
		switch fv.Kind() {
		case reflect.Ptr, reflect.Interface:
			if fv.IsNil() {
				continue
			}
			switch x := fv.Interface().(type) {
			case *yang.Statement:
				rb.stmt(x, 0)
			case *yang.YangType:
				// resolved types hang on the Type nodes of the AST as well
				rb.ytypes = append(rb.ytypes, x)
			case yang.Node:
				rb.node(x, depth+1)
			}
		case reflect.Slice:
			et := fv.Type().Elem()
			if et != stmtType && !et.Implements(nodeType) {
				continue
			}
			for k := 0; k < fv.Len(); k++ {
				switch x := fv.Index(k).Interface().(type) {
				case *yang.Statement:
					rb.stmt(x, 0)
				case yang.Node:
					rb.node(x, depth+1)
				}
			}
		}
	}
}

// stmt calls the methods of a statement (Arg, Location, SubStatements, Write, the Node methods) and
// of its substatements.
func (rb *readback) stmt(s *yang.Statement, depth int) (height int) {
	if s == nil {
		return 0
	}
	p := reflect.ValueOf(s).Pointer()
	if rb.seenPtr[p] {
		return writeHeight + 1
	}
	rb.seenPtr[p] = true
	rb.callAll(reflect.ValueOf(s), &callCtx{noWrite: true})
	for _, c := range s.SubStatements() {
		if h := rb.stmt(c, depth+1) + 1; h > height {
			height = h
		}
	}
	if (height <= writeLowHeight || (depth == 0 && height <= writeHeight)) && rb.out.n <= rb.outLimit {
		rb.callAll(reflect.ValueOf(s), &callCtx{onlyWrite: true})
	}
	return height
}

// ---------------------------------------------------------------------------------------------
// resolved types

type rangeKey struct {
	p uintptr
	n int
}

var seenRange = map[rangeKey]bool{}

// rangeIsShared: the range is one of the package's own (they outlive the history, so the address is
// never reused for another range).
func rangeIsShared(r yang.YangRange) bool {
	for _, b := range []yang.YangRange{yang.Int8Range, yang.Int16Range, yang.Int32Range, yang.Int64Range, yang.Uint8Range, yang.Uint16Range, yang.Uint32Range, yang.Uint64Range} {
		if len(b) > 0 && len(r) > 0 && &b[0] == &r[0] {
			return true
		}
	}
	return false
}

// ytype calls the methods of a resolved type and of what it holds: the range and length
// restrictions with their bounds, the enumeration and bit tables (names and values as arguments),
// recursively over the members of a union and the root.
func (rb *readback) ytype(t *yang.YangType, e *yang.Entry, depth int) {
	if t == nil || depth > 64 || rb.seenT[t] {
		return
	}
	rb.seenT[t] = true
	// Equal, Contains and the like compare everything below the receiver: a budget of types per history
	// (a union nested 10^4 deep has 10^4 types, each comparing 10^4 levels)
	if len(rb.seenT) > 400 {
		return
	}
	ctx := &callCtx{entry: e}
	if t.Root != nil {
		ctx.same = append(ctx.same, reflect.ValueOf(t.Root))
	}
	for i, m := range t.Type {
		if m != nil && i < 3 {
			ctx.same = append(ctx.same, reflect.ValueOf(m))
		}
	}
	rb.callAll(reflect.ValueOf(t), ctx)
	for _, en := range []*yang.EnumType{t.Enum, t.Bit} {
		if en == nil {
			continue
		}
		c := &callCtx{entry: e, names: en.Names(), ints: en.Values()}
		if len(c.names) > 8 {
			c.names = c.names[:8]
		}
		if len(c.ints) > 8 {
			c.ints = c.ints[:8]
		}
		rb.callAll(reflect.ValueOf(en), c)
	}
	for _, rg := range []yang.YangRange{t.Range, t.Length} {
		// the ranges of the built-in types are package variables shared by every type of every history:
		// once per child process
		if len(rg) > 0 {
			k := rangeKey{reflect.ValueOf(rg).Pointer(), len(rg)}
			if seenRange[k] {
				continue
			}
			if len(seenRange) < 4096 {
				seenRange[k] = rangeIsShared(rg)
			}
		}
		c := &callCtx{entry: e}
		if len(rg) > 0 {
			c.same = append(c.same, reflect.ValueOf(rg[:1]), reflect.ValueOf(rg[len(rg)-1:]))
		}
		rb.callAll(reflect.ValueOf(rg), c)
		for i, r := range rg {
			if i >= 16 {
				break
			}
			rc := &callCtx{entry: e}
			if i+1 < len(rg) {
				rc.same = append(rc.same, reflect.ValueOf(rg[i+1]))
			}
			rb.callAll(reflect.ValueOf(r), rc)
			rb.callAll(reflect.ValueOf(r.Min), &callCtx{entry: e, same: []reflect.Value{reflect.ValueOf(r.Max)}})
			rb.callAll(reflect.ValueOf(r.Max), &callCtx{entry: e, same: []reflect.Value{reflect.ValueOf(r.Min)}})
		}
	}
	// the other fields (Kind, Base, IdentityBase, ...)
	s := reflect.ValueOf(t).Elem()
	st := s.Type()
	for i := 0; i < st.NumField(); i++ {
		f := st.Field(i)
		if f.PkgPath != "" {
			continue
		}
		switch f.Name {
		case "Root", "Type", "Enum", "Bit", "Range", "Length":
			continue
		}
		rb.value(s.Field(i), e, 1)
	}
	if t.Root != t {
		rb.ytype(t.Root, e, depth+1)
	}
	for _, m := range t.Type {
		rb.ytype(m, e, depth+1)
	}
}
