package main

import (
	"fmt"
	"math/rand"
	"strings"
)

// Two deterministic families of histories about the module set itself (stream v), and the two
// grammar operators that plant the same shapes into generated sets and repository texts.
//
// (a) TWINS: several texts that call themselves by ONE module or submodule name — a revision and
//     a text without revision statement, two revisions, the same text twice — in every load order.
//     Modules.add keeps all of them (only exact duplicates are rejected) but lists at most two under
//     a name: a module without revision that arrives after a revision, or an older revision that
//     arrives after a newer one, is displaced or never listed under the bare name.  Its typedefs
//     are still in the type dictionary and its body is still converted when something reaches it,
//     so it must be as safe to process as a listed one.  Every twin carries a body that needs the
//     back pointers of its module: typedefs of identityref with a base (local, own prefix,
//     imported), prefixed types through imports, prefixed uses, augments, deviations, includes,
//     prefixed extensions, unknown prefixes and bases.
//
// (b) CYCLES: include cycles among submodules and import cycles among modules (length 1-4) where
//     all / some / none of the members carry revision statements and the includes do / do not
//     carry revision-date, combined with look-ups that fail before the search enters the cycle or
//     inside it: unknown grouping, grouping of the owner used inside a cycling submodule, unknown
//     typedef, unknown identity base, unknown extension prefix; with and without
//     IgnoreSubmoduleCircularDependencies.  Every visited set keyed by a module name must cut the
//     cycle whatever the members are called in full (name@revision).

const (
	revOld = "2019-01-01"
	revNew = "2020-01-01"
)

// ---------------------------------------------------------------------------------------------
// (a) twins

const twinSupport = `module oth {
  namespace "urn:oth";
  prefix o;
  extension ext { argument a; }
  identity root;
  identity leafy { base root; }
  typedef name { type string { length "1..8"; } }
  grouping g { leaf gl { type string; } }
  container c { leaf l { type string; } leaf-list ll { type string; } }
}
`

// twinBodies: name and text of the body of one twin; %T is replaced by a tag that tells the twins
// apart (node names differ, so the texts differ), %P by the prefix the twin uses for itself.
// Every body defines typedef t1 and grouping own (the importer refers to them).
var twinBodies = []struct{ name, text string }{
	{"typedef of identityref with a local base",
		`identity animal; typedef kind { type identityref { base animal; } } leaf k%T { type kind; }`},
	{"typedef of identityref with a base under the own prefix",
		`identity animal; identity cat { base %P:animal; } typedef kind { type identityref { base %P:animal; } } leaf k%T { type kind; default cat; }`},
	{"typedef of identityref with an imported base",
		`identity mine%T { base o:root; } typedef kind { type identityref { base o:root; } } leaf k%T { type kind; }`},
	{"typedef of a type under the prefix of an import",
		`typedef label { type o:name; } leaf l%T { type label; }`},
	{"typedef of a type under the own prefix",
		`typedef t2 { type %P:t1; } leaf l%T { type t2; }`},
	{"typedef of a union of prefixed types and an identityref",
		`typedef u { type union { type o:name; type %P:t1; type identityref { base o:root; } } } leaf u%T { type u; }`},
	{"typedef of a leafref into an import",
		`typedef lr { type leafref { path "/o:c/o:l"; } } leaf r%T { type lr; }`},
	{"prefixed uses (import and own prefix)",
		`container w%T { uses o:g; } container v%T { uses %P:own; }`},
	{"augment of an imported tree with a typed leaf",
		`identity animal; typedef kind { type identityref { base animal; } } augment "/o:c" { leaf aug%T { type kind; } leaf aug2%T { type o:name; } }`},
	{"deviations of an imported tree",
		`deviation "/o:c/o:l" { deviate replace { type o:name; } } deviation "/o:c/o:ll" { deviate not-supported; }`},
	{"include of a submodule with prefixed types",
		`include twsub%T;`},
	{"prefixed extension inside a type statement and at the top",
		`typedef e { type string { o:ext "x"; } } o:ext "top"; leaf e%T { type e; }`},
	{"unknown prefix, unknown base, unknown imported type",
		`typedef bad1 { type zz:t; } typedef bad2 { type identityref { base nosuch; } } typedef bad3 { type o:nosuch; } typedef bad4 { type identityref { base zz:b; } } leaf b%T { type bad1; }`},
	{"typedef of identityref inside a grouping that is used",
		`identity animal; grouping gg { typedef inner { type identityref { base animal; } } leaf x%T { type inner; } } uses gg;`},
}

// twinOrders: what is loaded under the one name, in order.  "U" = no revision statement, "V" =
// another text without revision statement, "=…" = the same text as the entry it names.
var twinOrders = []struct {
	name string
	revs []string
}{
	{"revision then unrevisioned", []string{revNew, "U"}},
	{"unrevisioned then revision", []string{"U", revNew}},
	{"two revisions ascending", []string{revOld, revNew}},
	{"two revisions descending", []string{revNew, revOld}},
	{"two different unrevisioned texts", []string{"U", "V"}},
	{"the same revision text twice", []string{revNew, "=0"}},
	{"the same unrevisioned text twice", []string{"U", "=0"}},
	{"older revision, unrevisioned, newer revision", []string{revOld, "U", revNew}},
	{"unrevisioned, newer revision, older revision", []string{"U", revNew, revOld}},
	{"revision, unrevisioned, another unrevisioned", []string{revNew, "U", "V"}},
}

func twinText(sub bool, rev, tag string, body int) (texts []string, names []string) {
	var sb strings.Builder
	b := strings.ReplaceAll(strings.ReplaceAll(twinBodies[body].text, "%T", tag), "%P", "tw")
	if sub {
		sb.WriteString("submodule tw {\n  belongs-to own { prefix tw; }\n")
	} else {
		sb.WriteString("module tw {\n  namespace \"urn:tw\";\n  prefix tw;\n")
	}
	sb.WriteString("  import oth { prefix o; }\n")
	if strings.HasPrefix(b, "include ") {
		// linkage statements come first
		sb.WriteString("  " + b + "\n")
		b = ""
	}
	if rev != "U" && rev != "V" {
		sb.WriteString("  revision " + rev + ";\n")
	}
	sb.WriteString("  typedef t1 { type string; }\n  grouping own { leaf ol" + tag + " { type t1; } }\n")
	if b != "" {
		sb.WriteString("  " + b + "\n")
	}
	sb.WriteString("}\n")
	suffix := ""
	if rev != "U" && rev != "V" {
		suffix = "@" + rev
	}
	names = append(names, "tw"+suffix+"-"+tag+".yang")
	texts = append(texts, sb.String())
	if strings.HasPrefix(twinBodies[body].text, "include ") {
		owner := "tw"
		if sub {
			owner = "own"
		}
		names = append(names, "twsub"+tag+".yang")
		texts = append(texts, "submodule twsub"+tag+" {\n  belongs-to "+owner+" { prefix tw; }\n  import oth { prefix o; }\n  identity subid"+tag+
			" { base o:root; }\n  typedef st { type identityref { base subid"+tag+"; } }\n  typedef sl { type o:name; }\n  leaf sub"+tag+" { type st; }\n}\n")
	}
	return
}

// twinHistory builds one history of family (a).
func twinHistory(sub bool, order, body int, supportFirst bool, importer int) History {
	var names, texts []string
	tags := []string{"a", "b", "c"}
	var first []string
	for i, rev := range twinOrders[order].revs {
		if strings.HasPrefix(rev, "=") {
			names = append(names, "again-"+first[0])
			texts = append(texts, first[1])
			continue
		}
		tx, nm := twinText(sub, rev, tags[i], body)
		if i == 0 {
			first = []string{nm[0], tx[0]}
		}
		names = append(names, nm...)
		texts = append(texts, tx...)
	}
	kind := "module"
	if sub {
		kind = "submodule"
		inc := "include tw;"
		switch importer {
		case 1:
			inc = "include tw { revision-date " + revNew + "; }"
		case 2:
			inc = "include tw { revision-date " + revOld + "; }"
		}
		owner := "module own {\n  namespace \"urn:own\";\n  prefix ow;\n  " + inc + "\n  container top { uses own; leaf t { type t1; } }\n}\n"
		if importer%2 == 0 {
			names, texts = append([]string{"own.yang"}, names...), append([]string{owner}, texts...)
		} else {
			names, texts = append(names, "own.yang"), append(texts, owner)
		}
	} else if importer > 0 {
		imp := "import tw { prefix t; }"
		if importer == 2 {
			imp = "import tw { prefix t; revision-date " + revOld + "; }"
		}
		names = append(names, "user.yang")
		texts = append(texts, "module user {\n  namespace \"urn:user\";\n  prefix us;\n  "+imp+"\n  container top { uses t:own; leaf t { type t:t1; } }\n}\n")
	}
	if supportFirst {
		names, texts = append([]string{"oth.yang"}, names...), append([]string{twinSupport}, texts...)
	} else {
		names, texts = append(names, "oth.yang"), append(texts, twinSupport)
	}
	what := fmt.Sprintf("twins of %s tw: %s; body: %s; importer variant %d; support module %s", kind, twinOrders[order].name, twinBodies[body].name,
		importer, map[bool]string{true: "first", false: "last"}[supportFirst])
	return newHistory(streamNames[streamRevCycle], what, names, texts)
}

func twinHistories(thorough bool) []History {
	var out []History
	for _, sub := range []bool{false, true} {
		for o := range twinOrders {
			for b := range twinBodies {
				if thorough {
					for _, sf := range []bool{true, false} {
						for imp := 0; imp < 3; imp++ {
							out = append(out, twinHistory(sub, o, b, sf, imp))
						}
					}
					continue
				}
				// quick: every (kind, order, body); the other two dimensions go round
				out = append(out, twinHistory(sub, o, b, (o+b)%2 == 0, (o+2*b)%3))
			}
		}
	}
	return out
}

// ---------------------------------------------------------------------------------------------
// (b) cycles

// cycleLookups: a look-up planted in the owner or in a member of the cycle.  %O = prefix of the
// owning module as the place knows it, %N = prefix of the next member (import cycles).
var cycleLookups = []struct {
	name, text string
	imports    bool // meaningful for import cycles as well
}{
	{"no look-up", ``, true},
	{"uses of an unknown grouping", `container c%T { uses nowhere; }`, true},
	{"uses of a grouping of the owner, prefixed", `container c%T { uses %O:shared; }`, false},
	{"uses of a grouping of the owner, unprefixed", `container c%T { uses shared; }`, false},
	{"uses of a grouping of the last member", `container c%T { uses far; }`, false},
	{"unknown typedef", `leaf l%T { type nosuch; }`, true},
	{"typedef of the owner, prefixed, and of the last member", `leaf l%T { type %O:otype; } leaf m%T { type fartype; }`, false},
	{"unknown identity base", `identity i%T { base nosuch; } leaf l%T { type identityref { base nosuch2; } }`, true},
	{"identity base of the owner and of the last member", `identity i%T { base %O:oid; } identity j%T { base farid; }`, false},
	{"unknown extension prefix", `zz:ext "x"; leaf l%T { type string { zz:e2 "y"; } }`, true},
	{"unknown grouping, typedef and base under the prefix of the next member", `container c%T { uses %N:nowhere; } leaf l%T { type %N:nosuch; } identity i%T { base %N:nosuch; }`, true},
	{"grouping, typedef and base of the next member", `container c%T { uses %N:far; } leaf l%T { type %N:fartype; } identity i%T { base %N:farid; }`, true},
}

var cycleRevPatterns = []string{"all", "none", "odd members and the owner", "members only", "owner only"}

func cycleHasRev(pattern, member int) bool { // member 0 = owner
	switch cycleRevPatterns[pattern] {
	case "all":
		return true
	case "none":
		return false
	case "odd members and the owner":
		return member%2 == 1 || member == 0
	case "members only":
		return member != 0
	default:
		return member == 0
	}
}

// includeCycle builds an owner m with submodules s1..sL; s_i includes s_(i+1), s_L includes s1
// (L = 1: s1 includes itself).  revDate: 0 = plain includes, 1 = revision-date where the target has
// a revision, 2 = in addition the include that closes the cycle asks for a revision that does not exist
// (FindModule then falls back to the bare name).  ownerAll: the owner includes
// every member, else only s1.  The look-up sits in the owner (place 0), in s1 (1) or in s_L (2).
func includeCycle(L, pattern, revDate int, ownerAll bool, lookup, place int, ignore bool) History {
	inc := func(target int, broken bool) string {
		switch {
		case broken:
			return fmt.Sprintf("  include s%d { revision-date 1999-09-09; }\n", target)
		case revDate >= 1 && cycleHasRev(pattern, target):
			return fmt.Sprintf("  include s%d { revision-date %s; }\n", target, revNew)
		}
		return fmt.Sprintf("  include s%d;\n", target)
	}
	look := func(tag string) string {
		t := cycleLookups[lookup].text
		if t == "" {
			return ""
		}
		t = strings.ReplaceAll(strings.ReplaceAll(strings.ReplaceAll(t, "%T", tag), "%O", "m"), "%N", "m")
		return "  " + t + "\n"
	}
	var names, texts []string
	var sb strings.Builder
	sb.WriteString("module m {\n  namespace \"urn:m\";\n  prefix m;\n")
	sb.WriteString(inc(1, false))
	if ownerAll {
		for i := 2; i <= L; i++ {
			sb.WriteString(inc(i, false))
		}
	}
	if cycleHasRev(pattern, 0) {
		sb.WriteString("  revision " + revNew + ";\n")
	}
	sb.WriteString("  identity oid;\n  typedef otype { type string; }\n  grouping shared { leaf in-m { type string; } }\n")
	if place == 0 {
		sb.WriteString(look("o"))
	}
	sb.WriteString("}\n")
	names, texts = append(names, "m.yang"), append(texts, sb.String())
	for i := 1; i <= L; i++ {
		sb.Reset()
		fmt.Fprintf(&sb, "submodule s%d {\n  belongs-to m { prefix m; }\n", i)
		next := i%L + 1
		sb.WriteString(inc(next, revDate == 2 && i == L))
		if cycleHasRev(pattern, i) {
			sb.WriteString("  revision " + revNew + ";\n")
		}
		fmt.Fprintf(&sb, "  leaf from-s%d { type string; }\n", i)
		if i == L {
			sb.WriteString("  identity farid;\n  typedef fartype { type string; }\n  grouping far { leaf in-far { type string; } }\n")
		}
		if (place == 1 && i == 1) || (place == 2 && i == L && L > 1) {
			sb.WriteString(look(fmt.Sprintf("s%d", i)))
		}
		sb.WriteString("}\n")
		names, texts = append(names, fmt.Sprintf("s%d.yang", i)), append(texts, sb.String())
	}
	what := fmt.Sprintf("include cycle of %d submodule(s), revision statements: %s, revision-date variant %d, owner includes %s; %s in %s; ignore-circular=%v",
		L, cycleRevPatterns[pattern], revDate, map[bool]string{true: "all", false: "s1"}[ownerAll], cycleLookups[lookup].name,
		[]string{"the owner", "s1", "the last member"}[place], ignore)
	h := newHistory(streamNames[streamRevCycle], what, names, texts)
	h.IgnoreCircular = ignore
	return h
}

// importCycle builds modules c1..cL; c_i imports c_(i+1) under prefix n, c_L imports c1 (L = 1: c1
// imports itself); with subCycle every module also owns two submodules that include each other.
func importCycle(L, pattern, revDate, lookup, place int, subCycle, ignore bool) History {
	var names, texts []string
	for i := 1; i <= L; i++ {
		var sb strings.Builder
		next := i%L + 1
		fmt.Fprintf(&sb, "module c%d {\n  namespace \"urn:c%d\";\n  prefix p%d;\n", i, i, i)
		switch {
		case revDate == 2 && i == L:
			fmt.Fprintf(&sb, "  import c%d { prefix n; revision-date 1999-09-09; }\n", next)
		case revDate >= 1 && cycleHasRev(pattern, next):
			fmt.Fprintf(&sb, "  import c%d { prefix n; revision-date %s; }\n", next, revNew)
		default:
			fmt.Fprintf(&sb, "  import c%d { prefix n; }\n", next)
		}
		if subCycle {
			fmt.Fprintf(&sb, "  include c%dx;\n  include c%dy;\n", i, i)
		}
		if cycleHasRev(pattern, i) {
			sb.WriteString("  revision " + revNew + ";\n")
		}
		sb.WriteString("  identity farid;\n  typedef fartype { type string; }\n  grouping far { leaf in-far { type string; } }\n")
		if (place == 0 && i == 1) || (place != 0 && i == L) {
			t := cycleLookups[lookup].text
			if t != "" {
				t = strings.ReplaceAll(strings.ReplaceAll(strings.ReplaceAll(t, "%T", fmt.Sprint(i)), "%O", fmt.Sprintf("p%d", i)), "%N", "n")
				sb.WriteString("  " + t + "\n")
			}
		}
		sb.WriteString("}\n")
		names, texts = append(names, fmt.Sprintf("c%d.yang", i)), append(texts, sb.String())
		if subCycle {
			for _, xy := range [][2]string{{"x", "y"}, {"y", "x"}} {
				sb.Reset()
				fmt.Fprintf(&sb, "submodule c%d%s {\n  belongs-to c%d { prefix p%d; }\n  import c%d { prefix n; }\n  include c%d%s;\n", i, xy[0], i, i, next, i, xy[1])
				if cycleHasRev(pattern, i) {
					sb.WriteString("  revision " + revNew + ";\n")
				}
				fmt.Fprintf(&sb, "  container k%d%s { uses n:far; uses p%d:far; uses nowhere%s; leaf t { type n:fartype; } }\n}\n", i, xy[0], i, xy[0])
				names, texts = append(names, fmt.Sprintf("c%d%s.yang", i, xy[0])), append(texts, sb.String())
			}
		}
	}
	what := fmt.Sprintf("import cycle of %d module(s)%s, revision statements: %s, revision-date variant %d; %s in %s; ignore-circular=%v",
		L, map[bool]string{true: " each with two submodules including each other", false: ""}[subCycle], cycleRevPatterns[pattern], revDate,
		cycleLookups[lookup].name, []string{"the first module", "the last module", "the last module"}[place], ignore)
	h := newHistory(streamNames[streamRevCycle], what, names, texts)
	h.IgnoreCircular = ignore
	return h
}

func cycleHistories(thorough bool) []History {
	var out []History
	n := 0
	for L := 1; L <= 4; L++ {
		for p := range cycleRevPatterns {
			for lk := range cycleLookups {
				for place := 0; place < 3; place++ {
					if lk == 0 && place > 0 {
						continue
					}
					if L == 1 && place == 2 {
						continue
					}
					for _, ign := range []bool{false, true} {
						if thorough {
							for rd := 0; rd < 3; rd++ {
								for _, all := range []bool{false, true} {
									out = append(out, includeCycle(L, p, rd, all, lk, place, ign))
								}
							}
							continue
						}
						// quick: every (length, revision pattern, look-up, place, option); the revision-date
						// variant and the owner's includes go round
						n++
						out = append(out, includeCycle(L, p, n%3, n%2 == 0, lk, place, ign))
					}
				}
			}
		}
	}
	for L := 1; L <= 4; L++ {
		for p := 0; p < 3; p++ { // all, none, odd
			for lk := range cycleLookups {
				if !cycleLookups[lk].imports {
					continue
				}
				for place := 0; place < 2; place++ {
					if (lk == 0 || L == 1) && place > 0 {
						continue
					}
					for rd := 0; rd < 3; rd++ {
						if !thorough && rd != (L+p+lk+place)%3 {
							continue
						}
						n++
						out = append(out, importCycle(L, p, rd, lk, place, false, n%2 == 0))
					}
				}
			}
			for _, ign := range []bool{false, true} {
				out = append(out, importCycle(L, p, 0, 1, 0, true, ign))
			}
		}
	}
	return out
}

func revCycleHistories(thorough bool) []History {
	return append(twinHistories(thorough), cycleHistories(thorough)...)
}

// ---------------------------------------------------------------------------------------------
// grammar operators: the same shapes planted into a set under mutation

func topRevisions(top *mnode) (idx []int) {
	for i, k := range top.Kids {
		if k.Kw == "revision" {
			idx = append(idx, i)
		}
	}
	return
}

// setRevision removes the revision statements of top and, unless rev is empty, adds one.
func setRevision(top *mnode, rev string) {
	var kids []*mnode
	for _, k := range top.Kids {
		if k.Kw != "revision" {
			kids = append(kids, k)
		}
	}
	top.Kids = kids
	if rev == "" {
		return
	}
	// after the linkage and header statements
	at := 0
	for i, k := range top.Kids {
		switch k.Kw {
		case "yang-version", "namespace", "prefix", "belongs-to", "import", "include", "organization", "contact", "description", "reference":
			at = i + 1
		}
	}
	insertKid(top, at, st("revision", rev))
}

// backPointerPayload: statements that make the resolver use the back pointers of the module they
// sit in (own prefix pfx; imp = prefix and name of a module of the set to import, or "").
func backPointerPayload(r *rand.Rand, pfx, impPfx string, tag string) []*mnode {
	own := func(s string) string { return pfxd(pfx, s) }
	all := [][]*mnode{
		{st("identity", "tw-animal"+tag), st("typedef", "tw-kind"+tag, st("type", "identityref", st("base", "tw-animal"+tag))), st("leaf", "tw-k"+tag, st("type", "tw-kind"+tag))},
		{st("identity", "tw-animal"+tag), st("typedef", "tw-kind"+tag, st("type", "identityref", st("base", own("tw-animal"+tag))))},
		{st("typedef", "tw-t1"+tag, st("type", "string")), st("typedef", "tw-t2"+tag, st("type", own("tw-t1"+tag))), st("leaf", "tw-l"+tag, st("type", "tw-t2"+tag))},
		{st("grouping", "tw-g"+tag, st("leaf", "tw-gl", st("type", "string"))), st("container", "tw-c"+tag, st("uses", own("tw-g"+tag)))},
		{st("typedef", "tw-bad"+tag, st("type", "identityref", st("base", "tw-nosuch")))},
		{st("typedef", "tw-bad"+tag, st("type", "zz:t"))},
		{st("typedef", "tw-e"+tag, st("type", "string", &mnode{Kw: "zz:ext", Arg: "x", HasArg: true}))},
	}
	if impPfx != "" {
		all = append(all,
			[]*mnode{st("typedef", "tw-imp"+tag, st("type", impPfx+":nosuch-or-not"))},
			[]*mnode{st("typedef", "tw-idr"+tag, st("type", "identityref", st("base", impPfx+":root")))},
			[]*mnode{st("container", "tw-u"+tag, st("uses", impPfx+":g"))},
			[]*mnode{st("augment", "/"+impPfx+":c", st("leaf", "tw-aug"+tag, st("type", impPfx+":name")))},
			[]*mnode{st("deviation", "/"+impPfx+":c", st("deviate", "not-supported"))},
		)
	}
	var out []*mnode
	for i, k := 0, 1+r.Intn(3); i < k; i++ {
		for _, n := range all[r.Intn(len(all))] {
			out = append(out, n.clone())
		}
	}
	return out
}

func firstImportPrefix(top *mnode) string {
	for _, k := range top.Kids {
		if k.Kw == "import" {
			for _, kk := range k.Kids {
				if kk.Kw == "prefix" {
					return kk.Arg
				}
			}
		}
	}
	return ""
}

// opRevisionTwin gives a module or submodule of the set one or two twins of the same name — with
// another revision, or without any — that carry back-pointer payloads, and loads them before or
// after the original.
func opRevisionTwin(r *rand.Rand, fs *[]*mfile) string {
	cands := append(moduleFiles(*fs, "module"), moduleFiles(*fs, "submodule")...)
	if len(cands) == 0 {
		return ""
	}
	f := cands[r.Intn(len(cands))]
	top := f.Tops[0]
	pfx := prefixOf(top)
	revs := []string{"", revOld, revNew, "2021-12-31"}
	origRev := revs[r.Intn(len(revs))]
	if len(topRevisions(top)) == 0 || r.Intn(2) == 0 {
		setRevision(top, origRev)
	}
	var desc []string
	k := 1 + r.Intn(2)
	for i := 0; i < k; i++ {
		c := cloneFiles([]*mfile{f})[0]
		tag := fmt.Sprintf("-%d", i)
		rev := revs[r.Intn(len(revs))]
		setRevision(c.Tops[0], rev)
		if r.Intn(4) == 0 {
			// a twin with a body of its own
			var kids []*mnode
			for _, kd := range c.Tops[0].Kids {
				switch kd.Kw {
				case "yang-version", "namespace", "prefix", "belongs-to", "import", "include", "revision":
					kids = append(kids, kd)
				}
			}
			c.Tops[0].Kids = kids
		}
		for _, n := range backPointerPayload(r, pfx, firstImportPrefix(c.Tops[0]), tag) {
			insertKid(c.Tops[0], -1, n)
		}
		c.Name = fmt.Sprintf("twin%d-%s", i, f.Name)
		if rev == "" {
			desc = append(desc, "unrevisioned")
		} else {
			desc = append(desc, rev)
		}
		// before or after the original
		at := 0
		for j, x := range *fs {
			if x == f {
				at = j
			}
		}
		if r.Intn(2) == 0 {
			at++
		}
		if r.Intn(5) == 0 {
			at = r.Intn(len(*fs) + 1)
		}
		*fs = append((*fs)[:at:at], append([]*mfile{c}, (*fs)[at:]...)...)
	}
	if r.Intn(3) == 0 {
		for _, n := range backPointerPayload(r, pfx, firstImportPrefix(top), "-o") {
			insertKid(top, -1, n)
		}
	}
	return fmt.Sprintf("twins of %s %s (%s): %s", top.Kw, top.Arg, map[bool]string{true: "unrevisioned", false: "revisioned"}[len(topRevisions(top)) == 0], strings.Join(desc, ", "))
}

// opIncludeCycle closes an include cycle among submodules of the set (new ones are made when the
// set has fewer than the chosen length), or an import cycle among its modules, decides which members
// carry a revision statement, and plants look-ups that fail in the owner and inside the cycle.
func opIncludeCycle(r *rand.Rand, fs *[]*mfile) string {
	mods := moduleFiles(*fs, "module")
	if len(mods) == 0 {
		return ""
	}
	failing := func(tag string, ownerPfx string) []*mnode {
		all := [][]*mnode{
			{st("container", "cy-c"+tag, st("uses", "cy-nowhere"))},
			{st("container", "cy-c"+tag, st("uses", pfxd(ownerPfx, "cy-shared")))},
			{st("container", "cy-c"+tag, st("uses", "cy-shared"))},
			{st("leaf", "cy-l"+tag, st("type", "cy-nosuch"))},
			{st("leaf", "cy-l"+tag, st("type", pfxd(ownerPfx, "cy-otype")))},
			{st("identity", "cy-i"+tag, st("base", "cy-nosuch"))},
			{st("identity", "cy-i"+tag, st("base", pfxd(ownerPfx, "cy-oid")))},
			{&mnode{Kw: "zz:ext", Arg: "x", HasArg: true}},
		}
		var out []*mnode
		for i, k := 0, 1+r.Intn(2); i < k; i++ {
			for _, n := range all[r.Intn(len(all))] {
				out = append(out, n.clone())
			}
		}
		return out
	}
	L := 1 + r.Intn(4)
	revMode := r.Intn(3) // all, some, none
	var revOf [5]bool
	for i := range revOf {
		revOf[i] = revMode == 0 || (revMode == 1 && r.Intn(2) == 0)
	}
	withRev := func(i int) bool { return revOf[i%len(revOf)] }
	revDate := r.Intn(3) == 0
	if r.Intn(4) == 0 && len(mods) >= 1 {
		// import cycle among modules of the set
		if L > len(mods) {
			L = len(mods)
		}
		r.Shuffle(len(mods), func(i, j int) { mods[i], mods[j] = mods[j], mods[i] })
		for i := 0; i < L; i++ {
			a, b := mods[i].Tops[0], mods[(i+1)%L].Tops[0]
			imp := st("import", b.Arg, st("prefix", fmt.Sprintf("cy%d", i)))
			if withRev(i) {
				setRevision(b, revNew)
				if revDate {
					imp.Kids = append(imp.Kids, st("revision-date", revNew))
				}
			} else if revMode == 2 {
				setRevision(b, "")
			}
			insertKid(a, 2, imp)
			if r.Intn(2) == 0 {
				insertKid(a, -1, st("container", fmt.Sprintf("cy-ic%d", i), st("uses", fmt.Sprintf("cy%d:cy-nowhere", i))))
				insertKid(a, -1, st("leaf", fmt.Sprintf("cy-il%d", i), st("type", fmt.Sprintf("cy%d:cy-nosuch", i))))
			}
		}
		return fmt.Sprintf("import cycle of %d module(s), revisions mode %d", L, revMode)
	}
	owner := mods[r.Intn(len(mods))]
	otop := owner.Tops[0]
	opfx := prefixOf(otop)
	var members []*mfile
	for _, s := range moduleFiles(*fs, "submodule") {
		for _, k := range s.Tops[0].Kids {
			if k.Kw == "belongs-to" && k.Arg == otop.Arg {
				members = append(members, s)
			}
		}
	}
	r.Shuffle(len(members), func(i, j int) { members[i], members[j] = members[j], members[i] })
	if len(members) > L {
		members = members[:L]
	}
	for len(members) < L {
		name := fmt.Sprintf("cy-s%d", len(members))
		s := st("submodule", name, st("belongs-to", otop.Arg, st("prefix", opfx)), st("leaf", "cy-from-"+name, st("type", "string")))
		f := &mfile{Name: name + ".yang", Tops: []*mnode{s}}
		members = append(members, f)
		at := r.Intn(len(*fs) + 1)
		*fs = append((*fs)[:at:at], append([]*mfile{f}, (*fs)[at:]...)...)
	}
	include := func(from *mnode, to *mnode) {
		inc := st("include", to.Arg)
		if revDate && len(topRevisions(to)) > 0 {
			inc.Kids = append(inc.Kids, st("revision-date", to.Kids[topRevisions(to)[0]].Arg))
		}
		at := 0
		for i, k := range from.Kids {
			switch k.Kw {
			case "yang-version", "namespace", "prefix", "belongs-to", "import", "include":
				at = i + 1
			}
		}
		insertKid(from, at, inc)
	}
	for i, m := range members {
		switch {
		case withRev(i + 1):
			if len(topRevisions(m.Tops[0])) == 0 {
				setRevision(m.Tops[0], []string{revOld, revNew}[r.Intn(2)])
			}
		case revMode == 2:
			setRevision(m.Tops[0], "")
		}
	}
	if withRev(0) && len(topRevisions(otop)) == 0 {
		setRevision(otop, revNew)
	}
	for i, m := range members {
		include(m.Tops[0], members[(i+1)%L].Tops[0])
	}
	// the owner includes the first member (it may include others already)
	has := false
	for _, k := range otop.Kids {
		if k.Kw == "include" && k.Arg == members[0].Tops[0].Arg {
			has = true
		}
	}
	if !has || r.Intn(3) == 0 {
		include(otop, members[0].Tops[0])
	}
	insertKid(otop, -1, st("identity", "cy-oid"))
	insertKid(otop, -1, st("typedef", "cy-otype", st("type", "string")))
	insertKid(otop, -1, st("grouping", "cy-shared", st("leaf", "cy-in-owner", st("type", "string"))))
	where := r.Intn(3)
	if where != 1 {
		for _, n := range failing("-o", opfx) {
			insertKid(otop, -1, n)
		}
	}
	if where != 0 {
		m := members[r.Intn(len(members))].Tops[0]
		for _, n := range failing("-"+m.Arg, prefixOf(m)) {
			insertKid(m, -1, n)
		}
	}
	return fmt.Sprintf("include cycle of %d submodule(s) of %s, revisions mode %d, revision-date %v, failing look-ups at %d", L, otop.Arg, revMode, revDate, where)
}
