package main

import (
	"encoding/json"
	"fmt"
	"go/ast"
	"go/parser"
	"go/token"
	"os"
	"path/filepath"
	"sort"
	"strconv"

	"strings"
	"verif/harness/lib"
)

// repoRoot is the repository the texts are taken from (VERIF_REPO: a scratch copy under test).
var repoRoot = func() string {
	if v := os.Getenv("VERIF_REPO"); v != "" {
		return v
	}
	return "/repo"
}()

var corpusDir = lib.Root() + "/corpus/C01"

// Seed is one YANG text found in the repository.
type Seed struct {
	Name   string // name it is loaded under
	Text   string
	Origin string // file (and literal position) it comes from
}

// loadCorpus reads corpus/C01/*.json (one history per file) in name order.
func loadCorpus() ([]History, error) {
	files, err := filepath.Glob(filepath.Join(corpusDir, "*.json"))
	if err != nil {
		return nil, err
	}
	sort.Strings(files)
	var out []History
	for _, f := range files {
		raw, err := os.ReadFile(f)
		if err != nil {
			return nil, err
		}
		var h History
		if err := json.Unmarshal(raw, &h); err != nil {
			return nil, fmt.Errorf("%s: %v", f, err)
		}
		if len(h.Names) != len(h.All()) || len(h.Names) == 0 {
			return nil, fmt.Errorf("%s: names and texts do not match", f)
		}
		h.Stream = "corpus"
		if h.What == "" {
			h.What = filepath.Base(f)
		} else {
			h.What = filepath.Base(f) + ": " + h.What
		}
		out = append(out, h)
	}
	return out, nil
}

// repoYangFiles returns every .yang file under /repo.
func repoYangFiles() []Seed {
	var out []Seed
	filepath.Walk(repoRoot, func(p string, info os.FileInfo, err error) error {
		if err != nil || info == nil {
			return nil
		}
		if info.IsDir() && info.Name() == ".git" {
			return filepath.SkipDir
		}
		if !info.IsDir() && strings.HasSuffix(p, ".yang") {
			if b, err := os.ReadFile(p); err == nil {
				out = append(out, Seed{Name: filepath.Base(p), Text: string(b), Origin: p})
			}
		}
		return nil
	})
	sort.Slice(out, func(i, j int) bool { return out[i].Origin < out[j].Origin })
	return out
}

func looksLikeYang(s string) bool {
	return strings.Contains(s, "module") && len(s) < 1<<16
}

// constString evaluates a string literal or a concatenation of string literals.
func constString(e ast.Expr) (string, bool) {
	switch x := e.(type) {
	case *ast.BasicLit:
		if x.Kind != token.STRING {
			return "", false
		}
		s, err := strconv.Unquote(x.Value)
		return s, err == nil
	case *ast.ParenExpr:
		return constString(x.X)
	case *ast.BinaryExpr:
		if x.Op != token.ADD {
			return "", false
		}
		a, ok1 := constString(x.X)
		b, ok2 := constString(x.Y)
		return a + b, ok1 && ok2
	}
	return "", false
}

// testSnippets extracts the YANG texts embedded in /repo/pkg/yang/*_test.go: every string
// literal (or concatenation of literals) that contains "module" (hence also "submodule").
// Literals that are elements of one composite literal (a map of module texts, a slice of
// inputs) are also returned as a group: they were written to be loaded together.
func testSnippets() (all []Seed, groups [][]Seed, err error) {
	files, _ := filepath.Glob(filepath.Join(repoRoot, "pkg", "yang", "*_test.go"))
	sort.Strings(files)
	fset := token.NewFileSet()
	for _, f := range files {
		af, perr := parser.ParseFile(fset, f, nil, 0)
		if perr != nil {
			return nil, nil, perr
		}
		base := strings.TrimSuffix(filepath.Base(f), ".go")
		taken := map[ast.Expr]bool{}
		mk := func(e ast.Expr, s string, key string) Seed {
			pos := fset.Position(e.Pos())
			name := fmt.Sprintf("%s-%d.yang", base, pos.Line)
			if key != "" && !strings.ContainsAny(key, " \n{}") && len(key) < 40 {
				name = key
				if !strings.HasSuffix(name, ".yang") {
					name += ".yang"
				}
			}
			return Seed{Name: name, Text: s, Origin: fmt.Sprintf("%s:%d", f, pos.Line)}
		}
		ast.Inspect(af, func(n ast.Node) bool {
			switch x := n.(type) {
			case *ast.CompositeLit:
				var grp []Seed
				for _, el := range x.Elts {
					key := ""
					val := el
					if kv, ok := el.(*ast.KeyValueExpr); ok {
						val = kv.Value
						if ks, ok := constString(kv.Key); ok {
							key = ks
						}
					}
					if s, ok := constString(val); ok && looksLikeYang(s) {
						sd := mk(val, s, key)
						grp = append(grp, sd)
						if !taken[val] {
							taken[val] = true
							all = append(all, sd)
						}
					}
				}
				if len(grp) >= 2 && len(grp) <= 8 {
					groups = append(groups, grp)
				}
			case *ast.BinaryExpr:
				if s, ok := constString(x); ok && looksLikeYang(s) {
					if !taken[x] {
						taken[x] = true
						all = append(all, mk(x, s, ""))
					}
					return false // do not list the parts again
				}
			case *ast.BasicLit:
				if s, ok := constString(x); ok && looksLikeYang(s) && !taken[x] {
					taken[x] = true
					all = append(all, mk(x, s, ""))
				}
			}
			return true
		})
	}
	// the same text is often repeated in table rows: keep one of each
	seen := map[string]bool{}
	var uniq []Seed
	for _, s := range all {
		if !seen[s.Text] {
			seen[s.Text] = true
			uniq = append(uniq, s)
		}
	}
	return uniq, groups, nil
}
