// corr-c02: yang.Parse (real code, in-process) against the Lean impl model of lexer and parser
// (drv_lex `parse`) on every input, and against the reference reader of RFC 7950 section 6
// (drv_lex `spec.parse`) on every well-encoded admissible text.  See harness/lexcorr.
package main

import "verif/harness/lexcorr"

func main() { lexcorr.Main(false) }
