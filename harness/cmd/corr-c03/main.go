// corr-c03: correspondence between the reflection-driven AST builder of goyang (real code,
// in-process: yang.NewModules().Parse) and the Lean model Goyang.Model.Ast (driver drv_ast), on
// generated statement trees:
//
//	corpus      hand-written seeds (the witnesses of the repaired defects D1/D2 among them)
//	exhaustive  every (parent keyword, child keyword, multiplicity 0|1|2) triple, the parent embedded
//	            in an otherwise valid minimal module and in a minimal submodule; every keyword as a
//	            top-level statement (alone, and after a valid module)
//	random      seeded random trees to depth 4: any keyword under any keyword (from the table, unknown,
//	            prefixed, the reflection meta-names), multiplicities 0-3, any order, extension
//	            statements at every level, one or two top-level statements
//
//	deviation   every sequence of up to three deviate kinds in one deviation, pairs/triples of deviations
//
// The call itself is varied too (pctx): every text goes to Modules.Parse by the plain call (fresh set,
// default options, name t.yang) and in further contexts that must not influence the AST: every
// combination of ParseOptions set before the call, a set that has already parsed other texts (0, 1,
// several; accepted and rejected; under the same source name and under other names), Parse after
// Process, other source names (the empty one among them).  In each context the modules the set holds
// for the text afterwards (entries of ms.Modules / ms.SubModules that were not there before the call)
// are read back: they must exist, one per top-level statement, be built from a statement tree equal
// to the runner's own parse, and pass the mirror oracle; the model's answer does not depend on the context.
//
// Every tree is rendered to YANG text, parsed by the real generic parser (the statement tree the
// builder sees goes to the model in wire form), and built by the real Modules.Parse.  The Go result
// is read back by a reflection walk through the Node interface (Kind, NName, ParentNode, Statement,
// Exts) and the tagged exported fields, printed as the same generic record the model prints.
// Independently of the model, every successful Go build is checked by a Go-side structural
// comparison of AST against statement tree (pointer identities included).
package main

import (
	"encoding/json"
	"fmt"
	"math/rand"
	"os"
	"reflect"
	"regexp"
	"runtime/debug"
	"sort"
	"strconv"
	"strings"
	"sync"

	"github.com/openconfig/goyang/pkg/yang"
	"verif/harness/lib"
)

// ---------- the runner's own reading of the struct layout (reflection, independent of extract-ast)

type finfo struct {
	idx      int
	tag      string
	slice    bool
	elem     reflect.Type // pointer type
	required bool
	reqKinds []string
}

type tinfo struct {
	t      reflect.Type // pointer type
	fields []finfo
	hasExt bool
}

var (
	stmtType = reflect.TypeOf(&yang.Statement{})
	types    = map[reflect.Type]*tinfo{}
	kwType   = map[string]reflect.Type{} // keyword -> pointer type
	kwOrder  []string
	metaKw   = []string{"Name", "Statement", "Parent", "Ext"}
)

func discover(at reflect.Type) {
	if types[at] != nil {
		return
	}
	ti := &tinfo{t: at}
	types[at] = ti
	t := at.Elem()
	for i := 0; i < t.NumField(); i++ {
		f := t.Field(i)
		tag := f.Tag.Get("yang")
		if tag == "" {
			continue
		}
		parts := strings.Split(tag, ",")
		if parts[0] == "Ext" {
			ti.hasExt = true
			continue
		}
		fi := finfo{idx: i, tag: parts[0]}
		for _, p := range parts[1:] {
			if p == "required" {
				fi.required = true
			}
			if strings.HasPrefix(p, "required=") {
				fi.reqKinds = append(fi.reqKinds, p[len("required="):])
			}
		}
		switch {
		case f.Type.Kind() == reflect.Ptr && f.Type != stmtType && f.Type.Elem().Kind() == reflect.Struct:
			fi.elem = f.Type
		case f.Type.Kind() == reflect.Slice && f.Type.Elem().Kind() == reflect.Ptr && f.Type.Elem() != stmtType:
			fi.slice = true
			fi.elem = f.Type.Elem()
		default:
			continue
		}
		ti.fields = append(ti.fields, fi)
		if _, ok := kwType[fi.tag]; !ok {
			kwType[fi.tag] = fi.elem
			kwOrder = append(kwOrder, fi.tag)
		}
		discover(fi.elem)
	}
}

func typeOfKw(kw string) *tinfo {
	if kw == "submodule" {
		kw = "module"
	}
	if t, ok := kwType[kw]; ok {
		return types[t]
	}
	return nil
}

func (ti *tinfo) field(tag string) *finfo {
	for i := range ti.fields {
		if ti.fields[i].tag == tag {
			return &ti.fields[i]
		}
	}
	return nil
}

// ---------- generated statement trees and their text

type gs struct {
	kw     string
	hasArg bool
	arg    string
	subs   []*gs
}

func (s *gs) count() int {
	n := 1
	for _, c := range s.subs {
		n += c.count()
	}
	return n
}

func quoteArg(a string) string {
	plain := a != ""
	for i := 0; i < len(a); i++ {
		c := a[i]
		if !(c >= 'a' && c <= 'z' || c >= 'A' && c <= 'Z' || c >= '0' && c <= '9' || c == '-' || c == '.' || c == '_' || c == ':') {
			plain = false
		}
	}
	if plain {
		return a
	}
	if strings.ContainsAny(a, "\n\r") && !strings.Contains(a, "'") {
		// single quotes keep line breaks and the blanks around them as they are (a double-quoted
		// string is re-indented and trimmed line by line)
		return "'" + a + "'"
	}
	return `"` + strings.NewReplacer(`\`, `\\`, `"`, `\"`).Replace(a) + `"`
}

func render(sb *strings.Builder, s *gs, ind int) {
	for i := 0; i < ind; i++ {
		sb.WriteString("  ")
	}
	sb.WriteString(s.kw)
	if s.hasArg {
		sb.WriteByte(' ')
		sb.WriteString(quoteArg(s.arg))
	}
	if len(s.subs) == 0 {
		sb.WriteString(";\n")
		return
	}
	sb.WriteString(" {\n")
	for _, c := range s.subs {
		render(sb, c, ind+1)
	}
	for i := 0; i < ind; i++ {
		sb.WriteString("  ")
	}
	sb.WriteString("}\n")
}

func renderAll(tops []*gs) string {
	var sb strings.Builder
	for _, t := range tops {
		render(&sb, t, 0)
	}
	return sb.String()
}

// minimal returns a statement with keyword kw, an argument and exactly its mandatory substatements.
func minimal(kw string, depth int) *gs {
	s := &gs{kw: kw, hasArg: true, arg: "x"}
	ti := typeOfKw(kw)
	if ti == nil || depth > 6 {
		return s
	}
	for _, f := range ti.fields {
		need := f.required
		for _, k := range f.reqKinds {
			if k == kw {
				need = true
			}
		}
		if need {
			s.subs = append(s.subs, minimal(f.tag, depth+1))
		}
	}
	return s
}

// pathTo[kw] = keywords from a top keyword (module) down to kw, by BFS over the type graph.
func paths() map[string][]string {
	p := map[string][]string{"module": {"module"}}
	queue := []string{"module"}
	for len(queue) > 0 {
		k := queue[0]
		queue = queue[1:]
		for _, f := range typeOfKw(k).fields {
			if _, ok := p[f.tag]; !ok {
				p[f.tag] = append(append([]string{}, p[k]...), f.tag)
				queue = append(queue, f.tag)
			}
		}
	}
	return p
}

// embed wraps leaf in minimal statements along path (path ends with leaf's keyword); top selects
// the root keyword (module or submodule).
func embed(path []string, leaf *gs, top string) *gs {
	cur := leaf
	for i := len(path) - 2; i >= 0; i-- {
		kw := path[i]
		if i == 0 {
			kw = top
		}
		w := minimal(kw, 0)
		// do not keep a mandatory child of the same keyword as the one being embedded twice
		var subs []*gs
		replaced := false
		for _, c := range w.subs {
			if c.kw == cur.kw && !replaced {
				subs = append(subs, cur)
				replaced = true
			} else {
				subs = append(subs, c)
			}
		}
		if !replaced {
			subs = append(subs, cur)
		}
		w.subs = subs
		cur = w
	}
	if len(path) == 1 {
		cur.kw = top
	}
	return cur
}

// ---------- running the real code

type goResult struct {
	out     string
	crashed bool
	problem string // result of the Go-side structural comparison ("" = fine)
}

var rePos = regexp.MustCompile(`^(\d+):(\d+): (.*)$`)

// classify maps an error of Modules.Parse to class + position; name is the source name the text was
// handed over under (positions are printed as `<name>:line:col`, or `line <line>:<col>` for the empty name).
func classify(err error, name string) string {
	msg := err.Error()
	pos := "- -"
	rest := msg
	pre := name + ":"
	if name == "" {
		pre = "line "
	}
	if strings.HasPrefix(msg, pre) && !strings.Contains(msg, "\n") {
		if m := rePos.FindStringSubmatch(msg[len(pre):]); m != nil {
			pos = m[1] + " " + m[2]
			rest = m[3]
		}
	}
	cls := "other"
	switch {
	case strings.HasPrefix(rest, "unknown statement: "):
		cls = "unknown-statement"
	case strings.HasPrefix(rest, "unknown ") && strings.Contains(rest, " field: "):
		cls = "unknown-field"
	case strings.HasPrefix(rest, "missing required ") && strings.Contains(rest, " field: "):
		cls = "missing"
	case rest == "no extension function":
		cls = "no-ext"
	case strings.HasSuffix(msg, ": already set") && pos == "- -":
		cls = "already-set"
	case strings.HasPrefix(msg, "not a module or submodule: "):
		cls = "not-module"
	case strings.HasPrefix(msg, "duplicate "):
		cls = "duplicate"
	case strings.HasPrefix(rest, "invalid ") && strings.Contains(rest, " name ") && strings.Contains(rest, "'@'"):
		cls = "bad-name"
	}
	return "err " + cls + " " + pos
}

func stmtPos(s *yang.Statement) (int, int) {
	f := strings.Split(s.Location(), ":")
	if len(f) == 2 && strings.HasPrefix(f[0], "line ") { // empty source name
		f = []string{"", f[0][len("line "):], f[1]}
	}
	if len(f) < 3 {
		return 0, 0
	}
	l, err1 := strconv.Atoi(f[len(f)-2])
	c, err2 := strconv.Atoi(f[len(f)-1])
	if err1 != nil || err2 != nil {
		return 0, 0
	}
	return l, c
}

func srcRef(s *yang.Statement) string {
	if s == nil {
		return "-"
	}
	l, c := stmtPos(s)
	return fmt.Sprintf("%d:%d:%s", l, c, lib.HexS(s.Keyword))
}

// hRef: a statement reference for messages.
func hRef(s *yang.Statement) string {
	if s == nil {
		return "<no statement>"
	}
	l, c := stmtPos(s)
	return fmt.Sprintf("`%s` at %d:%d", s.Keyword, l, c)
}

func extRef(s *yang.Statement) string {
	l, c := stmtPos(s)
	a := "~"
	if s.HasArgument {
		a = lib.HexS(s.Argument)
	}
	return fmt.Sprintf("%d:%d:%s:%s", l, c, lib.HexS(s.Keyword), a)
}

func isNilNode(n yang.Node) bool {
	if n == nil {
		return true
	}
	v := reflect.ValueOf(n)
	return v.Kind() == reflect.Ptr && v.IsNil()
}

// childrenOf lists the non-nil children of v (pointer to struct) under field f.
func childrenOf(v reflect.Value, idx int) []reflect.Value {
	fv := v.Elem().Field(idx)
	var kids []reflect.Value
	if fv.Kind() == reflect.Ptr {
		if !fv.IsNil() {
			kids = append(kids, fv)
		}
		return kids
	}
	for i := 0; i < fv.Len(); i++ {
		kids = append(kids, fv.Index(i))
	}
	return kids
}

// dumpNode prints the generic record of a built node (see Drv/Ast.lean for the format).
func dumpNode(sb *strings.Builder, v reflect.Value) {
	n := v.Interface().(yang.Node)
	t := v.Type().Elem()
	sb.WriteString("N ")
	sb.WriteString(t.Name())
	sb.WriteByte(' ')
	sb.WriteString(lib.HexS(n.NName()))
	sb.WriteByte(' ')
	sb.WriteString(srcRef(n.Statement()))
	sb.WriteByte(' ')
	if p := n.ParentNode(); isNilNode(p) {
		sb.WriteByte('-')
	} else {
		sb.WriteString(reflect.TypeOf(p).Elem().Name())
	}
	sb.WriteString(" {")
	// all tagged pointer / slice-of-pointer fields, also of types the discovery did not reach
	for i := 0; i < t.NumField(); i++ {
		f := t.Field(i)
		tag := strings.Split(f.Tag.Get("yang"), ",")[0]
		if tag == "" || tag == "Ext" {
			continue
		}
		isPtr := f.Type.Kind() == reflect.Ptr && f.Type != stmtType && f.Type.Elem().Kind() == reflect.Struct
		isSlice := f.Type.Kind() == reflect.Slice && f.Type.Elem().Kind() == reflect.Ptr && f.Type.Elem() != stmtType
		if !isPtr && !isSlice {
			continue
		}
		kids := childrenOf(v, i)
		if len(kids) == 0 {
			continue
		}
		sb.WriteByte(' ')
		sb.WriteString(tag)
		sb.WriteString(" [")
		for _, k := range kids {
			sb.WriteByte(' ')
			if k.IsNil() {
				sb.WriteString("nil")
				continue
			}
			dumpNode(sb, k)
		}
		sb.WriteString(" ]")
	}
	sb.WriteString(" } [")
	for _, e := range n.Exts() {
		sb.WriteByte(' ')
		sb.WriteString(extRef(e))
	}
	sb.WriteString(" ]")
}

var namedMandatory = map[string][]string{
	"leaf": {"type"}, "leaf-list": {"type"}, "typedef": {"type"}, "import": {"prefix"}, "belongs-to": {"prefix"},
	"module": {"namespace", "prefix"}, "submodule": {"belongs-to"}, "deviation": {"deviate"},
}

// oracle: Go-side structural comparison of a built node against its statement, independent of the
// model.  stmt is the node's own source statement tree (pointer identities are checked below it).
func oracle(v reflect.Value, stmt *yang.Statement, parent yang.Node, probs *[]string) {
	add := func(format string, a ...any) {
		if len(*probs) < 5 {
			*probs = append(*probs, fmt.Sprintf(format, a...))
		}
	}
	n := v.Interface().(yang.Node)
	where := hRef(stmt)
	if n.Statement() != stmt {
		add("%s: node's Statement() is %s", where, hRef(n.Statement()))
	}
	if n.NName() != stmt.Argument {
		add("%s: name %q, argument %q", where, n.NName(), stmt.Argument)
	}
	if p := n.ParentNode(); parent == nil && !isNilNode(p) || parent != nil && p != parent {
		add("%s: parent link is not the enclosing node", where)
	}
	want := typeOfKw(stmt.Keyword)
	if want == nil || want.t != v.Type() {
		add("%s: node type %s for keyword %s", where, v.Type().Elem().Name(), stmt.Keyword)
		return
	}
	ti := want
	next := map[int]int{} // field index -> number of children consumed
	nextExt := 0
	exts := n.Exts()
	count := map[string]int{}
	for _, ss := range stmt.SubStatements() {
		count[ss.Keyword]++
		if f := ti.field(ss.Keyword); f != nil {
			kids := childrenOf(v, f.idx)
			k := next[f.idx]
			if k >= len(kids) {
				add("%s: substatement %s has no node under field %s", where, hRef(ss), f.tag)
				continue
			}
			next[f.idx]++
			oracle(kids[k], ss, n, probs)
			continue
		}
		if strings.Count(ss.Keyword, ":") == 1 {
			if nextExt >= len(exts) || exts[nextExt] != ss {
				add("%s: prefixed substatement %s is not the next extension", where, hRef(ss))
			}
			nextExt++
			continue
		}
		add("%s: substatement %s with a keyword unknown under %s was accepted", where, hRef(ss), stmt.Keyword)
	}
	for _, f := range ti.fields {
		kids := childrenOf(v, f.idx)
		if next[f.idx] != len(kids) {
			add("%s: field %s holds %d nodes, %d substatements", where, f.tag, len(kids), next[f.idx])
		}
		if !f.slice && count[f.tag] > 1 {
			add("%s: single-valued %s given %d times was accepted", where, f.tag, count[f.tag])
		}
		if f.required && count[f.tag] == 0 {
			add("%s: mandatory %s is absent", where, f.tag)
		}
		for _, k := range f.reqKinds {
			if k == stmt.Keyword && count[f.tag] == 0 {
				add("%s: %s, mandatory for %s, is absent", where, f.tag, k)
			}
			if k != stmt.Keyword && count[f.tag] > 0 {
				add("%s: %s, a substatement of %s only, is present", where, f.tag, k)
			}
		}
	}
	// the mandatory substatements the property names, independent of the struct tags (RFC 7950)
	for _, c := range namedMandatory[stmt.Keyword] {
		if count[c] == 0 {
			add("%s: %s without %s was accepted", where, stmt.Keyword, c)
		}
	}
	if nextExt != len(exts) {
		add("%s: %d extensions stored, %d prefixed substatements", where, len(exts), nextExt)
	}
}

// ---------- the circumstances of the call that must not influence the AST

// hstep is one earlier call on the Modules value the text under test is parsed into.
type hstep struct {
	op     string // "parse" | "process"
	text   string
	name   string // source name; "=" = the name the text under test will be given
	accept bool   // parse: false = the text must be rejected
}

// earlier texts: their module names (zz-prior-*) occur in no generated or corpus text under test (what
// Modules.add does with colliding names is C13's subject); each of them is a corpus text as well
const (
	priorA = `module zz-prior-1 { namespace "urn:zz1"; prefix zz1; typedef t { type string; } grouping g { leaf gl { type t; } } container c { uses g; leaf a { type string; } } deviation /c/a { deviate not-supported; } }`
	priorB = `module zz-prior-2 { namespace "urn:zz2"; prefix zz2; import zz-prior-1 { prefix p1; } augment /p1:c { leaf b { type string; } } revision 2001-01-01; }`
	priorC = `submodule zz-prior-3 { belongs-to zz-prior-1 { prefix zz1; } leaf s { type string; } }`
	priorR = `module zz-prior-4 { namespace "urn:zz4"; prefix zz4; leaf l; }`
	priorL = `module zz-prior-5 { namespace "urn:zz5"; prefix zz5; leaf l { type string; }`
	priorT = `leaf zz-prior-6 { type string; }`
)

var histories = [][]hstep{
	0: nil,
	1: {{"parse", priorA, "other-1.yang", true}},
	2: {{"parse", priorA, "=", true}},
	3: {{"parse", priorR, "=", false}},
	4: {{"parse", priorL, "=", false}},
	5: {{"parse", priorA, "other-1.yang", true}, {"parse", priorR, "=", false}, {"parse", priorB, "=", true}, {"parse", priorC, "other-2.yang", true}, {"parse", priorT, "other-1.yang", false}},
	6: {{"parse", priorA, "=", true}, {"process", "", "", true}},
	7: {{"parse", priorA, "other-1.yang", true}, {"parse", priorB, "=", true}, {"process", "", "", true}, {"parse", priorR, "=", false}},
	8: {{"process", "", "", true}},
	9: {{"parse", priorT, "=", false}, {"parse", priorC, "=", true}, {"parse", priorL, "other-1.yang", false}},
}

var srcNames = []string{"t.yang", "zz-prior-1.yang", ""}

// pctx: everything around the call Modules.Parse(text, Name) that must not influence the AST.
type pctx struct {
	Opts int    `json:"opts"` // bit 0 IgnoreSubmoduleCircularDependencies, bit 1 StoreUses, bit 2 DeviateOptions.IgnoreDeviateNotSupported: set before any call
	Name string `json:"name"` // source name of the text under test
	Hist int    `json:"hist"` // index into histories: the earlier calls on the same Modules value
}

var defaultCtx = pctx{Name: "t.yang"}

func (c pctx) describe() string {
	var sb strings.Builder
	sb.WriteString("ms := NewModules()")
	for i, n := range []string{"IgnoreSubmoduleCircularDependencies", "StoreUses", "DeviateOptions.IgnoreDeviateNotSupported"} {
		if c.Opts&(1<<i) != 0 {
			sb.WriteString("; ms.ParseOptions." + n + " = true")
		}
	}
	if c.Hist >= 0 && c.Hist < len(histories) {
		for _, h := range histories[c.Hist] {
			if h.op == "process" {
				sb.WriteString("; ms.Process()")
				continue
			}
			name := h.name
			if name == "=" {
				name = c.Name
			}
			verdict := "accepted"
			if !h.accept {
				verdict = "rejected"
			}
			fmt.Fprintf(&sb, "; ms.Parse(%q, %q) /* %s */", h.text, name, verdict)
		}
	}
	fmt.Fprintf(&sb, "; ms.Parse(<text>, %q)", c.Name)
	return sb.String()
}

// brief: the context in a few words (the full call sequence is in the disagreement's input).
func (c pctx) brief() string {
	var parts []string
	for i, n := range []string{"IgnoreSubmoduleCircularDependencies", "StoreUses", "IgnoreDeviateNotSupported"} {
		if c.Opts&(1<<i) != 0 {
			parts = append(parts, n)
		}
	}
	o := "default options"
	if len(parts) > 0 {
		o = "options " + strings.Join(parts, "+") + " set"
	}
	var hs []string
	for _, h := range histories[c.Hist] {
		switch {
		case h.op == "process":
			hs = append(hs, "Process")
		case h.name == "=":
			hs = append(hs, map[bool]string{true: "Parse(accepted text, same name)", false: "Parse(rejected text, same name)"}[h.accept])
		default:
			hs = append(hs, map[bool]string{true: "Parse(accepted text, other name)", false: "Parse(rejected text, other name)"}[h.accept])
		}
	}
	e := "fresh set"
	if len(hs) > 0 {
		e = "earlier calls on the set: " + strings.Join(hs, ", ")
	}
	return fmt.Sprintf("%s; %s; source name %q", o, e, c.Name)
}

// allCtxs: every combination of options x history x the first two source names.
func allCtxs() []pctx {
	cs := []pctx{defaultCtx}
	for _, name := range srcNames[:2] {
		for h := range histories {
			for o := 0; o < 8; o++ {
				c := pctx{Opts: o, Name: name, Hist: h}
				if c != defaultCtx {
					cs = append(cs, c)
				}
			}
		}
	}
	return cs
}

// someCtxs: the plain call plus k contexts drawn by r.
func someCtxs(r *rand.Rand, k int) []pctx {
	cs := []pctx{defaultCtx}
	for i := 0; i < k; i++ {
		cs = append(cs, pctx{Opts: r.Intn(8), Name: srcNames[r.Intn(len(srcNames))], Hist: r.Intn(len(histories))})
	}
	return cs
}

// sameStmt: two statement trees agree in keyword, argument, position, recursively.
func sameStmt(a, b *yang.Statement) bool {
	if a == nil || b == nil {
		return a == b
	}
	al, ac := stmtPos(a)
	bl, bc := stmtPos(b)
	if a.Keyword != b.Keyword || a.HasArgument != b.HasArgument || a.Argument != b.Argument || al != bl || ac != bc ||
		len(a.SubStatements()) != len(b.SubStatements()) {
		return false
	}
	for i, c := range a.SubStatements() {
		if !sameStmt(c, b.SubStatements()[i]) {
			return false
		}
	}
	return true
}

// runGo hands text to Modules.Parse in the circumstances ctx describes and reads back what the set holds
// for it afterwards; ss is the runner's own parse of the text (for the statement -> module direction).
func runGo(text string, ctx pctx, ss []*yang.Statement) (res goResult) {
	defer func() {
		if r := recover(); r != nil {
			st := strings.Split(string(debug.Stack()), "\n")
			at := ""
			for _, l := range st {
				if strings.Contains(l, "/pkg/yang/") {
					at = strings.TrimSpace(l)
					break
				}
			}
			res = goResult{out: fmt.Sprintf("crash %v at %s", r, at), crashed: true}
		}
	}()
	ms := yang.NewModules()
	ms.ParseOptions.IgnoreSubmoduleCircularDependencies = ctx.Opts&1 != 0
	ms.ParseOptions.StoreUses = ctx.Opts&2 != 0
	ms.ParseOptions.DeviateOptions.IgnoreDeviateNotSupported = ctx.Opts&4 != 0
	var probs []string
	if ctx.Hist < 0 || ctx.Hist >= len(histories) {
		lib.Fatal("unknown history %d", ctx.Hist)
	}
	for i, h := range histories[ctx.Hist] {
		if h.op == "process" {
			ms.Process()
			continue
		}
		name := h.name
		if name == "=" {
			name = ctx.Name
		}
		if err := ms.Parse(h.text, name); err == nil && !h.accept {
			probs = append(probs, fmt.Sprintf("earlier call %d: Parse(%q, %q) must fail and returned nil", i, h.text, name))
		}
	}
	before := map[*yang.Module]bool{}
	for _, m := range ms.Modules {
		before[m] = true
	}
	for _, m := range ms.SubModules {
		before[m] = true
	}
	if err := ms.Parse(text, ctx.Name); err != nil {
		return goResult{out: classify(err, ctx.Name), problem: strings.Join(probs, "; ")}
	}
	type top struct {
		m     *yang.Module
		sub   bool
		l, c  int
		names []string
	}
	seen := map[*yang.Module]*top{}
	for _, sub := range []bool{false, true} {
		mm := ms.Modules
		if sub {
			mm = ms.SubModules
		}
		for k, m := range mm {
			if before[m] {
				continue // held by the set before this call
			}
			t := seen[m]
			if t == nil {
				l, c := 0, 0
				if m != nil && m.Source != nil {
					l, c = stmtPos(m.Source)
				}
				t = &top{m: m, sub: sub, l: l, c: c}
				seen[m] = t
			} else if t.sub != sub {
				res.problem = "one node is in Modules and in SubModules"
			}
			t.names = append(t.names, k)
		}
	}
	var tops []*top
	for _, t := range seen {
		tops = append(tops, t)
	}
	sort.Slice(tops, func(i, j int) bool {
		if tops[i].l != tops[j].l {
			return tops[i].l < tops[j].l
		}
		if tops[i].c != tops[j].c {
			return tops[i].c < tops[j].c
		}
		return tops[i].m.Name < tops[j].m.Name
	})
	var sb strings.Builder
	sb.WriteString("ok")
	for _, t := range tops {
		if t.sub {
			sb.WriteString(" S ")
		} else {
			sb.WriteString(" M ")
		}
		if t.m == nil {
			probs = append(probs, "nil entry in the module map")
			continue
		}
		dumpNode(&sb, reflect.ValueOf(t.m))
		if t.m.Source == nil {
			probs = append(probs, "module without source statement")
			continue
		}
		oracle(reflect.ValueOf(t.m), t.m.Source, nil, &probs)
		if (t.m.Source.Keyword == "submodule") != t.sub || t.m.Source.Keyword != "module" && t.m.Source.Keyword != "submodule" {
			probs = append(probs, fmt.Sprintf("top-level %s landed in the wrong module map", hRef(t.m.Source)))
		}
		filed := false
		for _, k := range t.names {
			if k == t.m.FullName() {
				filed = true
			}
		}
		if !filed {
			probs = append(probs, fmt.Sprintf("top-level %s is not filed under its full name %q (keys %q)", hRef(t.m.Source), t.m.FullName(), t.names))
		}
	}
	// from statement to node: every top-level statement of the text has its module in the set, built
	// from a statement tree equal to the runner's own parse of the text
	if ss != nil {
		if len(tops) != len(ss) {
			probs = append(probs, fmt.Sprintf("Parse returned nil: %d top-level statements, %d modules added to the set by this call", len(ss), len(tops)))
		} else {
			for i, t := range tops {
				if t.m != nil && !sameStmt(t.m.Source, ss[i]) {
					probs = append(probs, fmt.Sprintf("the module for top-level statement %s was built from another statement tree", hRef(ss[i])))
				}
			}
		}
	}
	res.out = sb.String()
	if len(probs) > 0 && res.problem == "" {
		res.problem = strings.Join(probs, "; ")
	}
	return res
}

// ---------- cases

type altRes struct {
	ctx pctx
	g   goResult
}

type tcase struct {
	Origin string `json:"origin"`
	Text   string `json:"text"`
	wire   string
	nstmt  int
	srcPos map[string]bool
	ctx    pctx
	g      goResult // result of the first context (the plain call unless replaying)
	alts   []altRes // the contexts whose result differs from g (none on a correct implementation)
	nctx   int
}

// prepare parses the text with the real generic parser and runs the real builder in every context of
// ctxs (nil = the plain call only).
func prepare(origin, text string, ctxs []pctx) (*tcase, error) {
	ss, err := yang.Parse(text, "t.yang")
	if err != nil {
		return nil, err
	}
	var sb strings.Builder
	n := 0
	var cnt func(s *yang.Statement)
	cnt = func(s *yang.Statement) {
		n++
		for _, c := range s.SubStatements() {
			cnt(c)
		}
	}
	for _, s := range ss {
		lib.WireStmt(&sb, s)
		cnt(s)
	}
	if len(ctxs) == 0 {
		ctxs = []pctx{defaultCtx}
	}
	c := &tcase{Origin: origin, Text: text, wire: strings.TrimSpace(sb.String()), nstmt: n, ctx: ctxs[0], nctx: len(ctxs)}
	c.g = runGo(text, ctxs[0], ss)
	for _, x := range ctxs[1:] {
		if g := runGo(text, x, ss); g != c.g && len(c.alts) < 4 {
			c.alts = append(c.alts, altRes{x, g})
		}
	}
	return c, nil
}

func sameTree(g *gs, s *yang.Statement) bool {
	if g.kw != s.Keyword || g.hasArg != s.HasArgument || (g.hasArg && g.arg != s.Argument) || len(g.subs) != len(s.SubStatements()) {
		return false
	}
	for i, c := range g.subs {
		if !sameTree(c, s.SubStatements()[i]) {
			return false
		}
	}
	return true
}

// ---------- random trees

type rgen struct {
	r      *rand.Rand
	allKw  []string
	maxDep int
}

var unknownKws = []string{"foo", "Name", "Statement", "Parent", "Ext", "submodule", "module", "a:b:c", "frobnicate"}
var prefixedKws = []string{"p:ext", "x:y", ":q", "q:", "oc-ext:openconfig-version", "Name:x"}

// prefixes put in front of *known* keywords: `<pfx>:type` is an extension statement (one colon, not a
// field of any node), never the statement `type`.  "x" is the prefix the minimal module declares.
var localPrefixes = []string{"x", "p", "oc-ext", "", "d2"}

var argPool = []string{"a", "b", "c", "x1", "a b", "", "urn:x", "1", "2001-01-01", "2002-02-02", "true", "\u00e9t\u00e9", "q\"uo\\te", "tab\there", "{;}"}

// arguments with white space at the edges, all-blank arguments: the node's name is the argument byte
// for byte, on every node type
var blankArgs = []string{" a", "a ", " a b ", "\ta", "a\t", "a\n", "\na", "a \n", " ", "  ", "\t", "\n", " \n ", "[a-z]+ ", " /x/y ", "1..2 "}

func (g *rgen) arg(s *gs) {
	if g.r.Intn(25) == 0 {
		return // no argument
	}
	s.hasArg = true
	s.arg = argPool[g.r.Intn(len(argPool))]
	if g.r.Intn(60) == 0 {
		s.arg = []string{"a@b", "@", "m@2001-01-01"}[g.r.Intn(3)] // refused as a module name by Modules.add, fine elsewhere
	}
	if g.r.Intn(6) == 0 {
		s.arg = blankArgs[g.r.Intn(len(blankArgs))]
	}
}

func (g *rgen) free(depth int) *gs {
	// an arbitrary statement (content of an extension statement): anything goes below it
	s := &gs{kw: g.anyKw()}
	g.arg(s)
	if depth < g.maxDep && g.r.Intn(3) == 0 {
		for i := g.r.Intn(3); i > 0; i-- {
			s.subs = append(s.subs, g.free(depth+1))
		}
	}
	return s
}

func (g *rgen) anyKw() string {
	switch x := g.r.Intn(10); {
	case x < 6:
		return g.allKw[g.r.Intn(len(g.allKw))]
	case x < 8:
		if g.r.Intn(2) == 0 {
			return localPrefixes[g.r.Intn(len(localPrefixes))] + ":" + g.allKw[g.r.Intn(len(g.allKw))]
		}
		return prefixedKws[g.r.Intn(len(prefixedKws))]
	default:
		return unknownKws[g.r.Intn(len(unknownKws))]
	}
}

func (g *rgen) node(kw string, depth int, noise int) *gs {
	s := &gs{kw: kw}
	g.arg(s)
	ti := typeOfKw(kw)
	if ti == nil {
		if strings.Count(kw, ":") == 1 && depth < g.maxDep {
			for i := g.r.Intn(3); i > 0; i-- {
				s.subs = append(s.subs, g.free(depth+1))
			}
		}
		return s
	}
	for _, f := range ti.fields {
		need := f.required
		for _, k := range f.reqKinds {
			if k == kw {
				need = true
			}
		}
		if need {
			if g.r.Intn(100) >= noise {
				s.subs = append(s.subs, g.node(f.tag, depth+1, noise))
			} else if g.r.Intn(2) == 0 {
				// the mandatory substatement is absent, an extension statement with its local name is there
				s.subs = append(s.subs, g.lookAlike(f.tag, depth+1, noise))
			}
		}
	}
	if len(ti.fields) > 0 && g.r.Intn(8) == 0 {
		// an extension statement whose local name is a field of this node (valid YANG: stays an extension)
		s.subs = append(s.subs, g.lookAlike(ti.fields[g.r.Intn(len(ti.fields))].tag, depth+1, noise))
	}
	if depth < g.maxDep {
		// optional substatements: distinct fields of the type, fewer the deeper we are; statements of
		// type Value (only `description` below them) mostly stay leaves
		nf := g.r.Intn(5 - depth)
		if depth == 0 {
			nf += 3
		}
		if len(ti.fields) <= 1 && g.r.Intn(8) != 0 {
			nf = 0
		}
		perm := g.r.Perm(len(ti.fields))
		for i := 0; i < nf && i < len(perm); i++ {
			f := ti.fields[perm[i]]
			if len(f.reqKinds) > 0 && g.r.Intn(100) >= noise {
				foreign := true
				for _, k := range f.reqKinds {
					if k == kw {
						foreign = false
					}
				}
				if foreign {
					continue // a substatement of the other root keyword only (belongs-to in a module)
				}
			}
			have := 0
			for _, c := range s.subs {
				if c.kw == f.tag {
					have++
				}
			}
			m := 1
			if f.slice {
				m = 1 + g.r.Intn(3)
			} else {
				m = 1 - have // single-valued and possibly there already (mandatory)
				if g.r.Intn(100) < noise {
					m += 1 + g.r.Intn(2)
				}
			}
			for j := 0; j < m; j++ {
				s.subs = append(s.subs, g.node(f.tag, depth+1, noise))
			}
		}
	}
	if g.r.Intn(100) < 2*noise {
		s.subs = append(s.subs, g.node(prefixedKws[g.r.Intn(len(prefixedKws))], depth+1, noise))
	}
	if g.r.Intn(100) < noise {
		s.subs = append(s.subs, g.node(g.anyKw(), depth+1, noise))
	}
	g.r.Shuffle(len(s.subs), func(i, j int) { s.subs[i], s.subs[j] = s.subs[j], s.subs[i] })
	return s
}

// lookAlike builds `<pfx>:<kw> …` with the substatements a real <kw> would have.
func (g *rgen) lookAlike(kw string, depth int, noise int) *gs {
	s := g.node(kw, depth, noise)
	s.kw = localPrefixes[g.r.Intn(len(localPrefixes))] + ":" + kw
	return s
}

func (g *rgen) file() []*gs {
	noise := []int{0, 2, 4, 8}[g.r.Intn(4)]
	top := "module"
	switch x := g.r.Intn(40); {
	case x < 8:
		top = "submodule"
	case x == 8:
		top = g.anyKw()
	}
	tops := []*gs{g.node(top, 0, noise)}
	if g.r.Intn(12) == 0 {
		second := g.node([]string{"module", "submodule", "module", g.anyKw()}[g.r.Intn(4)], 0, noise)
		// distinct module names: what Modules.add does with colliding names (duplicates, revisions
		// rebinding the bare name) is the registry's business (C13), not the builder's
		second.hasArg, second.arg = true, tops[0].arg+"2"
		tops = append(tops, second)
	}
	return tops
}

// deviateKinds rewrites (with probability 1/2 each) the argument of the deviate statements of a random
// tree to one of the four kinds of RFC 7950.
func deviateKinds(r *rand.Rand, s *gs) {
	if s.kw == "deviate" && r.Intn(2) == 0 {
		s.hasArg, s.arg = true, []string{"not-supported", "not-supported", "add", "replace", "delete"}[r.Intn(5)]
	}
	for _, c := range s.subs {
		deviateKinds(r, c)
	}
}

// deviationShapes: modules (and submodules) with deviations made of every sequence of deviate kinds.
func deviationShapes() [][]*gs {
	leaf := func(n string) *gs {
		return &gs{kw: "leaf", hasArg: true, arg: n, subs: []*gs{{kw: "type", hasArg: true, arg: "string"}}}
	}
	deviate := func(kind string, ext bool) *gs {
		d := &gs{kw: "deviate", hasArg: true, arg: kind}
		switch kind {
		case "add":
			d.subs = append(d.subs, &gs{kw: "units", hasArg: true, arg: "u"})
		case "replace":
			d.subs = append(d.subs, &gs{kw: "type", hasArg: true, arg: "int32"})
		case "delete":
			d.subs = append(d.subs, &gs{kw: "default", hasArg: true, arg: "d"})
		}
		if ext {
			d.subs = append(d.subs, &gs{kw: "x:why", hasArg: true, arg: "later"})
		}
		return d
	}
	kinds := []string{"not-supported", "add", "replace", "delete", " not-supported ", "other"}
	var seqs [][]string
	var rec func(cur []string, n int)
	rec = func(cur []string, n int) {
		if len(cur) > 0 {
			seqs = append(seqs, append([]string{}, cur...))
		}
		if n == 0 {
			return
		}
		for _, k := range kinds {
			rec(append(cur, k), n-1)
		}
	}
	rec(nil, 3)
	var out [][]*gs
	wrap := func(top string, devs []*gs, trailing bool) {
		var m *gs
		if top == "module" {
			m = &gs{kw: "module", hasArg: true, arg: "x", subs: []*gs{{kw: "namespace", hasArg: true, arg: "urn:x"}, {kw: "prefix", hasArg: true, arg: "x"}}}
		} else {
			m = &gs{kw: "submodule", hasArg: true, arg: "x", subs: []*gs{{kw: "belongs-to", hasArg: true, arg: "y", subs: []*gs{{kw: "prefix", hasArg: true, arg: "x"}}}}}
		}
		m.subs = append(m.subs, &gs{kw: "container", hasArg: true, arg: "c", subs: []*gs{leaf("a"), leaf("b"), leaf("d")}})
		m.subs = append(m.subs, devs...)
		if trailing {
			m.subs = append(m.subs, leaf("z"), &gs{kw: "x:after", hasArg: true, arg: "w"})
		}
		out = append(out, []*gs{m})
	}
	deviation := func(target string, seq []string, ext, more bool) *gs {
		d := &gs{kw: "deviation", hasArg: true, arg: target}
		if more {
			d.subs = append(d.subs, &gs{kw: "description", hasArg: true, arg: "mixed"})
		}
		for _, k := range seq {
			d.subs = append(d.subs, deviate(k, ext))
		}
		if more {
			d.subs = append(d.subs, &gs{kw: "x:note", hasArg: true, arg: "n"}, &gs{kw: "reference", hasArg: true, arg: "r"})
		}
		return d
	}
	// one deviation, every sequence of one to three deviates
	for i, seq := range seqs {
		wrap("module", []*gs{deviation("/c/a", seq, i%2 == 1, i%3 == 1)}, i%4 == 3)
		if len(seq) <= 2 {
			wrap("submodule", []*gs{deviation("/c/a", seq, i%2 == 0, i%3 == 0)}, i%4 == 1)
		}
	}
	// two and three deviations, each with a sequence of at most two deviates of the three main kinds
	var short [][]string
	for _, seq := range seqs {
		ok := len(seq) <= 2
		for _, k := range seq {
			if k != "not-supported" && k != "add" && k != "replace" {
				ok = false
			}
		}
		if ok {
			short = append(short, seq)
		}
	}
	n := 0
	for _, s1 := range short {
		for _, s2 := range short {
			n++
			wrap("module", []*gs{deviation("/c/a", s1, n%2 == 0, n%3 == 0), deviation("/c/b", s2, n%2 == 1, n%5 == 0)}, n%4 == 0)
		}
	}
	for _, s1 := range short[:3] {
		for _, s2 := range short[:3] {
			for _, s3 := range short[:3] {
				n++
				wrap("module", []*gs{deviation("/c/a", s1, n%2 == 0, false), deviation("/c/b", s2, false, n%3 == 0), deviation("/c/d", s3, n%2 == 1, false)}, n%4 == 0)
			}
		}
	}
	return out
}

// ---------- main

var corpus = []string{
	"module m { namespace n; prefix p; }",
	"submodule s { belongs-to m { prefix p; } }",
	"foo;",
	"foo:bar;",
	"foo:bar x { module m { namespace n; prefix p; } }",
	"container c;",
	"description d;",
	"module m { namespace n; prefix p; } foo;",
	"module m { namespace n; prefix p; Parent x; }",
	"module m { namespace n; prefix p; Statement x; }",
	"module m { namespace n; prefix p; Name x; }",
	"module m { namespace n; prefix p; Ext x; }",
	"module m { namespace n; prefix p; container c { Parent x; } }",
	"module m { namespace n; prefix p; container c { Statement x; } }",
	"module m { namespace n; prefix p; container c { Name x; } }",
	"module m { namespace n; prefix p; rpc r { input { Name x; } } }",
	"module { namespace n; prefix p; Name x; }",
	"module { namespace n; prefix p; }",
	"module m { namespace n; prefix p; namespace q; }",
	"module m { namespace n; prefix p; belongs-to b { prefix p; } }",
	"submodule m { belongs-to b { prefix p; } namespace n; }",
	"submodule m { }",
	"module m { namespace n; }",
	"module m { namespace n; prefix p; leaf l; }",
	"module m { namespace n; prefix p; leaf l { type string; type string; } }",
	"module m { namespace n; prefix p; import i; }",
	"module m { namespace n; prefix p; submodule s; }",
	"module m { namespace n; prefix p; module s; }",
	"module m { namespace n; prefix p; a:b c; :x; y: z; container c { e:f { anything goes { here; } } } }",
	"module m { namespace n; prefix p; a:b:c d; }",
	"module m { namespace n; prefix p; } module m2 { namespace n; prefix p; }",
	"module m { namespace n; prefix p; revision 2001-01-01; } module m2 { namespace n; prefix p; revision 2002-01-01; revision 2001-01-01; }",
	"module m { namespace n; prefix p; } submodule m { belongs-to m { prefix p; } }",
	"module m { namespace n; prefix p; } container c; module m2 { namespace n; }",
	"module m { namespace n; prefix p; } module m2 { namespace n; } container c;",
	"container c; module m2 { namespace n; }",
	"module m { namespace n; prefix p; description { a:b; } }",
	// an extension statement whose local name is that of a mandatory substatement does not stand in for it
	"module demo2 { namespace urn:demo2; prefix d2; extension type { argument name; } leaf x { d2:type string; } }",
	"module demo2 { namespace urn:demo2; prefix d2; leaf-list x { description d; d2:type string; } }",
	"module demo2 { namespace urn:demo2; prefix d2; typedef t { d2:type string; } }",
	"module demo2 { namespace urn:demo2; prefix d2; import other { d2:prefix o; } }",
	"module demo2 { namespace urn:demo2; prefix d2; deviation /x { d2:deviate not-supported; } }",
	"module m { prefix m; m:namespace urn:m; }",
	"module m { namespace urn:m; m:prefix m; }",
	"submodule s { x:belongs-to m { prefix m; } }",
	"submodule s { belongs-to m { x:prefix m; } }",
	"module demo2 { namespace urn:demo2; prefix d2; leaf x { d2:type int8; type string; } }",
	"module demo2 { namespace urn:demo2; prefix d2; leaf x { type string; d2:type int8; :type a; type: b; } }",
	"module m { namespace n; prefix p; x:belongs-to m { prefix p; } }",
	// the name is the argument byte for byte, white space at the edges included, on every node type
	"module m { namespace n; prefix p; leaf l { type string { pattern '[a-z]+ '; length \" 1..2 \"; } must ' a = b '; } }",
	"module m { namespace n; prefix p; leaf l { type string { pattern \"[a-z]+\" + \" \"; } must \"a\" + \"\\n\"; } }",
	"module ' m ' { namespace ' n '; prefix ' p '; augment ' /x ' { uses ' g ' { refine ' r '; } } deviation '\t/d\n' { deviate ' not-supported '; } }",
	"module m { namespace n; prefix p; typedef ' t ' { type ' enumeration ' { enum ' e '; enum ''; enum ' '; bit ' b '; range ' 1..2 '; } } }",
	"module m { namespace n; prefix p; container '' { leaf ' ' { type '\n'; } } list \"\" { key \" \"; } }",
	"submodule ' s ' { belongs-to ' m ' { prefix ' p '; } }",
	// names with '@' are refused by Modules.add for modules and submodules only
	"module a@b { namespace n; prefix p; }",
	"submodule s@2001-01-01 { belongs-to m { prefix p; } }",
	"module m { namespace n; prefix p; container a@b; }",
	"container a@b;",
	"module m { namespace n; prefix p; } module @ { namespace n; prefix p; }",
	"module @ { namespace n; } module m { namespace n; prefix p; }",
	"module m { namespace n; prefix p; deviation /x { } }",
	// deviate not-supported alone in its deviation, and mixed with other deviates (with an extension statement below it)
	"module m { namespace urn:m; prefix m; container c { leaf a { type string; } leaf b { type string; } } deviation /c/a { deviate not-supported; } deviation /c/b { description mixed; deviate replace { type int32; } deviate not-supported { m:why later; } } }",
	"module m { namespace urn:m; prefix m; deviation /c/a { deviate not-supported; } }",
	"submodule s { belongs-to m { prefix m; } deviation /c/a { deviate not-supported; deviate not-supported; } deviation /c/b { deviate add { units u; } } }",
	// the texts used as earlier calls in the contexts
	priorA, priorB, priorC, priorR, priorL, priorT,
	// texts that must be rejected whatever the set has seen before (same source name as an accepted earlier text)
	"module b { namespace urn:b; prefix b; leaf y; }",
	"module b { prefix b; }",
	"module b { namespace urn:b; prefix b; frob z; }",
	"module b { namespace urn:b; prefix b; leaf y { type string; type int8; } }",
	"leaf y { type string; }",
	"module b { namespace urn:b; prefix b; b:note n; leaf y { type string; } }",
	"module m { namespace n; prefix p; typedef t { type string { length 1..2 { error-message e; p:x; } } } leaf-list l { type t; default a; default b; } }",
}

type runState struct {
	f        *lib.Flags
	res      *lib.Result
	distinct *lib.Distinct
	mu       sync.Mutex
	ok, errs int64
	randOk   int64
	classes  map[string]int64
	nontriv  int64
	nctx     int64
	examined int
}

func (st *runState) process(cases []*tcase) {
	reqs := make([]string, len(cases))
	for i, c := range cases {
		reqs[i] = "build " + c.wire
	}
	ans, err := lib.ParBatch(st.f.Driver, reqs, st.f.Procs)
	if err != nil {
		lib.Fatal("driver: %v", err)
	}
	var d *lib.Driver
	defer func() {
		if d != nil {
			d.Close()
		}
	}()
	for i, c := range cases {
		st.res.Evaluations++
		if st.distinct.Add(c.wire) && c.nstmt >= 4 {
			st.nontriv++
		}
		fs := strings.Fields(c.g.out)
		switch {
		case c.g.crashed:
			st.classes["crash"]++
		case fs[0] == "ok":
			st.ok++
			if strings.HasPrefix(c.Origin, "random") {
				st.randOk++
			}
		default:
			st.errs++
			st.classes[fs[1]]++
		}
		if i%(len(cases)/3+1) == 0 {
			st.res.AddSample(map[string]any{"origin": c.Origin, "text": c.Text, "go": c.g.out, "model": ans[i]})
		}
		st.nctx += int64(c.nctx)
		ctx, g, bad := c.pick(ans[i])
		if !bad {
			continue
		}
		if st.examined >= 50 {
			st.res.Count("disagreements_not_examined", 1)
			continue
		}
		st.examined++
		if d == nil {
			d, err = lib.StartDriver(st.f.Driver)
			if err != nil {
				lib.Fatal("driver: %v", err)
			}
		}
		st.res.AddDisagreement(verdict(d, c, ctx, g, ans[i]))
	}
}

// pick selects the context to report: the first one whose result differs from the model's answer (which
// does not depend on the context) or whose Go-side comparison found something.
func (c *tcase) pick(model string) (pctx, goResult, bool) {
	if model != c.g.out || c.g.problem != "" {
		return c.ctx, c.g, true
	}
	for _, a := range c.alts {
		if model != a.g.out || a.g.problem != "" {
			return a.ctx, a.g, true
		}
	}
	return c.ctx, c.g, false
}

// verdict evaluates the specification on the Go output of one case in one context.
func verdict(d *lib.Driver, c *tcase, ctx pctx, g goResult, model string) lib.Disagreement {
	dis := lib.Disagreement{Kind: "correspondence", Input: map[string]any{"origin": c.Origin, "text": c.Text, "call": ctx.describe()}, Go: g.out, Model: model,
		Replay: map[string]any{"text": c.Text, "origin": c.Origin, "ctx": ctx}}
	how := ""
	if ctx != defaultCtx {
		how = " [" + ctx.brief()
		if c.ctx == defaultCtx && c.g.out != g.out {
			if strings.HasPrefix(c.g.out, "ok") && c.g.problem == "" {
				how += "; the plain call: accepted"
			} else {
				how += "; the plain call: " + short(c.g.out)
			}
		}
		how += "]"
	}
	switch {
	case g.crashed:
		dis.Kind = "crash"
		dis.SpecVerdict = "violates"
		dis.What = "the builder panics" + how + ": " + g.out
	case strings.HasPrefix(g.out, "ok"):
		mir, _ := d.Ask("spec.mirrors " + c.wire + " | " + g.out)
		acc, _ := d.Ask("spec.accepts " + c.wire)
		sp := fmt.Sprintf(" (spec.mirrors=%s spec.accepts=%s)", mir, acc)
		switch {
		case g.problem != "":
			dis.SpecVerdict = "violates"
			dis.What = "accepted, but the set holds no one-to-one mirror of the text" + how + ": " + g.problem + sp
			if acc == "false" {
				dis.What = "a text that must be rejected was accepted" + how + ": " + g.problem + sp
			}
			if model == g.out {
				dis.Kind = "spec"
			}
		case mir != "true":
			dis.SpecVerdict = "violates"
			dis.What = "accepted, but the built AST does not mirror the statement tree" + how + sp
		case acc != "true":
			dis.SpecVerdict = "violates"
			dis.What = "a statement tree that must be rejected was accepted" + how + sp
		default:
			dis.SpecVerdict = "holds"
			dis.What = "model and implementation differ; the Go output satisfies the specification" + how
		}
	case g.problem != "":
		dis.SpecVerdict = "violates"
		dis.What = "a text that must be rejected was accepted" + how + ": " + g.problem
	default:
		dis.SpecVerdict = "holds"
		dis.What = "model and implementation differ; the implementation reports an error, which the property permits" + how
		if strings.HasPrefix(g.out, "err other") {
			dis.What = "the implementation reports an error of a class the model does not know" + how
		}
	}
	return dis
}

func short(s string) string {
	if len(s) > 60 {
		return s[:60] + "…"
	}
	return s
}

func main() {
	f := lib.ParseFlags()
	discover(reflect.TypeOf(&yang.Module{}))
	kwType["module"] = reflect.TypeOf(&yang.Module{})
	if f.Replay != "" {
		replay(f)
		return
	}
	res := lib.NewResult("C03", f)
	st := &runState{f: f, res: res, distinct: lib.NewDistinct(), classes: map[string]int64{}}

	// 1. corpus
	var cases []*tcase
	// texts are collected first and handed to the real code by 16 workers (worker w takes the texts
	// w, w+16, …, and draws their contexts from its own seeded source)
	type pending struct {
		origin, text string
		all          bool // every context (options x history x name), otherwise the plain call + 3 drawn ones
	}
	var pend []pending
	allMode := true
	allC := allCtxs()
	addText := func(origin, text string) {
		pend = append(pend, pending{origin, text, allMode})
	}
	flush := func() {
		const W = 16
		out := make([]*tcase, len(pend))
		var wg sync.WaitGroup
		for w := 0; w < W; w++ {
			wg.Add(1)
			go func(w int) {
				defer wg.Done()
				r := f.Rand(2000 + w)
				for i := w; i < len(pend); i += W {
					ctxs := allC
					if !pend[i].all {
						ctxs = someCtxs(r, 3)
					}
					if strings.Contains(pend[i].text, "zz-prior-") {
						// the texts of the earlier calls themselves: only in sets that have not parsed them
						var keep []pctx
						for _, x := range ctxs {
							if x.Hist == 0 || x.Hist == 8 {
								keep = append(keep, x)
							}
						}
						ctxs = keep
					}
					c, err := prepare(pend[i].origin, pend[i].text, ctxs)
					if err == nil {
						out[i] = c
					}
				}
			}(w)
		}
		wg.Wait()
		for _, c := range out {
			if c == nil {
				res.Count("texts_rejected_by_the_generic_parser", 1)
				continue
			}
			cases = append(cases, c)
		}
		pend = nil
	}
	addTree := func(origin string, tops []*gs) {
		text := renderAll(tops)
		ss, err := yang.Parse(text, "t.yang")
		if err != nil || len(ss) != len(tops) {
			lib.Fatal("generated text does not parse as generated (%v):\n%s", err, text)
		}
		for i := range tops {
			if !sameTree(tops[i], ss[i]) {
				lib.Fatal("generated text parses to a different tree:\n%s", text)
			}
		}
		addText(origin, text)
	}
	for _, t := range corpus {
		addText("corpus", t)
	}
	flush()
	nCorpus := len(cases)

	// 1b. deviation shapes: every sequence of up to three deviate statements of every kind in one
	// deviation, pairs and triples of deviations, with and without extension statements below the
	// deviates and other substatements around them, in a module and in a submodule; each in every context
	nDev := 0
	for _, tops := range deviationShapes() {
		addTree(fmt.Sprintf("deviation shape #%d", nDev), tops)
		nDev++
	}
	flush()
	nDev = len(cases) - nCorpus
	allMode = false

	// 2. exhaustive triples
	allKw := append([]string{"module"}, kwOrder...)
	sort.Strings(allKw)
	pth := paths()
	childKws := append(append(append([]string{}, allKw...), unknownKws...), prefixedKws...)
	seenChild := map[string]bool{}
	var childs []string
	for _, k := range childKws {
		if !seenChild[k] {
			seenChild[k] = true
			childs = append(childs, k)
		}
	}
	mults := []int{0, 1, 2}
	if f.Thorough() {
		mults = []int{0, 1, 2, 3}
	}
	parents := append(append([]string{}, allKw...), "submodule")
	triples := 0
	for _, P := range parents {
		for _, C := range childs {
			for _, m := range mults {
				for _, top := range []string{"module", "submodule"} {
					if (P == "module" || P == "submodule") && top != P {
						continue
					}
					if top == "submodule" && P != "submodule" && !f.Thorough() && m != 2 {
						continue // quick tier: the submodule context only with multiplicity 2
					}
					base := P
					if P == "submodule" {
						base = "module"
					}
					path, ok := pth[base]
					if !ok {
						continue
					}
					p := minimal(P, 0)
					var subs []*gs
					for _, c := range p.subs {
						if c.kw != C {
							subs = append(subs, c)
						}
					}
					mk := func(i int) *gs {
						c := minimal(C, 0)
						c.arg = fmt.Sprintf("y%d", i)
						return c
					}
					switch m {
					case 1:
						subs = append(subs, mk(0))
					case 2:
						subs = append(append([]*gs{mk(0)}, subs...), mk(1))
					case 3:
						subs = append(append([]*gs{mk(0), mk(1)}, subs...), mk(2))
					}
					p.subs = subs
					addTree(fmt.Sprintf("triple %s/%s x%d in %s", P, C, m, top), []*gs{embed(path, p, top)})
					triples++
				}
			}
		}
	}
	// prefixed look-alikes: for every parent keyword and every field k of its node type, an extension
	// statement `<pfx>:k` (a) with k itself absent, (b) before a real k, (c) after a real k
	lookAlikes := 0
	pfxs := []string{"x", "oc-ext"}
	if f.Thorough() {
		pfxs = localPrefixes
	}
	for _, P := range parents {
		base := P
		if P == "submodule" {
			base = "module"
		}
		path, ok := pth[base]
		pti := typeOfKw(P)
		if !ok || pti == nil {
			continue
		}
		top := "module"
		if P == "submodule" {
			top = "submodule"
		}
		for _, fld := range pti.fields {
			for _, pfx := range pfxs {
				for variant := 0; variant < 3; variant++ {
					p := minimal(P, 0)
					var subs []*gs
					for _, c := range p.subs {
						if c.kw != fld.tag {
							subs = append(subs, c)
						}
					}
					real := minimal(fld.tag, 0)
					real.arg = "y0"
					fake := minimal(fld.tag, 0)
					fake.kw = pfx + ":" + fld.tag
					fake.arg = "y1"
					switch variant {
					case 0:
						subs = append(subs, fake)
					case 1:
						subs = append(append([]*gs{fake}, subs...), real)
					case 2:
						subs = append(append([]*gs{real}, subs...), fake)
					}
					p.subs = subs
					addTree(fmt.Sprintf("look-alike %s/%s:%s variant %d", P, pfx, fld.tag, variant), []*gs{embed(path, p, top)})
					lookAlikes++
				}
			}
		}
	}
	// every keyword of the table with every white-space-edged / all-blank / empty / absent argument, in
	// a minimal valid context
	blankCases := 0
	for _, K := range parents {
		base := K
		top := "module"
		if K == "submodule" {
			base, top = "module", "submodule"
		}
		path, ok := pth[base]
		if !ok {
			continue
		}
		for i, a := range append(append([]string{}, blankArgs...), "", "~") {
			k := minimal(K, 0)
			k.arg = a
			if a == "~" {
				k.hasArg, k.arg = false, ""
			}
			addTree(fmt.Sprintf("blank argument %s #%d", K, i), []*gs{embed(path, k, top)})
			blankCases++
		}
	}
	// every keyword as a top-level statement, alone and after a valid module
	for _, K := range childs {
		addTree("top "+K, []*gs{minimal(K, 0)})
		second := minimal(K, 0)
		second.arg = "x2" // distinct module names: collisions are the registry's business (C13)
		addTree("module then top "+K, []*gs{minimal("module", 0), second})
	}
	flush()
	nExh := len(cases) - nCorpus - nDev
	st.process(cases)
	cases = nil

	// 3. random trees
	total := 64000
	if f.Thorough() {
		total = 500000
	}
	shards := 16
	per := total / shards
	gens := make([]*rgen, shards)
	ctxR := make([]*rand.Rand, shards) // contexts and deviate kinds: a source of their own, the trees stay as they were
	for sh := range gens {
		gens[sh] = &rgen{r: f.Rand(sh), allKw: allKw, maxDep: 4}
		ctxR[sh] = f.Rand(1000 + sh)
	}
	var sizes int64
	// rounds of at most 4000 cases per shard keep memory flat in the thorough tier
	for done := 0; done < per; done += 4000 {
		n := per - done
		if n > 4000 {
			n = 4000
		}
		chunks := make([][]*tcase, shards)
		var wg sync.WaitGroup
		for sh := 0; sh < shards; sh++ {
			wg.Add(1)
			go func(sh int) {
				defer wg.Done()
				g := gens[sh]
				for i := 0; i < n; i++ {
					tops := g.file()
					for _, t := range tops {
						deviateKinds(ctxR[sh], t)
					}
					text := renderAll(tops)
					c, err := prepare(fmt.Sprintf("random shard %d #%d", sh, done+i), text, someCtxs(ctxR[sh], 2))
					if err != nil {
						lib.Fatal("generated text does not parse (%v):\n%s", err, text)
					}
					chunks[sh] = append(chunks[sh], c)
				}
			}(sh)
		}
		wg.Wait()
		var all []*tcase
		for _, ch := range chunks {
			for _, c := range ch {
				sizes += int64(c.nstmt)
			}
			all = append(all, ch...)
		}
		st.process(all)
	}

	res.DistinctNontrivial = st.nontriv
	res.Exhaustive = false // the triple enumeration is complete, the space of all statement trees is sampled
	res.Rule = "distinct_nontrivial = distinct statement forests (wire form incl. positions) with at least 4 statements. " +
		"Exhaustive part: every (parent keyword, child keyword, multiplicity) triple with the parent in a minimal valid module " +
		"(and submodule) context, child keywords = every keyword of the table + meta-names Name/Statement/Parent/Ext + unknown + " +
		"prefixed (one colon) + two-colon keywords; every such keyword as a top-level statement alone and after a valid module; " +
		"for every parent keyword and every field k of its node type an extension statement <pfx>:k with k absent / before k / after k; " +
		"every keyword with arguments that have blanks, tabs or line feeds at the edges, all-blank, empty and absent arguments; " +
		"deviations with every sequence of up to three deviate kinds. Random part: seeded random trees to depth 4. " +
		"Every text is handed to Modules.Parse by the plain call (fresh set, default options, name t.yang) and in further contexts that must not " +
		"influence the AST (ParseOptions set before the call, earlier accepted/rejected Parse calls and Process on the same set, the same source " +
		"name reused, other source names); in each context the modules the set holds for the text afterwards are read back and compared."
	res.Distribution["corpus_cases"] = nCorpus
	res.Distribution["deviation_shape_cases"] = nDev
	res.Distribution["parse_calls_in_context"] = st.nctx
	res.Distribution["contexts"] = fmt.Sprintf("corpus and deviation shapes: all %d combinations of 8 option settings x %d histories of earlier calls on the same Modules value x 2 source names; "+
		"exhaustive cases: the plain call + 3 drawn contexts; random cases: the plain call + 2 drawn contexts (3 source names, the empty one among them)", len(allC), len(histories))
	res.Distribution["exhaustive_cases"] = nExh
	res.Distribution["triples"] = triples
	res.Distribution["look_alike_cases"] = lookAlikes
	res.Distribution["blank_argument_cases"] = blankCases
	res.Distribution["parent_keywords"] = len(parents)
	res.Distribution["child_keywords"] = len(childs)
	res.Distribution["multiplicities"] = fmt.Sprint(mults)
	res.Distribution["random_cases"] = per * shards
	res.Distribution["random_mean_statements"] = float64(sizes) / float64(per*shards)
	res.Distribution["go_ok"] = st.ok
	res.Distribution["random_go_ok"] = st.randOk
	res.Distribution["go_error"] = st.errs
	cl := map[string]any{}
	for k, v := range st.classes {
		cl[k] = v
	}
	res.Distribution["go_error_classes"] = cl
	res.Write(f.Out)
	fmt.Printf("C03: %d cases (%d corpus, %d deviation shapes, %d exhaustive, %d random; %d Parse calls in context), go ok=%d err=%d %v, disagreements=%d\n",
		res.Evaluations, nCorpus, nDev, nExh, per*shards, st.nctx, st.ok, st.errs, st.classes, len(res.Disagreements))
}

func replay(f *lib.Flags) {
	raw, err := os.ReadFile(f.Replay)
	if err != nil {
		lib.Fatal("%v", err)
	}
	var p struct {
		Disagreement struct {
			Replay struct {
				Text   string `json:"text"`
				Origin string `json:"origin"`
				Ctx    *pctx  `json:"ctx"`
			} `json:"replay"`
		} `json:"disagreement"`
	}
	if err := json.Unmarshal(raw, &p); err != nil {
		lib.Fatal("%v", err)
	}
	text := p.Disagreement.Replay.Text
	ctx := defaultCtx
	if p.Disagreement.Replay.Ctx != nil {
		ctx = *p.Disagreement.Replay.Ctx
	}
	fmt.Printf("call: %s\n", ctx.describe())
	c, err := prepare(p.Disagreement.Replay.Origin, text, []pctx{ctx})
	if err != nil {
		fmt.Printf("input:\n%s\nthe generic parser rejects the text: %v\n", text, err)
		os.Exit(1)
	}
	d, err := lib.StartDriver(f.Driver)
	if err != nil {
		lib.Fatal("%v", err)
	}
	defer d.Close()
	m, _ := d.Ask("build " + c.wire)
	if m == c.g.out && c.g.problem == "" {
		fmt.Printf("input:\n%s\ngo:    %s\nmodel: %s\nmodel and implementation agree; the Go-side structural comparison finds nothing\n", text, c.g.out, m)
		return
	}
	v := verdict(d, c, ctx, c.g, m)
	fmt.Printf("input:\n%s\ngo:    %s\nmodel: %s\nspec:  %s (%s)\n", text, c.g.out, m, v.SpecVerdict, v.What)
	if c.g.problem != "" {
		fmt.Printf("go-side structural comparison: %s\n", c.g.problem)
	}
	if m != c.g.out || c.g.problem != "" {
		os.Exit(1)
	}
}
