package main

import (
	"fmt"
	"reflect"
	"strings"

	"github.com/openconfig/goyang/pkg/yang"
	"verif/harness/rescorr"
)

// clauseNone is the clause of C04 the findings below are about.
const clauseNone = "an empty error list from processing means there were none"

// unresolvedUses walks the statement trees (AST) of every loaded module and submodule and returns a
// description of the first `uses` whose grouping does not exist (goyang's own FindGrouping from the
// place of the statement finds none).  Such a schema has an error whatever the resolver made of the
// statement, so an empty error list from Process is wrong, wherever the statement stands (in a
// container, a grouping nobody uses, the body of an augment that contributes no node ...).  The
// inside of a `uses` statement (refine, uses-augment) is not visited: goyang does not convert it.
func unresolvedUses(ms *yang.Modules) []string {
	var out []string
	seen := map[yang.Node]bool{}
	var walk func(n yang.Node, depth int)
	walk = func(n yang.Node, depth int) {
		if n == nil || depth > 80 || len(out) >= 3 {
			return
		}
		rv := reflect.ValueOf(n)
		if rv.Kind() != reflect.Ptr || rv.IsNil() || rv.Elem().Kind() != reflect.Struct {
			return
		}
		if seen[n] {
			return
		}
		seen[n] = true
		if u, ok := n.(*yang.Uses); ok {
			if yang.FindGrouping(u, u.Name, map[string]bool{}) == nil {
				where := "?"
				if p := u.ParentNode(); p != nil {
					where = p.Kind() + " " + p.NName()
				}
				mod := "?"
				if rm := yang.RootNode(u); rm != nil {
					mod = rm.FullName()
				}
				out = append(out, fmt.Sprintf("uses %s in %s of module %s at %s", u.Name, where, mod, yang.Source(u)))
			}
			return
		}
		v := rv.Elem()
		t := v.Type()
		for i := 0; i < t.NumField(); i++ {
			tag := t.Field(i).Tag.Get("yang")
			if tag == "" {
				continue
			}
			switch strings.Split(tag, ",")[0] {
			case "Name", "Statement", "Parent", "Ext", "":
				continue
			}
			fv := v.Field(i)
			switch fv.Kind() {
			case reflect.Ptr:
				if !fv.IsNil() {
					if c, ok := fv.Interface().(yang.Node); ok {
						walk(c, depth+1)
					}
				}
			case reflect.Slice:
				for j := 0; j < fv.Len(); j++ {
					if e := fv.Index(j); e.Kind() == reflect.Ptr && !e.IsNil() {
						if c, ok := e.Interface().(yang.Node); ok {
							walk(c, depth+1)
						}
					}
				}
			}
		}
	}
	done := map[*yang.Module]bool{}
	for _, mm := range []map[string]*yang.Module{ms.Modules, ms.SubModules} {
		for _, m := range mm {
			if !done[m] {
				done[m] = true
				walk(m, 0)
			}
		}
	}
	return out
}

// barrenCorpus: fixed sets with ONE augment whose body contributes no node, for every kind of
// target, writer and body; the faulty ones carry exactly one fault (the set has no other error), so
// that the error recorded on the augment entry is the only thing that can make Process unclean.
func barrenCorpus() []rescorr.Case {
	const base = `module base { namespace "urn:base"; prefix b; include bsub;
  container top { leaf name { type string; }
    choice kind { case explicit { leaf e { type string; } } container short { leaf s { type string; } } }
    list ls { key k; leaf k { type string; } }
    action act { input { leaf ai { type string; } } } }
  rpc op { input { leaf x { type string; } } }
  rpc bare;
  notification note { leaf nl { type string; } }
  grouping gb { container fromg { leaf fg { type string; } } }
  uses gb;
}
`
	const bsub = `submodule bsub { belongs-to base { prefix bb; }
  container subtop { leaf sl { type string; } }
}
`
	targets := []struct{ name, path string }{
		{"container", "/%s:top"},
		{"list", "/%s:top/%s:ls"},
		{"choice", "/%s:top/%s:kind"},
		{"case", "/%s:top/%s:kind/%s:explicit"},
		{"shorthand-member", "/%s:top/%s:kind/%s:short"},
		{"inside-implied-case", "/%s:top/%s:kind/%s:short/%s:short"},
		{"rpc-input", "/%s:op/%s:input"},
		{"rpc-output-lazy", "/%s:op/%s:output"},
		{"bare-rpc-input-lazy", "/%s:bare/%s:input"},
		{"action-input", "/%s:top/%s:act/%s:input"},
		{"action-output-lazy", "/%s:top/%s:act/%s:output"},
		{"notification", "/%s:note"},
		{"grouping-instance", "/%s:fromg"},
		{"submodule-node", "/%s:subtop"},
	}
	bodies := []struct {
		name, groupings, body string
		faulty                bool
	}{
		{"uses-missing", "", `uses absent;`, true},
		{"described-uses-missing", "", `description "adds the members of a grouping that was never written"; uses absent;`, true},
		{"when-uses-missing", "", `when "1 = 1"; uses absent;`, true},
		{"empty-then-missing", `grouping e1; grouping e2 { description "nothing"; }`, `uses e1; uses absent; uses e2;`, true},
		{"missing-then-empty", `grouping e1 { grouping inner { leaf never { type string; } } }`, `uses absent; uses e1;`, true},
		{"missing-own-prefix", "", `uses %OWN%:absent;`, true},
		{"missing-unknown-prefix", "", `uses zz:absent;`, true},
		{"missing-with-substatements", "", `uses absent { when "2 = 2"; description "of nothing"; }`, true},
		{"two-missing", "", `uses absent; uses absent2;`, true},
		{"scoped-elsewhere", `container box { grouping hidden { leaf h { type string; } } leaf bz { type string; } }`, `uses hidden;`, true},
		{"only-child-dropped", `grouping hollow { uses absent; }`, `uses hollow;`, true},
		{"nothing", "", ``, false},
		{"only-description", "", `description "adds no node"; when "1 = 1"; status current;`, false},
		{"only-empty-uses", `grouping e1; grouping e2 { uses e1; }`, `uses e2; uses e1;`, false},
	}
	mk := func(label string, faulty bool, kv ...string) rescorr.Case {
		c := rescorr.Case{Extra: map[string]string{"label": "corpus-barren", "barren": label}}
		if faulty {
			c.Extra["barren_faulty"] = "1"
		}
		for i := 0; i+1 < len(kv); i += 2 {
			c.Names = append(c.Names, kv[i])
			c.Texts = append(c.Texts, kv[i+1])
		}
		return c
	}
	path := func(tmpl, pfx string) string { return strings.ReplaceAll(tmpl, "%s", pfx) }
	var out []rescorr.Case
	// the author's demonstration
	out = append(out, mk("demo", true, "target1.yang", `module target1 { namespace "urn:target1"; prefix t1;
  container top { leaf a { type string; } }
}
`, "aug1.yang", `module aug1 { namespace "urn:aug1"; prefix a1; import target1 { prefix t1; }
  grouping present { leaf b { type string; } }
  augment "/t1:top" { description "adds the members of a grouping that was never written"; uses absent; }
}
`))
	k := 0
	for ti, t := range targets {
		for bi, b := range bodies {
			// every target with the plain missing uses; the other bodies rotate over the targets
			if bi != 0 && (ti+bi)%len(targets) >= 3 {
				continue
			}
			k++
			label := t.name + ":" + b.name
			var c rescorr.Case
			switch k % 3 {
			case 0: // written by an importer
				body := strings.ReplaceAll(b.body, "%OWN%", "e")
				c = mk(label+":importer", b.faulty, "base.yang", base, "bsub.yang", bsub, "ext.yang",
					fmt.Sprintf("module ext { namespace \"urn:ext\"; prefix e; import base { prefix b; }\n  %s\n  augment %q { %s }\n}\n", b.groupings, path(t.path, "b"), body))
			case 1: // written by the module itself
				body := strings.ReplaceAll(b.body, "%OWN%", "b")
				own := strings.Replace(base, "  uses gb;\n", fmt.Sprintf("  uses gb;\n  %s\n  augment %q { %s }\n", b.groupings, path(t.path, "b"), body), 1)
				c = mk(label+":own", b.faulty, "base.yang", own, "bsub.yang", bsub)
			default: // written by a submodule of the target's module
				body := strings.ReplaceAll(b.body, "%OWN%", "bb")
				sub := strings.Replace(bsub, "}\n}\n", fmt.Sprintf("}\n  %s\n  augment %q { %s }\n}\n", b.groupings, path(t.path, "bb"), body), 1)
				c = mk(label+":submodule", b.faulty, "base.yang", base, "bsub.yang", sub)
			}
			switch k % 7 {
			case 3:
				c.Extra["runs"] = "pcp"
			case 5:
				c.Extra["text"] = "1"
			}
			out = append(out, c)
		}
	}
	// chained: the target is grafted by another augment, written after the barren one; and the barren
	// one written in a module loaded from the path
	out = append(out, mk("chained", true, "base.yang", base, "bsub.yang", bsub, "ext.yang", `module ext { namespace "urn:ext"; prefix e; import base { prefix b; }
  augment "/b:top/e:added/e:deeper" { uses absent; }
  augment "/b:top/e:added" { container deeper { leaf dl { type string; } } }
  augment "/b:top" { container added { leaf al { type string; } } }
}
`))
	out = append(out, mk("chained-clean", false, "base.yang", base, "bsub.yang", bsub, "ext.yang", `module ext { namespace "urn:ext"; prefix e; import base { prefix b; }
  augment "/b:top/e:added/e:deeper" { when "1 = 1"; }
  augment "/b:top/e:added" { container deeper { leaf dl { type string; } } }
  augment "/b:top" { container added { leaf al { type string; } } }
}
`))
	p := mk("from-path", true, "main.yang", `module main { namespace "urn:main"; prefix m; import base { prefix b; }
  augment "/b:top" { uses absent; }
}
`, "base.yang", base, "bsub.yang", bsub)
	p.Extra["from_path"], p.Extra["roots"] = "1", "0"
	out = append(out, p)
	p2 := mk("from-path-loaded-module", true, "main.yang", `module main { namespace "urn:main"; prefix m; import mid { prefix d; }
  leaf own { type string; }
}
`, "mid.yang", `module mid { namespace "urn:mid"; prefix d; import base { prefix b; }
  augment "/b:note" { description "nothing"; uses d:absent; }
}
`, "base.yang", base, "bsub.yang", bsub)
	p2.Extra["from_path"], p2.Extra["roots"] = "1", "0"
	out = append(out, p2)
	return out
}
