// corr-c04: a clean Process yields proper trees and really means there were no errors.
// Correspondence of the full resolver pipeline with the Lean model (structure, kinds, list
// attributes, type presence, errors) on generated module sets, plus the Go-side structural
// oracle the pure model cannot express: parent pointers, unique reachability of every *Entry,
// *ListAttr and *RPCEntry, kind consistency, no recorded error anywhere after a clean Process.
// "Anywhere" = every node reachable over Dir and rpc input/output from the root entry of every
// loaded module and submodule (roots included, also of modules that hold nothing but deviations),
// plus the entries a node keeps beside its children: deviation / deviate entries and the copies of
// merged augments (Entry.Deviations, Entry.Deviate, Entry.Augmented).  And a statement-side reading
// of "an empty error list means there were none": after a clean Process no loaded (sub)module may
// hold a `uses` of a grouping that does not exist (barren.go: unresolvedUses).
package main

import (
	"encoding/json"
	"fmt"
	"os"
	"reflect"
	"regexp"
	"strings"

	"github.com/openconfig/goyang/pkg/yang"
	"verif/harness/gen"
	"verif/harness/lib"
	"verif/harness/rescorr"
)

var keys = []string{"kind", "dir", "rpc", "la", "type", "key"}

// oracle walks every module and submodule tree.
func oracle(c rescorr.Case, ms *yang.Modules, errs []error, out *rescorr.GoOut) {
	if len(errs) > 0 {
		return
	}
	seenE := map[*yang.Entry]string{}
	seenLA := map[*yang.ListAttr]string{}
	seenRPC := map[*yang.RPCEntry]string{}
	seenDir := map[uintptr]string{}
	add := func(s string) {
		if len(out.Findings) < 10 {
			out.Findings = append(out.Findings, s)
		}
	}
	// a schema with a `uses` of a grouping that does not exist has an error, wherever the statement
	// stands and whatever became of the entry it was converted to (e.g. the body of an augment that
	// contributes no node: the error sits on the augment entry, which is in no tree)
	for _, u := range unresolvedUses(ms) {
		add(fmt.Sprintf("%s: Process returned no errors for a schema with a uses of a grouping that does not exist: %s", clauseNone, u))
	}
	seenSide := map[*yang.Entry]bool{}
	var side func(e *yang.Entry, path string, depth int)
	side = func(e *yang.Entry, path string, depth int) {
		if e == nil || seenSide[e] || depth > 40 {
			return
		}
		seenSide[e] = true
		if len(e.Errors) > 0 {
			if strings.Contains(path, "#augmented[") {
				add(fmt.Sprintf("%s: Process returned no errors, but the copy of a merged augment kept at %s carries a recorded error (%d in all): %v",
					clauseNone, path, len(e.Errors), e.Errors[0]))
			} else {
				add(fmt.Sprintf("recorded error after a clean Process on an entry kept at %s: %v", path, e.Errors[0]))
			}
		}
		for k, ch := range e.Dir {
			side(ch, path+"/"+k, depth+1)
		}
		for dt, des := range e.Deviate {
			for i, de := range des {
				side(de, fmt.Sprintf("%s#deviate(%v)[%d]", path, dt, i), depth+1)
			}
		}
		if e.RPC != nil {
			side(e.RPC.Input, path+"/input", depth+1)
			side(e.RPC.Output, path+"/output", depth+1)
		}
	}
	var walk func(e, parent *yang.Entry, key, path string, isRoot bool)
	walk = func(e, parent *yang.Entry, key, path string, isRoot bool) {
		if e == nil {
			add("nil entry at " + path)
			return
		}
		if p, ok := seenE[e]; ok {
			add(fmt.Sprintf("entry object reachable twice: %s and %s", p, path))
			return
		}
		seenE[e] = path
		if e.Parent != parent {
			add("wrong parent pointer at " + path)
		}
		if !isRoot && key != e.Name {
			add(fmt.Sprintf("child filed under %q but named %q at %s", key, e.Name, path))
		}
		if len(e.Errors) > 0 {
			add(fmt.Sprintf("recorded error after a clean Process at %s: %v", path, e.Errors[0]))
		}
		if len(e.Augments) > 0 {
			add("unapplied augment left at " + path)
		}
		if e.Dir != nil {
			// the child map itself must not be shared either (an empty map shared between two copies
			// looks fine until one of them gets a child)
			mp := reflect.ValueOf(e.Dir).Pointer()
			if p, ok := seenDir[mp]; ok {
				add(fmt.Sprintf("child map shared between %s and %s", p, path))
			}
			seenDir[mp] = path
		}
		if e.ListAttr != nil {
			if p, ok := seenLA[e.ListAttr]; ok {
				add(fmt.Sprintf("ListAttr shared between %s and %s", p, path))
			}
			seenLA[e.ListAttr] = path
		}
		isLeafish := e.Kind == yang.LeafEntry
		switch {
		case isLeafish && e.Dir != nil:
			add("leaf with a child map at " + path)
		case isLeafish && e.Type == nil:
			add("leaf without a resolved type at " + path)
		case !isLeafish && e.Dir == nil:
			add(fmt.Sprintf("%s node without a child map at %s", e.Kind, path))
		}
		if e.ListAttr != nil && !(isLeafish || e.Kind == yang.DirectoryEntry) {
			add(fmt.Sprintf("list attributes on a %s node at %s", e.Kind, path))
		}
		if e.Kind == yang.ChoiceEntry {
			for k, ch := range e.Dir {
				if ch.Kind != yang.CaseEntry {
					add(fmt.Sprintf("child %s of choice %s is a %s, not a case", k, path, ch.Kind))
				}
			}
		}
		// entries attached to a node without being nodes of the tree: the deviation entries a root keeps
		// (with their deviate entries) and the copies of merged augments kept on the target.  An error
		// recorded on one of them after the last sweep is lost in the same way
		for _, d := range e.Deviations {
			if d != nil {
				side(d.Entry, path+"#deviation("+d.DeviatedPath+")", 0)
			}
		}
		for i, a := range e.Augmented {
			side(a, fmt.Sprintf("%s#augmented[%d]", path, i), 0)
		}
		for k, ch := range e.Dir {
			walk(ch, e, k, path+"/"+k, false)
		}
		if e.RPC != nil {
			if p, ok := seenRPC[e.RPC]; ok {
				add(fmt.Sprintf("RPCEntry shared between %s and %s", p, path))
			}
			seenRPC[e.RPC] = path
			if e.RPC.Input != nil {
				walk(e.RPC.Input, e, "input", path+"/input", false)
			}
			if e.RPC.Output != nil {
				walk(e.RPC.Output, e, "output", path+"/output", false)
			}
		}
	}
	done := map[*yang.Module]bool{}
	var roots []*yang.Entry
	var rootNames []string
	for _, mm := range []map[string]*yang.Module{ms.Modules, ms.SubModules} {
		for _, m := range mm {
			if done[m] {
				continue
			}
			done[m] = true
			// every module and submodule, also one that only deviates or augments and owns no data
			// node: what is recorded on its root entry after the last sweep is found here only
			e := yang.ToEntry(m)
			walk(e, nil, "", "/"+m.FullName(), true)
			if ge := e.GetErrors(); len(ge) > 0 {
				add(fmt.Sprintf("GetErrors after a clean Process at /%s: %v", m.FullName(), ge[0]))
			}
			roots = append(roots, e)
			rootNames = append(rootNames, m.FullName())
		}
	}
	// a reader's lookups (Path, Namespace, InstantiatingModule, ReadOnly, Find of rpc input/output)
	// must not leave a recorded error behind either
	seenR := map[*yang.Entry]bool{}
	var read func(e *yang.Entry, depth int)
	read = func(e *yang.Entry, depth int) {
		if e == nil || seenR[e] || depth > 60 {
			return
		}
		seenR[e] = true
		_ = e.Path()
		_ = e.Namespace()
		e.InstantiatingModule()
		_ = e.ReadOnly()
		if e.RPC != nil {
			read(e.Find("input"), depth+1)
			read(e.Find("output"), depth+1)
		}
		for _, ch := range e.Dir {
			read(ch, depth+1)
		}
	}
	seenW := map[*yang.Entry]bool{}
	var errWalk func(e *yang.Entry, path string)
	errWalk = func(e *yang.Entry, path string) {
		if e == nil || seenW[e] {
			return
		}
		seenW[e] = true
		if len(e.Errors) > 0 {
			add(fmt.Sprintf("recorded error after reading the trees of a clean Process at %s: %v", path, e.Errors[0]))
		}
		for k, ch := range e.Dir {
			errWalk(ch, path+"/"+k)
		}
		if e.RPC != nil {
			errWalk(e.RPC.Input, path+"/input")
			errWalk(e.RPC.Output, path+"/output")
		}
	}
	if len(out.Findings) == 0 {
		for _, e := range roots {
			read(e, 0)
		}
		for i, e := range roots {
			errWalk(e, "/"+rootNames[i])
		}
	}
}

// chainDepth: longest chain of gen.LeftoverChains in the corpus (4 in the thorough tier).
var chainDepth = 3

func main() {
	f := lib.ParseFlags()
	if lib.IsChild() {
		rescorr.ServeChild(oracle)
		return
	}
	if f.Replay != "" {
		rescorr.Replay(f, oracle, keys)
		return
	}
	if dir := os.Getenv("C04_DUMP_CORPUS"); dir != "" {
		// maintenance aid: write every fixed corpus case as a replay file (<dir>/<i>-<label>.json)
		for i, c := range corpusCases() {
			raw, _ := json.Marshal(map[string]any{"disagreement": map[string]any{"replay": c}})
			if err := os.WriteFile(fmt.Sprintf("%s/%02d-%s.json", dir, i, c.Extra["label"]), raw, 0o644); err != nil {
				lib.Fatal("%v", err)
			}
		}
		return
	}
	res := lib.NewResult("C04", f)
	if f.Thorough() {
		chainDepth = 4
	}
	n := 3000
	if f.Thorough() {
		n = 150000
	}
	cfg := gen.Default()
	var cases []rescorr.Case
	for i := 0; i < n; i++ {
		set := gen.Generate(f.Rand(i), cfg)
		names, texts := set.Files()
		c := rescorr.Case{Names: names, Texts: texts}
		if r := f.Rand(i + 7919); r.Intn(6) == 0 {
			c.IgnoreCircular = r.Intn(2) == 0
			c.IgnoreNotSupported = r.Intn(2) == 0
		}
		if i%4 == 0 {
			// every fourth set goes to the model as raw text (Lean parser + AST builder + resolver)
			c.Extra = map[string]string{"text": "1"}
		}
		cases = append(cases, c)
	}
	// late augments: the target runs through / ends at an implied case, so the augment can only be
	// applied in the last Augment pass, after the first FixChoice; the body brings short-hand choice
	// members of its own, and the augment is written in the owner, a submodule or an importer, so the
	// grafted nodes live in another module's tree than the one that had the augment pending
	nLate := n / 4
	for i := 0; i < nLate; i++ {
		r := f.Rand(1000003 + i)
		set := gen.Generate(r, cfg)
		gen.AddLateAugments(r, set)
		names, texts := set.Files()
		cases = append(cases, rescorr.Case{Names: names, Texts: texts, Extra: map[string]string{"label": "late"}})
	}
	// files on disk: only some texts are handed to Parse, the others lie on the search path and are
	// loaded by Process itself while it links imports and includes; the oracle walks every module
	// and submodule that ended up loaded, the model is asked with exactly those texts
	nPath := n / 4
	for i := 0; i < nPath; i++ {
		r := f.Rand(2000003 + i)
		set := gen.Generate(r, cfg)
		if i%3 == 0 {
			gen.AddLateAugments(r, set)
		}
		names, texts := set.Files()
		if c, ok := pathCase(r, set, names, texts); ok {
			cases = append(cases, c)
		}
	}
	// odd prefixes on later path steps: deviation (and some augment) targets whose steps after the
	// first carry a prefix the writing module does not declare (undeclared / foreign but not
	// imported / the module name / none).  The deviations are applied after the last error sweep:
	// whatever is recorded on a node there is only seen by the oracle
	nPfx := n / 4
	for i := 0; i < nPfx; i++ {
		r := f.Rand(4000003 + i)
		set := gen.Generate(r, cfg)
		if i%5 == 0 {
			gen.AddLateAugments(r, set)
		}
		k := gen.AddOddPrefixes(r, set)
		names, texts := set.Files()
		c := rescorr.Case{Names: names, Texts: texts, Extra: map[string]string{"label": "oddprefix"}}
		if k > 0 {
			c.Extra["odd_paths"] = fmt.Sprint(k)
		}
		c.IgnoreNotSupported = r.Intn(3) == 0
		if i%6 == 5 {
			c.Extra["runs"] = "prp"
		}
		cases = append(cases, c)
	}
	// barren augments: the body contributes no node to the target (nothing, only when / if-feature /
	// description, only uses of empty groupings) and, for half of them, carries a fault - uses of a
	// grouping that does not exist in many spellings, beside empty ones, beside decorations, a
	// grouping whose only statement is dropped.  The error is recorded on the augment entry, which
	// belongs to no tree: only merging the augment brings it to a place the last sweep covers.  Two
	// thirds of the host sets are generated without deliberate faults, so that the planted one is
	// the only error of the set
	nBar := n / 4
	cleanCfg := cfg
	cleanCfg.BadRefs = false
	for i := 0; i < nBar; i++ {
		r := f.Rand(5000003 + i)
		hostCfg := cleanCfg
		if i%3 == 0 {
			hostCfg = cfg
		}
		set := gen.Generate(r, hostCfg)
		if i%6 == 1 {
			gen.AddLateAugments(r, set)
		}
		pct := 50
		if i%4 == 3 {
			pct = 0
		}
		st := gen.AddBarrenAugments(r, set, pct)
		names, texts := set.Files()
		c := rescorr.Case{Names: names, Texts: texts, Extra: map[string]string{"label": "barren"}}
		switch i % 8 {
		case 2:
			c.Extra["runs"] = runKindsAll[(i/8)%len(runKindsAll)]
		case 5:
			if pc, ok := pathCase(r, set, names, texts); ok {
				c = pc
			}
		case 6:
			c.Extra["text"] = "1"
		}
		c.Extra["barren"] = fmt.Sprint(st.Barren)
		if st.Faulty > 0 {
			c.Extra["barren_faulty"] = fmt.Sprint(st.Faulty)
		}
		cases = append(cases, c)
	}
	// repeated runs on one Modules value: the caller has processed before, and may have cleared the
	// entry cache, read trees (lazy rebuild, lazily created rpc input/output), looked modules up with
	// GetModule, or changed the options; the LAST Process run gets the oracle and the model comparison
	runKinds := runKindsAll
	nRuns := n / 4
	for i := 0; i < nRuns; i++ {
		r := f.Rand(3000003 + i)
		set := gen.Generate(r, cfg)
		if i%4 == 0 {
			gen.AddLateAugments(r, set)
		}
		names, texts := set.Files()
		c := rescorr.Case{Names: names, Texts: texts, Extra: map[string]string{"label": "runs"}}
		if i%5 == 4 {
			if pc, ok := pathCase(r, set, names, texts); ok {
				c = pc
			}
		}
		c.IgnoreNotSupported = r.Intn(4) == 0
		c.IgnoreCircular = r.Intn(8) == 0
		c.Extra["runs"] = runKinds[i%len(runKinds)]
		cases = append(cases, c)
	}
	nCorpus := 0
	if os.Getenv("C04_NO_CORPUS") == "" { // maintenance aid: see what the generated sets find on their own
		cases = append(corpusCases(), cases...)
		nCorpus = len(corpusCases())
	}
	outs := rescorr.RunAll(cases, f)
	distinct := lib.NewDistinct()
	var clean, late, withErr, outside, skipped int64
	for i, o := range outs {
		switch {
		case o.Crashed:
			res.AddDisagreement(lib.Disagreement{Kind: "crash", Input: o.Case, Go: o.CrashMsg, SpecVerdict: "violates",
				What: "goyang crashed or hung: " + firstLine(o.CrashMsg), Replay: o.Case})
			continue
		case o.Skipped != "":
			skipped++
			continue
		case o.Outside != "":
			outside++
			continue
		}
		if len(o.Go.Findings) > 0 {
			res.AddDisagreement(lib.Disagreement{Kind: "spec", Input: o.Case, Go: o.Go.Findings, SpecVerdict: "violates",
				Known: knownLateLoad(o), What: "structural oracle on the Go trees: " + o.Go.Findings[0], Replay: o.Case})
		}
		if o.NoModel != "" {
			// files on disk, loading not mirrored by the model: the oracle above has been applied
			res.Count("path_sets_oracle_only(loaded_outside_the_linking_walk_or_two_revisions)", 1)
			if !rescorr.HasErrors(o.Go.Dump) {
				clean++
				distinct.Add(strings.Join(o.Case.Texts, "\x00") + "\x00" + o.Case.Extra["roots"])
			} else {
				withErr++
			}
			continue
		}
		for _, lr := range o.LoadResults {
			if lr != "accepted" {
				res.AddDisagreement(lib.Disagreement{Kind: "correspondence", Input: o.Case, Go: "accepted", Model: o.LoadResults,
					What: "Modules.Parse accepted a text that the Lean front end (parser + AST builder + registry) rejects: " + lr, Replay: o.Case})
			}
		}
		if len(o.LoadResults) > 0 {
			res.Count("sets_sent_as_raw_text", 1)
		}
		g := lib.PositionOnly(lib.Project(o.Go.Dump, keys, true))
		m := lib.PositionOnly(lib.Project(o.Model, keys, true))
		if d := rescorr.Diff(g, m); d != "" {
			// spec verdict on the Go output: the structural oracle above is the executable reading of
			// C04 (proper tree, consistent kinds, no recorded error, no pending augment) on the Go trees
			verdict := "holds"
			if len(o.Go.Findings) > 0 {
				verdict = "violates"
			}
			res.AddDisagreement(lib.Disagreement{Kind: "correspondence", Input: o.Case, Go: g, Model: m, SpecVerdict: verdict,
				What: "resolver differs from the model: " + d, Replay: o.Case})
		}
		if rescorr.HasErrors(o.Go.Dump) {
			withErr++
			if o.Case.Extra["barren_faulty"] != "" {
				res.Count("sets_with_errors_that_have_a_fault_in_an_augment_body_without_nodes", 1)
				if ne := countErrs(o.Go.Dump); ne == 1 {
					res.Count("sets_whose_only_error_is_the_fault_in_an_augment_body_without_nodes", 1)
				}
			}
			if strings.Contains(strings.Join(o.Go.Dump, " "), "duplicate-node") || strings.Contains(strings.Join(o.Go.Dump, " "), "deviate-") {
				late++
			}
		} else {
			clean++
			if o.Case.Extra["label"] == "late" || o.Case.Extra["label"] == "corpus" {
				res.Count("clean_sets_with_late_augments", 1)
			}
			if o.Case.Extra["odd_paths"] != "" {
				res.Count("clean_sets_with_odd_prefixes_on_later_path_steps", 1)
			}
			if o.Case.Extra["barren"] != "" && o.Case.Extra["barren"] != "0" {
				res.Count("clean_sets_with_augments_whose_body_contributes_no_node", 1)
			}
			if k := o.Case.Extra["runs"]; k != "" {
				res.Count("clean_last_runs_of_a_sequence:"+k, 1)
			}
			if rescorr.FromPath(o.Case) {
				res.Count("clean_sets_with_modules_loaded_by_Process_from_the_path", 1)
				if len(o.Go.Extra["loaded"]) > len(strings.Split(o.Case.Extra["roots"], ",")) {
					res.Count("clean_sets_where_Process_loaded_at_least_one_module", 1)
				}
			}
			if distinct.Add(strings.Join(o.Case.Texts, "\x00")) && i%(len(outs)/6+1) == 0 {
				res.AddSample(map[string]any{"files": o.Case.Names, "first_text": o.Case.Texts[0], "records": len(o.Go.Dump)})
			}
		}
	}
	res.Evaluations = int64(len(cases))
	_ = nCorpus
	res.DistinctNontrivial = distinct.Len()
	res.Rule = "seeded grammar-directed module sets (harness/gen: 1-3 modules, submodules with nested includes, groupings/uses, choices, rpc/action, notifications, augments, deviations, tiny name pools, deliberate faults at a low rate; plus n/4 sets with late augments added by gen.AddLateAugments - target through or at an implied case, body with short-hand choice members, written in owner / submodule / importer - and a fixed corpus of such sets; plus n/4 sets in the files-on-disk variant: only the root modules (nobody imports them), a random subset, or one module are handed to Parse, the rest lies on the search path and is loaded by Process, the oracle walks every module that ended up loaded and the model is asked with exactly the loaded texts; plus n/4 sets where the checked Process run is the last of a sequence on one Modules value: Process twice / ClearEntryCache in between / reads with lazy input-output creation in between / cleared cache and lazy rebuild by ToEntry in between / opposite ParseOptions and AddPath before / GetModule in between; plus n/4 sets whose deviation and augment targets carry undeclared / unimported / module-name / no prefixes on the steps after the first (gen.AddOddPrefixes), and a fixed corpus of such sets with deviations and augments kept apart - deviations run after the last error sweep - written by a deviations-only module, a module with nodes and augments of its own, a submodule with per-file prefixes, loaded from the path, and as the last run of a sequence; plus n/4 sets (two thirds of the hosts generated without deliberate faults) with augments whose body contributes no node (gen.AddBarrenAugments: nothing / only when, if-feature, description, status, reference / only uses of empty groupings), half of them carrying a fault that is recorded on the augment entry alone - uses of a grouping that does not exist (bare, own prefix, import prefix, undeclared prefix, scoped inside a container), beside empty groupings in either order, beside decorations, twice, with substatements, a grouping whose only statement is dropped - written in module / submodule / importer, into container, list, choice, case, notification, explicit and lazily created rpc and action input / output, through implied cases, and into nodes another new augment grafts (chained, either order), some as raw text / from the path / last run of a sequence; and a fixed corpus of such sets (barrenCorpus: 14 target kinds x 14 bodies x 3 writers, one fault per set); distinct_nontrivial = distinct sets (by text) on which Process reports no errors, i.e. where the tree invariant is actually checked"
	res.Distribution["clean_sets"] = clean
	res.Distribution["sets_with_errors"] = withErr
	res.Distribution["sets_with_late_errors(merge/deviation)"] = late
	res.Distribution["outside_model"] = outside
	res.Distribution["go_parse_rejected"] = skipped
	res.Write(f.Out)
}

var lateUsesRe = regexp.MustCompile(`^` + regexp.QuoteMeta(clauseNone) + `: Process returned no errors for a schema with a uses of a grouping that does not exist: uses \S+ in augment \S+ of module (\S+) at `)

var runKindsAll = []string{"pp", "pcp", "prp", "pctp", "pop", "pgp"}

func firstLine(s string) string {
	if i := strings.IndexByte(s, '\n'); i > 0 {
		return s[:i]
	}
	return s
}

func countErrs(d []string) int {
	n := 0
	for _, r := range d {
		if strings.HasPrefix(r, "E ") {
			n++
		}
	}
	return n
}

// knownLateLoad recognises finding D04-P1 and nothing else: a files-on-disk run in which every
// finding is "unapplied augment left at /<M>" for a module <M> that goyang read from the path
// after the linking walk (rescorr: late_loaded), i.e. after the augment work list was drawn up; or
// the statement-side view of the same thing: a uses of a missing grouping in the body of an augment
// of such a module <M>, when "unapplied augment left at /<M>" is among the findings too.
func knownLateLoad(o rescorr.Outcome) string {
	if !rescorr.FromPath(o.Case) || len(o.Go.Extra["late_loaded"]) == 0 || len(o.Go.Findings) == 0 {
		return ""
	}
	late := map[string]bool{}
	for _, n := range o.Go.Extra["late_loaded"] {
		late[n] = true
	}
	unapplied := map[string]bool{}
	for _, f := range o.Go.Findings {
		if m, ok := strings.CutPrefix(f, "unapplied augment left at /"); ok {
			unapplied[m] = true
		}
	}
	for _, f := range o.Go.Findings {
		if m, ok := strings.CutPrefix(f, "unapplied augment left at /"); ok && late[m] {
			continue
		}
		// the same defect seen from the statement side: a uses of a missing grouping in the body of
		// an augment that such a module keeps unapplied (and that is reported as left over above)
		if sm := lateUsesRe.FindStringSubmatch(f); sm != nil && late[sm[1]] && unapplied[sm[1]] {
			continue
		}
		return ""
	}
	return "D04-P1"
}

// pathCase turns a generated set into its files-on-disk variant.
func pathCase(r interface{ Intn(int) int }, set *gen.Set, names, texts []string) (rescorr.Case, bool) {
	seen := map[string]bool{}
	for _, n := range names {
		if seen[n] {
			return rescorr.Case{}, false
		}
		seen[n] = true
	}
	used := map[*gen.Module]bool{}
	for _, m := range set.Mods {
		for _, o := range m.Imports {
			used[o] = true
		}
		for _, o := range m.Includes {
			used[o] = true
		}
	}
	var roots []int
	switch r.Intn(3) {
	case 0: // the modules nobody imports or includes
		for i, m := range set.Mods {
			if !m.Sub && !used[m] {
				roots = append(roots, i)
			}
		}
	case 1: // a random subset
		for i := range set.Mods {
			if r.Intn(2) == 0 {
				roots = append(roots, i)
			}
		}
	}
	if len(roots) == 0 { // one module
		var ms []int
		for i, m := range set.Mods {
			if !m.Sub {
				ms = append(ms, i)
			}
		}
		if len(ms) == 0 {
			return rescorr.Case{}, false
		}
		roots = []int{ms[r.Intn(len(ms))]}
	}
	rs := make([]string, len(roots))
	for i, x := range roots {
		rs[i] = fmt.Sprint(x)
	}
	return rescorr.Case{Names: names, Texts: texts,
		Extra: map[string]string{"label": "path", "from_path": "1", "roots": strings.Join(rs, ",")}}, true
}

// corpusCases: fixed sets for the re-parenting / late paths that random generation reaches rarely.
func corpusCases() []rescorr.Case {
	mk := func(kv ...string) rescorr.Case {
		c := rescorr.Case{Extra: map[string]string{"label": "corpus"}}
		for i := 0; i+1 < len(kv); i += 2 {
			c.Names = append(c.Names, kv[i])
			c.Texts = append(c.Texts, kv[i+1])
		}
		return c
	}
	onPath := func(roots string, c rescorr.Case) rescorr.Case {
		c.Extra = map[string]string{"label": "corpus-path", "from_path": "1", "roots": roots}
		return c
	}
	var seq []rescorr.Case
	// deviation / augment targets with a prefix the writing module does not declare on a later step
	// (goyang strips it unseen): undeclared, the module name, a foreign module's prefix that is not
	// imported, none; on middle and last steps, below an rpc input, in a module that owns no node
	seq = append(seq, mk("base.yang", `module base { namespace "urn:b"; prefix b;
  container c { leaf l { type string; } leaf-list m { type string; max-elements 4; } container d { leaf e { type string; } } }
  rpc r { input { leaf x { type string; } } }
  rpc bare;
}
`, "other.yang", `module other { namespace "urn:o"; prefix o; leaf unrelated { type string; } }
`, "dev.yang", `module dev { namespace "urn:d"; prefix d; import base { prefix b; }
  deviation "/b:c/bs:l" { deviate replace { type uint8; } }
  deviation "/b:c/base:m" { deviate replace { max-elements 2; } }
  deviation "/b:r/b:input/o:x" { deviate add { default "dflt"; } }
  deviation "/b:c/zz:d/e" { deviate add { config false; } }
  deviation "/b:bare/bs:output" { deviate add { config false; } }
  augment "/b:c/o:d" { leaf more { type string; } }
  augment "/b:r/zz:input" { leaf y { type string; } }
}
`))
	seq[len(seq)-1].Extra["label"] = "corpus-oddprefix"
	seq = append(seq, oddPrefixCorpus(mk)...)
	for _, k := range []string{"pp", "pcp", "prp", "pctp", "pop", "pgp"} {
		c := mk("base.yang", `module base { namespace "urn:base"; prefix b;
  container top { leaf name { type string; } leaf gone { type string; } choice kind { leaf a { type string; } container c { leaf x { type string; } } } }
  rpc op { input { choice how { leaf fast { type empty; } } } }
  rpc bare;
}
`, "ext.yang", `module ext { namespace "urn:ext"; prefix e; import base { prefix b; }
  augment "/b:top" { leaf extra { type string; } choice more { leaf m1 { type string; } } }
  augment "/b:top/b:kind/b:c/b:c" { choice inner { leaf y { type string; } } }
  augment "/b:bare/b:output" { leaf res { type string; } }
  deviation "/b:top/b:gone" { deviate not-supported; }
  deviation "/b:top/b:name" { deviate add { default d; } }
}
`)
		c.Extra = map[string]string{"label": "corpus-runs", "runs": k}
		seq = append(seq, c)
		if k == "pcp" || k == "pctp" {
			c2 := mk(c.Names[1], c.Texts[1], c.Names[0], c.Texts[0])
			c2.Extra = map[string]string{"label": "corpus-runs-path", "runs": k, "from_path": "1", "roots": "0"}
			seq = append(seq, c2)
		}
	}
	seq = append(seq, barrenCorpus()...)
	// chains of augments that only become applicable after FixChoice (gen.LeftoverChains: targets below
	// implied cases, 2-3 links across modules in every module-name order, links that bring short-hand
	// choice members of their own, complete chains and chains with a link missing; unsplit and with an
	// augment-free submodule split off the target module): the stage after FixChoice retries to a
	// fixpoint with FixChoice after every productive round, and the grafted nodes must satisfy the tree
	// invariant like any others
	for _, c := range gen.LeftoverChains(chainDepth) {
		cc := mk()
		cc.Names, cc.Texts = c.Names, c.Texts
		seq = append(seq, cc)
		for _, sp := range c.Splits {
			cs := mk()
			cs.Names, cs.Texts = sp.Names, sp.Texts
			seq = append(seq, cs)
		}
	}
	return append(seq, []rescorr.Case{
		// files on disk: only `main` is handed over, `base` is loaded by Process from the path.  The
		// auto-loaded module has a short-hand choice / is the target of a colliding augment / has an
		// augment of its own / includes a submodule with all of that
		onPath("0", mk("main.yang", `module main { namespace "urn:main"; prefix m; import base { prefix b; }
  augment "/b:top" { leaf extra { type string; } }
}
`, "base.yang", `module base { namespace "urn:base"; prefix b;
  container top { leaf name { type string; } choice kind { leaf a { type string; } container c { leaf x { type string; } } } }
}
`)),
		onPath("0", mk("main.yang", `module main { namespace "urn:main"; prefix m; import base { prefix b; }
  augment "/b:top" { leaf name { type string; } }
}
`, "base.yang", `module base { namespace "urn:base"; prefix b;
  container top { leaf name { type string; } }
}
`)),
		onPath("0", mk("main.yang", `module main { namespace "urn:main"; prefix m; import base { prefix b; }
  container c { leaf l { type string; } }
}
`, "base.yang", `module base { namespace "urn:base"; prefix b;
  container top { leaf name { type string; } }
  augment "/top" { leaf more { type string; } }
  augment "/nowhere" { leaf lost { type string; } }
}
`)),
		onPath("0", mk("main.yang", `module main { namespace "urn:main"; prefix m; import base { prefix b; }
  augment "/b:top/b:kind/b:c/b:c" { choice inner { leaf y { type string; } } }
}
`, "base.yang", `module base { namespace "urn:base"; prefix b; include bsub;
  container top { choice kind { container c { leaf x { type string; } } } }
}
`, "bsub.yang", `submodule bsub { belongs-to base { prefix b; }
  rpc op { input { choice how { leaf fast { type empty; } } } }
  augment "/b:top" { leaf fromsub { type string; } }
}
`)),
		// an importer augments through the implied case of a short-hand member; the body has a choice
		// with short-hand members: only applicable in the last pass, grafted into the other module's tree
		mk("base.yang", `module base { namespace "urn:base"; prefix b;
  container c { choice ch { container x { leaf l { type string; } } } }
}
`, "aug.yang", `module aug { namespace "urn:aug"; prefix a; import base { prefix b; }
  augment "/b:c/b:ch/b:x/b:x" { choice inner { leaf y { type string; } container z { leaf w { type string; } } } }
}
`),
		// the same from a submodule, from an importer, below an rpc input, and at the implied case of a leaf
		mk("a.yang", `module a { namespace "urn:a"; prefix a; include asub;
  container top { choice ch { container x { leaf own { type string; } } leaf lf { type string; } } }
  rpc op { input { choice how { container slow { leaf t { type string; } } } } }
  leaf start { type string; }
}
`, "asub.yang", `submodule asub { belongs-to a { prefix as; }
  augment "/as:top/as:ch/as:x/as:x" { choice fromsub { leaf sy { type string; } container sz { leaf sw { type string; } } } }
}
`, "b.yang", `module b { namespace "urn:b"; prefix b; import a { prefix a; }
  augment "/a:top/a:ch/a:x/a:x" { choice inner { leaf y { type string; } container z { choice deep { leaf dz { type string; } } } } }
  augment "/a:op/a:input/a:how/a:slow/a:slow" { choice retry { leaf once { type empty; } } }
  augment "/a:top/a:ch/a:lf" { choice atcase { leaf q { type string; } } }
  leaf start { type string; }
}
`),
		// two importers into one target, one of them with nothing else pending
		mk("t.yang", `module t { namespace "urn:t"; prefix t;
  list l { key k; leaf k { type string; } choice c { container m { leaf n { type string; } } } }
}
`, "u.yang", `module u { namespace "urn:u"; prefix u; import t { prefix t; }
  augment "/t:l/t:c/t:m/t:m" { choice cu { leaf-list ll { type string; } } }
}
`, "v.yang", `module v { namespace "urn:v"; prefix v; import t { prefix t; }
  augment "/t:l" { leaf early { type string; } }
  augment "/t:l/t:c/t:m/t:m" { choice cv { container cc { leaf x { type string; } } } }
}
`),
	}...)
}

// oddPrefixCorpus: fixed witnesses for prefixes on path steps after the first that the writing file
// does not declare.  Deviations and augments are kept in SEPARATE sets: augments run before the
// last error sweep (whatever a lookup records there is returned by Process and the set is no longer
// clean), deviations run after it (whatever a lookup records there is only seen by the oracle's
// walk of every module and submodule root).  Writers: a module that owns nothing but deviations, a
// module with nodes and augments of its own, a submodule with per-file prefixes.  Targets: leaf,
// leaf-list, list member, explicit and implied case, rpc input, lazily created rpc output,
// notification child, augmented-in node, a node of the writer's own tree.
func oddPrefixCorpus(mk func(kv ...string) rescorr.Case) []rescorr.Case {
	const base = `module base { namespace "urn:b"; prefix b;
  container c { leaf l { type string; } leaf-list m { type string; max-elements 4; } container d { leaf e { type string; } }
    choice ch { case ca { leaf in-case { type string; } } leaf short { type string; } }
    list ls { key k; leaf k { type string; } leaf v { type string; } } }
  rpc r { input { leaf x { type string; } } }
  rpc bare;
  notification n { leaf nl { type string; } }
}
`
	const other = `module other { namespace "urn:o"; prefix o; leaf unrelated { type string; } }
`
	const devOnly = `module dev { namespace "urn:d"; prefix d; import base { prefix b; }
  deviation "/b:c/bs:l" { deviate replace { type uint8; } }
  deviation "/b:c/base:m" { deviate replace { max-elements 2; } }
  deviation "/b:r/b:input/o:x" { deviate add { default "dflt"; } }
  deviation "/b:c/zz:d/e" { deviate add { config false; } }
  deviation "/b:bare/bs:output" { deviate add { config false; } }
  deviation "/b:c/q:ch/q:ca/q:in-case" { deviate add { units u; } }
  deviation "/b:c/b:ch/zz:short/b:short" { deviate add { default s; } }
  deviation "/b:c/b:ls/d:v" { deviate not-supported; }
  deviation "/b:n/x:nl" { deviate add { mandatory true; } }
}
`
	const devIdem = `module dev { namespace "urn:d"; prefix d; import base { prefix b; }
  deviation "/b:c/bs:l" { deviate replace { type uint8; } }
  deviation "/b:c/base:m" { deviate replace { max-elements 2; } }
  deviation "/b:r/input/o:x" { deviate replace { type int8; } }
}
`
	label := func(l string, c rescorr.Case, kv ...string) rescorr.Case {
		c.Extra = map[string]string{"label": l, "odd_paths": "1"}
		for i := 0; i+1 < len(kv); i += 2 {
			c.Extra[kv[i]] = kv[i+1]
		}
		return c
	}
	out := []rescorr.Case{
		// a module that owns nothing but deviations
		label("corpus-oddprefix-dev", mk("base.yang", base, "other.yang", other, "dev.yang", devOnly)),
		// the same with goyang loading the deviated module from the search path itself
		label("corpus-oddprefix-dev-path", mk("dev.yang", devOnly, "base.yang", base), "from_path", "1", "roots", "0"),
		// one deviation, one odd step: nothing else in the set can make the run unclean
		label("corpus-oddprefix-dev-one", mk("base.yang", base, "dev.yang", `module dev { namespace "urn:d"; prefix d; import base { prefix b; }
  deviation "/b:c/bs:l" { deviate replace { type uint8; } }
}
`)),
		// the writer has nodes and a (regular) augment of its own; targets: the augmented-in node, a node
		// of the writer's own tree, the target module's name as a prefix
		label("corpus-oddprefix-dev-own", mk("base.yang", `module base { namespace "urn:b"; prefix b; container top { leaf name { type string; } } }
`, "ext.yang", `module ext { namespace "urn:e"; prefix e; import base { prefix b; }
  container mine { leaf ml { type string; } }
  augment "/b:top" { container added { leaf al { type string; } } }
  deviation "/b:top/e:added/zz:al" { deviate replace { type int8; } }
  deviation "/e:mine/zz:ml" { deviate add { default m; } }
  deviation "/b:top/base:name" { deviate add { units s; } }
}
`)),
		// written in a submodule: `b` and `h` are declared by the including module, not by this file
		label("corpus-oddprefix-dev-sub", mk("base.yang", base, "host.yang", `module host { namespace "urn:h"; prefix h; include hsub; import base { prefix b; }
  container own { leaf a { type string; } }
}
`, "hsub.yang", `submodule hsub { belongs-to host { prefix hh; } import base { prefix sb; }
  deviation "/sb:c/b:l" { deviate replace { type uint8; } }
  deviation "/sb:c/zz:d/h:e" { deviate add { config false; } }
  deviation "/sb:r/sb:input/nope:x" { deviate add { default q; } }
}
`)),
		// augments only
		label("corpus-oddprefix-aug", mk("base.yang", base, "other.yang", other, "aug.yang", `module aug { namespace "urn:a"; prefix a; import base { prefix b; }
  augment "/b:c/o:d" { leaf more { type string; } }
  augment "/b:r/zz:input" { leaf y { type string; } }
  augment "/b:c/base:ch/ca" { leaf more2 { type string; } }
  augment "/b:bare/zz:output" { leaf res { type string; } }
}
`)),
	}
	// replacements only (applying them twice changes nothing): the checked run is the last of a sequence
	for _, k := range []string{"pp", "pcp", "prp", "pctp"} {
		out = append(out, label("corpus-oddprefix-dev-runs", mk("base.yang", base, "dev.yang", devIdem), "runs", k))
	}
	return out
}
