package main

import (
	"fmt"
	"math/rand"
	"sort"
	"strings"
)

// A source set aimed at ties and conflicts: a base module b plus a random selection of
// "features", each a small group of modules that compete for one thing (a node, a name, a
// dictionary key, a place in the error list).  Module names are drawn so that name order, load
// order and (with luck) map order all differ.

type srcSet struct {
	Names []string
	Texts []string
	Feats []string
	// IgnoreCircular is passed to ParseOptions.
	IgnoreCircular bool
}

type sgen struct {
	r     *rand.Rand
	s     *srcSet
	used  map[string]bool
	feats map[string]bool
}

func (g *sgen) chance(p float64) bool   { return g.r.Float64() < p }
func (g *sgen) pick(ss []string) string { return ss[g.r.Intn(len(ss))] }

// modName returns an unused module name starting with stem; a random letter in front varies
// where the module lands in name order.
func (g *sgen) modName(stem string) string {
	for {
		n := stem
		if g.chance(0.7) {
			n = string(rune('a'+g.r.Intn(26))) + stem
		}
		if g.chance(0.3) {
			n += fmt.Sprint(g.r.Intn(10))
		}
		if !g.used[n] && n != "b" {
			g.used[n] = true
			return n
		}
	}
}

func (g *sgen) add(name, text string) {
	g.s.Names = append(g.s.Names, name+".yang")
	g.s.Texts = append(g.s.Texts, text)
}

func (g *sgen) feat(f string) {
	if !g.feats[f] {
		g.feats[f] = true
		g.s.Feats = append(g.s.Feats, f)
	}
}

// head renders the header of a module that imports b under prefix b.
func head(name string, extra ...string) string {
	return fmt.Sprintf("module %s {\n  namespace \"urn:%s\";\n  prefix %s;\n  import b { prefix b; }\n%s", name, name, name, strings.Join(extra, ""))
}

func (g *sgen) base() {
	rev := ""
	if g.chance(0.3) {
		rev = "  revision 2020-01-01;\n"
	}
	g.add("b", `module b {
  namespace "urn:b";
  prefix b;
`+rev+`  identity root;
  identity root2 { base root; }
  typedef t1 { type string { length "1..10"; } }
  grouping gb { leaf gl { type string; } }
  container c {
    leaf x { type string; default d1; }
    leaf y { type int8; units u0; }
    leaf-list ll { type string; max-elements 5; }
    list l { key k; leaf k { type string; } min-elements 1; }
    choice ch {
      leaf a1 { type string; }
      container a2 { leaf q { type t1; } }
    }
    leaf idr { type identityref { base root; } }
  }
  rpc r { input { leaf i { type string; } } }
}
`)
}

var leafTypes = []string{"string", "int8", "uint32", "boolean", "b:t1"}

// identities with equal names in different modules (D25), chains below them.
func (g *sgen) fIdent() {
	g.feat("equal-identity-names")
	k := 2 + g.r.Intn(3)
	for i := 0; i < k; i++ {
		n := g.modName("i")
		var sb strings.Builder
		sb.WriteString(head(n))
		sb.WriteString("  identity same { base b:root; }\n")
		if g.chance(0.5) {
			sb.WriteString("  identity sub { base same; }\n")
		}
		if g.chance(0.3) {
			sb.WriteString("  identity same2 { base b:root2; base b:root; }\n")
		}
		if g.chance(0.4) {
			sb.WriteString("  leaf pick { type identityref { base b:root; } }\n")
		}
		sb.WriteString("}\n")
		g.add(n, sb.String())
	}
}

// deviate delete + deviate add (and other pairs) inside one deviation (D11).
func (g *sgen) fDevPair() {
	g.feat("deviate-pair-in-one-deviation")
	n := g.modName("dv")
	pairs := [][2]string{
		{"deviate delete { default d1; }", "deviate add { default d2; }"},
		{"deviate add { default d2; }", "deviate delete { default d1; }"},
		{"deviate replace { default d3; }", "deviate delete { default d3; }"},
		{"deviate not-supported;", "deviate replace { default d9; }"},
		{"deviate replace { units u1; }", "deviate replace { units u2; }"},
		{"deviate delete { default nomatch; }", "deviate add { default d2; }"},
	}
	p := pairs[g.r.Intn(len(pairs))]
	g.add(n, head(n)+fmt.Sprintf("  deviation /b:c/b:x {\n    %s\n    %s\n  }\n}\n", p[0], p[1]))
}

// two or three modules deviating one node.
func (g *sgen) fDev2() {
	g.feat("modules-deviating-one-node")
	k := 2 + g.r.Intn(2)
	target := g.pick([]string{"/b:c/b:x", "/b:c/b:y", "/b:c/b:l", "/b:c/b:ll", "/b:c/b:ch/b:a1/b:a1"})
	for i := 0; i < k; i++ {
		n := g.modName("d")
		var body string
		switch {
		case strings.HasSuffix(target, ":l") || strings.HasSuffix(target, ":ll"):
			body = g.pick([]string{
				fmt.Sprintf("deviate replace { min-elements %d; }", g.r.Intn(3)),
				fmt.Sprintf("deviate replace { max-elements %d; }", 1+g.r.Intn(9)),
				"deviate not-supported;",
				"deviate delete { min-elements 1; }",
				"deviate add { config false; }",
			})
		default:
			body = g.pick([]string{
				fmt.Sprintf("deviate replace { default v%d; }", i),
				fmt.Sprintf("deviate add { default v%d; }", i),
				"deviate delete { default d1; }",
				fmt.Sprintf("deviate replace { units u%d; }", i),
				fmt.Sprintf("deviate replace { type %s; }", g.pick(leafTypes[:4])),
				"deviate not-supported;",
				fmt.Sprintf("deviate add { mandatory %s; }", g.pick([]string{"true", "false"})),
			})
		}
		g.add(n, head(n)+fmt.Sprintf("  deviation %s {\n    %s\n  }\n}\n", target, body))
	}
}

// two or three modules augmenting one node, with equal or different child names (D10).
func (g *sgen) fAug2() {
	g.feat("modules-augmenting-one-node")
	k := 2 + g.r.Intn(2)
	target := g.pick([]string{"/b:c", "/b:c/b:l", "/b:c/b:ch", "/b:c/b:ch/b:a2", "/b:r/b:input", "/b:c/b:ch/b:a1"})
	same := g.chance(0.4)
	for i := 0; i < k; i++ {
		n := g.modName("a")
		child := "z"
		if !same {
			child = fmt.Sprintf("z%d", i)
		}
		kind := g.pick([]string{"leaf", "leaf", "container"})
		var body string
		if kind == "leaf" {
			body = fmt.Sprintf("leaf %s { type %s; }", child, g.pick(leafTypes))
		} else {
			body = fmt.Sprintf("container %s { leaf in%d { type string; } }", child, i)
		}
		if g.chance(0.2) {
			body += " uses b:gb;"
		}
		g.add(n, head(n)+fmt.Sprintf("  augment %s {\n    %s\n  }\n}\n", target, body))
	}
}

// a chain of augments across modules plus a competitor for the first link's name.
func (g *sgen) fAugChain() {
	g.feat("augment-chain-with-competitor")
	a1, a2, a3 := g.modName("k"), g.modName("k"), g.modName("k")
	g.add(a1, head(a1)+"  augment /b:c {\n    container n { leaf first { type string; } }\n  }\n}\n")
	g.add(a2, head(a2, fmt.Sprintf("  import %s { prefix p1; }\n", a1))+"  augment /b:c/p1:n {\n    leaf deep { type string; }\n  }\n}\n")
	if g.chance(0.7) {
		g.add(a3, head(a3)+fmt.Sprintf("  augment /b:c {\n    leaf n { type %s; }\n  }\n}\n", g.pick(leafTypes)))
	}
}

// several revisions of one module name, with importers.
func (g *sgen) fRevs() {
	g.feat("several-revisions")
	revs := []string{"2019-01-01", "2020-06-01", "2021-12-31"}
	if g.chance(0.35) {
		// revision arguments that are not calendar dates (goyang does not validate them): which
		// revision the bare name denotes must still not depend on the load order
		g.feat("revision-strings-not-dates")
		pool := []string{"2019-02-29", "2021-06-31", "2020-1-5", "2020-13-01", "0000-00-00", "9999-99-99", "2020-06-01", "20200601", "2020-06-1"}
		g.r.Shuffle(len(pool), func(i, j int) { pool[i], pool[j] = pool[j], pool[i] })
		revs = pool[:3]
	}
	g.r.Shuffle(len(revs), func(i, j int) { revs[i], revs[j] = revs[j], revs[i] })
	k := 2 + g.r.Intn(2)
	withBare := g.chance(0.3)
	m := "m"
	g.used[m] = true
	for i := 0; i < k; i++ {
		rev := revs[i]
		if withBare && i == 0 {
			rev = ""
		}
		var sb strings.Builder
		sb.WriteString("module m {\n  namespace \"urn:m\";\n  prefix m;\n")
		if rev != "" {
			sb.WriteString("  revision " + rev + ";\n")
		}
		sb.WriteString("  identity mroot;\n")
		fmt.Fprintf(&sb, "  identity v%d { base mroot; }\n  identity common { base mroot; }\n", i)
		fmt.Fprintf(&sb, "  typedef mt { type %s; }\n", []string{"string", "int8", "uint32"}[i%3])
		fmt.Fprintf(&sb, "  container top { leaf r%d { type mt; } leaf shared { type string; default s%d; } }\n", i, i)
		if g.chance(0.3) {
			fmt.Fprintf(&sb, "  deviation /m:top/m:shared { deviate replace { default dev%d; } }\n", i)
		}
		sb.WriteString("}\n")
		name := "m"
		if rev != "" {
			name = "m@" + rev
		}
		g.s.Names = append(g.s.Names, name+".yang")
		g.s.Texts = append(g.s.Texts, sb.String())
	}
	ni := 1 + g.r.Intn(2)
	for i := 0; i < ni; i++ {
		n := g.modName("u")
		imp := "  import m { prefix m; }\n"
		if g.chance(0.4) && !withBare {
			imp = fmt.Sprintf("  import m { prefix m; revision-date %s; }\n", revs[g.r.Intn(k)])
		}
		body := "  leaf lm { type m:mt; }\n  identity mine { base m:mroot; }\n  augment /m:top { leaf added { type string; } }\n"
		g.add(n, fmt.Sprintf("module %s {\n  namespace \"urn:%s\";\n  prefix %s;\n%s%s}\n", n, n, n, imp, body))
	}
}

var tieTargets = []string{"2", "10", "1x", "02", "+2", "002", "-0", "0", "+0", "9223372036854775807", "9223372036854775808",
	"-9223372036854775808", "x", "1", "01"}

// position-less errors: deviations whose target does not exist (D37, D47).
func (g *sgen) fPosless() {
	g.feat("position-less-errors")
	k := 3 + g.r.Intn(4)
	perm := g.r.Perm(len(tieTargets))
	oneModule := g.chance(0.25)
	var devs []string
	for i := 0; i < k; i++ {
		t := tieTargets[perm[i]]
		path := "/b:" + t
		if g.chance(0.3) {
			path = "/b:c/b:" + t
		}
		devs = append(devs, fmt.Sprintf("  deviation %s { deviate not-supported; }\n", path))
	}
	if oneModule {
		n := g.modName("e")
		g.add(n, head(n)+strings.Join(devs, "")+"}\n")
		return
	}
	for _, d := range devs {
		n := g.modName("e")
		g.add(n, head(n)+d+"}\n")
	}
}

// the same mistake at the same line and column of several files.
func (g *sgen) fSamePos() {
	g.feat("same-position-in-several-files")
	k := 2 + g.r.Intn(3)
	body := g.pick([]string{
		"  container cc { uses nosuch; }\n",
		"  leaf bad { type nosuchtype; }\n",
		"  augment /b:nosuch { leaf q { type string; } }\n",
		"  leaf-list bl { type string; max-elements 0; }\n",
		"  container cc { leaf d { type string; } leaf d { type int8; } }\n",
	})
	for i := 0; i < k; i++ {
		n := g.modName("s")
		// the body starts on the same line of every file and at the same column
		g.add(n, head(n)+body+"}\n")
	}
}

// many errors at once: beyond 12 elements sort.Sort leaves insertion sort.
func (g *sgen) fMany() {
	g.feat("more-than-12-errors")
	k := 11 + g.r.Intn(8)
	for i := 0; i < k; i++ {
		n := g.modName(g.pick([]string{"n", "zz"}))
		g.add(n, head(n)+"  augment /b:nosuch { leaf q { type string; } }\n}\n")
	}
}

// linking errors: include() stops at the first missing module and never revisits a module, so
// which missing imports are reported depends on the order of the walk (chains of importers).
func (g *sgen) fMissing() {
	g.feat("missing-imports")
	k := 2 + g.r.Intn(3)
	var prev []string
	for i := 0; i < k; i++ {
		n := g.modName("w")
		var extra strings.Builder
		// import an earlier module of the chain first or last, around the missing ones
		chain := ""
		if len(prev) > 0 && g.chance(0.7) {
			chain = fmt.Sprintf("  import %s { prefix c%d; }\n", prev[g.r.Intn(len(prev))], i)
		}
		if g.chance(0.5) {
			extra.WriteString(chain)
			chain = ""
		}
		nm := 1 + g.r.Intn(2)
		for j := 0; j < nm; j++ {
			miss := fmt.Sprintf("gone%d", g.r.Intn(4))
			if g.chance(0.25) {
				fmt.Fprintf(&extra, "  include %s;\n", miss)
			} else {
				fmt.Fprintf(&extra, "  import %s { prefix g%d; }\n", miss, j)
			}
		}
		extra.WriteString(chain)
		g.add(n, head(n, extra.String())+"  leaf ok { type string; }\n}\n")
		prev = append(prev, n)
	}
}

// a submodule included by two modules (D49).
func (g *sgen) fForeignInclude() {
	g.feat("submodule-included-by-two-modules")
	o, f, s := g.modName("o"), g.modName("f"), g.modName("sub")
	g.add(o, fmt.Sprintf("module %s {\n  namespace \"urn:%s\";\n  prefix %s;\n  include %s;\n  leaf lo { type string; }\n}\n", o, o, o, s))
	g.add(f, fmt.Sprintf("module %s {\n  namespace \"urn:%s\";\n  prefix %s;\n  include %s;\n  leaf lf { type string; }\n}\n", f, f, f, s))
	g.add(s, fmt.Sprintf("submodule %s {\n  belongs-to %s { prefix %s; }\n  leaf ls { type string; }\n}\n", s, o, o))
}

// grouping and typedef cycles through several modules (D50, D42).
func (g *sgen) fCycle() {
	g.feat("cross-module-cycle")
	x, y := g.modName("cx"), g.modName("cy")
	if g.chance(0.5) {
		g.add(x, fmt.Sprintf("module %s {\n  namespace \"urn:%s\";\n  prefix %s;\n  import %s { prefix o; }\n  grouping g { uses o:h; }\n  container ca { uses g; }\n}\n", x, x, x, y))
		g.add(y, fmt.Sprintf("module %s {\n  namespace \"urn:%s\";\n  prefix %s;\n  import %s { prefix o; }\n  grouping h { uses o:g; }\n  container cb { uses h; }\n}\n", y, y, y, x))
		return
	}
	g.add(x, fmt.Sprintf("module %s {\n  namespace \"urn:%s\";\n  prefix %s;\n  import %s { prefix o; }\n  typedef ta { type o:tb; }\n  leaf la { type ta; }\n}\n", x, x, x, y))
	g.add(y, fmt.Sprintf("module %s {\n  namespace \"urn:%s\";\n  prefix %s;\n  import %s { prefix o; }\n  typedef tb { type union { type string; type o:ta; } }\n  leaf lb { type tb; }\n}\n", y, y, y, x))
}

// submodules including each other.
func (g *sgen) fSubCircle() {
	g.feat("circular-submodules")
	o := g.modName("q")
	s1, s2 := o+"-s1", o+"-s2"
	g.add(o, fmt.Sprintf("module %s {\n  namespace \"urn:%s\";\n  prefix %s;\n  include %s;\n  include %s;\n  leaf lo { type string; }\n}\n", o, o, o, s1, s2))
	g.add(s1, fmt.Sprintf("submodule %s {\n  belongs-to %s { prefix %s; }\n  include %s;\n  leaf l1 { type string; }\n  grouping g1 { leaf gg { type string; } }\n}\n", s1, o, o, s2))
	g.add(s2, fmt.Sprintf("submodule %s {\n  belongs-to %s { prefix %s; }\n  include %s;\n  leaf l2 { type string; }\n  container c2 { uses g1; }\n}\n", s2, o, o, s1))
	g.s.IgnoreCircular = g.chance(0.7)
}

// modules sharing a prefix or a namespace.
func (g *sgen) fShared() {
	g.feat("shared-prefix-or-namespace")
	x, y := g.modName("p"), g.modName("p")
	ns1, ns2 := "urn:"+x, "urn:"+y
	if g.chance(0.5) {
		ns2 = ns1
	}
	for i, n := range []string{x, y} {
		ns := ns1
		if i == 1 {
			ns = ns2
		}
		g.add(n, fmt.Sprintf("module %s {\n  namespace \"%s\";\n  prefix same;\n  import b { prefix b; }\n  identity pid { base b:root; }\n  container pc%d { leaf v { type string; } }\n  augment /b:c { leaf from%s { type string; } }\n}\n", n, ns, i, n))
	}
}

// ties in what the command's formatters sort by: typedefs with one name and one definition in
// several scopes of a module and in several modules, every one of them used (the types listing
// then holds several root types that print alike and differ only in where they were defined),
// near misses of them, chains on top of them, and modules with identical bodies.
var tieDefs = [][2]string{
	{"percent", `type uint8 { range "0..100"; }`},
	{"percent", `type uint8 { range "0..100"; } units "%";`},
	{"color", "type enumeration { enum red; enum green; enum blue; }"},
	{"flags", "type bits { bit a; bit b; }"},
	{"name", `type string { length "1..8"; pattern "[a-z]+"; }`},
	{"either", "type union { type int8; type string; }"},
	{"ratio", "type decimal64 { fraction-digits 2; }"},
	{"count", "type uint32; default 7;"},
	{"ref", "type leafref { path \"/b:c/b:x\"; }"},
	{"idr", "type identityref { base b:root; }"},
}

func (g *sgen) fTypeTies() {
	g.feat("equal-typedefs-in-several-scopes")
	def := tieDefs[g.r.Intn(len(tieDefs))]
	other := tieDefs[g.r.Intn(len(tieDefs))]
	nm := 1 + g.r.Intn(3)
	identical := nm > 1 && g.chance(0.35)
	var firstBody string
	for i := 0; i < nm; i++ {
		n := g.modName("t")
		var sb strings.Builder
		if g.chance(0.5) {
			// at module level (one per module: the same name in several modules)
			fmt.Fprintf(&sb, "  typedef %s { %s }\n  leaf top%d { type %s; }\n", def[0], def[1], i, def[0])
			if g.chance(0.4) {
				fmt.Fprintf(&sb, "  typedef %s2 { type %s; }\n  leaf-list chain%d { type %s2; }\n", def[0], def[0], i, def[0])
			}
		}
		nc := 2 + g.r.Intn(2)
		for c := 0; c < nc; c++ {
			d := def
			if g.chance(0.15) {
				d = other // a different type between the equal ones
			}
			body := d[1]
			if g.chance(0.12) && d[0] == "percent" {
				body = `type uint8 { range "0..99"; }` // a near miss under the same name
			}
			fmt.Fprintf(&sb, "  container s%d {\n    typedef %s { %s }\n    leaf v { type %s; }\n", c, d[0], body, d[0])
			if g.chance(0.3) {
				fmt.Fprintf(&sb, "    leaf-list w { type %s; }\n", d[0])
			}
			if g.chance(0.25) {
				fmt.Fprintf(&sb, "    leaf inl { %s }\n", strings.SplitN(d[1], ";", 2)[0]+";")
			}
			sb.WriteString("  }\n")
		}
		body := sb.String()
		if identical {
			if i == 0 {
				firstBody = body
			} else {
				body = firstBody
			}
		}
		pfx := n
		if identical {
			pfx = "tt"
		}
		g.add(n, fmt.Sprintf("module %s {\n  namespace \"urn:%s\";\n  prefix %s;\n  import b { prefix b; }\n%s}\n", n, n, pfx, body))
	}
}

// one text with two or three top-level statements.  The last one is fine, or rejected by the AST
// builder, or rejected by Modules.add for a reason of its own; when the text is bound to be
// rejected an earlier statement of it carries the name (and revision) of a module that another
// file of the set defines differently, and an importer uses that module's typedef and grouping:
// whatever the rejected text leaves behind shows in the importer's tree.
func (g *sgen) fMultiText() {
	g.feat("multi-statement-text")
	x, u, y := g.modName("x"), g.modName("u"), g.modName("y")
	rev := ""
	if g.chance(0.4) {
		rev = "  revision 2021-03-03;\n"
	}
	modx := func(typ, leaf string) string {
		return fmt.Sprintf("module %s {\n  namespace \"urn:%s\";\n  prefix %s;\n%s  typedef t { type %s; }\n  grouping g { leaf %s { type t; } }\n  container c { uses g; }\n}\n", x, x, x, rev, typ, leaf)
	}
	variant := g.r.Intn(8)
	var last string
	switch variant {
	case 0, 1: // fine
		last = fmt.Sprintf("module %s {\n  namespace \"urn:%s\";\n  prefix %s;\n  leaf ok { type string; }\n}\n", y, y, y)
	case 2: // unknown substatement
		last = fmt.Sprintf("module %s {\n  namespace \"urn:%s\";\n  prefix %s;\n  bogus-statement 1;\n}\n", y, y, y)
	case 3: // missing mandatory substatement
		last = fmt.Sprintf("module %s {\n  namespace \"urn:%s\";\n  leaf ok { type string; }\n}\n", y, y)
	case 4: // a single-valued field twice
		last = fmt.Sprintf("module %s {\n  namespace \"urn:%s\";\n  prefix %s;\n  prefix other;\n}\n", y, y, y)
	case 5: // the name of an earlier statement of the same text
		last = "" // filled below: a copy of the middle statement
	case 6: // '@' in the name
		last = fmt.Sprintf("module \"%s@2020-01-01\" {\n  namespace \"urn:%s\";\n  prefix %s;\n}\n", y, y, y)
	case 7: // a submodule the builder rejects
		last = fmt.Sprintf("submodule %s-s {\n  belongs-to %s { prefix %s; }\n  leaf l { type string; }\n  bogus-statement 1;\n}\n", y, x, x)
	}
	mid := ""
	if g.chance(0.6) || variant == 5 {
		z := g.modName("z")
		mid = fmt.Sprintf("module %s {\n  namespace \"urn:%s\";\n  prefix %s;\n  typedef zt { type int8; }\n  leaf zl { type zt; }\n}\n", z, z, z)
		if variant == 5 {
			last = mid
		}
	}
	if variant <= 1 {
		// accepted as a whole: its statements have names of their own
		g.add(x, modx("string", "from-x"))
		w := g.modName("x")
		g.add("multi-"+w, fmt.Sprintf("module %s {\n  namespace \"urn:%s\";\n  prefix %s;\n  leaf first { type string; }\n}\n", w, w, w)+mid+last)
	} else {
		g.add(x, modx("string", "from-x"))
		g.add("multi-"+x, modx("uint8", "from-multi")+mid+last)
	}
	g.add(u, fmt.Sprintf("module %s {\n  namespace \"urn:%s\";\n  prefix %s;\n  import %s { prefix x; }\n  container top { uses x:g; leaf v { type x:t; } }\n}\n", u, u, u, x))
}

// genSet builds one source set; the load order is shuffled.
func genSet(r *rand.Rand) *srcSet {
	g := &sgen{r: r, s: &srcSet{}, used: map[string]bool{}, feats: map[string]bool{}}
	g.base()
	// features that may leave the set clean are drawn three times as often as those that always
	// end in errors
	clean := []func(){g.fIdent, g.fDevPair, g.fDev2, g.fAug2, g.fRevs, g.fForeignInclude, g.fSubCircle, g.fShared, g.fTypeTies, g.fTypeTies, g.fMultiText, g.fMultiText}
	faulty := []func(){g.fAugChain, g.fPosless, g.fSamePos, g.fMany, g.fMissing, g.fCycle}
	k := 1 + r.Intn(3)
	if r.Float64() < 0.15 {
		k += 2
	}
	var fs []func()
	if r.Float64() < 0.55 {
		fs = clean
	} else {
		fs = append(append([]func(){}, clean...), faulty...)
		fs = append(fs, g.fPosless, g.fAug2, g.fDev2)
	}
	for _, i := range r.Perm(len(fs)) {
		if k == 0 {
			break
		}
		fs[i]()
		k--
	}
	// shuffle load order
	idx := r.Perm(len(g.s.Names))
	names, texts := make([]string, len(idx)), make([]string, len(idx))
	for i, j := range idx {
		names[i], texts[i] = g.s.Names[j], g.s.Texts[j]
	}
	g.s.Names, g.s.Texts = names, texts
	sort.Strings(g.s.Feats)
	return g.s
}

// messages for the direct errorSort test: few distinct field values, so that ties in every
// field position are frequent.
var msgFiles = []string{"a.yang", "b.yang", "a", "", "t, /b", "a.yang ", "A.yang"}
var msgNums = []string{"2", "10", "1x", "02", "+2", "002", "-0", "0", "+0", "", "x", " 2", "2 ", "9223372036854775807", "9223372036854775808",
	"-9223372036854775808", "-9223372036854775809", "00000000000000000000002", "1_0", "-", "+", "٢"}
var msgTails = []string{" unknown type", " x", "", " a:b", ":", " x:2", "2"}

func genMsg(r *rand.Rand) string {
	nf := r.Intn(5) // number of colons
	parts := []string{msgFiles[r.Intn(len(msgFiles))]}
	for i := 0; i < nf; i++ {
		if i < 3 && r.Float64() < 0.85 {
			parts = append(parts, msgNums[r.Intn(len(msgNums))])
		} else {
			parts = append(parts, msgTails[r.Intn(len(msgTails))])
		}
	}
	return strings.Join(parts, ":")
}

func genMsgs(r *rand.Rand) []string {
	n := r.Intn(7)
	if r.Float64() < 0.4 {
		n = 13 + r.Intn(30)
	}
	out := make([]string, n)
	for i := range out {
		if i > 0 && r.Float64() < 0.15 {
			out[i] = out[r.Intn(i)]
			continue
		}
		out[i] = genMsg(r)
	}
	return out
}
