// corr-c05: same sources and options give the same result, whatever the load order.
//
// The Go runtime picks the iteration order of the library's maps, so every source set is
// processed R times in fresh Modules values and under many permutations of the load order; all
// runs must print the same canonical dump (trees with full types, identity value lists, raw
// error messages in returned order), and that dump must be the Lean model's single result
// (drv_res).  The returned error lists are compared with the errorSort model (drv_errsort) and
// with the executable specification (ordered by file, line, column; no duplicates).  Go's
// errorSort is also driven directly (Entry.GetErrors on a hand-made entry) with message lists
// full of ties.  The goyang command built from the current tree is run R times per source set
// with every format and every combination of the boolean flags its sources define (read from
// the repository root: --format tree | types, --types_verbose, --types_debug, --ignore-circdep,
// also without --format, with module names through --path, with the sources on standard input,
// with --trace): every output must be byte-identical.
//
// A text that Modules.Parse rejects is skipped and loading goes on (as the command does): the
// texts that are rejected on their own must be the rejected ones in every load order, and the
// outcome must be that of the set without them (a rejected text leaves no trace).
//
// Two different Go outputs for one source set are the failing input.
package main

import (
	"bytes"
	"encoding/json"
	"errors"
	"flag"
	"fmt"
	"math/rand"
	"os"
	"os/exec"
	"path/filepath"
	"regexp"
	"runtime/debug"
	"sort"
	"strconv"
	"strings"
	"sync"
	"time"

	"github.com/openconfig/goyang/pkg/yang"
	"github.com/openconfig/goyang/pkg/yangentry"
	"verif/harness/gen"
	"verif/harness/lib"
	"verif/harness/rescorr"
)

var repoDir = flag.String("repo", "", "goyang source tree the goyang command is built from (default: $VERIF_REPO, else the directory this runner's goyang dependency was replaced by at build time, else /repo)")
var workDir = flag.String("work", lib.Root()+"/.work/c05", "scratch directory")
var nSets = flag.Int("n", 0, "number of source sets (0 = tier default)")

// ---------- the isolated worker ----------

type job struct {
	Case   rescorr.Case `json:"case"`
	Repeat int          `json:"repeat"`
	Perms  [][]int      `json:"perms"`
	Cli    bool         `json:"cli,omitempty"` // also report what the command's tree formatter would read
	// Surface: also run the set through the public entry point pkg/yangentry.Parse (files on disk),
	// repeatedly and in permuted orders; all runs must agree with each other and with the library API.
	Surface bool `json:"surface,omitempty"`
}

type runOut struct {
	ParseErr string   `json:"parse_err,omitempty"` // message of the first rejected text (loading goes on, as the command does)
	Rejected []string `json:"rejected,omitempty"`  // names of the texts Modules.Parse rejected, sorted
	Dump     []string `json:"dump"`
	Ext      []string `json:"ext,omitempty"`
	Raw      []string `json:"raw,omitempty"`
	// CliWire: what tree.go reads of the entries the command would print (first run only).
	CliWire string `json:"cli_wire,omitempty"`
}

type variant struct {
	Desc  string `json:"desc"`
	Order []int  `json:"order"`
	Out   runOut `json:"out"`
}

type jobOut struct {
	First runOut    `json:"first"`
	Runs  int       `json:"runs"`
	Diffs []variant `json:"diffs,omitempty"`
	// Alone[i]: "" when text i is accepted by a fresh Modules on its own, else the class of the error
	// (a text that is rejected on its own must be rejected in every company and leave no trace).
	Alone []string `json:"alone,omitempty"`
	// Conflict: two texts that are acceptable on their own define the same (kind, name, revision):
	// which of them is kept depends on the load order by design; only repetitions are compared.
	Conflict string `json:"conflict,omitempty"`
	// Without: the outcome of the set without the texts that are rejected on their own.
	Without *runOut `json:"without,omitempty"`
	Trace   string  `json:"trace,omitempty"` // what differs between First and Without ("" = nothing)
	// SurfaceRuns / SurfaceDiff: the yangentry.Parse runs and the first difference found ("" = none).
	SurfaceRuns int      `json:"surface_runs,omitempty"`
	SurfaceDiff string   `json:"surface_diff,omitempty"`
	SurfaceA    []string `json:"surface_a,omitempty"`
	SurfaceB    []string `json:"surface_b,omitempty"`
}

func (o runOut) key() string {
	return "rejected: " + strings.Join(o.Rejected, " ") + "\x00" + strings.Join(o.Dump, "\n") + "\x00" + strings.Join(o.Ext, "\n") + "\x00" + strings.Join(o.Raw, "\n")
}

// identityRecords lists every identity of every loaded (sub)module with its Values in order.
func identityRecords(ms *yang.Modules) []string {
	var out []string
	for _, mm := range []map[string]*yang.Module{ms.Modules, ms.SubModules} {
		seen := map[*yang.Module]bool{}
		var mods []*yang.Module
		for _, m := range mm {
			if !seen[m] {
				seen[m] = true
				mods = append(mods, m)
			}
		}
		sort.Slice(mods, func(i, j int) bool { return mods[i].FullName() < mods[j].FullName() })
		for _, m := range mods {
			for _, id := range m.Identity {
				vals := make([]string, len(id.Values))
				for i, v := range id.Values {
					r := yang.RootNode(v)
					vals[i] = r.FullName() + ":" + v.Name
				}
				out = append(out, fmt.Sprintf("I %s %s %s [%s]", m.Kind(), m.FullName(), id.Name, strings.Join(vals, ",")))
			}
		}
	}
	return out
}

// cliWire renders the entries `goyang` would hand to its formatter (one per module name: the
// module the bare name is bound to; in name order) in the wire format of drv_errsort's `tree`
// op. Children are written in the order the map hands them out.
func cliWire(ms *yang.Modules) string {
	names := map[string]bool{}
	for _, m := range ms.Modules {
		names[m.Name] = true
	}
	var sb strings.Builder
	sorted := lib.SortedKeys(names)
	fmt.Fprintf(&sb, "%d", len(sorted))
	var walk func(e *yang.Entry)
	b := func(x bool) string {
		if x {
			return " 1"
		}
		return " 0"
	}
	walk = func(e *yang.Entry) {
		shown := e.Name
		if e.Prefix != nil {
			shown = e.Prefix.Name + ":" + e.Name
		}
		fmt.Fprintf(&sb, " N %s %s %s %d", lib.HexS(e.Name), lib.HexS(shown), lib.HexS(e.Description), len(e.Exts))
		for _, x := range e.Exts {
			fmt.Fprintf(&sb, " %s %s", lib.HexS(x.Kind()), lib.HexS(x.NName()))
		}
		sb.WriteString(b(e.RPC != nil) + b(e.ReadOnly()))
		if e.Type != nil {
			sb.WriteString(" " + lib.HexS(e.Type.Root.Name))
		} else {
			sb.WriteString(" ~")
		}
		sb.WriteString(b(e.Dir != nil) + b(e.ListAttr != nil) + " " + lib.HexS(e.Key))
		var in, out *yang.Entry
		if e.RPC != nil {
			in, out = e.RPC.Input, e.RPC.Output
		}
		cnt := func(x *yang.Entry) int {
			if x != nil {
				return 1
			}
			return 0
		}
		fmt.Fprintf(&sb, " %d %d %d", cnt(in), cnt(out), len(e.Dir))
		if in != nil {
			walk(in)
		}
		if out != nil {
			walk(out)
		}
		for _, c := range e.Dir {
			walk(c)
		}
	}
	for _, n := range sorted {
		walk(yang.ToEntry(ms.Modules[n]))
	}
	return sb.String()
}

func runOnce(c rescorr.Case, order []int) runOut {
	var out runOut
	ms := yang.NewModules()
	ms.ParseOptions.IgnoreSubmoduleCircularDependencies = c.IgnoreCircular
	ms.ParseOptions.DeviateOptions.IgnoreDeviateNotSupported = c.IgnoreNotSupported
	for _, i := range order {
		if err := ms.Parse(c.Texts[i], c.Names[i]); err != nil {
			// a rejected text must leave no trace: loading goes on with the next one
			if out.ParseErr == "" {
				out.ParseErr = c.Names[i] + ": " + err.Error()
			}
			out.Rejected = append(out.Rejected, c.Names[i])
		}
	}
	sort.Strings(out.Rejected)
	errs := ms.Process()
	out.Dump = lib.DumpOutcome(ms, errs)
	for _, e := range errs {
		out.Raw = append(out.Raw, e.Error())
	}
	if len(errs) == 0 {
		out.Ext = identityRecords(ms)
		if wantCli {
			out.CliWire = cliWire(ms)
		}
	}
	return out
}

var wantCli bool

func identity(n int) []int {
	o := make([]int, n)
	for i := range o {
		o[i] = i
	}
	return o
}

// alone loads every text on its own and lists what it defines.
func alone(c rescorr.Case) (verdict []string, conflict string) {
	owner := map[string]string{}
	for i := range c.Names {
		ms := yang.NewModules()
		if err := ms.Parse(c.Texts[i], c.Names[i]); err != nil {
			_, _, _, cls := lib.ErrClass(err.Error())
			verdict = append(verdict, cls)
			continue
		}
		verdict = append(verdict, "")
		for kind, mm := range map[string]map[string]*yang.Module{"module": ms.Modules, "submodule": ms.SubModules} {
			for _, m := range mm {
				h := kind + " " + m.FullName()
				if o, ok := owner[h]; ok && o != c.Names[i] && conflict == "" {
					conflict = fmt.Sprintf("%s is defined by %s and by %s", h, o, c.Names[i])
				}
				owner[h] = c.Names[i]
			}
		}
	}
	return verdict, conflict
}

func runJob(j job) jobOut {
	var res jobOut
	base := identity(len(j.Case.Names))
	res.Alone, res.Conflict = alone(j.Case)
	wantCli = j.Cli
	res.First = runOnce(j.Case, base)
	wantCli = false
	res.Runs = 1
	k0 := res.First.key()
	if res.Conflict != "" {
		// first come, first served by design: only the repetitions can be compared
		j.Perms = nil
		j.Surface = false
	} else {
		var expect []string
		var keep []int
		for i, v := range res.Alone {
			if v != "" {
				expect = append(expect, j.Case.Names[i])
			} else {
				keep = append(keep, i)
			}
		}
		sort.Strings(expect)
		if len(expect) > 0 || len(res.First.Rejected) > 0 {
			w := runOnce(j.Case, keep)
			res.Runs++
			res.Without = &w
			switch {
			case strings.Join(expect, " ") != strings.Join(res.First.Rejected, " "):
				res.Trace = fmt.Sprintf("rejected in this load order: %v; rejected on their own: %v", res.First.Rejected, expect)
			case !sameStrings(w.Raw, res.First.Raw) || !sameStrings(w.Dump, res.First.Dump) || !sameStrings(w.Ext, res.First.Ext):
				res.Trace = "the outcome differs from that of the set without the rejected texts: " + describeDiff(w, res.First)
			}
			j.Surface = false
		}
	}
	try := func(desc string, order []int) {
		o := runOnce(j.Case, order)
		res.Runs++
		if o.key() != k0 && len(res.Diffs) < 2 {
			res.Diffs = append(res.Diffs, variant{Desc: desc, Order: order, Out: o})
		}
	}
	for r := 1; r < j.Repeat; r++ {
		try(fmt.Sprintf("repetition %d in the same load order", r), base)
	}
	for _, p := range j.Perms {
		try("load order permuted", p)
	}
	if j.Surface {
		surface(j, &res)
	}
	return res
}

// surfaceDump renders what yangentry.Parse returned: the canonical error set, or the tree filed
// under every module name (sorted).
func surfaceDump(es map[string]*yang.Entry, errs []error, dir string) []string {
	var out []string
	if len(errs) > 0 {
		for _, l := range lib.CanonErrs(errs) {
			out = append(out, strings.ReplaceAll(l, dir+"/", ""))
		}
		return out
	}
	var names []string
	for n := range es {
		names = append(names, n)
	}
	sort.Strings(names)
	for _, n := range names {
		lib.DumpTree(n, es[n], &out)
	}
	return out
}

// surface writes the set to a directory and calls yangentry.Parse on the file paths Repeat times in
// the given order and once per permutation. Expected (the reading of "a module's name denotes the
// most recent revision loaded", which is what Modules.Modules files under the bare name): the trees
// of ms.Modules[name] for every bare name, from the library API on the same files.
func surface(j job, res *jobOut) {
	c := j.Case
	for _, n := range c.Names {
		if n == "" || strings.ContainsAny(n, "/\\") || !strings.HasSuffix(n, ".yang") {
			return
		}
	}
	dir, err := os.MkdirTemp(*workDir, "surface")
	if err != nil {
		return
	}
	defer os.RemoveAll(dir)
	seen := map[string]bool{}
	for i, n := range c.Names {
		if seen[n] {
			return
		}
		seen[n] = true
		os.WriteFile(filepath.Join(dir, n), []byte(c.Texts[i]), 0o644)
	}
	paths := func(order []int) []string {
		var ps []string
		for _, i := range order {
			ps = append(ps, filepath.Join(dir, c.Names[i]))
		}
		return ps
	}
	base := identity(len(c.Names))
	// the library API on the same files
	var want []string
	{
		ms := yang.NewModules()
		var rerrs []error
		for _, p := range paths(base) {
			if err := ms.Read(p); err != nil {
				rerrs = append(rerrs, err)
			}
		}
		if len(rerrs) == 0 {
			rerrs = ms.Process()
		}
		es := map[string]*yang.Entry{}
		if len(rerrs) == 0 {
			for n, m := range ms.Modules {
				if n == m.Name {
					es[n] = yang.ToEntry(m)
				}
			}
		}
		want = surfaceDump(es, rerrs, dir)
	}
	try := func(desc string, order []int) {
		if res.SurfaceDiff != "" {
			return
		}
		es, errs := yangentry.Parse(paths(order), nil)
		res.SurfaceRuns++
		got := surfaceDump(es, errs, dir)
		// a failed read stops at different files in different orders: only the fact is compared
		if len(errs) > 0 && len(want) > 0 && strings.HasPrefix(want[0], "E ") && len(c.Names) > 1 && desc != "same order" {
			if strings.HasPrefix(got[0], "E ") {
				return
			}
		}
		if strings.Join(got, "\n") != strings.Join(want, "\n") {
			res.SurfaceDiff = desc
			res.SurfaceA, res.SurfaceB = want, got
		}
	}
	for r := 0; r < j.Repeat; r++ {
		try("same order", base)
	}
	for _, p := range j.Perms {
		try("load order permuted", p)
	}
}

func serveChild() {
	dir := filepath.Join(*workDir, "empty")
	os.MkdirAll(dir, 0o755)
	os.Chdir(dir)
	lib.ChildLoop(func(in []byte) []byte {
		var j job
		if err := json.Unmarshal(in, &j); err != nil {
			return []byte(`{"first":{"parse_err":"bad job"}}`)
		}
		b, _ := json.Marshal(runJob(j))
		return b
	})
}

// ---------- permutations ----------

func allPerms(n int) [][]int {
	var out [][]int
	var rec func(cur []int, used []bool)
	rec = func(cur []int, used []bool) {
		if len(cur) == n {
			out = append(out, append([]int{}, cur...))
			return
		}
		for i := 0; i < n; i++ {
			if !used[i] {
				used[i] = true
				rec(append(cur, i), used)
				used[i] = false
			}
		}
	}
	rec(nil, make([]bool, n))
	return out[1:] // without the identity
}

func perms(r *rand.Rand, n, sample int) [][]int {
	if n <= 1 {
		return nil
	}
	if n <= 4 {
		return allPerms(n)
	}
	out := make([][]int, 0, sample)
	// the reverse order and a rotation always, then random ones
	rev := make([]int, n)
	for i := range rev {
		rev[i] = n - 1 - i
	}
	out = append(out, rev)
	for len(out) < sample {
		out = append(out, r.Perm(n))
	}
	return out
}

func reversed(n int) []int {
	o := make([]int, n)
	for i := range o {
		o[i] = n - 1 - i
	}
	return o
}

func permCase(c rescorr.Case, order []int) rescorr.Case {
	d := c
	d.Names, d.Texts = make([]string, len(order)), make([]string, len(order))
	for i, j := range order {
		d.Names[i], d.Texts[i] = c.Names[j], c.Texts[j]
	}
	return d
}

// ---------- replay payloads ----------

type replay struct {
	Mode string       `json:"mode"` // "lib", "cli", "msgs"
	Case rescorr.Case `json:"case,omitempty"`
	Msgs []string     `json:"msgs,omitempty"` // hex
	// the two differing outputs that were seen
	OutputA any `json:"output_a,omitempty"`
	OutputB any `json:"output_b,omitempty"`
}

// ---------- drivers ----------

func errsortDriver(f *lib.Flags) string { return filepath.Join(filepath.Dir(f.Driver), "drv_errsort") }

func hexMsgs(ms []string) string {
	h := make([]string, len(ms))
	for i, m := range ms {
		h[i] = lib.HexS(m)
	}
	return strings.Join(h, " ")
}

func unhexAnswer(a string) ([]string, bool) {
	f := strings.Fields(a)
	if len(f) == 0 || f[0] != "=" {
		return nil, false
	}
	out := make([]string, 0, len(f)-1)
	for _, x := range f[1:] {
		b, err := lib.UnHex(x)
		if err != nil {
			return nil, false
		}
		out = append(out, string(b))
	}
	return out, true
}

func sameStrings(a, b []string) bool {
	if len(a) != len(b) {
		return false
	}
	for i := range a {
		if a[i] != b[i] {
			return false
		}
	}
	return true
}

// ---------- part A: errorSort driven directly ----------

// goErrorSort runs pkg/yang's errorSort on the messages (in this order) through the exported
// Entry.GetErrors: a lone entry's own errors are handed to errorSort as they are.
func goErrorSort(msgs []string) (out []string, crash string) {
	defer func() {
		if r := recover(); r != nil {
			crash = fmt.Sprint(r)
		}
	}()
	e := &yang.Entry{}
	for _, m := range msgs {
		e.Errors = append(e.Errors, errors.New(m))
	}
	for _, err := range e.GetErrors() {
		out = append(out, err.Error())
	}
	return out, ""
}

func partA(f *lib.Flags, res *lib.Result) (lists, ties int64) {
	n := 20000
	if f.Thorough() {
		n = 400000
	}
	type item struct {
		msgs []string
		got  []string
	}
	items := make([]item, 0, n)
	var reqSort, reqSpec []string
	distinct := lib.NewDistinct()
	for i := 0; i < n; i++ {
		r := f.Rand(1_000_000 + i)
		msgs := genMsgs(r)
		if i < 6 {
			// the observed witnesses first
			w := [][]string{
				{"t, /b:1x", "t, /b:10", "t, /b:2"},
				{"t, /b:2", "t, /b:02", "t, /b:+2", "t, /b:002"},
				{"a.yang:10:1: x", "a.yang:2:1: x", "b.yang:1:1: x", "a.yang:2:1: x"},
				{}, {"only"}, {"same", "same"},
			}
			msgs = w[i]
		}
		if tot, _ := res.Distribution["disagreements_total"].(int); tot >= 50 {
			break // mass disagreement: enough to look at
		}
		got, crash := goErrorSort(msgs)
		if crash != "" {
			res.AddDisagreement(lib.Disagreement{Kind: "crash", Input: msgs, Go: crash, SpecVerdict: "violates", What: "errorSort panicked: " + crash,
				Replay: replay{Mode: "msgs", Msgs: strings.Fields(hexMsgs(msgs))}})
			continue
		}
		// the same multiset in other collection orders
		for k := 0; k < 3 && len(msgs) > 1; k++ {
			p := append([]string{}, msgs...)
			r.Shuffle(len(p), func(a, b int) { p[a], p[b] = p[b], p[a] })
			other, _ := goErrorSort(p)
			if !sameStrings(got, other) {
				res.AddDisagreement(lib.Disagreement{Kind: "spec", Input: msgs, Go: map[string]any{"order_1": msgs, "result_1": got, "order_2": p, "result_2": other},
					SpecVerdict: "violates", What: "errorSort returns different lists for two collection orders of the same messages",
					Replay: replay{Mode: "msgs", Msgs: strings.Fields(hexMsgs(msgs)), OutputA: got, OutputB: other}})
				break
			}
		}
		if distinct.Add(strings.Join(msgs, "\x00")) {
			lists++
		}
		if len(got) < len(uniq(msgs)) {
			ties++ // cannot happen; counted to make a wrong de-duplication visible in the distribution
		}
		items = append(items, item{msgs, got})
		reqSort = append(reqSort, "sort "+hexMsgs(msgs))
		reqSpec = append(reqSpec, "spec.sorted "+hexMsgs(got))
	}
	ansSort, err := lib.ParBatch(errsortDriver(f), reqSort, f.Procs)
	if err != nil {
		lib.Fatal("drv_errsort: %v", err)
	}
	ansSpec, err := lib.ParBatch(errsortDriver(f), reqSpec, f.Procs)
	if err != nil {
		lib.Fatal("drv_errsort: %v", err)
	}
	for i, it := range items {
		model, ok := unhexAnswer(ansSort[i])
		verdict := "holds"
		if ansSpec[i] != "1" {
			verdict = "violates"
		}
		rp := replay{Mode: "msgs", Msgs: strings.Fields(hexMsgs(it.msgs))}
		if !ok || !sameStrings(model, it.got) {
			res.AddDisagreement(lib.Disagreement{Kind: "correspondence", Input: it.msgs, Go: it.got, Model: model, SpecVerdict: verdict,
				What: "errorSort differs from the model on a message list", Replay: rp})
		} else if verdict == "violates" {
			res.AddDisagreement(lib.Disagreement{Kind: "spec", Input: it.msgs, Go: it.got, SpecVerdict: verdict,
				What: "the list returned by errorSort is not ordered by file, line, column without duplicates", Replay: rp})
		}
	}
	// strconv.Atoi against the model's atoi
	var nums []string
	nums = append(nums, msgNums...)
	for i := 0; i < 4000; i++ {
		r := f.Rand(2_000_000 + i)
		var sb strings.Builder
		if r.Intn(3) == 0 {
			sb.WriteByte("+-"[r.Intn(2)])
		}
		nd := r.Intn(24)
		for k := 0; k < nd; k++ {
			if r.Intn(40) == 0 {
				sb.WriteByte("_x -+."[r.Intn(6)])
			} else {
				sb.WriteByte(byte('0' + r.Intn(10)))
			}
		}
		nums = append(nums, sb.String())
	}
	for _, d := range []int{-2, -1, 0, 1, 2} {
		// around both ends of the int range, with and without a sign and leading zeros
		hi := new(strings.Builder)
		fmt.Fprintf(hi, "%d", uint64(9223372036854775807)+uint64(int64(d)))
		nums = append(nums, hi.String(), "+"+hi.String(), "-"+hi.String(), "000"+hi.String(), "-000"+hi.String())
	}
	var reqs []string
	for _, s := range nums {
		reqs = append(reqs, "atoi "+lib.HexS(s))
	}
	ans, err := lib.ParBatch(errsortDriver(f), reqs, f.Procs)
	if err != nil {
		lib.Fatal("drv_errsort: %v", err)
	}
	for i, s := range nums {
		want := "none"
		if v, err := strconv.Atoi(s); err == nil {
			want = strconv.Itoa(v)
		}
		if ans[i] != want {
			res.AddDisagreement(lib.Disagreement{Kind: "correspondence", Input: s, Go: want, Model: ans[i], SpecVerdict: "",
				What: fmt.Sprintf("strconv.Atoi(%q) differs from the model's atoi", s)})
		}
	}
	res.Distribution["atoi_strings_compared"] = len(nums)
	return lists, ties
}

func uniq(ms []string) []string {
	seen := map[string]bool{}
	var out []string
	for _, m := range ms {
		if !seen[m] {
			seen[m] = true
			out = append(out, m)
		}
	}
	return out
}

// ---------- part C: the goyang command ----------

// resolveRepo fixes the source tree the command is built from: it must be the tree the library
// part of this runner was compiled against.
func resolveRepo() {
	if *repoDir != "" {
		return
	}
	if v := os.Getenv("VERIF_REPO"); v != "" {
		*repoDir = v
		return
	}
	if bi, ok := debug.ReadBuildInfo(); ok {
		for _, d := range bi.Deps {
			if d.Path == "github.com/openconfig/goyang" && d.Replace != nil && filepath.IsAbs(d.Replace.Path) {
				*repoDir = d.Replace.Path
				return
			}
		}
	}
	*repoDir = "/repo"
}

func buildGoyang() (string, error) {
	resolveRepo()
	out := filepath.Join(*workDir, "goyang")
	cmd := exec.Command("go", "build", "-o", out, ".")
	cmd.Dir = *repoDir
	cmd.Env = append(os.Environ(), "GOFLAGS=-mod=mod", "GOPROXY=off", "GOSUMDB=off", "GOTOOLCHAIN=local")
	if b, err := cmd.CombinedOutput(); err != nil {
		return "", fmt.Errorf("go build goyang in %s: %v: %s", *repoDir, err, b)
	}
	return out, nil
}

// cliSurface is what the command's sources say it accepts: the registered formats, the boolean
// flags each format adds, the global boolean flags.  Read from the flag definitions in the .go
// files of the repository root, so that a format or flag added later is exercised too.
type cliSurface struct {
	Formats    []string            `json:"formats"`
	FormatBool map[string][]string `json:"format_flags"`
	GlobalBool []string            `json:"global_flags"`
	Other      []string            `json:"flags_with_values"` // flags that take a value: not combined blindly
}

var (
	reFormatName = regexp.MustCompile(`(?s)register\(&formatter\{.*?name:\s*"([^"]+)"`)
	reFmtBool    = regexp.MustCompile(`flags\.BoolVarLong\([^,]+,\s*"([^"]+)"`)
	reFmtOther   = regexp.MustCompile(`flags\.(?:String|List|Int|Uint|Duration|Enum|Counter|Signed|Unsigned)\w*Long\([^,]+,\s*"([^"]+)"`)
	reGlobBool   = regexp.MustCompile(`getopt\.BoolVarLong\([^,]+,\s*"([^"]+)"`)
	reGlobOther  = regexp.MustCompile(`getopt\.(?:String|List|Int|Uint|Duration|Enum|Counter|Signed|Unsigned)\w*Long\([^,]+,\s*"([^"]+)"`)
)

func discoverCli() cliSurface {
	resolveRepo()
	cs := cliSurface{FormatBool: map[string][]string{}}
	files, _ := filepath.Glob(filepath.Join(*repoDir, "*.go"))
	sort.Strings(files)
	for _, fn := range files {
		if strings.HasSuffix(fn, "_test.go") {
			continue
		}
		b, err := os.ReadFile(fn)
		if err != nil {
			continue
		}
		src := string(b)
		var here []string
		for _, m := range reFormatName.FindAllStringSubmatch(src, -1) {
			here = append(here, m[1])
			cs.Formats = append(cs.Formats, m[1])
		}
		for _, m := range reFmtBool.FindAllStringSubmatch(src, -1) {
			for _, f := range here {
				cs.FormatBool[f] = append(cs.FormatBool[f], m[1])
			}
		}
		for _, m := range reFmtOther.FindAllStringSubmatch(src, -1) {
			cs.Other = append(cs.Other, m[1])
		}
		for _, m := range reGlobBool.FindAllStringSubmatch(src, -1) {
			if m[1] != "help" {
				cs.GlobalBool = append(cs.GlobalBool, m[1])
			}
		}
		for _, m := range reGlobOther.FindAllStringSubmatch(src, -1) {
			cs.Other = append(cs.Other, m[1])
		}
	}
	if len(cs.Formats) == 0 {
		// the sources were not understood: what the command had when this runner was written
		cs.Formats = []string{"tree", "types"}
		cs.FormatBool["types"] = []string{"types_debug", "types_verbose"}
		cs.GlobalBool = []string{"ignore-circdep"}
	}
	sort.Strings(cs.Formats)
	return cs
}

// combos lists the argument vectors (without sources) the command is run with: no --format at
// all, and per format every subset of its boolean flags (at most 16 subsets per format).
func (cs cliSurface) combos() [][]string {
	out := [][]string{{"--format", "tree"}, {}}
	for _, f := range cs.Formats {
		fl := cs.FormatBool[f]
		nsub := 1 << len(fl)
		if nsub > 16 {
			nsub = 16
		}
		for mask := 0; mask < nsub; mask++ {
			if f == "tree" && mask == 0 {
				continue // first entry
			}
			a := []string{"--format", f}
			for i, x := range fl {
				if mask&(1<<i) != 0 {
					a = append(a, "--"+x)
				}
			}
			out = append(out, a)
		}
	}
	return out
}

type cliOut struct {
	Args   []string `json:"args"`
	Stdout string   `json:"stdout"`
	Stderr string   `json:"stderr"`
	Exit   int      `json:"exit"`
}

func (c cliOut) key() string { return fmt.Sprintf("%d\x00%s\x00%s", c.Exit, c.Stdout, c.Stderr) }

func runCli(bin, dir string, args []string) cliOut { return runCliIn(bin, dir, args, "") }

func runCliIn(bin, dir string, args []string, stdin string) cliOut {
	cmd := exec.Command(bin, args...)
	cmd.Dir = dir
	if stdin != "" {
		cmd.Stdin = strings.NewReader(stdin)
	}
	var so, se bytes.Buffer
	cmd.Stdout, cmd.Stderr = &so, &se
	done := make(chan error, 1)
	if err := cmd.Start(); err != nil {
		return cliOut{Args: args, Stderr: "cannot start: " + err.Error(), Exit: -1}
	}
	go func() { done <- cmd.Wait() }()
	select {
	case <-done:
	case <-time.After(20 * time.Second):
		cmd.Process.Kill()
		<-done
		return cliOut{Args: args, Stdout: so.String(), Stderr: "timeout", Exit: -2}
	}
	return cliOut{Args: args, Stdout: so.String(), Stderr: se.String(), Exit: cmd.ProcessState.ExitCode()}
}

// cliCase runs the command R times for every combination of format and flags on the files of c
// (argument order permuted when every file loads; every global boolean flag such as
// --ignore-circdep off and on when `both` is set, else as the case says), once more per
// combination group with module names found through --path instead of file names, and with the
// sources on standard input, and returns the first pair of differing outputs, if any.  --trace
// is given on a part of the runs (its file is the runtime's execution trace and is not compared;
// standard output must not change).
func cliCase(bin string, cs cliSurface, idx int, c rescorr.Case, permute, both bool, R int, r *rand.Rand) (a, b *cliOut, runs int, tree *cliOut) {
	dir := filepath.Join(*workDir, "cases", strconv.Itoa(idx))
	os.RemoveAll(dir)
	os.MkdirAll(dir, 0o755)
	defer os.RemoveAll(dir)
	var modArgs []string
	seen := map[string]bool{}
	for i, n := range c.Names {
		os.WriteFile(filepath.Join(dir, n), []byte(c.Texts[i]), 0o644)
		m := strings.TrimSuffix(n, ".yang")
		if k := strings.IndexByte(m, '@'); k > 0 {
			m = m[:k]
		}
		if !seen[m] {
			seen[m] = true
			modArgs = append(modArgs, m)
		}
	}
	stdin := strings.Join(c.Texts, "\n")
	type variant struct {
		pre   []string // global flags
		mode  int      // 0 file names, 1 module names via --path, 2 standard input
		trace bool
	}
	var globals [][]string
	if both {
		n := 1 << len(cs.GlobalBool)
		for mask := 0; mask < n && mask < 8; mask++ {
			var g []string
			for i, x := range cs.GlobalBool {
				if mask&(1<<i) != 0 {
					g = append(g, "--"+x)
				}
			}
			globals = append(globals, g)
		}
	} else if c.IgnoreCircular {
		globals = [][]string{{"--ignore-circdep"}}
	} else {
		globals = [][]string{nil}
	}
	// the case's own setting first: its output is what the library run is compared with
	own := ""
	if c.IgnoreCircular {
		own = "--ignore-circdep"
	}
	for i, g := range globals {
		if strings.Join(g, " ") == own {
			globals[0], globals[i] = globals[i], globals[0]
			break
		}
	}
	for ci, fm := range cs.combos() {
		var variants []variant
		for _, g := range globals {
			variants = append(variants, variant{pre: g})
		}
		// the other ways of naming the sources: once per format (flag-free combination)
		if len(fm) <= 2 {
			variants = append(variants, variant{pre: globals[0], mode: 1}, variant{pre: globals[0], mode: 2})
		}
		for _, v := range variants {
			var first *cliOut
			for k := 0; k < R; k++ {
				var srcs []string
				switch v.mode {
				case 0:
					srcs = append(srcs, c.Names...)
				case 1:
					srcs = append(srcs, modArgs...)
				}
				if permute && k > 0 && k%2 == 0 {
					r.Shuffle(len(srcs), func(i, j int) { srcs[i], srcs[j] = srcs[j], srcs[i] })
				}
				args := append([]string{}, v.pre...)
				if v.mode == 1 {
					args = append(args, "--path", ".")
				}
				if k%4 == 3 {
					args = append(args, "--trace", filepath.Join(dir, "trace.out"))
				}
				args = append(append(args, fm...), srcs...)
				in := ""
				if v.mode == 2 {
					in = stdin
				}
				o := runCliIn(bin, dir, args, in)
				runs++
				if first == nil {
					first = &o
					if tree == nil && ci == 0 && v.mode == 0 {
						tree = first
					}
					continue
				}
				if o.key() != first.key() {
					return first, &o, runs, tree
				}
			}
		}
	}
	return nil, nil, runs, tree
}

// flagsOf keeps the options of an argument vector.
func flagsOf(args []string) string {
	var fl []string
	for i := 0; i < len(args); i++ {
		if strings.HasPrefix(args[i], "--") {
			fl = append(fl, args[i])
			if args[i] == "--format" || args[i] == "--path" || args[i] == "--trace" {
				i++
				if args[i-1] == "--format" {
					fl = append(fl, args[i])
				}
			}
		}
	}
	if len(fl) == 0 {
		return "no options"
	}
	return strings.Join(fl, " ")
}

// ---------- main ----------

func firstLine(s string) string {
	if i := strings.IndexByte(s, '\n'); i > 0 {
		return s[:i]
	}
	return s
}

func describeDiff(a, b runOut) string {
	switch {
	case strings.Join(a.Rejected, " ") != strings.Join(b.Rejected, " "):
		return fmt.Sprintf("different texts are rejected: %v (%s) / %v (%s)", a.Rejected, a.ParseErr, b.Rejected, b.ParseErr)
	case !sameStrings(a.Raw, b.Raw):
		return fmt.Sprintf("returned errors differ: %q / %q", a.Raw, b.Raw)
	case !sameStrings(a.Dump, b.Dump):
		return "trees differ: " + diffRuns(a.Dump, b.Dump)
	default:
		return "identity value lists differ: " + diffRuns(a.Ext, b.Ext)
	}
}

// diffRuns describes the first differing record of two Go runs.
func diffRuns(a, b []string) string {
	for i := 0; i < len(a) || i < len(b); i++ {
		var x, y string
		if i < len(a) {
			x = a[i]
		}
		if i < len(b) {
			y = b[i]
		}
		if x != y {
			return fmt.Sprintf("record %d: first run: %s | other run: %s", i, rescorr.Readable(x), rescorr.Readable(y))
		}
	}
	return ""
}

func runJobs(jobs []job, f *lib.Flags) ([]jobOut, []string) {
	inputs := make([][]byte, len(jobs))
	for i, j := range jobs {
		inputs[i], _ = json.Marshal(j)
	}
	cr := lib.RunIsolated(inputs, f.Procs, 120*time.Second)
	outs := make([]jobOut, len(jobs))
	crashes := make([]string, len(jobs))
	for i := range jobs {
		if cr[i].Crashed {
			crashes[i] = cr[i].Msg
			continue
		}
		if err := json.Unmarshal(cr[i].Out, &outs[i]); err != nil {
			crashes[i] = "unreadable worker output"
		}
	}
	return outs, crashes
}

func main() {
	f := lib.ParseFlags()
	if lib.IsChild() {
		serveChild()
		return
	}
	if f.Replay != "" {
		doReplay(f)
		return
	}
	res := lib.NewResult("C05", f)
	os.MkdirAll(*workDir, 0o755)

	// A: errorSort directly
	lists, _ := partA(f, res)
	res.Distribution["errorSort_message_lists"] = lists

	// B: source sets through the library
	n, R, sample := 4000, 8, 24
	nCli, Rcli := 400, 8
	if f.Thorough() {
		n, R, sample = 20000, 64, 200
		nCli, Rcli = 2500, 64
	}
	if *nSets > 0 {
		n = *nSets
		if nCli > n {
			nCli = n
		}
	}
	var jobs []job
	var feats [][]string
	cfg := gen.Default()
	for i := 0; i < n; i++ {
		r := f.Rand(i)
		var c rescorr.Case
		var ft []string
		if i%4 == 3 {
			// breadth: the general generator (any structure, few ties)
			set := gen.Generate(r, cfg)
			c.Names, c.Texts = set.Files()
			ft = []string{"general"}
		} else {
			s := genSet(r)
			c.Names, c.Texts, c.IgnoreCircular = s.Names, s.Texts, s.IgnoreCircular
			ft = s.Feats
		}
		jobs = append(jobs, job{Case: c, Repeat: R, Perms: perms(r, len(c.Names), sample)})
		feats = append(feats, ft)
	}
	step := 1
	if n > nCli {
		step = n / nCli
	}
	for i := 0; i < n; i += step {
		jobs[i].Cli = true
	}
	// the public entry point pkg/yangentry.Parse on every set with several revisions of one name and
	// on every 4th other set
	var surfaceJobs int64
	for i := range jobs {
		multi := false
		for _, ft := range feats[i] {
			if ft == "several-revisions" {
				multi = true
			}
		}
		if multi || i%4 == 1 {
			jobs[i].Surface = true
			surfaceJobs++
		}
	}
	res.Distribution["yangentry_surface_sets"] = surfaceJobs
	outs, crashes := runJobs(jobs, f)

	distinct := lib.NewDistinct()
	featCount := map[string]int64{}
	var rejected, conflicts, withErrors, clean, outside, totalRuns, withIdent, surfaceRuns int64
	var modelReqs, sortReqs, specReqs []string
	var modelIdx, sortIdx []int
	for i, o := range outs {
		c := jobs[i].Case
		if crashes[i] != "" {
			res.AddDisagreement(lib.Disagreement{Kind: "crash", Input: c, Go: crashes[i], SpecVerdict: "violates",
				What: "goyang crashed or hung: " + firstLine(crashes[i]), Replay: replay{Mode: "lib", Case: c}})
			continue
		}
		totalRuns += int64(o.Runs)
		for _, d := range o.Diffs {
			res.AddDisagreement(lib.Disagreement{Kind: "spec", Input: c,
				Go:          map[string]any{"first_run": o.First, "other_run": d.Out, "other_run_is": d.Desc, "other_load_order": d.Order},
				SpecVerdict: "violates", What: "two runs on one source set differ (" + d.Desc + "): " + describeDiff(o.First, d.Out),
				Replay: replay{Mode: "lib", Case: c, OutputA: o.First, OutputB: d.Out}})
			break
		}
		if o.SurfaceDiff != "" {
			res.AddDisagreement(lib.Disagreement{Kind: "spec", Input: c,
				Go:          map[string]any{"library_api": o.SurfaceA, "yangentry_parse": o.SurfaceB, "run": o.SurfaceDiff},
				SpecVerdict: "violates", What: "pkg/yangentry.Parse (" + o.SurfaceDiff + ") differs from the library API on the same files: " + diffRuns(o.SurfaceA, o.SurfaceB),
				Replay: replay{Mode: "lib", Case: c}})
		}
		surfaceRuns += int64(o.SurfaceRuns)
		if o.Trace != "" {
			res.AddDisagreement(lib.Disagreement{Kind: "spec", Input: c,
				Go:          map[string]any{"with_the_rejected_texts": o.First, "without_them": o.Without, "each_text_on_its_own": o.Alone},
				SpecVerdict: "violates", What: "a rejected text leaves a trace: " + o.Trace, Replay: replay{Mode: "lib", Case: c, OutputA: o.First, OutputB: o.Without}})
		}
		if o.Conflict != "" {
			conflicts++
			continue
		}
		if len(o.First.Rejected) > 0 {
			rejected++
		}
		// the resolver model does not run the AST builder: texts the builder rejects are left out of
		// its input; texts that only Modules.add rejects stay in (the model's registry is atomic per text)
		mc := c
		if len(o.First.Rejected) > 0 {
			var keep []int
			for k, v := range o.Alone {
				if v == "" || v == "duplicate-module" || v == "bad-module-name" {
					keep = append(keep, k)
				}
			}
			mc = permCase(c, keep)
		}
		if distinct.Add(strings.Join(c.Texts, "\x00")) {
			for _, ft := range feats[i] {
				featCount[ft]++
			}
		}
		if len(o.First.Raw) > 0 {
			withErrors++
			sortReqs = append(sortReqs, "sort "+hexMsgs(o.First.Raw))
			specReqs = append(specReqs, "spec.sorted "+hexMsgs(o.First.Raw))
			sortIdx = append(sortIdx, i)
		} else {
			clean++
			if len(o.First.Ext) > 0 {
				withIdent++
			}
		}
		if r := rescorr.Request(mc); r != "" {
			// the model's single result, and its result for the reversed and for a shuffled load order
			modelReqs = append(modelReqs, r, rescorr.Request(permCase(mc, reversed(len(mc.Names)))),
				rescorr.Request(permCase(mc, f.Rand(4_000_000+i).Perm(len(mc.Names)))))
			modelIdx = append(modelIdx, i)
		}
	}
	// the model's single result
	ans, err := lib.ParBatch(f.Driver, modelReqs, f.Procs)
	if err != nil {
		lib.Fatal("drv_res: %v", err)
	}
	for k, i := range modelIdx {
		a := ans[3*k]
		if strings.HasPrefix(a, "outsideModel") {
			outside++
			continue
		}
		if ans[3*k+1] != a || ans[3*k+2] != a {
			res.AddDisagreement(lib.Disagreement{Kind: "correspondence", Input: jobs[i].Case, Go: outs[i].First.Dump, Model: []string{a, ans[3*k+1], ans[3*k+2]},
				SpecVerdict: "", What: "the resolver model's own result depends on the load order (written, reversed, shuffled)", Replay: replay{Mode: "lib", Case: jobs[i].Case}})
		}
		var model []string
		if a != "" {
			model = strings.Split(a, " ; ")
		}
		if d := rescorr.Diff(outs[i].First.Dump, model); d != "" {
			res.AddDisagreement(lib.Disagreement{Kind: "correspondence", Input: jobs[i].Case, Go: outs[i].First.Dump, Model: model, SpecVerdict: "",
				What: "every Go run agrees, but the resolver model gives another result: " + d, Replay: replay{Mode: "lib", Case: jobs[i].Case}})
		}
	}
	// returned error lists against the errorSort model and the specification
	ansSort, err := lib.ParBatch(errsortDriver(f), sortReqs, f.Procs)
	if err != nil {
		lib.Fatal("drv_errsort: %v", err)
	}
	ansSpec, err := lib.ParBatch(errsortDriver(f), specReqs, f.Procs)
	if err != nil {
		lib.Fatal("drv_errsort: %v", err)
	}
	var tieLists int64
	for k, i := range sortIdx {
		raw := outs[i].First.Raw
		model, ok := unhexAnswer(ansSort[k])
		verdict := "holds"
		if ansSpec[k] != "1" {
			verdict = "violates"
		}
		rp := replay{Mode: "lib", Case: jobs[i].Case}
		if !ok || !sameStrings(model, raw) {
			res.AddDisagreement(lib.Disagreement{Kind: "correspondence", Input: jobs[i].Case, Go: raw, Model: model, SpecVerdict: verdict,
				What: "the error list Process returns is not the errorSort model's arrangement of the same messages", Replay: rp})
		} else if verdict == "violates" {
			res.AddDisagreement(lib.Disagreement{Kind: "spec", Input: jobs[i].Case, Go: raw, SpecVerdict: verdict,
				What: "the error list Process returns is not ordered by file, line, column without duplicates", Replay: rp})
		}
		npl := 0
		for _, m := range raw {
			if _, l, _, _ := lib.ErrClass(m); l == 0 {
				npl++
			}
		}
		if npl >= 3 {
			tieLists++
		}
	}

	// C: the command
	bin, err := buildGoyang()
	if err != nil {
		lib.Fatal("%v", err)
	}
	surfaceCli := discoverCli()
	res.Distribution["cli_built_from"] = *repoDir
	res.Distribution["cli_surface"] = surfaceCli
	res.Distribution["cli_argument_combinations"] = len(surfaceCli.combos())
	if len(surfaceCli.Other) > 0 {
		res.Notes = append(res.Notes, fmt.Sprintf("flags that take a value are not combined blindly: %v (--path and --trace are exercised on purpose, --format through the registered formats)", surfaceCli.Other))
	}
	{
		// --help lists formats and flags: walks of the formatter table
		var first *cliOut
		for k := 0; k < Rcli; k++ {
			o := runCli(bin, *workDir, []string{"--help"})
			if first == nil {
				first = &o
			} else if o.key() != first.key() {
				res.AddDisagreement(lib.Disagreement{Kind: "spec", Input: "--help", Go: map[string]any{"run_1": first, "run_2": o}, SpecVerdict: "violates",
					What: "goyang --help prints different text in two runs"})
				break
			}
		}
	}
	var cliRuns, cliSets int64
	var mu sync.Mutex
	var wg sync.WaitGroup
	sem := make(chan struct{}, f.Procs)
	treeOut := make([]*cliOut, n)
	for i := 0; i < n; i += step {
		if crashes[i] != "" {
			continue
		}
		wg.Add(1)
		sem <- struct{}{}
		go func(i int) {
			defer wg.Done()
			defer func() { <-sem }()
			c := jobs[i].Case
			both := false
			for _, t := range c.Texts {
				if strings.HasPrefix(t, "submodule") {
					both = true
				}
			}
			a, b, runs, tree := cliCase(bin, surfaceCli, i, c, len(outs[i].First.Rejected) == 0, both, Rcli, f.Rand(3_000_000+i))
			mu.Lock()
			cliRuns += int64(runs)
			cliSets++
			treeOut[i] = tree
			mu.Unlock()
			if a != nil {
				res.AddDisagreement(lib.Disagreement{Kind: "spec", Input: c, Go: map[string]any{"run_1": a, "run_2": b}, SpecVerdict: "violates",
					What:   fmt.Sprintf("the goyang command prints different output for one source set (%s)", flagsOf(a.Args)),
					Replay: replay{Mode: "cli", Case: c, OutputA: a, OutputB: b}})
			}
		}(i)
	}
	wg.Wait()
	// the tree formatter against Model.Cli: what the command printed must be the model's rendering
	// of what the library run saw
	var treeReqs []string
	var treeIdx []int
	for i := 0; i < n; i += step {
		if treeOut[i] != nil && crashes[i] == "" && outs[i].First.CliWire != "" {
			treeReqs = append(treeReqs, "tree "+outs[i].First.CliWire)
			treeIdx = append(treeIdx, i)
		}
	}
	ansTree, err := lib.ParBatch(errsortDriver(f), treeReqs, f.Procs)
	if err != nil {
		lib.Fatal("drv_errsort: %v", err)
	}
	var treesCompared int64
	for k, i := range treeIdx {
		want, derr := lib.UnHex(ansTree[k])
		t := treeOut[i]
		if derr != nil || t.Exit != 0 || string(want) != t.Stdout {
			res.AddDisagreement(lib.Disagreement{Kind: "correspondence", Input: jobs[i].Case, Go: t, Model: string(want), SpecVerdict: "",
				What: "goyang --format tree prints something else than the formatter model renders for the same trees", Replay: replay{Mode: "cli", Case: jobs[i].Case}})
		}
		treesCompared++
	}
	res.Distribution["cli_tree_outputs_equal_to_model_rendering"] = treesCompared

	res.Evaluations = totalRuns + cliRuns + lists + surfaceRuns
	res.Distribution["yangentry_surface_runs"] = surfaceRuns
	res.DistinctNontrivial = distinct.Len()
	res.Rule = "distinct_nontrivial = distinct source sets (by text) that load in the generated order; each is processed R times in fresh Modules values plus under all (up to 4 files) or sampled permutations of the load order, all runs compared on trees with full types, identity value lists and raw error messages; evaluations = library runs + goyang command runs + distinct message lists given to errorSort directly + pkg/yangentry.Parse runs (sets with several revisions of one name and every 4th other set, written to disk, R repetitions + permutations, compared with the library API on the same files). Generator: base module b plus 1-5 conflict features (see distribution.features) in shuffled load order with random name prefixes (3 of 4 sets), harness/gen default sets (1 of 4)"
	res.Distribution["library_runs"] = totalRuns
	res.Distribution["runs_per_set"] = fmt.Sprintf("R=%d repetitions + min(n!-1, %d) permutations", R, sample)
	res.Distribution["sets_with_a_rejected_text(no-trace clause checked)"] = rejected
	res.Distribution["sets_with_conflicting_texts(only repetitions compared)"] = conflicts
	res.Distribution["sets_with_errors"] = withErrors
	res.Distribution["sets_with_3_or_more_positionless_errors"] = tieLists
	res.Distribution["clean_sets"] = clean
	res.Distribution["clean_sets_with_identities"] = withIdent
	res.Distribution["outside_model"] = outside
	res.Distribution["features"] = featCount
	res.Distribution["cli_sets"] = cliSets
	res.Distribution["cli_runs"] = cliRuns
	res.Notes = append(res.Notes,
		"map iteration order cannot be chosen from outside the runtime: repetitions sample it (each range statement starts at a random bucket)",
		"error values in pkg/yang are all *errors.errorString (fmt.Errorf without %w, errors.New), so reflect.DeepEqual in errorSort is equality of messages")
	for i := 0; i < len(outs) && len(res.Samples) < 6; i += len(outs)/6 + 1 {
		if crashes[i] == "" {
			res.AddSample(map[string]any{"files": jobs[i].Case.Names, "features": feats[i], "runs": outs[i].Runs, "errors": outs[i].First.Raw, "records": len(outs[i].First.Dump)})
		}
	}
	res.Write(f.Out)
}

// ---------- replay ----------

func doReplay(f *lib.Flags) {
	raw, err := os.ReadFile(f.Replay)
	if err != nil {
		lib.Fatal("%v", err)
	}
	var p struct {
		Disagreement struct {
			Replay replay `json:"replay"`
		} `json:"disagreement"`
	}
	if err := json.Unmarshal(raw, &p); err != nil {
		lib.Fatal("%v", err)
	}
	rp := p.Disagreement.Replay
	os.MkdirAll(*workDir, 0o755)
	bad := false
	switch rp.Mode {
	case "msgs":
		var msgs []string
		for _, h := range rp.Msgs {
			b, _ := lib.UnHex(h)
			msgs = append(msgs, string(b))
		}
		got, crash := goErrorSort(msgs)
		fmt.Printf("messages: %q\ngo errorSort: %q %s\n", msgs, got, crash)
		r := rand.New(rand.NewSource(1))
		for k := 0; k < 200 && len(msgs) > 1; k++ {
			q := append([]string{}, msgs...)
			r.Shuffle(len(q), func(a, b int) { q[a], q[b] = q[b], q[a] })
			if other, _ := goErrorSort(q); !sameStrings(other, got) {
				fmt.Printf("collection order %q gives %q\n", q, other)
				bad = true
				break
			}
		}
		d, err := lib.StartDriver(errsortDriver(f))
		if err != nil {
			lib.Fatal("%v", err)
		}
		a, _ := d.Ask("sort " + hexMsgs(msgs))
		s, _ := d.Ask("spec.sorted " + hexMsgs(got))
		d.Close()
		model, _ := unhexAnswer(a)
		fmt.Printf("model errorSort: %q\nspec (sorted by file, line, col; no duplicates) on the Go result: %s\n", model, s)
		if !sameStrings(model, got) || s != "1" || crash != "" {
			bad = true
		}
	case "cli":
		bin, err := buildGoyang()
		if err != nil {
			lib.Fatal("%v", err)
		}
		a, b, runs, _ := cliCase(bin, discoverCli(), 0, rp.Case, true, true, 64, rand.New(rand.NewSource(1)))
		fmt.Printf("%d runs of the goyang command\n", runs)
		if a != nil {
			fmt.Printf("DIFFERENT:\n--- %v (exit %d)\n%s%s--- %v (exit %d)\n%s%s", a.Args, a.Exit, a.Stdout, a.Stderr, b.Args, b.Exit, b.Stdout, b.Stderr)
			bad = true
		} else {
			fmt.Println("all outputs identical")
		}
	default:
		c := rp.Case
		for i := range c.Names {
			fmt.Printf("--- %s\n%s", c.Names[i], c.Texts[i])
		}
		j := job{Case: c, Repeat: 64, Perms: perms(rand.New(rand.NewSource(1)), len(c.Names), 200)}
		outs, crashes := runJobs([]job{j}, f)
		if crashes[0] != "" {
			fmt.Println("goyang crashed:", crashes[0])
			os.Exit(1)
		}
		o := outs[0]
		fmt.Printf("%d runs\nfirst run:\n", o.Runs)
		printRun(o.First)
		for _, d := range o.Diffs {
			fmt.Printf("DIFFERENT (%s, load order %v): %s\n", d.Desc, d.Order, describeDiff(o.First, d.Out))
			printRun(d.Out)
			bad = true
		}
		if o.Conflict != "" {
			fmt.Println("texts that are acceptable on their own conflict (first come, first served; only repetitions compared):", o.Conflict)
		}
		if o.Trace != "" {
			fmt.Println("A REJECTED TEXT LEAVES A TRACE:", o.Trace)
			if o.Without != nil {
				fmt.Println("without the rejected texts:")
				printRun(*o.Without)
			}
			bad = true
		}
		if o.Conflict == "" {
			if len(o.First.Rejected) > 0 {
				var keep []int
				for k, v := range o.Alone {
					if v == "" || v == "duplicate-module" || v == "bad-module-name" {
						keep = append(keep, k)
					}
				}
				c = permCase(c, keep)
			}
			if r := rescorr.Request(c); r != "" {
				d, err := lib.StartDriver(f.Driver)
				if err != nil {
					lib.Fatal("%v", err)
				}
				a, _ := d.Ask(r)
				d.Close()
				if !strings.HasPrefix(a, "outsideModel") {
					var model []string
					if a != "" {
						model = strings.Split(a, " ; ")
					}
					if df := rescorr.Diff(o.First.Dump, model); df != "" {
						fmt.Println("model differs:", df)
						bad = true
					} else {
						fmt.Println("model: same result")
					}
				}
			}
			if len(o.First.Raw) > 0 {
				d, err := lib.StartDriver(errsortDriver(f))
				if err != nil {
					lib.Fatal("%v", err)
				}
				a, _ := d.Ask("sort " + hexMsgs(o.First.Raw))
				s, _ := d.Ask("spec.sorted " + hexMsgs(o.First.Raw))
				d.Close()
				model, _ := unhexAnswer(a)
				fmt.Printf("errorSort model on the returned messages: same=%v; spec sorted=%s\n", sameStrings(model, o.First.Raw), s)
				if !sameStrings(model, o.First.Raw) || s != "1" {
					bad = true
				}
			}
		}
	}
	if bad {
		fmt.Println("DIFFERENT")
		os.Exit(1)
	}
	fmt.Println("same")
}

func printRun(o runOut) {
	if len(o.Rejected) > 0 {
		fmt.Printf("   rejected at load: %v (first: %s)\n", o.Rejected, o.ParseErr)
	}
	for _, m := range o.Raw {
		fmt.Println("   error:", m)
	}
	for _, r := range o.Dump {
		fmt.Println("  ", rescorr.Readable(r))
	}
	for _, r := range o.Ext {
		fmt.Println("  ", r)
	}
}
