package main

// (viii) on-demand loading (files on disk). C06 quantifies over every schema however it was
// loaded: the copy a uses receives, recursively through nested uses in other modules and
// submodules, must not depend on whether the caller handed a defining module over or Process found
// it on the search path while linking an import or include. A case with Extra["c06_disk"] (a list
// of variants: roots, layout, hand) or Extra["c06_disk_auto"] (a seed: the worker picks the roots
// itself from the import / include statements of the texts) is first run the ordinary way (every
// text handed to Modules.Parse; compared with the Lean model) and then, in the same worker, once
// per variant from a fresh directory tree:
//
//	layout flat   one directory on the search path (AddPath), files <module>.yang
//	layout sub    files spread over sub-sub-directories of a directory that is on the path as "dir/..."
//	layout dirs   two directories, put on the path as one colon separated list
//	layout read   every file, roots too, in one directory that is NOT put on the path; the roots are
//	              loaded with Modules.Read(<full path>), which makes that directory a search directory
//	hand parse    roots by Modules.Parse(text, name);  hand read: roots written to a directory of their
//	              own and loaded by Modules.Read(<full path>)
//
// Only the roots are loaded by the caller; every root set reaches every file of the set through
// import / include statements, so the loaded set is the whole set. Oracle (metamorphic, no model
// work of its own): the canonical outcome (trees or error set, positions under the bare file name)
// equals that of the all-explicit run; and on the on-demand value the generator oracles hold as
// they stand: binding of every uses statement (yang.FindGrouping through the AST), every instance
// a copy of ToEntry(grouping), reference expansion, sharing walk, a use added after Process.

import (
	"encoding/json"
	"errors"
	"fmt"
	"math/rand"
	"os"
	"path/filepath"
	"sort"
	"strconv"
	"strings"

	"github.com/openconfig/goyang/pkg/yang"
	"verif/harness/lib"
	"verif/harness/rescorr"
)

const onDemandClause = " [every use of a grouping receives a copy of every node the grouping defines, recursively through nested uses across modules and submodules - for every schema, however it was loaded: a defining module that Process finds on the search path when an import or include reaches it must give the trees and errors of the same texts all handed over by the caller]"

type diskVariant struct {
	Roots  []int  `json:"roots"`
	Layout string `json:"layout"` // flat | sub | dirs | read
	Hand   string `json:"hand"`   // parse | read
}

// diskStrip: full paths of the files of the disk run in progress, longest first; positions are
// compared under the bare file name (nil outside a disk run).
var diskStrip []string

func bare(s string) string {
	for _, p := range diskStrip {
		if strings.Contains(s, p) {
			s = strings.ReplaceAll(s, p, filepath.Base(p))
		}
	}
	return s
}

// locOf is the position of a statement under the bare file name.
func locOf(n yang.Node) string { return bare(n.Statement().Location()) }

// fileGraph: per text the indices of the texts its import / include statements name, read off the
// explicitly loaded value (statement arguments only, nothing Process linked). ok = false when the
// texts cannot be files of their own (two (sub)modules of one name, a name that is not <module>.yang).
func fileGraph(c rescorr.Case, ms *yang.Modules) (edges [][]int, isSub []bool, ok bool) {
	idx := map[string]int{}
	for i, n := range c.Names {
		base := strings.TrimSuffix(n, ".yang")
		if _, dup := idx[base]; dup || base == n || strings.ContainsAny(base, "/\\@") || base == "" {
			return nil, nil, false
		}
		idx[base] = i
	}
	edges = make([][]int, len(c.Names))
	isSub = make([]bool, len(c.Names))
	seen := map[int]bool{}
	for _, m := range allModules(ms) {
		i, found := idx[m.Name]
		if !found || seen[i] {
			return nil, nil, false
		}
		seen[i] = true
		isSub[i] = m.BelongsTo != nil
		for _, x := range m.Import {
			if j, ok := idx[x.Name]; ok {
				edges[i] = append(edges[i], j)
			}
		}
		for _, x := range m.Include {
			if j, ok := idx[x.Name]; ok {
				edges[i] = append(edges[i], j)
			}
		}
	}
	return edges, isSub, len(seen) == len(c.Names)
}

func reaches(edges [][]int, roots []int) int {
	seen := map[int]bool{}
	var visit func(i int)
	visit = func(i int) {
		if seen[i] {
			return
		}
		seen[i] = true
		for _, j := range edges[i] {
			visit(j)
		}
	}
	for _, i := range roots {
		visit(i)
	}
	return len(seen)
}

// autoVariant picks a set of modules (never a lone submodule) that reaches every file and leaves at
// least one file to be found on demand; nil when there is none.
func autoVariant(edges [][]int, isSub []bool, seed int64) *diskVariant {
	r := rand.New(rand.NewSource(seed))
	var mods []int
	for i := range edges {
		if !isSub[i] {
			mods = append(mods, i)
		}
	}
	if len(mods) == 0 || len(mods) > 6 {
		return nil
	}
	var cands [][]int
	for mask := 1; mask < 1<<len(mods); mask++ {
		var roots []int
		for b, i := range mods {
			if mask&(1<<b) != 0 {
				roots = append(roots, i)
			}
		}
		if len(roots) < len(edges) && reaches(edges, roots) == len(edges) {
			cands = append(cands, roots)
		}
	}
	if len(cands) == 0 {
		return nil
	}
	// prefer few roots: most files found on demand
	sort.SliceStable(cands, func(i, j int) bool { return len(cands[i]) < len(cands[j]) })
	n := 0
	for n < len(cands) && len(cands[n]) == len(cands[0]) {
		n++
	}
	pick := cands[r.Intn(n)]
	if r.Intn(4) == 0 {
		pick = cands[r.Intn(len(cands))]
	}
	roots := append([]int{}, pick...)
	r.Shuffle(len(roots), func(i, j int) { roots[i], roots[j] = roots[j], roots[i] })
	v := &diskVariant{Roots: roots, Layout: []string{"flat", "flat", "sub", "dirs", "read"}[r.Intn(5)], Hand: []string{"parse", "read"}[r.Intn(2)]}
	return v
}

// loadOnDemand writes the texts below dir and loads the roots of v.
func loadOnDemand(c rescorr.Case, v diskVariant, dir string) (*yang.Modules, error) {
	isRoot := map[int]bool{}
	for _, i := range v.Roots {
		isRoot[i] = true
	}
	hand := v.Hand
	if v.Layout == "read" {
		hand = "read"
	}
	var search []string
	switch v.Layout {
	case "sub":
		search = []string{filepath.Join(dir, "lib", "...")}
	case "dirs":
		search = []string{filepath.Join(dir, "lib0") + ":" + filepath.Join(dir, "lib1")}
	case "read":
	default:
		search = []string{filepath.Join(dir, "lib")}
	}
	fileOf := make([]string, len(c.Names))
	for i := range c.Names {
		d := filepath.Join(dir, "lib")
		switch v.Layout {
		case "sub":
			d = filepath.Join(dir, "lib", "d"+strconv.Itoa(i%3), "e"+strconv.Itoa(i%2))
		case "dirs":
			d = filepath.Join(dir, "lib"+strconv.Itoa(i%2))
		}
		if isRoot[i] && hand != "read" {
			continue
		}
		if isRoot[i] && v.Layout != "read" {
			d = filepath.Join(dir, "given"+strconv.Itoa(i)) // handed over by path, not on the search path
		}
		if err := os.MkdirAll(d, 0o755); err != nil {
			return nil, err
		}
		fileOf[i] = filepath.Join(d, c.Names[i])
		if err := os.WriteFile(fileOf[i], []byte(c.Texts[i]), 0o644); err != nil {
			return nil, err
		}
		diskStrip = append(diskStrip, fileOf[i])
	}
	sort.SliceStable(diskStrip, func(i, j int) bool { return len(diskStrip[i]) > len(diskStrip[j]) })
	ms := yang.NewModules()
	ms.ParseOptions.IgnoreSubmoduleCircularDependencies = c.IgnoreCircular
	ms.ParseOptions.DeviateOptions.IgnoreDeviateNotSupported = c.IgnoreNotSupported
	ms.AddPath(search...)
	for _, i := range v.Roots {
		var err error
		if hand == "read" {
			err = ms.Read(fileOf[i])
		} else {
			err = ms.Parse(c.Texts[i], c.Names[i])
		}
		if err != nil {
			return nil, fmt.Errorf("%s: %v", c.Names[i], err)
		}
	}
	return ms, nil
}

// short names the handed-over files.
func (v diskVariant) short(c rescorr.Case) string {
	var given []string
	for _, i := range v.Roots {
		if i >= 0 && i < len(c.Names) {
			given = append(given, c.Names[i])
		}
	}
	how := "Parse"
	if v.Hand == "read" || v.Layout == "read" {
		how = "Read"
	}
	return strings.Join(given, ", ") + " handed over (" + how + ")"
}

func (v diskVariant) describe(c rescorr.Case) string {
	isRoot := map[int]bool{}
	var given, rest []string
	for _, i := range v.Roots {
		if i >= 0 && i < len(c.Names) {
			isRoot[i] = true
			given = append(given, c.Names[i])
		}
	}
	for i, n := range c.Names {
		if !isRoot[i] {
			rest = append(rest, n)
		}
	}
	how := "Modules.Parse"
	if v.Hand == "read" || v.Layout == "read" {
		how = "Modules.Read(path)"
	}
	return fmt.Sprintf("%s handed over by %s, %s left to Process on the search path (layout %s)", strings.Join(given, ", "), how, strings.Join(rest, ", "), v.Layout)
}

// checkOnDemand runs the disk variants of a case. explicit is the outcome of the all-explicit run.
func checkOnDemand(c rescorr.Case, k know, ms *yang.Modules, explicit []string, out *rescorr.GoOut) {
	var vs []diskVariant
	if s := c.Extra["c06_disk"]; s != "" {
		json.Unmarshal([]byte(s), &vs)
	}
	note := func(key, val string) {
		if out.Extra == nil {
			out.Extra = map[string][]string{}
		}
		out.Extra[key] = append(out.Extra[key], val)
	}
	edges, isSub, ok := fileGraph(c, ms)
	if s := c.Extra["c06_disk_auto"]; s != "" {
		seed, _ := strconv.ParseInt(s, 10, 64)
		if !ok {
			note("disk_skipped", "the texts are not files of their own")
			return
		}
		v := autoVariant(edges, isSub, seed)
		if v == nil {
			note("disk_skipped", "no proper root set reaches every file")
			return
		}
		vs = append(vs, *v)
	}
	if len(vs) == 0 {
		return
	}
	if !ok {
		note("disk_skipped", "the texts are not files of their own")
		return
	}
	for vi, v := range vs {
		valid := len(v.Roots) > 0 && len(v.Roots) < len(c.Names)
		for _, i := range v.Roots {
			valid = valid && i >= 0 && i < len(c.Names)
		}
		if !valid || reaches(edges, v.Roots) != len(c.Names) {
			note("disk_skipped", "a root set that does not reach every file")
			continue
		}
		runOnDemand(c, k, v, vi == len(vs)-1, explicit, out, note)
	}
}

func runOnDemand(c rescorr.Case, k know, v diskVariant, last bool, explicit []string, out *rescorr.GoOut, note func(string, string)) {
	// check prints the first 300 characters: the clause and the roots first, the details after
	f := findings{out: out, pre: "a uses must get every node of its grouping (nested uses across modules too) however the modules were loaded; only " + v.short(c) + ", rest found on the search path: ",
		post: " (" + v.describe(c) + ")" + onDemandClause}
	dir, err := os.MkdirTemp("", "c06disk")
	if err != nil {
		note("disk_skipped", "tempdir: "+err.Error())
		return
	}
	defer os.RemoveAll(dir)
	dir, _ = filepath.EvalSymlinks(dir)
	cwd := filepath.Join(dir, "cwd") // stays empty: findFile looks into "." first
	os.Mkdir(cwd, 0o755)
	if old, err := os.Getwd(); err == nil {
		defer os.Chdir(old)
	}
	os.Chdir(cwd)
	diskStrip = nil
	defer func() { diskStrip = nil }()
	dms, err := loadOnDemand(c, v, dir)
	if err != nil {
		f.add("a text that Modules.Parse accepts in the all-explicit run is rejected: %v", err)
		return
	}
	errs := dms.Process()
	berrs := make([]error, len(errs))
	for i, e := range errs {
		berrs[i] = errors.New(bare(e.Error()))
	}
	note("disk", v.Layout+"/"+v.Hand)
	got := lib.DumpOutcome(dms, berrs)
	if d := rescorr.Diff(got, explicit); d != "" {
		nl := len(allModules(dms))
		first := ""
		if len(berrs) > 0 {
			first = ": Process says " + firstLine(berrs[0].Error())
		}
		f.add("outcome differs from all handed over%s; %d of %d files loaded; %s", first, nl, len(c.Names),
			strings.Replace(strings.Replace(d, "go:", "on demand:", 1), "model:", "all handed over:", 1))
		return
	}
	if len(errs) > 0 {
		note("disk_rejected_alike", "1")
		return
	}
	note("disk_clean", strconv.Itoa(len(c.Names)-len(v.Roots)))
	ix := indexAST(dms)
	checkBinding(k, ix, f)
	if k.Variant == "mut" {
		checkCopies(k, dms, ix, f, true)
		checkSharing(dms, ix, f)
		return
	}
	checkCopies(k, dms, ix, f, false)
	checkExtrasLaw(k, dms, ix, f, false)
	if len(k.Expect) > 0 {
		checkExpansion(k, dms, f, nil)
	}
	checkSharing(dms, ix, f)
	if last {
		checkLate(k, dms, f, nil)
	}
}

// ---- parent side ------------------------------------------------------------------------------

// diskVariants renders Extra["c06_disk"]: one variant per root set, layouts and hands rotating with i.
func diskVariants(rootSets [][]int, i int) string {
	layouts := []string{"flat", "read", "sub", "dirs", "flat"}
	var vs []diskVariant
	for j, roots := range rootSets {
		vs = append(vs, diskVariant{Roots: roots, Layout: layouts[(i+2*j)%len(layouts)], Hand: []string{"parse", "read"}[(i/5+j)%2]})
	}
	b, _ := json.Marshal(vs)
	return string(b)
}

// diskTally counts what the workers report about their on-demand runs.
type diskTally struct {
	runs, clean, rejected, onDemand int64
	layouts, skipped                map[string]int64
}

func (t *diskTally) tally(o rescorr.Outcome) {
	for _, l := range o.Go.Extra["disk"] {
		t.runs++
		t.layouts[l]++
	}
	for _, n := range o.Go.Extra["disk_clean"] {
		t.clean++
		k, _ := strconv.Atoi(n)
		t.onDemand += int64(k)
	}
	t.rejected += int64(len(o.Go.Extra["disk_rejected_alike"]))
	for _, w := range o.Go.Extra["disk_skipped"] {
		t.skipped[w]++
	}
}
