// corr-c06: every use of a grouping is an independent, faithful, locally scoped copy.
//
//	(i)   model = Go: the whole resolver pipeline against the Lean model (drv_res) on grouping-heavy
//	      module sets, base variant and a variant in which one or two instances are changed by an
//	      augment and by deviations of every kind; projection {kind, dir, rpc, cfg, mand, def,
//	      units, key, la, type, ns}.
//	(ii)  reference expansion (Go-side, in the crash-isolated worker): every `uses` statement binds
//	      to the grouping the generator's own reading of the scoping rules names (yang.FindGrouping
//	      through the AST against generator knowledge); the tree of every module equals the
//	      generator's inlined expansion (names, kinds, nesting, defaults, list attributes, key,
//	      mandatory, config, resolved type kind and identity base, and Entry.Extra / Entry.Exts: the
//	      node's own if-feature / when / status / reference values and extension statements
//	      followed, per enclosing uses from the innermost outwards, by those of the grouping
//	      statement and of the uses statement - what merge appends, defect D62); the subtree under
//	      every using node is a faithful copy of ToEntry(grouping) reached through the AST, its
//	      Extra / Exts starting with (below the copied node: equal to) the grouping node's own.
//	(iii) aliasing: no *Entry, *ListAttr, *RPCEntry object and no backing array of Default, of an
//	      Extra value slice or of Exts is reachable twice from the module trees, submodule trees
//	      and cached grouping entries; instances not
//	      touched by the mutation, and all grouping entries, are identical (full canonical type dump
//	      included) in the base run and in the mutated run, and so is the resolved YangType of every
//	      type statement of the text (every copy of a leaf shares that object); changing one instance directly through the exported fields leaves every
//	      independent instance and every grouping entry unchanged; a module loaded afterwards that
//	      uses a grouping once more gets a faithful copy; whatever an augment adds, also the copies a
//	      uses statement in its body makes of a grouping of the target's own module, reports the
//	      namespace and instantiating module of the augmenting module.
//
//	(iv)  earlier conversions on the same Modules value (every Process run starts from a clean slate;
//	      "later uses" of the faithful-copy clause): a third of the base variants is also run with
//	      ToEntry of every grouping and (sub)module BEFORE the first Process (imports not linked
//	      yet), and every set in which an imported module carries a revision is also run as: process
//	      with an older revision of it (groupings with an extra leaf, typedef with another base
//	      type), load the real one, process again. The outcome must be that of a fresh value
//	      processed once, the reference expansion must hold, and every instance is compared with
//	      the grouping entry of a FRESH value, not with the possibly stale cache of the value under test.
//
//	(v)   arbitrary nesting: a deterministic family of deep chains g0 uses g1 uses ... uses gN
//	      (harness/gen/c06chain.go; quick: N up to 200, thorough: N in {10, 33, 47..50, 65, 100, 200,
//	      300}), written top-down / bottom-up / shuffled, in one module / across submodules / across
//	      imported modules with prefixed uses / alternating, some levels wrapping the uses in a
//	      container, list or choice/case, used from a container, list, top-level uses, rpc input or
//	      notification (which decides whether the chain is first converted from its top): every site
//	      must be the full copy without error. All oracles of (ii)-(iv) run on them, and the Lean
//	      model is compared on every one (it takes a few milliseconds per chain).
//
//	(vi)  revision families (harness/gen/c06rev.go): the module that defines the groupings is loaded
//	      in two or three revisions whose same-named groupings differ (typedef behind the type name,
//	      leaves, defaults, list vs container, nested uses, a grouping only one revision has), the
//	      importers designate different revisions by revision-date - in different modules, in one
//	      module under two prefixes, in a submodule against its module (also under the same prefix),
//	      through a grouping of another importer - next to imports without revision-date (= latest
//	      loaded revision); a systematic block walks two importers through every ordered pair of
//	      distinct designations and every one of the 24 load orders, the rest is seeded and
//	      shuffled. Every uses must bind to, and the using node must receive a copy of, the grouping
//	      of exactly the revision the import statement of its own file designates (RFC 7950 5.1.1),
//	      nested uses included; a grouping the designated revision lacks must not resolve. All
//	      oracles of (ii)-(iv) run on them and the Lean model (whose registry lookup findModule
//	      takes the revision-date) is compared on every one.
//
//	(vii) scope families (harness/gen/c06scope.go), every case with the oracles of (ii)-(iv) and the model:
//	      typedef scopes nested inside groupings (two to four levels of container / list / nested
//	      grouping / action input and output / notification, each level declaring its own subset of
//	      a three-name pool, one leaf per visible name at every level, decoy typedefs of the same
//	      names at the module level of the defining and of the using module and in the using
//	      statements; the grouping used in its module, in another module, under rpc input / output,
//	      in a notification, a list, through a wrapping grouping and in an augment body): the
//	      reference expansion here carries kind/range/length of every resolved type, every typedef
//	      having a restriction of its own, so each leaf of the definition and of every copy must
//	      show the typedef the DEFINING scope gives; and prefix pools (own and import prefixes that
//	      contain, end with or begin with one another: if / oc-if / if-ext / i / iff ..., grouping
//	      names equal to or containing a prefix, prefixed / own-prefixed / unprefixed uses at the
//	      top of containers and nested in groupings, decoy local groupings of every name that
//	      cutting the own prefix out of a reference would leave); and identity scopes
//	      (harness/gen/c06ident.go): modules x, y, z define the same identities; module m, its one or
//	      two submodules and the using module each have an import table of their own over the
//	      prefixes p, q, r (same prefix bound to different modules in owner and submodule, bound only
//	      in the submodule, only in the owner, sibling submodules disagreeing, m defining identities
//	      of the same names itself); every file of m defines a grouping whose leaves refer to
//	      identities through every prefix of the file - directly, through a typedef of the file or of
//	      the grouping, behind an identity statement of the file with a foreign base - also in nested
//	      containers / lists / cases / groupings and through the grouping of another file of m; each
//	      grouping is used from the owner, the own and the sibling submodule and the other module
//	      (container, list, rpc input / output, notification). Entry.Type.IdentityBase of every
//	      leaf of every tree (owning module and name) and the identities derived from it
//	      (IdentityBase.Values) must be what the import table of the file that WRITES the base gives
//	      (reference expansion C06Rec.IdBase / IdVals); a quarter of the cases is run again from files
//	      on disk (viii), two fifths have a mutated variant.
//
//	(viii) however the schema was loaded (disk.go): the on-demand family (harness/gen/c06path.go: chains of nested uses
//	      through 2-4 modules that only import / include statements reach - top uses b:g1, g1 uses c:g2,
//	      g2 uses d:g3 - groupings in submodules of such modules, hops through an own submodule's
//	      grouping, modules importing each other, a second handed-over module using a grouping from the
//	      middle), every multi-file deep chain, a fifth of the seeded base variants, a tenth of the
//	      mutated ones and the corpus cases with a `disk` table are, after the ordinary all-explicit
//	      run, run again in the same worker from files on disk: only a set of root modules is handed to
//	      Modules.Parse / Modules.Read, the other files lie on the search path (one directory, dir/...,
//	      two directories, or the directory Read adds by itself) and are fetched by Process when an
//	      import or include reaches them. The outcome (trees, or error set) must be that of the
//	      all-explicit run - which is the one compared with the Lean model - and on the on-demand value
//	      the oracles of (ii) and (iii) hold as they stand (binding, copy against ToEntry(grouping),
//	      reference expansion, Extra / Exts law, sharing walk, a use added after Process).
//
// Inputs: corpus/C06/*.json first (hand-written witnesses with a table of expected Extra / Exts),
// then the deep chains, then the revision families, then the scope families, the on-demand family, then the seeded sets. Any failure of (ii), (iii), (iv), (v) or (viii) is a "spec" disagreement with verdict "violates".
package main

import (
	"encoding/json"
	"fmt"
	"os"
	"path/filepath"
	"reflect"
	"sort"
	"strconv"
	"strings"
	"unsafe"

	"github.com/openconfig/goyang/pkg/yang"
	"verif/harness/gen"
	"verif/harness/lib"
	"verif/harness/rescorr"
)

var keys = []string{"kind", "dir", "rpc", "cfg", "mand", "def", "units", "key", "la", "type", "ns"}

// know is the generator knowledge handed to the worker with a case.
type know struct {
	Variant   string          `json:"variant"` // base | mut
	Uses      []gen.C06UseRef `json:"uses"`
	Sites     []gen.C06Site   `json:"sites"`
	Expect    []gen.C06Rec    `json:"expect,omitempty"`
	BaseNames []string        `json:"base_names,omitempty"`
	BaseTexts []string        `json:"base_texts,omitempty"`
	Late      *gen.C06Late    `json:"late,omitempty"`
	// base variant: also run "ToEntry of everything before Process" (PreConvert) and "process with an
	// older revision of one imported module, load the real one, process again" (OldRev)
	PreConvert bool           `json:"pre_convert,omitempty"`
	OldRev     *gen.C06OldRev `json:"old_rev,omitempty"`
	// mutated variant: what the augments add and whose namespace it belongs to
	AugNodes []gen.C06AugNode `json:"aug_nodes,omitempty"`
	// corpus cases: hand-written Extra / Exts of selected nodes (path as Entry.Path prints it)
	ExpectExtras []gen.C06Rec `json:"expect_extras,omitempty"`
	// Family "rev": several revisions of the defining module are loaded and the import statements
	// designate different ones (gen/c06rev.go); the findings then name the clause
	Family string `json:"family,omitempty"`
	// corpus cases: hand-written identity bases ("owning module:identity") of selected leaves
	IdBases []gen.C06Rec `json:"id_bases,omitempty"`
	// TypeSig: the reference expansion carries kind/range/length of every resolved type (gen/c06scope.go)
	TypeSig bool `json:"type_sig,omitempty"`
}

// scopeClause / prefixClause are appended to the findings of the families of gen/c06scope.go.
const scopeClause = " [locally scoped: a type name written inside a grouping denotes the typedef of the nearest enclosing statement of the DEFINING text that declares that name - statements in between that declare only other typedefs are passed over - else the defining module's own top-level typedef; the grouping's own entry and every copy (same module, another module, rpc output, notification, augment body) carry that type, never a same-named typedef of the using scope]"
const prefixClause = " [locally scoped: a uses under a prefix denotes the grouping of the module the file imports under exactly that prefix; only a reference whose whole prefix equals the file's own prefix (or none) is looked up locally, whatever substring / suffix relation the prefixes and grouping names have; the using node receives a copy of that grouping's nodes]"

// identClause is appended to the findings of the identity-scope family (gen/c06ident.go) and of corpus cases of that family.
const identClause = " [locally scoped: an identity name written inside a grouping (base of an identityref - directly, in a typedef, or behind an identity statement) resolves in the scope where the grouping is DEFINED: a prefixed base denotes the module that the FILE in which it is written - the submodule itself, not the module it belongs to - imports under exactly that prefix; the grouping's own entry and every copy (owner, own and sibling submodule, another module) carry that identity as Entry.Type.IdentityBase, never the identity another file's import table gives, and no error]"

// revClause is appended to binding / copy findings of a revision family.
const revClause = " [several revisions of the defining module are loaded: a prefixed uses denotes the grouping of exactly the revision the import statement of its own file designates - revision-date, else the latest loaded revision (RFC 7950 5.1.1); the using node must receive that grouping's nodes, nested uses included]"

func (k know) clause() string {
	switch k.Family {
	case "rev":
		return revClause
	case "typedef-scopes":
		return scopeClause
	case "prefix-pools":
		return prefixClause
	case "identity-scopes":
		return identClause
	}
	return ""
}

// ---- AST access ---------------------------------------------------------------------------

var walkTags = map[string]bool{"container": true, "list": true, "grouping": true, "choice": true, "case": true, "rpc": true,
	"action": true, "input": true, "output": true, "notification": true, "augment": true, "uses": true}

func walkAST(n yang.Node, f func(yang.Node)) {
	if n == nil || reflect.ValueOf(n).IsNil() {
		return
	}
	f(n)
	v := reflect.ValueOf(n).Elem()
	t := v.Type()
	for i := 0; i < t.NumField(); i++ {
		tag := strings.Split(t.Field(i).Tag.Get("yang"), ",")[0]
		if !walkTags[tag] {
			continue
		}
		fv := v.Field(i)
		switch fv.Kind() {
		case reflect.Ptr:
			if !fv.IsNil() {
				if c, ok := fv.Interface().(yang.Node); ok {
					walkAST(c, f)
				}
			}
		case reflect.Slice:
			for j := 0; j < fv.Len(); j++ {
				if c, ok := fv.Index(j).Interface().(yang.Node); ok {
					walkAST(c, f)
				}
			}
		}
	}
}

func allModules(ms *yang.Modules) []*yang.Module {
	seen := map[*yang.Module]bool{}
	var out []*yang.Module
	for _, mm := range []map[string]*yang.Module{ms.Modules, ms.SubModules} {
		for _, k := range lib.SortedKeys(mm) {
			if m := mm[k]; !seen[m] {
				seen[m] = true
				out = append(out, m)
			}
		}
	}
	return out
}

type astIndex struct {
	uses      map[string]*yang.Uses
	groupings map[string]*yang.Grouping
}

func indexAST(ms *yang.Modules) astIndex {
	ix := astIndex{map[string]*yang.Uses{}, map[string]*yang.Grouping{}}
	for _, m := range allModules(ms) {
		walkAST(m, func(n yang.Node) {
			switch x := n.(type) {
			case *yang.Uses:
				ix.uses[locOf(x)] = x
			case *yang.Grouping:
				ix.groupings[locOf(x)] = x
			}
		})
	}
	return ix
}

// ---- rendering of entry subtrees, independent of where they hang ---------------------------

func tri(t yang.TriState) string {
	switch t {
	case yang.TSTrue:
		return "true"
	case yang.TSFalse:
		return "false"
	}
	return "unset"
}

func la(e *yang.Entry) string {
	if e.ListAttr == nil {
		return "-"
	}
	u := 0
	if e.ListAttr.OrderedByUser {
		u = 1
	}
	return fmt.Sprintf("%d:%d:%d", e.ListAttr.MinElements, e.ListAttr.MaxElements, u)
}

// extrasOf reads Entry.Extra (the keys the generator predicts) and Entry.Exts of e.
func extrasOf(e *yang.Entry) (map[string][]string, []string) {
	var extra map[string][]string
	for _, k := range gen.C06ExtraKeys {
		for _, v := range e.Extra[k] {
			s := fmt.Sprintf("?%T", v)
			if x, ok := v.(*yang.Value); ok && x != nil {
				s = x.Name
			}
			if extra == nil {
				extra = map[string][]string{}
			}
			extra[k] = append(extra[k], s)
		}
	}
	var exts []string
	for _, st := range e.Exts {
		exts = append(exts, st.Keyword+" "+st.Argument)
	}
	return extra, exts
}

// render prints e and everything below it. With fix, non-case children of a choice are shown
// below the implicit case FixChoice inserts (a grouping's own entry never went through FixChoice).
func render(sb *strings.Builder, e *yang.Entry, fix, withExtras bool) {
	if e == nil {
		sb.WriteString("(nil)")
		return
	}
	ty := "-"
	if e.Type != nil {
		ty = lib.DumpYangType(e.Type)
	}
	fmt.Fprintf(sb, "(%s %s dir=%t cfg=%s mand=%s def=%q la=%s key=%q units=%q desc=%q type=%s", e.Name, e.Kind, e.Dir != nil,
		tri(e.Config), tri(e.Mandatory), e.Default, la(e), e.Key, e.Units, e.Description, ty)
	if withExtras {
		// every key of Extra, values by argument text where they have one
		for _, k := range lib.SortedKeys(e.Extra) {
			fmt.Fprintf(sb, " extra[%s]=", k)
			for _, v := range e.Extra[k] {
				if x, ok := v.(*yang.Value); ok && x != nil {
					fmt.Fprintf(sb, "%q,", x.Name)
				} else {
					fmt.Fprintf(sb, "%T,", v)
				}
			}
		}
		_, exts := extrasOf(e)
		fmt.Fprintf(sb, " exts=%q", exts)
	}
	for _, k := range lib.SortedKeys(e.Dir) {
		ch := e.Dir[k]
		sb.WriteByte(' ')
		if fix && e.Kind == yang.ChoiceEntry && ch.Kind != yang.CaseEntry && len(e.Errors) == 0 {
			fmt.Fprintf(sb, "(%s %s dir=true cfg=%s mand=unset def=[] la=- key=\"\" units=\"\" desc=\"\" type=- ", ch.Name, yang.CaseEntry, tri(ch.Config))
			render(sb, ch, fix, withExtras)
			sb.WriteByte(')')
			continue
		}
		render(sb, ch, fix, withExtras)
	}
	if e.RPC != nil {
		sb.WriteString(" rpc")
		if e.RPC.Input != nil {
			sb.WriteString(" in=")
			render(sb, e.RPC.Input, fix, withExtras)
		}
		if e.RPC.Output != nil {
			sb.WriteString(" out=")
			render(sb, e.RPC.Output, fix, withExtras)
		}
	}
	sb.WriteByte(')')
}

// contributed renders the children of e named in names (sorted), one string per name.
func contributed(e *yang.Entry, names []string, fix, withExtras bool) []string {
	ns := append([]string{}, names...)
	sort.Strings(ns)
	out := make([]string, 0, len(ns))
	for _, n := range ns {
		var sb strings.Builder
		sb.WriteString(n + "=")
		if e == nil || e.Dir == nil || e.Dir[n] == nil {
			sb.WriteString("(absent)")
		} else {
			render(&sb, e.Dir[n], fix, withExtras)
		}
		out = append(out, sb.String())
	}
	return out
}

func entryAt(root *yang.Entry, path []string) *yang.Entry {
	e := root
	for _, s := range path {
		if e == nil {
			return nil
		}
		switch {
		case e.RPC != nil && s == "input":
			e = e.RPC.Input
		case e.RPC != nil && s == "output":
			e = e.RPC.Output
		default:
			e = e.Dir[s]
		}
	}
	return e
}

func firstDiff(a, b []string) string {
	for i := 0; i < len(a) || i < len(b); i++ {
		var x, y string
		if i < len(a) {
			x = a[i]
		}
		if i < len(b) {
			y = b[i]
		}
		if x != y {
			j := 0
			for j < len(x) && j < len(y) && x[j] == y[j] {
				j++
			}
			lo := j - 60
			if lo < 0 {
				lo = 0
			}
			cut := func(s string) string {
				hi := j + 80
				if hi > len(s) {
					hi = len(s)
				}
				if lo > len(s) {
					return ""
				}
				return s[lo:hi]
			}
			return fmt.Sprintf("…%s… vs …%s…", cut(x), cut(y))
		}
	}
	return ""
}

// ---- the oracle ---------------------------------------------------------------------------

// findings collects what the oracles report; pre / post frame the findings of an on-demand run
// (disk.go) with how the set was loaded and the clause.
type findings struct {
	out       *rescorr.GoOut
	pre, post string
}

func (f findings) add(format string, a ...any) {
	if len(f.out.Findings) < 12 {
		f.out.Findings = append(f.out.Findings, f.pre+fmt.Sprintf(format, a...)+f.post)
	}
}

func moduleTree(ms *yang.Modules, name string) *yang.Entry {
	m := ms.Modules[name]
	if m == nil {
		return nil
	}
	return yang.ToEntry(m)
}

// siteDumps renders, per site, the contributed subtrees ("" when the site cannot be found).
func siteDumps(ms *yang.Modules, sites []gen.C06Site) [][]string {
	out := make([][]string, len(sites))
	for i, s := range sites {
		if e := entryAt(moduleTree(ms, s.Module), s.Path); e != nil {
			out[i] = contributed(e, s.Names, false, true)
		}
	}
	return out
}

func groupingDumps(ix astIndex) map[string]string {
	out := map[string]string{}
	for loc, g := range ix.groupings {
		var sb strings.Builder
		render(&sb, yang.ToEntry(g), true, true)
		out[loc] = sb.String()
	}
	return out
}

// inside: site x lies inside the subtree that site y contributes.
func inside(x, y gen.C06Site) bool {
	if x.Module != y.Module || len(x.Path) <= len(y.Path) {
		return false
	}
	for i := range y.Path {
		if x.Path[i] != y.Path[i] {
			return false
		}
	}
	for _, n := range y.Names {
		if n == x.Path[len(y.Path)] {
			return true
		}
	}
	return false
}

// overlap: the subtrees the two sites contribute have a node in common.
func overlap(x, y gen.C06Site) bool {
	if inside(x, y) || inside(y, x) {
		return true
	}
	if x.Module != y.Module || len(x.Path) != len(y.Path) {
		return false
	}
	for i := range x.Path {
		if x.Path[i] != y.Path[i] {
			return false
		}
	}
	for _, a := range x.Names {
		for _, b := range y.Names {
			if a == b {
				return true
			}
		}
	}
	return false
}

func checkBinding(k know, ix astIndex, f findings) {
	clause := k.clause()
	if k.Family == "typedef-scopes" {
		clause = prefixClause // the binding of a uses statement is the prefix clause in both scope families
	}
	for _, u := range k.Uses {
		n := ix.uses[u.Loc]
		if n == nil {
			f.add("binding: no uses statement at %s in the AST", u.Loc)
			continue
		}
		g := yang.FindGrouping(n, n.Name, map[string]bool{})
		got := ""
		if g != nil {
			got = locOf(g)
		}
		if got != u.GLoc {
			f.add("binding: uses %s at %s (%s) binds to the grouping at %q, the scoping rules say %q%s", u.Ref, u.Loc, u.Site, got, u.GLoc, clause)
		}
	}
}

func checkCopies(k know, ms *yang.Modules, ix astIndex, f findings, skipTouched bool) {
	for _, s := range k.Sites {
		if skipTouched && s.Touched {
			continue
		}
		g := ix.groupings[s.GLoc]
		if g == nil {
			f.add("copy: no grouping at %s in the AST", s.GLoc)
			continue
		}
		e := entryAt(moduleTree(ms, s.Module), s.Path)
		if e == nil {
			f.add("copy: using node /%s/%s does not exist", s.Module, strings.Join(s.Path, "/"))
			continue
		}
		want := contributed(yang.ToEntry(g), s.Names, true, false)
		got := contributed(e, s.Names, true, false)
		if d := firstDiff(got, want); d != "" {
			f.add("copy: the instance of grouping %s (%s) under /%s/%s differs from the grouping's own entry: %s%s", s.GName, s.GLoc, s.Module,
				strings.Join(s.Path, "/"), d, k.clause())
		}
	}
}

// idBaseOf is Entry.Type.IdentityBase of e as "owning module:identity".
func idBaseOf(e *yang.Entry) string {
	switch {
	case e.Type == nil:
		return "(no type)"
	case e.Type.IdentityBase == nil:
		return "(none)"
	}
	return lib.IdentityKey(e.Type.IdentityBase)
}

// idValsOf lists the identities derived from the identity base of e (IdentityBase.Values), sorted keys.
func idValsOf(e *yang.Entry) []string {
	var out []string
	if e.Type == nil || e.Type.IdentityBase == nil {
		return out
	}
	for _, v := range e.Type.IdentityBase.Values {
		out = append(out, lib.IdentityKey(v))
	}
	sort.Strings(out)
	return out
}

// checkIdentityBases (identity-scope family): the identity base of every leaf / leaf-list of every
// tree against the reference expansion, reported by path (the records are compared in full by
// checkExpansion afterwards).
func checkIdentityBases(k know, ms *yang.Modules, f findings, skip func(*yang.Module) bool) {
	want := map[string]string{}
	vals := map[string][]string{}
	for _, r := range k.Expect {
		if r.IdBase != "" {
			want[r.Path] = r.IdBase
			vals[r.Path] = r.IdVals
		}
	}
	var walk func(e *yang.Entry)
	walk = func(e *yang.Entry) {
		if w, ok := want[e.Path()]; ok && idBaseOf(e) != w {
			f.add("identity scope [a prefixed base denotes the module that the FILE writing it imports under that prefix - the defining scope of the grouping]: the identity base of %s is %s, the scope where the grouping is defined gives %s%s", e.Path(), idBaseOf(e), w, identClause)
		} else if ok && strings.Join(idValsOf(e), " ") != strings.Join(vals[e.Path()], " ") {
			f.add("identity scope [a prefixed base denotes the module that the FILE writing it imports under that prefix - the defining scope of the grouping]: the identities derived from the base %s of %s are %v; resolving the base of every identity statement in the file that holds it gives %v%s",
				w, e.Path(), idValsOf(e), vals[e.Path()], identClause)
		}
		for _, key := range lib.SortedKeys(e.Dir) {
			walk(e.Dir[key])
		}
		if e.RPC != nil {
			if e.RPC.Input != nil {
				walk(e.RPC.Input)
			}
			if e.RPC.Output != nil {
				walk(e.RPC.Output)
			}
		}
	}
	for _, m := range lib.DistinctModules(ms) {
		if skip != nil && skip(m) {
			continue
		}
		walk(yang.ToEntry(m))
	}
}

func checkExpansion(k know, ms *yang.Modules, f findings, skip func(*yang.Module) bool) {
	if k.Family == "identity-scopes" {
		checkIdentityBases(k, ms, f, skip)
	}
	var got []gen.C06Rec
	var walk func(e *yang.Entry)
	walk = func(e *yang.Entry) {
		r := gen.C06Rec{Path: e.Path(), Kind: e.Kind.String(), Def: e.Default, LA: la(e), Key: e.Key, Mand: tri(e.Mandatory), Cfg: tri(e.Config),
			RPC: e.RPC != nil}
		if len(r.Def) == 0 {
			r.Def = nil
		}
		if e.Type != nil {
			r.TypeKind = yang.TypeKindToName[e.Type.Kind]
			if k.TypeSig {
				r.TSig = r.TypeKind + "/" + e.Type.Range.String() + "/" + e.Type.Length.String()
			}
			if e.Type.IdentityBase != nil {
				r.IdBase = lib.IdentityKey(e.Type.IdentityBase)
				if k.Family == "identity-scopes" {
					r.IdVals = idValsOf(e)
				}
			}
		}
		r.Extra, r.Exts = extrasOf(e)
		got = append(got, r)
		for _, key := range lib.SortedKeys(e.Dir) {
			walk(e.Dir[key])
		}
		if e.RPC != nil {
			if e.RPC.Input != nil {
				walk(e.RPC.Input)
			}
			if e.RPC.Output != nil {
				walk(e.RPC.Output)
			}
		}
	}
	for _, m := range lib.DistinctModules(ms) {
		if skip != nil && skip(m) {
			continue
		}
		walk(yang.ToEntry(m))
	}
	// several loaded revisions of one module have trees with the same paths: order by path, then by record
	js := func(r gen.C06Rec) string { b, _ := json.Marshal(r); return string(b) }
	render := func(rs []gen.C06Rec) []string {
		type pr struct{ path, js string }
		ps := make([]pr, len(rs))
		for i, r := range rs {
			ps[i] = pr{r.Path, js(r)}
		}
		sort.SliceStable(ps, func(i, j int) bool {
			if ps[i].path != ps[j].path {
				return ps[i].path < ps[j].path
			}
			return ps[i].js < ps[j].js
		})
		out := make([]string, len(ps))
		for i := range ps {
			out[i] = ps[i].js
		}
		return out
	}
	gs, es := render(got), render(k.Expect)
	for i := 0; i < len(gs) || i < len(es); i++ {
		var a, b string
		if i < len(gs) {
			a = gs[i]
		}
		if i < len(es) {
			b = es[i]
		}
		if a != b {
			f.add("expansion: node %d of the tree is %s, the reference expansion has %s%s", i, a, b, k.clause())
			return
		}
	}
}

// checkSharing: every mutable object reachable from the trees and the grouping entries is
// reachable exactly once.
func checkSharing(ms *yang.Modules, ix astIndex, f findings) {
	seenE := map[*yang.Entry]string{}
	seenLA := map[*yang.ListAttr]string{}
	seenRPC := map[*yang.RPCEntry]string{}
	seenDef := map[*string]string{}
	seenArr := map[unsafe.Pointer]string{}
	var walk func(e *yang.Entry, path string)
	walk = func(e *yang.Entry, path string) {
		if e == nil {
			return
		}
		if p, ok := seenE[e]; ok {
			f.add("aliasing: *Entry shared between %s and %s", p, path)
			return
		}
		seenE[e] = path
		if e.ListAttr != nil {
			if p, ok := seenLA[e.ListAttr]; ok {
				f.add("aliasing: *ListAttr shared between %s and %s", p, path)
			}
			seenLA[e.ListAttr] = path
		}
		if cap(e.Default) > 0 {
			d := unsafe.SliceData(e.Default)
			if p, ok := seenDef[d]; ok {
				f.add("aliasing: Default backing array shared between %s and %s", p, path)
			}
			seenDef[d] = path
		}
		// merge appends to the Extra value slices and to Exts of a copied node: a backing array
		// reachable from two entries is a slot two appends can both write
		for _, k := range lib.SortedKeys(e.Extra) {
			if v := e.Extra[k]; cap(v) > 0 {
				d := unsafe.Pointer(unsafe.SliceData(v))
				if p, ok := seenArr[d]; ok {
					f.add("aliasing: backing array of Extra[%q] (len %d, cap %d) at %s is also that of %s", k, len(v), cap(v), path, p)
				}
				seenArr[d] = fmt.Sprintf("Extra[%q] at %s", k, path)
			}
		}
		if cap(e.Exts) > 0 {
			d := unsafe.Pointer(unsafe.SliceData(e.Exts))
			if p, ok := seenArr[d]; ok {
				f.add("aliasing: backing array of Exts (len %d, cap %d) at %s is also that of %s", len(e.Exts), cap(e.Exts), path, p)
			}
			seenArr[d] = "Exts at " + path
		}
		for _, k := range lib.SortedKeys(e.Dir) {
			walk(e.Dir[k], path+"/"+k)
		}
		if e.RPC != nil {
			if p, ok := seenRPC[e.RPC]; ok {
				f.add("aliasing: *RPCEntry shared between %s and %s", p, path)
			}
			seenRPC[e.RPC] = path
			walk(e.RPC.Input, path+"/input")
			walk(e.RPC.Output, path+"/output")
		}
	}
	for _, m := range allModules(ms) {
		walk(yang.ToEntry(m), "tree:"+m.Name)
	}
	locs := make([]string, 0, len(ix.groupings))
	for l := range ix.groupings {
		locs = append(locs, l)
	}
	sort.Strings(locs)
	for _, l := range locs {
		walk(yang.ToEntry(ix.groupings[l]), "grouping@"+l)
	}
}

// scribble changes everything below e that augments and deviations change in place.
func scribble(e *yang.Entry) {
	if e == nil {
		return
	}
	if e.ListAttr != nil {
		e.ListAttr.MinElements = 424242
		e.ListAttr.MaxElements = 424243
		e.ListAttr.OrderedByUser = !e.ListAttr.OrderedByUser
	}
	if len(e.Default) > 0 {
		e.Default[0] = "SCRIBBLED"
	}
	if cap(e.Default) > 0 {
		// writes into the backing array when it has room
		e.Default = append(e.Default, "SENTINEL")
	}
	e.Config = yang.TSFalse
	e.Mandatory = yang.TSTrue
	e.Units = "scribbled"
	for _, k := range lib.SortedKeys(e.Extra) {
		if len(e.Extra[k]) > 0 {
			e.Extra[k][0] = &yang.Value{Name: "SCRIBBLED"}
		}
		e.Extra[k] = append(e.Extra[k], &yang.Value{Name: "SENTINEL"})
	}
	if len(e.Exts) > 0 {
		e.Exts[0] = &yang.Statement{Keyword: "scribbled:ext", Argument: "x"}
	}
	e.Exts = append(e.Exts, &yang.Statement{Keyword: "sentinel:ext", Argument: "x"})
	for _, k := range lib.SortedKeys(e.Dir) {
		scribble(e.Dir[k])
	}
	if e.Dir != nil {
		e.Dir["zz-new"] = &yang.Entry{Name: "zz-new", Kind: yang.LeafEntry, Parent: e}
	}
	if e.RPC != nil {
		scribble(e.RPC.Input)
		scribble(e.RPC.Output)
		if e.RPC.Input == nil {
			e.RPC.Input = &yang.Entry{Name: "input", Kind: yang.InputEntry, Parent: e, Dir: map[string]*yang.Entry{}}
		}
	}
}

// checkDirect: scribble over one instance; independent instances and all grouping entries keep
// their rendering.
func checkDirect(k know, ms *yang.Modules, ix astIndex, f findings) {
	byG := map[string][]int{}
	for i, s := range k.Sites {
		byG[s.GLoc] = append(byG[s.GLoc], i)
	}
	rounds := 0
	for _, gl := range sortedKeys(byG) {
		idx := byG[gl]
		if len(idx) < 2 || rounds >= 3 {
			continue
		}
		rounds++
		victim := k.Sites[idx[0]]
		ve := entryAt(moduleTree(ms, victim.Module), victim.Path)
		if ve == nil {
			continue
		}
		before := siteDumps(ms, k.Sites)
		gBefore := groupingDumps(ix)
		for _, n := range victim.Names {
			if ve.Dir != nil {
				scribble(ve.Dir[n])
			}
		}
		after := siteDumps(ms, k.Sites)
		gAfter := groupingDumps(ix)
		for i, s := range k.Sites {
			if i == idx[0] || overlap(s, victim) {
				continue
			}
			if d := firstDiff(after[i], before[i]); d != "" {
				f.add("aliasing: writing through the exported fields of the instance of %s under /%s/%s changed the instance under /%s/%s: %s",
					victim.GName, victim.Module, strings.Join(victim.Path, "/"), s.Module, strings.Join(s.Path, "/"), d)
			}
		}
		for _, l := range sortedKeys(gBefore) {
			if gBefore[l] != gAfter[l] {
				f.add("aliasing: writing through the exported fields of the instance under /%s/%s changed the cached entry of the grouping at %s",
					victim.Module, strings.Join(victim.Path, "/"), l)
			}
		}
	}
}

func sortedKeys[V any](m map[string]V) []string { return lib.SortedKeys(m) }

// walkAll visits every AST node below n (every field that holds nodes, except the links out of
// the (sub)module: Parent, Module, Modules).
func walkAll(n yang.Node, seen map[yang.Node]bool, f func(yang.Node)) {
	if n == nil || reflect.ValueOf(n).Kind() != reflect.Ptr || reflect.ValueOf(n).IsNil() || seen[n] {
		return
	}
	seen[n] = true
	f(n)
	v := reflect.ValueOf(n).Elem()
	if v.Kind() != reflect.Struct {
		return
	}
	t := v.Type()
	for i := 0; i < t.NumField(); i++ {
		switch t.Field(i).Name {
		case "Parent", "Module", "Modules", "Source", "Extensions", "YangType":
			continue
		}
		if !t.Field(i).IsExported() {
			continue
		}
		fv := v.Field(i)
		switch fv.Kind() {
		case reflect.Ptr, reflect.Interface:
			if !fv.IsNil() {
				if c, ok := fv.Interface().(yang.Node); ok {
					walkAll(c, seen, f)
				}
			}
		case reflect.Slice:
			for j := 0; j < fv.Len(); j++ {
				if c, ok := fv.Index(j).Interface().(yang.Node); ok {
					walkAll(c, seen, f)
				}
			}
		}
	}
}

// typeDumps renders the resolved YangType attached to every `type` statement of the loaded text
// (leaf, leaf-list, typedef, union member, deviate), keyed by the statement's position. Entries
// share these objects (dup copies the pointer): that is how goyang works, but then nothing may
// ever write into them.
func typeDumps(ms *yang.Modules) map[string]string {
	out := map[string]string{}
	seen := map[yang.Node]bool{}
	for _, m := range allModules(ms) {
		walkAll(m, seen, func(n yang.Node) {
			if t, ok := n.(*yang.Type); ok && t.YangType != nil {
				out[t.Statement().Location()] = lib.DumpYangType(t.YangType)
			}
		})
	}
	return out
}

// checkAgainstBase: instances the mutation does not reach, and every grouping entry, are the
// same as in a run of the set without the mutation.
func checkAgainstBase(c rescorr.Case, k know, ms *yang.Modules, ix astIndex, f findings) *astIndex {
	base := rescorr.Case{Names: k.BaseNames, Texts: k.BaseTexts, IgnoreCircular: c.IgnoreCircular, IgnoreNotSupported: c.IgnoreNotSupported}
	bms, err := rescorr.Load(base)
	if err != nil {
		return nil
	}
	if errs := bms.Process(); len(errs) > 0 {
		return nil
	}
	bix := indexAST(bms)
	bs, ms2 := siteDumps(bms, k.Sites), siteDumps(ms, k.Sites)
	for i, s := range k.Sites {
		if s.Touched {
			continue
		}
		if d := firstDiff(ms2[i], bs[i]); d != "" {
			f.add("independence: the instance of %s under /%s/%s, which no augment or deviation names, differs from the run without them: %s",
				s.GName, s.Module, strings.Join(s.Path, "/"), d)
		}
	}
	bg, mg := groupingDumps(bix), groupingDumps(ix)
	for _, l := range sortedKeys(bg) {
		if bg[l] != mg[l] {
			f.add("independence: the cached entry of the grouping at %s differs from the run without augments and deviations: %s", l,
				firstDiff([]string{mg[l]}, []string{bg[l]}))
		}
	}
	// the resolved types hang on the text's type statements and are shared by every copy: an augment
	// or deviation must not have written into any of them
	bt, mt := typeDumps(bms), typeDumps(ms)
	for _, l := range sortedKeys(bt) {
		if m, ok := mt[l]; ok && m != bt[l] {
			f.add("aliasing: the resolved type of the type statement at %s, which every copy of that leaf shares, was written to: after the augments and deviations vs without them: %s",
				l, firstDiff([]string{m}, []string{bt[l]}))
		}
	}
	return &bix
}

// checkLate: a module loaded after Process that uses a grouping once more gets a faithful copy.
func checkLate(k know, ms *yang.Modules, f findings, bix *astIndex) {
	if k.Late == nil {
		return
	}
	if err := ms.Parse(k.Late.Text, k.Late.Name); err != nil {
		f.add("late use: %v", err)
		return
	}
	if errs := ms.Process(); len(errs) > 0 {
		f.add("late use: second Process reports %v", errs[0])
		return
	}
	ix := indexAST(ms)
	g := ix.groupings[k.Late.GLoc]
	e := entryAt(moduleTree(ms, "late"), k.Late.Path)
	if g == nil || e == nil {
		f.add("late use: grouping or using node missing")
		return
	}
	if d := firstDiff(contributed(e, k.Late.Names, true, false), contributed(yang.ToEntry(g), k.Late.Names, true, false)); d != "" {
		f.add("late use: the instance created after the first Process differs from the grouping's own entry: %s", d)
	}
	if bix != nil {
		if bg := bix.groupings[k.Late.GLoc]; bg != nil {
			if d := firstDiff(contributed(e, k.Late.Names, true, false), contributed(yang.ToEntry(bg), k.Late.Names, true, false)); d != "" {
				f.add("late use: the instance created after the augments and deviations were processed differs from the grouping's own entry in the run without them: %s", d)
			}
		}
	}
	checkSharing(ms, ix, f)
}

// checkExtrasLaw: Extra[k] and Exts of a node that arrived through uses start with the grouping
// node's own values (what follows are the values of the enclosing groupings and uses statements,
// which the reference expansion predicts exactly); below the copied node they are the grouping's.
func checkExtrasLaw(k know, ms *yang.Modules, ix astIndex, f findings, skipTouched bool) {
	isPrefix := func(own, got []string) bool {
		if len(own) > len(got) {
			return false
		}
		for i := range own {
			if own[i] != got[i] {
				return false
			}
		}
		return true
	}
	var cmp func(inst, ref *yang.Entry, top bool, where string)
	cmp = func(inst, ref *yang.Entry, top bool, where string) {
		if inst == nil || ref == nil {
			return
		}
		ie, ix := extrasOf(inst)
		re, rx := extrasOf(ref)
		for _, key := range gen.C06ExtraKeys {
			ok := isPrefix(re[key], ie[key])
			if !top {
				ok = ok && len(re[key]) == len(ie[key])
			}
			if !ok {
				f.add("extras: Extra[%q] of %s is %q, the grouping's own node has %q (top-level copy: %t)", key, where, ie[key], re[key], top)
			}
		}
		if ok := isPrefix(rx, ix) && (top || len(rx) == len(ix)); !ok {
			f.add("extras: Exts of %s is %q, the grouping's own node has %q (top-level copy: %t)", where, ix, rx, top)
		}
		for _, name := range lib.SortedKeys(ref.Dir) {
			ic := inst.Dir[name]
			if ic != nil && ref.Kind == yang.ChoiceEntry && ref.Dir[name].Kind != yang.CaseEntry && ic.Kind == yang.CaseEntry {
				ic = ic.Dir[name]
			}
			cmp(ic, ref.Dir[name], false, where+"/"+name)
		}
		if ref.RPC != nil && inst.RPC != nil {
			cmp(inst.RPC.Input, ref.RPC.Input, false, where+"/input")
			cmp(inst.RPC.Output, ref.RPC.Output, false, where+"/output")
		}
	}
	for _, s := range k.Sites {
		if skipTouched && s.Touched {
			continue
		}
		g := ix.groupings[s.GLoc]
		e := entryAt(moduleTree(ms, s.Module), s.Path)
		if g == nil || e == nil {
			continue
		}
		ge := yang.ToEntry(g)
		for _, n := range s.Names {
			if e.Dir[n] != nil && ge.Dir[n] != nil {
				cmp(e.Dir[n], ge.Dir[n], true, "/"+s.Module+"/"+strings.Join(append(append([]string{}, s.Path...), n), "/"))
			}
		}
	}
}

// checkCorpus: a hand-written case: the sharing walk, and the Extra / Exts of the nodes its table names.
func checkCorpus(k know, ms *yang.Modules, ix astIndex, f findings) {
	checkSharing(ms, ix, f)
	checkAugNamespaces(k, ms, f)
	for _, want := range k.IdBases {
		var e *yang.Entry
		parts := strings.Split(strings.TrimPrefix(want.Path, "/"), "/")
		if len(parts) > 0 {
			e = entryAt(moduleTree(ms, parts[0]), parts[1:])
		}
		got := "(no such leaf)"
		if e != nil {
			got = idBaseOf(e)
		}
		if got != want.IdBase {
			f.add("identity scope [a prefixed base denotes the module that the FILE writing it imports under that prefix - the defining scope of the grouping]: the identity base of %s is %s, the scope where the grouping is defined gives %s%s", want.Path, got, want.IdBase, identClause)
		}
	}
	for _, want := range k.ExpectExtras {
		var e *yang.Entry
		parts := strings.Split(strings.TrimPrefix(want.Path, "/"), "/")
		if len(parts) > 0 {
			e = entryAt(moduleTree(ms, parts[0]), parts[1:])
		}
		if e == nil {
			f.add("corpus: no node %s", want.Path)
			continue
		}
		extra, exts := extrasOf(e)
		a, _ := json.Marshal(map[string]any{"extra": extra, "exts": exts})
		b, _ := json.Marshal(map[string]any{"extra": want.Extra, "exts": want.Exts})
		if string(a) != string(b) {
			f.add("extras: %s has %s, expected %s", want.Path, a, b)
		}
	}
}

// checkAugNamespaces: whatever an augment adds - also the copies a uses statement in its body makes,
// whichever module defines the grouping - belongs to the namespace of the augmenting module.
func checkAugNamespaces(k know, ms *yang.Modules, f findings) {
	for _, a := range k.AugNodes {
		e := entryAt(moduleTree(ms, a.Module), a.Path)
		if e == nil {
			f.add("augment: the node /%s/%s the augment adds does not exist", a.Module, strings.Join(a.Path, "/"))
			continue
		}
		bad := 0
		var walk func(e *yang.Entry)
		walk = func(e *yang.Entry) {
			if e == nil || bad > 0 {
				return
			}
			ns := ""
			if v := e.Namespace(); v != nil {
				ns = v.Name
			}
			im, err := e.InstantiatingModule()
			if ns != a.NS || err != nil || im != a.IM {
				bad++
				f.add("namespace: %s, added by an augment of module %s (also a copy made by uses belongs to the module that uses it), reports namespace %q and instantiating module %q (%v); expected %q and %q",
					e.Path(), a.IM, ns, im, err, a.NS, a.IM)
				return
			}
			for _, key := range lib.SortedKeys(e.Dir) {
				walk(e.Dir[key])
			}
			if e.RPC != nil {
				walk(e.RPC.Input)
				walk(e.RPC.Output)
			}
		}
		walk(e)
	}
}

// ---- earlier conversions on the same Modules value ------------------------------------------
//
// Every Process run starts from a clean slate: what a use receives must be what the groupings
// define in the run that builds the tree, whatever was converted before that run. The definition
// an instance is compared with is therefore the grouping entry of a FRESH value (defIx), never
// the possibly stale cache of the value under test.

func sameOutcome(what string, got, want []string, f findings) bool {
	if d := rescorr.Diff(got, want); d != "" {
		f.add("later uses: %s the outcome differs from that of a fresh value processed once: %s", what, strings.Replace(d, "model:", "fresh:", 1))
		return false
	}
	return true
}

func checkCopiesAgainst(what string, k know, ms *yang.Modules, defIx astIndex, f findings) {
	for _, s := range k.Sites {
		g := defIx.groupings[s.GLoc]
		e := entryAt(moduleTree(ms, s.Module), s.Path)
		if g == nil || e == nil {
			f.add("later uses: %s the instance /%s/%s or its grouping is missing", what, s.Module, strings.Join(s.Path, "/"))
			continue
		}
		if d := firstDiff(contributed(e, s.Names, true, false), contributed(yang.ToEntry(g), s.Names, true, false)); d != "" {
			f.add("later uses: %s the instance of grouping %s under /%s/%s differs from the grouping's entry in a fresh value: %s", what, s.GName,
				s.Module, strings.Join(s.Path, "/"), d)
		}
	}
}

// checkPreConvert: ToEntry of every grouping and every (sub)module BEFORE the first Process (the
// imports are not linked yet: nested uses and types of other modules do not resolve), then Process.
func checkPreConvert(c rescorr.Case, k know, plain []string, defIx astIndex, f findings) {
	ms, err := rescorr.Load(rescorr.Case{Names: c.Names, Texts: c.Texts, IgnoreCircular: c.IgnoreCircular, IgnoreNotSupported: c.IgnoreNotSupported})
	if err != nil {
		return
	}
	ix := indexAST(ms)
	for _, l := range sortedKeys(ix.groupings) {
		yang.ToEntry(ix.groupings[l])
	}
	for _, m := range allModules(ms) {
		yang.ToEntry(m)
	}
	errs := ms.Process()
	const what = "after ToEntry of every grouping and (sub)module before Process,"
	if !sameOutcome(what, lib.DumpOutcome(ms, errs), plain, f) || len(errs) > 0 {
		return
	}
	if len(k.Expect) > 0 {
		checkExpansion(k, ms, f, nil)
	}
	checkCopiesAgainst(what, k, ms, defIx, f)
}

// checkOldRevision: process the set with an older revision of one imported module (its groupings
// have an extra leaf, its typedef another base type), load the real revision, process again.
func checkOldRevision(c rescorr.Case, k know, f findings) {
	o := k.OldRev
	if o == nil || o.Index >= len(c.Names) {
		return
	}
	opt := func(ms *yang.Modules) {
		ms.ParseOptions.IgnoreSubmoduleCircularDependencies = c.IgnoreCircular
		ms.ParseOptions.DeviateOptions.IgnoreDeviateNotSupported = c.IgnoreNotSupported
	}
	parseOld := func(ms *yang.Modules) bool {
		for i := range c.Names {
			name, text := c.Names[i], c.Texts[i]
			if i == o.Index {
				name, text = o.Name, o.Text
			}
			if err := ms.Parse(text, name); err != nil {
				return false
			}
		}
		return true
	}
	ms := yang.NewModules()
	opt(ms)
	if !parseOld(ms) {
		f.add("older revision: the generated older revision %s is rejected", o.Name)
		return
	}
	ms.Process() // the importers' groupings are converted against the older revision
	if err := ms.Parse(c.Texts[o.Index], c.Names[o.Index]); err != nil {
		f.add("older revision: %v", err)
		return
	}
	errs := ms.Process()
	fresh := yang.NewModules()
	opt(fresh)
	if !parseOld(fresh) || fresh.Parse(c.Texts[o.Index], c.Names[o.Index]) != nil {
		return
	}
	ferrs := fresh.Process()
	what := "after a run with the older revision " + o.Name + " and loading the current one,"
	if !sameOutcome(what, lib.DumpOutcome(ms, errs), lib.DumpOutcome(fresh, ferrs), f) || len(errs) > 0 {
		return
	}
	if len(k.Expect) > 0 {
		checkExpansion(k, ms, f, func(m *yang.Module) bool { return strings.HasSuffix(m.FullName(), "@2019-01-01") })
	}
	checkCopiesAgainst(what, k, ms, indexAST(fresh), f)
}

func oracle(c rescorr.Case, ms *yang.Modules, errs []error, out *rescorr.GoOut) {
	var k know
	if err := json.Unmarshal([]byte(c.Extra["c06"]), &k); err != nil || k.Variant == "" {
		return
	}
	f := findings{out: out}
	ix := indexAST(ms)
	if k.Variant == "corpus" {
		checkBinding(k, ix, f)
		checkOnDemand(c, k, ms, out.Dump, out)
		if len(errs) == 0 {
			if k.PreConvert {
				checkPreConvert(c, k, out.Dump, ix, f)
			}
			checkOldRevision(c, k, f)
			checkCopies(k, ms, ix, f, false)
			checkCorpus(k, ms, ix, f)
		}
		return
	}
	checkBinding(k, ix, f)
	// (viii) the same set with only some modules handed over, the rest found on the search path
	checkOnDemand(c, k, ms, out.Dump, out)
	if len(errs) > 0 {
		return
	}
	mut := k.Variant == "mut"
	checkCopies(k, ms, ix, f, mut)
	checkExtrasLaw(k, ms, ix, f, mut)
	if !mut {
		checkExpansion(k, ms, f, nil)
	}
	checkSharing(ms, ix, f)
	if !mut && k.PreConvert {
		checkPreConvert(c, k, out.Dump, ix, f)
	}
	if !mut {
		checkOldRevision(c, k, f)
	}
	var bix *astIndex
	if !mut && len(k.AugNodes) > 0 {
		checkAugNamespaces(k, ms, f)
	}
	if mut {
		checkAugNamespaces(k, ms, f)
		bix = checkAgainstBase(c, k, ms, ix, f)
	}
	checkDirect(k, ms, ix, f)
	checkLate(k, ms, f, bix)
}

func main() {
	f := lib.ParseFlags()
	if lib.IsChild() {
		rescorr.ServeChild(oracle)
		return
	}
	if f.Replay != "" {
		rescorr.Replay(f, oracle, keys)
		return
	}
	res := lib.NewResult("C06", f)
	n := 6000
	if f.Thorough() {
		n = 150000
	}
	cfg := gen.C06Default()
	type meta struct {
		variant   string
		sites     int
		multi     int // groupings with at least two instances
		untouched int
		c         *gen.C06Case
	}
	siteKinds := map[string]int64{}
	mutKinds := map[string]int64{}
	mutProps := map[string]int64{}
	var maxNest int
	var extrasNodes, extrasUses, capSensitive, preConverted, oldRevs int64
	distinct := lib.NewDistinct()
	disk := &diskTally{layouts: map[string]int64{}, skipped: map[string]int64{}}
	var clean, cleanMut, withErr, outside, skipped, sitesChecked, untouchedChecked, total int64
	// corpus first: hand-written witnesses (corpus/C06/*.json) with a table of expected Extra / Exts
	var corpusN, corpusClean int64
	if want("corpus") {
		paths, _ := filepath.Glob(lib.Root() + "/corpus/C06/*.json")
		sort.Strings(paths)
		var cases []rescorr.Case
		for _, p := range paths {
			raw, err := os.ReadFile(p)
			if err != nil {
				continue
			}
			var cc struct {
				Names        []string     `json:"names"`
				Texts        []string     `json:"texts"`
				ExpectExtras []gen.C06Rec `json:"expect_extras"`
				// a witness for the base run / mutated run comparison: variant "mut", the base
				// variant's files, the instance sites (Touched = named by the augment / deviation)
				Variant   string        `json:"variant"`
				BaseNames []string      `json:"base_names"`
				BaseTexts []string      `json:"base_texts"`
				Sites     []gen.C06Site `json:"sites"`
				// expected binding of uses statements (location of the statement, of the grouping)
				Uses []gen.C06UseRef `json:"uses"`
				// nodes an augment adds, with the namespace and module they belong to
				AugNodes []gen.C06AugNode `json:"aug_nodes"`
				// earlier conversions on the same value: ToEntry of everything before Process; an
				// older revision of the file at old_rev.index processed first
				PreConvert bool           `json:"pre_convert"`
				OldRev     *gen.C06OldRev `json:"old_rev"`
				// "rev": a revision family (findings name the clause)
				Family string `json:"family"`
				// expected Entry.Type.IdentityBase ("owning module:identity") of the leaves named by path
				IdBases []gen.C06Rec `json:"id_bases"`
				// (viii) on-demand runs: per entry only the roots are handed over, the other texts lie on the search path
				Disk []diskVariant `json:"disk"`
			}
			if err := json.Unmarshal(raw, &cc); err != nil || len(cc.Names) == 0 {
				lib.Fatal("corpus file %s: %v", p, err)
			}
			kn := know{Variant: "corpus", ExpectExtras: cc.ExpectExtras, Uses: cc.Uses, AugNodes: cc.AugNodes, Sites: cc.Sites,
				PreConvert: cc.PreConvert, OldRev: cc.OldRev, Family: cc.Family, IdBases: cc.IdBases}
			if cc.Variant == "mut" {
				kn = know{Variant: "mut", Sites: cc.Sites, BaseNames: cc.BaseNames, BaseTexts: cc.BaseTexts, Uses: cc.Uses, AugNodes: cc.AugNodes}
			}
			kb, _ := json.Marshal(kn)
			extra := map[string]string{"c06": string(kb), "origin": "corpus/" + filepath.Base(p), "clause": know{Family: cc.Family}.clause()}
			if len(cc.Disk) > 0 {
				db, _ := json.Marshal(cc.Disk)
				extra["c06_disk"] = string(db)
			}
			cases = append(cases, rescorr.Case{Names: cc.Names, Texts: cc.Texts, Extra: extra})
		}
		for _, o := range rescorr.RunAll(cases, f) {
			corpusN++
			disk.tally(o)
			origin := o.Case.Extra["origin"]
			switch {
			case o.Crashed:
				res.AddDisagreement(lib.Disagreement{Kind: "crash", Input: o.Case.Texts, Go: o.CrashMsg, SpecVerdict: "violates",
					What: origin + ": goyang crashed or hung: " + firstLine(o.CrashMsg), Replay: o.Case})
				continue
			case o.Skipped != "" || o.Outside != "":
				res.AddDisagreement(lib.Disagreement{Kind: "obligation", Input: o.Case.Texts, Go: o.Go.ParseErr + o.Outside, SpecVerdict: "",
					What: origin + ": corpus case not accepted (" + o.Go.ParseErr + o.Outside + ")", Replay: o.Case})
				continue
			}
			if len(o.Go.Findings) > 0 {
				res.AddDisagreement(lib.Disagreement{Kind: "spec", Input: o.Case.Texts, Go: o.Go.Findings, SpecVerdict: "violates",
					What: origin + ": " + o.Go.Findings[0], Replay: o.Case})
			}
			g := lib.Project(o.Go.Dump, keys, true)
			md := lib.Project(o.Model, keys, true)
			if d := rescorr.Diff(g, md); d != "" {
				res.AddDisagreement(lib.Disagreement{Kind: "correspondence", Input: o.Case.Texts, Go: g, Model: md, SpecVerdict: "",
					What: origin + ": resolver differs from the model: " + d, Replay: o.Case})
			}
			if rescorr.HasErrors(o.Go.Dump) {
				res.AddDisagreement(lib.Disagreement{Kind: "spec", Input: o.Case.Texts, Go: o.Go.Dump, SpecVerdict: "violates",
					What: origin + ": corpus case does not process cleanly: " + o.Go.Dump[0] + o.Case.Extra["clause"], Replay: o.Case})
				continue
			}
			corpusClean++
			distinct.Add(strings.Join(o.Case.Texts, "\x00"))
		}
		total += corpusN
	}
	// then the deterministic deep-chain family (gen/c06chain.go): g0 uses g1 uses ... uses gN
	var chainN, chainClean, chainMaxDepth, chainModelCompared int64
	if want("chains") {
		var cases []rescorr.Case
		var specs []gen.C06ChainSpec
		for i, sp := range gen.C06ChainFamily(f.Thorough()) {
			gc := gen.C06Chain(sp)
			kb, _ := json.Marshal(know{Variant: "base", Uses: gc.Uses, Sites: gc.Sites, Expect: gc.Expect, Late: gc.Late, PreConvert: i%2 == 0})
			extra := map[string]string{"c06": string(kb), "origin": sp.String()}
			if len(gc.Names) > 1 {
				// (viii) only module a handed over: the other modules and all submodules are found on the path
				extra["c06_disk"] = diskVariants([][]int{{0}}, i)
			}
			cases = append(cases, rescorr.Case{Names: gc.Names, Texts: gc.Texts, Extra: extra})
			specs = append(specs, sp)
		}
		for i, o := range rescorr.RunAll(cases, f) {
			chainN++
			disk.tally(o)
			origin := o.Case.Extra["origin"]
			if int64(specs[i].N) > chainMaxDepth {
				chainMaxDepth = int64(specs[i].N)
			}
			switch {
			case o.Crashed:
				res.AddDisagreement(lib.Disagreement{Kind: "crash", Input: origin, Go: o.CrashMsg, SpecVerdict: "violates",
					What: origin + ": goyang crashed or hung: " + firstLine(o.CrashMsg), Replay: o.Case})
				continue
			case o.Skipped != "":
				res.AddDisagreement(lib.Disagreement{Kind: "obligation", Input: origin, Go: o.Go.ParseErr, SpecVerdict: "",
					What: origin + ": not accepted by Modules.Parse (" + o.Go.ParseErr + ")", Replay: o.Case})
				continue
			}
			if len(o.Go.Findings) > 0 {
				res.AddDisagreement(lib.Disagreement{Kind: "spec", Input: origin, Go: o.Go.Findings, SpecVerdict: "violates",
					What: origin + ": " + o.Go.Findings[0], Replay: o.Case})
			}
			if rescorr.HasErrors(o.Go.Dump) {
				res.AddDisagreement(lib.Disagreement{Kind: "spec", Input: origin, Go: o.Go.Dump, SpecVerdict: "violates",
					What: origin + ": a chain of nested uses does not process cleanly: " + o.Go.Dump[0], Replay: o.Case})
				continue
			}
			if o.Outside == "" {
				chainModelCompared++
				g := lib.Project(o.Go.Dump, keys, true)
				md := lib.Project(o.Model, keys, true)
				if d := rescorr.Diff(g, md); d != "" {
					res.AddDisagreement(lib.Disagreement{Kind: "correspondence", Input: origin, Go: g, Model: md, SpecVerdict: "",
						What: origin + ": resolver differs from the model: " + d, Replay: o.Case})
				}
			}
			chainClean++
			distinct.Add(strings.Join(o.Case.Texts, "\x00"))
		}
		total += chainN
	}
	// then the revision families (gen/c06rev.go): two or three loaded revisions of the module that
	// defines the groupings, importers that designate different ones
	var revN, revClean, revFaulty, revOutside, revSites int64
	revDist := map[string]int64{}
	if want("rev") {
		nrev := gen.C06RevMinimalCount + 856
		if f.Thorough() {
			nrev = gen.C06RevMinimalCount + 7856
		}
		var cases []rescorr.Case
		var gcs []*gen.C06Case
		for i := 0; i < nrev; i++ {
			gc, info := gen.C06Rev(f.Rand(50000000+i), i)
			kb, _ := json.Marshal(know{Variant: "base", Family: "rev", Uses: gc.Uses, Sites: gc.Sites, Expect: gc.Expect, Late: gc.Late, PreConvert: i%2 == 0})
			cases = append(cases, rescorr.Case{Names: gc.Names, Texts: gc.Texts, Extra: map[string]string{"c06": string(kb),
				"origin": fmt.Sprintf("revision family %d (a uses copies the grouping of the revision its file's import designates, RFC 7950 5.1.1)", i)}})
			gcs = append(gcs, gc)
			revDist[fmt.Sprintf("loaded_revisions=%d", info.Revisions)]++
			revDist[fmt.Sprintf("distinct_revisions_designated=%d", info.Designated)]++
			revDist["import_statements_with_revision-date"] += int64(info.Pinned)
			revDist["import_statements_without_revision-date"] += int64(info.Unpinned)
			revDist["defining_module_named_"+info.LibName]++
			for name, on := range map[string]bool{"one_module_two_prefixes_two_revisions": info.TwoPrefixes, "submodule_designates_another_revision_than_its_module": info.SubPin,
				"submodule_and_module_same_prefix_other_revision": info.SamePrefix, "grouping_of_another_importer_with_another_designation": info.Chain,
				"uses_of_a_grouping_not_every_revision_has": info.OnlyIn, "uses_of_a_grouping_the_designated_revision_lacks(must_not_resolve)": info.Dangling,
				"systematic_block(2_revisions_2_importers_every_load_order)": info.Minimal} {
				if on {
					revDist[name]++
				}
			}
		}
		for i, o := range rescorr.RunAll(cases, f) {
			revN++
			origin := o.Case.Extra["origin"]
			switch {
			case o.Crashed:
				res.AddDisagreement(lib.Disagreement{Kind: "crash", Input: o.Case.Texts, Go: o.CrashMsg, SpecVerdict: "violates",
					What: origin + ": goyang crashed or hung: " + firstLine(o.CrashMsg), Replay: o.Case})
				continue
			case o.Skipped != "":
				res.AddDisagreement(lib.Disagreement{Kind: "obligation", Input: o.Case.Texts, Go: o.Go.ParseErr, SpecVerdict: "",
					What: origin + ": not accepted by Modules.Parse (" + o.Go.ParseErr + ")", Replay: o.Case})
				continue
			}
			if len(o.Go.Findings) > 0 {
				res.AddDisagreement(lib.Disagreement{Kind: "spec", Input: o.Case.Texts, Go: o.Go.Findings, SpecVerdict: "violates",
					What: origin + ": " + o.Go.Findings[0], Replay: o.Case})
			}
			if o.Outside != "" {
				revOutside++
			} else {
				g := lib.Project(o.Go.Dump, keys, true)
				md := lib.Project(o.Model, keys, true)
				if d := rescorr.Diff(g, md); d != "" {
					res.AddDisagreement(lib.Disagreement{Kind: "correspondence", Input: o.Case.Texts, Go: g, Model: md, SpecVerdict: "",
						What: origin + ": resolver differs from the model: " + d, Replay: o.Case})
				}
			}
			if rescorr.HasErrors(o.Go.Dump) {
				if !gcs[i].Faulty {
					res.AddDisagreement(lib.Disagreement{Kind: "spec", Input: o.Case.Texts, Go: o.Go.Dump, SpecVerdict: "violates",
						What: origin + ": a revision family without deliberate faults does not process cleanly: " + o.Go.Dump[0] + revClause, Replay: o.Case})
				} else {
					revFaulty++
				}
				continue
			}
			if gcs[i].Faulty {
				res.AddDisagreement(lib.Disagreement{Kind: "spec", Input: o.Case.Texts, Go: o.Go.Dump, SpecVerdict: "violates",
					What: origin + ": a uses of a grouping that the designated revision lacks was accepted" + revClause, Replay: o.Case})
				continue
			}
			revClean++
			revSites += int64(len(gcs[i].Sites))
			distinct.Add(strings.Join(o.Case.Texts, "\x00"))
		}
		total += revN
	}
	// then the two scope families (gen/c06scope.go): typedef scopes nested inside groupings, and pools of
	// own / import prefixes and grouping names related as substrings
	var scopeN, scopeClean, scopeMut, scopeOutside, scopeSites int64
	scopeDist := map[string]int64{}
	if want("scope") {
		nscope := 700
		if f.Thorough() {
			nscope = 12000
		}
		// the identity-scope family (gen/c06ident.go) follows the two older ones (whose indices stay what they were)
		nident := 160
		if f.Thorough() {
			nident = 4000
		}
		var cases []rescorr.Case
		var clauses []string
		for i := 0; i < nscope+nident; i++ {
			var gc *gen.C06Case
			var info gen.C06ScopeInfo
			if i >= nscope {
				gc, info = gen.C06ScopeIdentities(f.Rand(60000000+i), i-nscope)
			} else if i%2 == 0 {
				gc, info = gen.C06ScopeTypedefs(f.Rand(60000000+i), i/2)
			} else {
				gc, info = gen.C06ScopePrefixes(f.Rand(60000000+i), i/2)
			}
			clause := know{Family: info.Family}.clause()
			origin := fmt.Sprintf("%s family %d", info.Family, i)
			// AugNodes of a case with a mutated variant are what the mutation's augments add; without one
			// they are what the augment of the base text itself adds (the grouping used in an augment body)
			var baseAug []gen.C06AugNode
			if gc.MutTexts == nil {
				baseAug = gc.AugNodes
			}
			kb, _ := json.Marshal(know{Variant: "base", Family: info.Family, TypeSig: info.Family == "typedef-scopes", Uses: gc.Uses, Sites: gc.Sites,
				Expect: gc.Expect, Late: gc.Late, AugNodes: baseAug, PreConvert: i%4 < 2})
			bextra := map[string]string{"c06": string(kb), "origin": origin}
			if info.Family == "identity-scopes" && i%4 == 0 {
				bextra["c06_disk_auto"] = strconv.Itoa(i) // (viii): again from files on disk, root modules only
			}
			cases = append(cases, rescorr.Case{Names: gc.Names, Texts: gc.Texts, Extra: bextra})
			clauses = append(clauses, clause)
			if gc.MutTexts != nil {
				km, _ := json.Marshal(know{Variant: "mut", Family: info.Family, Uses: gc.Uses, Sites: gc.Sites, BaseNames: gc.Names, BaseTexts: gc.Texts,
					Late: gc.Late, AugNodes: gc.AugNodes})
				cases = append(cases, rescorr.Case{Names: gc.MutNames, Texts: gc.MutTexts, Extra: map[string]string{"c06": string(km), "origin": origin + " (mutated variant)"}})
				clauses = append(clauses, clause)
				scopeMut++
			}
			scopeSites += int64(len(gc.Sites))
			d := func(name string, n int) { scopeDist[info.Family+": "+name] += int64(n) }
			b := func(name string, on bool) {
				if on {
					d(name, 1)
				}
			}
			d("cases", 1)
			b("with_submodule", info.Submodule)
			if info.Family == "identity-scopes" {
				d("import_tables_"+info.IdShape, 1)
				d("identity_references", info.IdRefs)
				d("...unprefixed_or_under_the_own_prefix", info.IdOwnRefs)
				d("...through_an_import_prefix_of_the_file", info.IdForeignRefs)
				d("...in_a_submodule_whose_owner_binds_the_prefix_to_another_module", info.IdDifferRefs)
				d("...in_a_submodule_whose_owner_does_not_bind_the_prefix", info.IdSubOnlyRefs)
				d("...in_the_module_with_a_submodule_binding_the_prefix_differently", info.IdOwnerRefsSubDiffers)
				d("references_through_a_typedef", info.IdTypedefRefs)
				d("references_through_an_identity_statement_with_that_base", info.IdIdentityBases)
				d("defining_modules_with_identities_in_a_submodule", info.IdInSubmodule)
				d("pool_identities_also_defined_by_the_using_module", info.IdOwnDefined)
				d("groupings_using_another_files_grouping", info.IdCrossFileUses)
				for _, sk := range info.SiteKinds {
					d("site_"+sk, 1)
				}
			} else if info.Family == "typedef-scopes" {
				scopeDist[fmt.Sprintf("%s: cases_with_%d_nested_typedef_scope_levels", info.Family, info.Levels)]++
				d("statements_inside_groupings_declaring_typedefs", info.TypedefScopes)
				d("type_references_inside_groupings", info.Refs)
				d("references_passing_over_a_nearer_scope_with_other_typedefs", info.SkipRefs)
				d("references_to_a_name_declared_again_further_out", info.ShadowRefs)
				d("references_reaching_the_defining_module_level", info.ModuleRefs)
				d("typedefs_chained_to_an_outer_level", info.Chained)
				b("used_in_an_augment_body", info.Augment)
				b("used_through_a_wrapping_grouping", info.Wrapped)
				for _, sk := range info.SiteKinds {
					d("site_"+sk, 1)
				}
			} else {
				d("uses_through_an_import_prefix", info.PrefixedUses)
				d("...import_prefix_contains_own_prefix", info.SubstringUses)
				d("...import_prefix_ends_with_own_prefix", info.SuffixUses)
				d("...import_prefix_and_own_prefix_one_a_prefix_of_the_other", info.PrefixOfUses)
				d("uses_under_own_prefix", info.OwnPrefixUses)
				d("uses_unprefixed", info.PlainUses)
				d("uses_of_a_grouping_named_like_or_containing_a_prefix", info.NameIsPrefix)
				d("decoy_local_groupings_of_spliced_names", info.Decoys)
			}
		}
		for i, o := range rescorr.RunAll(cases, f) {
			scopeN++
			origin := o.Case.Extra["origin"]
			clause := clauses[i]
			if len(o.Go.Dump) > 0 && strings.Contains(o.Go.Dump[0], "unknown-group") {
				clause = prefixClause
			}
			switch {
			case o.Crashed:
				res.AddDisagreement(lib.Disagreement{Kind: "crash", Input: o.Case.Texts, Go: o.CrashMsg, SpecVerdict: "violates",
					What: origin + ": goyang crashed or hung: " + firstLine(o.CrashMsg), Replay: o.Case})
				continue
			case o.Skipped != "":
				res.AddDisagreement(lib.Disagreement{Kind: "obligation", Input: o.Case.Texts, Go: o.Go.ParseErr, SpecVerdict: "",
					What: origin + ": not accepted by Modules.Parse (" + o.Go.ParseErr + ")", Replay: o.Case})
				continue
			}
			if len(o.Go.Findings) > 0 {
				res.AddDisagreement(lib.Disagreement{Kind: "spec", Input: o.Case.Texts, Go: o.Go.Findings, SpecVerdict: "violates",
					What: origin + ": " + o.Go.Findings[0], Replay: o.Case})
			}
			if o.Outside != "" {
				scopeOutside++
			} else {
				g := lib.Project(o.Go.Dump, keys, true)
				md := lib.Project(o.Model, keys, true)
				if d := rescorr.Diff(g, md); d != "" {
					res.AddDisagreement(lib.Disagreement{Kind: "correspondence", Input: o.Case.Texts, Go: g, Model: md, SpecVerdict: "",
						What: origin + ": resolver differs from the model: " + d, Replay: o.Case})
				}
			}
			if rescorr.HasErrors(o.Go.Dump) {
				res.AddDisagreement(lib.Disagreement{Kind: "spec", Input: o.Case.Texts, Go: o.Go.Dump, SpecVerdict: "violates",
					What: origin + ": a set without deliberate faults does not process cleanly: " + o.Go.Dump[0] + clause, Replay: o.Case})
				continue
			}
			scopeClean++
			distinct.Add(strings.Join(o.Case.Texts, "\x00"))
		}
		total += scopeN
	}
	// then the on-demand family (gen/c06path.go): chains of nested uses through modules that only the
	// import / include statements of a handed-over module reach; every case all-explicit (model compared)
	// and, in the worker, once per root set from files on disk (disk.go)
	var onN, onClean, onOutside, onSites int64
	onDist := map[string]int64{}
	if want("ondemand") {
		non := 260
		if f.Thorough() {
			non = 6000
		}
		var cases []rescorr.Case
		for i := 0; i < non; i++ {
			gc, info := gen.C06OnDemand(f.Rand(70000000+i), i)
			kb, _ := json.Marshal(know{Variant: "base", Family: "ondemand", Uses: gc.Uses, Sites: gc.Sites, Expect: gc.Expect, Late: gc.Late, PreConvert: i%4 == 0})
			cases = append(cases, rescorr.Case{Names: gc.Names, Texts: gc.Texts, Extra: map[string]string{"c06": string(kb),
				"origin": fmt.Sprintf("on-demand family %d", i), "c06_disk": diskVariants(info.RootSets, i)}})
			onSites += int64(len(gc.Sites))
			onDist[fmt.Sprintf("chain_of_%d_modules_below_the_handed-over_one", info.Depth)]++
			onDist["levels_"+info.Pattern]++
			onDist["imports_"+info.Topology]++
			onDist["levels_whose_grouping_lives_in_a_submodule"] += int64(info.SubGroupings)
			onDist["levels_hopping_through_a_grouping_of_an_own_submodule"] += int64(info.IncludeHops)
			onDist["sites_in_modules_found_on_demand"] += int64(info.OwnSites)
			onDist["root_sets"] += int64(len(info.RootSets))
			if info.SecondRoot {
				onDist["with_a_second_handed-over_module_using_a_grouping_of_some_level"]++
			}
			if info.TopSub {
				onDist["handed-over_module_with_a_submodule_found_on_demand"]++
			}
		}
		for _, o := range rescorr.RunAll(cases, f) {
			onN++
			disk.tally(o)
			origin := o.Case.Extra["origin"]
			switch {
			case o.Crashed:
				res.AddDisagreement(lib.Disagreement{Kind: "crash", Input: o.Case.Texts, Go: o.CrashMsg, SpecVerdict: "violates",
					What: origin + ": goyang crashed or hung: " + firstLine(o.CrashMsg), Replay: o.Case})
				continue
			case o.Skipped != "":
				res.AddDisagreement(lib.Disagreement{Kind: "obligation", Input: o.Case.Texts, Go: o.Go.ParseErr, SpecVerdict: "",
					What: origin + ": not accepted by Modules.Parse (" + o.Go.ParseErr + ")", Replay: o.Case})
				continue
			}
			if len(o.Go.Findings) > 0 {
				res.AddDisagreement(lib.Disagreement{Kind: "spec", Input: o.Case.Texts, Go: o.Go.Findings, SpecVerdict: "violates",
					What: origin + ": " + o.Go.Findings[0], Replay: o.Case})
			}
			if o.Outside != "" {
				onOutside++
			} else {
				g := lib.Project(o.Go.Dump, keys, true)
				md := lib.Project(o.Model, keys, true)
				if d := rescorr.Diff(g, md); d != "" {
					res.AddDisagreement(lib.Disagreement{Kind: "correspondence", Input: o.Case.Texts, Go: g, Model: md, SpecVerdict: "",
						What: origin + ": resolver differs from the model: " + d, Replay: o.Case})
				}
			}
			if rescorr.HasErrors(o.Go.Dump) {
				res.AddDisagreement(lib.Disagreement{Kind: "spec", Input: o.Case.Texts, Go: o.Go.Dump, SpecVerdict: "violates",
					What: origin + ": a set without deliberate faults does not process cleanly: " + o.Go.Dump[0], Replay: o.Case})
				continue
			}
			onClean++
			distinct.Add(strings.Join(o.Case.Texts, "\x00"))
		}
		total += onN
	}
	const batch = 4000
	if !want("seeded") {
		n = 0
	}
	for lo := 0; lo < n; lo += batch {
		hi := lo + batch
		if hi > n {
			hi = n
		}
		var cases []rescorr.Case
		var metas []meta
		for i := lo; i < hi; i++ {
			gc := gen.C06Generate(f.Rand(i), cfg)
			byG := map[string]int{}
			for _, s := range gc.Sites {
				byG[s.GLoc]++
			}
			multi := 0
			for _, c := range byG {
				if c >= 2 {
					multi++
				}
			}
			for _, u := range gc.Uses {
				siteKinds[u.Site]++
			}
			extrasNodes += int64(gc.ExtrasNodes)
			extrasUses += int64(gc.ExtrasUses)
			capSensitive += int64(gc.CapSensitive)
			if gc.MaxNest > maxNest {
				maxNest = gc.MaxNest
			}
			kb, _ := json.Marshal(know{Variant: "base", Uses: gc.Uses, Sites: gc.Sites, Expect: gc.Expect, Late: gc.Late,
				PreConvert: i%3 == 0, OldRev: gc.OldRev})
			if i%3 == 0 {
				preConverted++
			}
			if gc.OldRev != nil {
				oldRevs++
			}
			extra := map[string]string{"c06": string(kb)}
			if i%5 == 1 && len(gc.Names) > 1 {
				// (viii) the worker picks a set of modules that reaches every file and loads only those
				extra["c06_disk_auto"] = strconv.Itoa(i)
			}
			cases = append(cases, rescorr.Case{Names: gc.Names, Texts: gc.Texts, Extra: extra})
			metas = append(metas, meta{"base", len(gc.Sites), multi, 0, gc})
			if gc.MutTexts != nil {
				unt := 0
				for _, s := range gc.Sites {
					if !s.Touched {
						unt++
					}
				}
				for _, k := range gc.MutKinds {
					mutKinds[k]++
				}
				for _, k := range gc.MutProps {
					mutProps[k]++
				}
				km, _ := json.Marshal(know{Variant: "mut", Uses: gc.Uses, Sites: gc.Sites, BaseNames: gc.Names, BaseTexts: gc.Texts, Late: gc.Late, AugNodes: gc.AugNodes})
				mextra := map[string]string{"c06": string(km)}
				if i%10 == 2 && len(gc.MutNames) > 1 {
					mextra["c06_disk_auto"] = strconv.Itoa(i)
				}
				cases = append(cases, rescorr.Case{Names: gc.MutNames, Texts: gc.MutTexts, Extra: mextra})
				metas = append(metas, meta{"mut", len(gc.Sites), multi, unt, gc})
			}
		}
		total += int64(len(cases))
		outs := rescorr.RunAll(cases, f)
		for i, o := range outs {
			m := metas[i]
			disk.tally(o)
			switch {
			case o.Crashed:
				res.AddDisagreement(lib.Disagreement{Kind: "crash", Input: o.Case.Texts, Go: o.CrashMsg, SpecVerdict: "violates",
					What: "goyang crashed or hung: " + firstLine(o.CrashMsg), Replay: o.Case})
				continue
			case o.Skipped != "":
				skipped++
				res.AddDisagreement(lib.Disagreement{Kind: "obligation", Input: o.Case.Texts, Go: o.Go.ParseErr, SpecVerdict: "",
					What: "a generated module was rejected by Modules.Parse (the generator only writes statements goyang accepted when this runner was written): " + o.Go.ParseErr, Replay: o.Case})
				continue
			case o.Outside != "":
				outside++
				continue
			}
			if len(o.Go.Findings) > 0 {
				res.AddDisagreement(lib.Disagreement{Kind: "spec", Input: o.Case.Texts, Go: o.Go.Findings, SpecVerdict: "violates",
					What: "grouping oracle (" + m.variant + " variant): " + o.Go.Findings[0], Replay: o.Case})
			}
			g := lib.Project(o.Go.Dump, keys, true)
			md := lib.Project(o.Model, keys, true)
			if d := rescorr.Diff(g, md); d != "" {
				res.AddDisagreement(lib.Disagreement{Kind: "correspondence", Input: o.Case.Texts, Go: g, Model: md, SpecVerdict: "",
					What: "resolver differs from the model (" + m.variant + " variant): " + d, Replay: o.Case})
			}
			if rescorr.HasErrors(o.Go.Dump) {
				withErr++
				if !m.c.Faulty {
					res.AddDisagreement(lib.Disagreement{Kind: "spec", Input: o.Case.Texts, Go: o.Go.Dump, SpecVerdict: "violates",
						What: "a set without deliberate faults does not process cleanly (" + m.variant + " variant): " + o.Go.Dump[0], Replay: o.Case})
				}
				continue
			}
			if m.variant == "base" {
				clean++
			} else {
				cleanMut++
				untouchedChecked += int64(m.untouched)
			}
			sitesChecked += int64(m.sites)
			if m.multi > 0 && distinct.Add(strings.Join(o.Case.Texts, "\x00")) && len(res.Samples) < 6 && i%(len(outs)/3+1) < 2 && lo == 0 {
				res.AddSample(map[string]any{"variant": m.variant, "files": o.Case.Names, "text": strings.Join(o.Case.Texts, "\n"),
					"instances": m.sites, "groupings_with_2+_instances": m.multi, "applied": m.c.MutKinds})
			}
		}
		if n, _ := res.Distribution["disagreements_total"].(int); n > 200 {
			res.Notes = append(res.Notes, "stopped early: more than 200 disagreements")
			break
		}
	}
	res.Evaluations = total
	res.DistinctNontrivial = distinct.Len()
	res.Rule = "corpus/C06 (witnesses of D62 and of the seeded changes C06-c1, C06-d2, C06-e1, C06-g2, C06-k22, C06-l21, C06-l22, C06-m21, C06-n21), then a deterministic family of deep chains g0 uses g1 ... uses gN (N up to 200 quick, 300 thorough; " +
		"top-down / bottom-up / shuffled; one module / submodules / imported modules / alternating; five kinds of instantiation site), then revision families (harness/gen/c06rev.go: 2-3 loaded revisions of the defining module with differing same-named groupings, " +
		"importers designating different revisions by revision-date in different modules / one module under two prefixes / a submodule against its module / through another importer's grouping, next to imports without revision-date; " +
		"144 systematic cases = 6 ordered pairs of designations x 24 load orders, then seeded ones in shuffled load order), then the scope families (harness/gen/c06scope.go: typedef scopes nested 2-4 levels inside groupings with per-level subsets of a three-name typedef pool, " +
		"references from every level to every visible level, decoy typedefs in the using scopes, sites in the same module / another module / rpc input and output / notification / list / wrapping grouping / augment body, the resolved type's kind/range/length compared per node; " +
		"prefix pools: own and import prefixes that contain / end with / begin with one another, grouping names equal to or containing a prefix, decoy local groupings of every spliced name; identity scopes (harness/gen/c06ident.go): a module and its submodules with import tables that bind the same prefixes to different modules defining the same identities, or bind a prefix in one file only, groupings of every file referring to identities through every prefix of the file directly / through typedefs / behind identity statements with a foreign base, used from the owner, own and sibling submodules and another module, identity base and derived identities compared per node), then the on-demand family (harness/gen/c06path.go: a handed-over module uses b:g1, g1 uses c:g2 ... through 2-4 modules that only import / include statements reach, levels in distinct modules or zigzag between two, " +
		"groupings at module level or in a submodule that carries the next import itself, hops through an unprefixed grouping of an own submodule, imports as a line / every file importing every module / with back imports, typedefs beside each grouping, sites of their own in the modules found on demand, " +
		"optionally a second handed-over module using a grouping from the middle; each case all-explicit against the model and per root set from files on disk: layouts flat / dir/... / two directories / Read's own directory, roots by Parse or Read(path); " +
		"oracle: same outcome as all-explicit, binding, copies, reference expansion, sharing, late use), the same files-on-disk re-run on every multi-file deep chain (only module a handed over), on a fifth of the seeded base variants and a tenth of the mutated ones (roots picked by the worker: fewest modules that reach every file), then seeded grouping-heavy module sets (harness/gen/c06.go: 1-3 modules, 0-3 submodules each with include chains, groupings at " +
		"module level, in submodules, in containers/lists/operations/notifications and inside groupings, tiny name pools so that shadowing is " +
		"frequent, submodules whose belongs-to prefix differs from the module's own prefix and which import another module under the " +
		"module's own prefix or a sibling's belongs-to prefix, nested uses, typedef t and identity idn defined per module so that resolving in the wrong scope shows, every reachable " +
		"grouping given at least two instances; nodes, groupings and uses statements carrying 0-4 if-feature and extension statements - three " +
		"being the case in which append leaves one spare slot - and when / status / reference / description), each as a base variant and as a variant in which one or two instances are changed by augments " +
		"(bodies with uses statements written directly in them and below a container: groupings of the target's module and its submodules, of a " +
		"third module, of the augmenting module) and deviations (not-supported; add, replace, delete of every property: units, default, type, config, mandatory, min/max-elements); distinct_nontrivial = distinct variants (by text) that process cleanly and " +
		"contain a grouping with at least two instances, i.e. on which the copy, sharing and independence oracles actually compare instances"
	res.Distribution["nodes_with_predicted_Extra_or_Exts"] = extrasNodes
	res.Distribution["uses_statements_with_extras"] = extrasUses
	res.Distribution["copied_nodes_with_3_own_values_and_a_4th_appended"] = capSensitive
	res.Distribution["base_variants_also_run_with_ToEntry_of_everything_before_Process"] = preConverted
	res.Distribution["base_variants_also_run_with_an_older_revision_processed_first"] = oldRevs
	res.Distribution["deep_chain_cases"] = chainN
	res.Distribution["deep_chain_cases_clean"] = chainClean
	res.Distribution["deep_chain_cases_compared_with_the_model"] = chainModelCompared
	res.Distribution["deep_chain_greatest_N"] = chainMaxDepth
	res.Distribution["revision_family_cases"] = revN
	res.Distribution["revision_family_cases_clean"] = revClean
	res.Distribution["revision_family_cases_with_a_deliberate_dangling_uses_rejected"] = revFaulty
	res.Distribution["revision_family_cases_outside_model"] = revOutside
	res.Distribution["revision_family_instances_compared"] = revSites
	res.Distribution["revision_family_shapes"] = revDist
	res.Distribution["scope_family_cases(incl_mutated_variants)"] = scopeN
	res.Distribution["scope_family_cases_clean"] = scopeClean
	res.Distribution["scope_family_mutated_variants"] = scopeMut
	res.Distribution["scope_family_cases_outside_model"] = scopeOutside
	res.Distribution["scope_family_instances_compared"] = scopeSites
	res.Distribution["scope_family_shapes"] = scopeDist
	res.Distribution["on_demand_family_cases"] = onN
	res.Distribution["on_demand_family_cases_clean"] = onClean
	res.Distribution["on_demand_family_cases_outside_model"] = onOutside
	res.Distribution["on_demand_family_instances_compared"] = onSites
	res.Distribution["on_demand_family_shapes"] = onDist
	res.Distribution["files_on_disk_runs(all families)"] = disk.runs
	res.Distribution["files_on_disk_runs_clean_with_all_oracles"] = disk.clean
	res.Distribution["files_on_disk_runs_rejected_like_the_explicit_run"] = disk.rejected
	res.Distribution["files_on_disk_files_found_on_demand"] = disk.onDemand
	res.Distribution["files_on_disk_runs_by_layout/hand"] = disk.layouts
	res.Distribution["files_on_disk_variants_skipped"] = disk.skipped
	res.Distribution["corpus_cases"] = corpusN
	res.Distribution["corpus_cases_clean"] = corpusClean
	res.Distribution["clean_base_variants"] = clean
	res.Distribution["clean_mutated_variants"] = cleanMut
	res.Distribution["variants_with_errors"] = withErr
	res.Distribution["outside_model"] = outside
	res.Distribution["go_parse_rejected"] = skipped
	res.Distribution["instances_compared_with_grouping_entry"] = sitesChecked
	res.Distribution["untouched_instances_compared_with_base_run"] = untouchedChecked
	res.Distribution["uses_by_definition_site"] = siteKinds
	res.Distribution["mutations_by_kind"] = mutKinds
	res.Distribution["deviate_properties_written(kind target property)"] = mutProps
	res.Distribution["deepest_chain_of_nested_uses"] = maxNest
	res.Write(f.Out)
}

// want: C06_FAMILIES (a debugging aid; unset = every family) restricts the run to the named input
// families: corpus, chains, rev, scope, ondemand, seeded.
func want(family string) bool {
	v := os.Getenv("C06_FAMILIES")
	if v == "" {
		return true
	}
	for _, x := range strings.Split(v, ",") {
		if x == family {
			return true
		}
	}
	return false
}

func firstLine(s string) string {
	if i := strings.IndexByte(s, '\n'); i > 0 {
		return s[:i]
	}
	return s
}
