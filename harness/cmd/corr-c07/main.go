// corr-c07: augments are applied exactly once, order-independently, or reported.
//
// Three things are checked on augment-heavy module sets (harness/gen/c07.go):
//
//	(a) correspondence of the real resolver with the Lean model (drv_res) on the projection
//	    kind/dir/ns/im + errors;
//	(b) a metamorphic Go-side oracle: every permutation of the load order and of the augment
//	    statements inside each module (all of them for <= 4 augments and <= 4 files, a seeded sample
//	    beyond) must give the same outcome;
//	(c) an oracle from generator knowledge: every node an augment defines is in the forest exactly
//	    once, below the expected target, attributed to the augmenting module; a set in which some
//	    augment cannot be applied yields errors (positioned at the statement for missing targets and
//	    targets that cannot have children).
//
// Besides the sets of gen.GenerateC07 every batch holds sets of gen.C07RevSub: revisions of one module
// loaded together that include the same submodule(s), with augments aimed at what the shared submodule
// defines (the latest revision, the one a path through a plain import denotes, must hold those nodes).
//
// (b) and (c) run inside the crash-isolated worker (the hook); what they need travels in Case.Extra.
package main

import (
	"encoding/json"
	"fmt"
	"math/rand"
	"os"
	"sort"
	"strconv"
	"strings"

	"github.com/openconfig/goyang/pkg/yang"
	"verif/harness/gen"
	"verif/harness/lib"
	"verif/harness/rescorr"
)

var keys = []string{"kind", "dir", "ns", "im"}

// know is the generator knowledge that travels with a case.
type know struct {
	Shape       string            `json:"shape"`
	Shapes      []string          `json:"shapes,omitempty"`
	Augs        []*gen.C07Aug     `json:"augs"`
	Blocks      map[string][2]int `json:"blocks"`
	ExpectClean bool              `json:"expect_clean"`
	Outside     bool              `json:"outside,omitempty"`
	IONamed     bool              `json:"ionamed,omitempty"`
	Forest      []gen.C07Node     `json:"forest,omitempty"`
	NSMod       map[string]string `json:"nsmod"`
	Seed        int64             `json:"seed"`
	MaxVariants int               `json:"max_variants"`
}

func getKnow(c rescorr.Case) *know {
	s, ok := c.Extra["c07"]
	if !ok {
		return nil
	}
	var k know
	if json.Unmarshal([]byte(s), &k) != nil {
		return nil
	}
	return &k
}

// ---- dump parsing --------------------------------------------------------------------------------

type node struct{ mod, path, kind, ns, im string }
type perr struct {
	file      string
	line, col int
	class     string
}

func unhex(s string) string {
	b, err := lib.UnHex(s)
	if err != nil {
		return "?" + s
	}
	return string(b)
}

func parseDump(d []string) (nodes []node, errs []perr) {
	for _, r := range d {
		if strings.HasPrefix(r, "E ") {
			f := strings.Split(r[2:], ":")
			if len(f) < 4 {
				errs = append(errs, perr{file: r[2:], class: "other"})
				continue
			}
			n := len(f)
			l, _ := strconv.Atoi(f[n-3])
			c, _ := strconv.Atoi(f[n-2])
			errs = append(errs, perr{file: strings.Join(f[:n-3], ":"), line: l, col: c, class: f[n-1]})
			continue
		}
		f := strings.Fields(r)
		if len(f) < 3 || f[0] != "N" {
			continue
		}
		nd := node{mod: unhex(f[1]), path: unhex(f[2])}
		for _, kv := range f[3:] {
			switch {
			case strings.HasPrefix(kv, "kind="):
				nd.kind = kv[5:]
			case strings.HasPrefix(kv, "ns="):
				nd.ns = unhex(kv[3:])
			case strings.HasPrefix(kv, "im="):
				if kv[3:] == "!" {
					nd.im = "!"
				} else {
					nd.im = unhex(kv[3:])
				}
			}
		}
		nodes = append(nodes, nd)
	}
	return
}

func errStrings(es []perr) string {
	var s []string
	for _, e := range es {
		s = append(s, fmt.Sprintf("%s:%d:%d:%s", e.file, e.line, e.col, e.class))
	}
	return strings.Join(s, " ")
}

// ---- oracle (c): exactly once / attribution / reported -------------------------------------------

func augDesc(a *gen.C07Aug) string {
	return fmt.Sprintf("augment #%d %s:%d %q (module %s, shape %s, expect %s)", a.ID, a.File, a.Line, a.TargetArg, a.Module, a.Shape, a.Expect)
}

// inTree says where the target of an augment is expected (when the generator recorded it).
func inTree(a *gen.C07Aug) string {
	if a.TargetPath == "" || a.TargetModule == "" {
		return ""
	}
	s := fmt.Sprintf(" (%s in the tree of %s", a.TargetPath, a.TargetModule)
	if a.Origin != "" {
		s += ", there because of: " + a.Origin
	}
	return s + ")"
}

// oracleOnce returns findings "once[known]: ..." / "reported[known]: ..." where known is "" or a known-finding id.
func oracleOnce(k *know, dump []string) []string {
	var out []string
	nodes, errs := parseDump(dump)
	add := func(kind, known, format string, a ...any) {
		if len(out) < 8 {
			out = append(out, kind+"["+known+"]: "+fmt.Sprintf(format, a...))
		}
	}
	augAt := func(e perr) *gen.C07Aug {
		for _, a := range k.Augs {
			if a.File == e.file && a.Line == e.line {
				return a
			}
		}
		return nil
	}
	// knownOf: signature predicates of known findings (none at present: the two shapes that used to be
	// tagged, an unprefixed first step inside a submodule and an action without input/output, are repaired).
	knownOf := func(a *gen.C07Aug) string { return "" }
	if !k.ExpectClean {
		// some augment cannot be applied: the set must end in errors
		if len(errs) == 0 {
			for _, a := range k.Augs {
				if a.Expect != gen.C07Apply && a.Expect != gen.C07Unknown {
					add("reported", "", "%s cannot be applied, but Process returns no error", augDesc(a))
				}
			}
			return out
		}
		for _, a := range k.Augs {
			if a.Expect != gen.C07MissingT && a.Expect != gen.C07NoChildren {
				continue
			}
			found := false
			for _, e := range errs {
				if e.file == a.File && e.line == a.Line && e.class == "augment-not-found" {
					found = true
				}
			}
			if !found {
				add("reported", "", "%s: no augment-not-found error at the statement; errors: %s", augDesc(a), errStrings(errs))
			}
		}
		// an augment whose target exists (nothing a generated set does to a colliding node is ever a
		// target or on the way to one) is not to be reported as not found, whatever else fails in the set
		for _, e := range errs {
			if a := augAt(e); a != nil && e.class == "augment-not-found" && (a.Expect == gen.C07Apply || (a.Expect == gen.C07Collide && a.Shape == gen.C07RevSubShape)) {
				// (a collision is a fault of its own kind, reported on the target; in the sets of
				// gen/c07revsub.go nothing else is ever done to a node that takes part in one)
				add("reported", "", "%s is reported as not found although its target exists%s and can have children", augDesc(a), inTree(a))
			}
		}
		return out
	}
	if len(errs) > 0 {
		// expected clean; the only excuse is a known finding: every error is an augment-not-found
		// at a statement of a known shape
		known := ""
		for _, e := range errs {
			kn := knownOf(augAt(e))
			if kn == "" || e.class != "augment-not-found" {
				known = ""
				break
			}
			known = kn
		}
		if known == "" {
			// name the statements: an augment whose target exists in the tree its path denotes is reported as not found
			for _, e := range errs {
				if a := augAt(e); a != nil && e.class == "augment-not-found" && a.Expect == gen.C07Apply {
					add("reported", "", "%s is reported as not found although its target exists%s and can have children", augDesc(a), inTree(a))
				}
			}
		}
		add("reported", known, "every augment has an existing target that can have children and no names collide, but Process reports errors: %s", errStrings(errs))
		return out
	}
	type key struct{ mod, path string }
	have := map[key]node{}
	byLast := map[string][]node{}
	for _, n := range nodes {
		if _, dup := have[key{n.mod, n.path}]; dup {
			add("once", "", "node %s %s is dumped twice", n.mod, n.path)
		}
		have[key{n.mod, n.path}] = n
		i := strings.LastIndex(n.path, "/")
		byLast[n.path[i+1:]] = append(byLast[n.path[i+1:]], n)
	}
	// paths a known shape is allowed to miss
	excused := map[key]string{}
	for _, a := range k.Augs {
		if kn := knownOf(a); kn != "" {
			for _, nd := range a.Nodes {
				excused[key{nd.Mod, nd.Path}] = kn
			}
		}
	}
	excuse := func(mod, path string) string {
		for p := path; p != ""; {
			if kn, ok := excused[key{mod, p}]; ok {
				return kn
			}
			i := strings.LastIndex(p, "/")
			if i <= 0 {
				break
			}
			p = p[:i]
		}
		return ""
	}
	for _, a := range k.Augs {
		if a.Expect != gen.C07Apply {
			continue
		}
		for _, want := range a.Nodes {
			got, ok := have[key{want.Mod, want.Path}]
			switch {
			case !ok:
				add("once", knownOf(a), "%s: node %s is not in the tree of %s", augDesc(a), want.Path, want.Mod)
			case got.ns != want.NS:
				add("once", "", "%s: node %s has namespace %q, want %q", augDesc(a), want.Path, got.ns, want.NS)
			case got.im != k.NSMod[want.NS]:
				add("once", "", "%s: node %s has instantiating module %q, want %q", augDesc(a), want.Path, got.im, k.NSMod[want.NS])
			}
			if a.UniqueNames {
				i := strings.LastIndex(want.Path, "/")
				name, parent := want.Path[i+1:], want.Path[:i]
				for _, o := range byLast[name] {
					if o.mod == want.Mod && (o.path == want.Path || (o.path == parent && o.kind == "Case")) {
						continue
					}
					add("once", "", "%s: its node %s appears a second time at %s %s", augDesc(a), name, o.mod, o.path)
				}
			}
		}
	}
	if k.Forest != nil {
		want := map[key]gen.C07Node{}
		for _, w := range k.Forest {
			want[key{w.Mod, w.Path}] = w
			got, ok := have[key{w.Mod, w.Path}]
			switch {
			case w.Opt:
				// present or absent, not judged (gen/c07revsub.go: submodule nodes in an older revision, D63)
			case !ok:
				add("once", excuse(w.Mod, w.Path), "expected node %s %s is missing", w.Mod, w.Path)
			case !w.AnyNS && got.ns != w.NS:
				add("once", "", "node %s %s has namespace %q, want %q (innermost grafting module above it)", w.Mod, w.Path, got.ns, w.NS)
			case !w.AnyNS && got.im != k.NSMod[w.NS]:
				add("once", "", "node %s %s has instantiating module %q, want %q", w.Mod, w.Path, got.im, k.NSMod[w.NS])
			}
		}
		for _, n := range nodes {
			if _, ok := want[key{n.mod, n.path}]; !ok {
				add("once", "", "unexpected node %s %s (ns %s)", n.mod, n.path, n.ns)
			}
		}
	}
	return out
}

// ---- oracle (b): permutations --------------------------------------------------------------------

func perms(n int) [][]int {
	var out [][]int
	p := make([]int, n)
	for i := range p {
		p[i] = i
	}
	var rec func(i int)
	rec = func(i int) {
		if i == n {
			out = append(out, append([]int{}, p...))
			return
		}
		for j := i; j < n; j++ {
			p[i], p[j] = p[j], p[i]
			rec(i + 1)
			p[i], p[j] = p[j], p[i]
		}
	}
	rec(0)
	return out
}

type variant struct {
	order []int         // order[i] = index of the base file loaded i-th
	augs  map[int][]int // base file index -> permutation of its augment lines
}

func (v variant) String(names []string) string {
	var o []string
	for _, i := range v.order {
		o = append(o, names[i])
	}
	s := "load order " + strings.Join(o, ",")
	var fs []int
	for i := range v.augs {
		fs = append(fs, i)
	}
	sort.Ints(fs)
	for _, i := range fs {
		s += fmt.Sprintf("; augments of %s in order %v", names[i], v.augs[i])
	}
	return s
}

func variants(c rescorr.Case, k *know) []variant {
	nf := len(c.Names)
	var files []int // files with an augment block
	total := 0
	for i, n := range c.Names {
		if b, ok := k.Blocks[n]; ok && b[1] > 0 {
			files = append(files, i)
			total += b[1]
		}
	}
	var out []variant
	if total <= 4 && nf <= 4 {
		combos := []map[int][]int{{}}
		for _, fi := range files {
			var next []map[int][]int
			for _, p := range perms(k.Blocks[c.Names[fi]][1]) {
				for _, cm := range combos {
					m := map[int][]int{}
					for a, b := range cm {
						m[a] = b
					}
					m[fi] = p
					next = append(next, m)
				}
			}
			combos = next
		}
		for _, o := range perms(nf) {
			for _, cm := range combos {
				out = append(out, variant{order: o, augs: cm})
			}
		}
		return out
	}
	r := rand.New(rand.NewSource(k.Seed))
	// always the base itself once more (run-to-run stability), then samples
	id := variant{order: r.Perm(nf), augs: map[int][]int{}}
	for i := range id.order {
		id.order[i] = i
	}
	for _, fi := range files {
		p := make([]int, k.Blocks[c.Names[fi]][1])
		for i := range p {
			p[i] = i
		}
		id.augs[fi] = p
	}
	out = append(out, id)
	for len(out) < k.MaxVariants {
		v := variant{order: r.Perm(nf), augs: map[int][]int{}}
		for _, fi := range files {
			v.augs[fi] = r.Perm(k.Blocks[c.Names[fi]][1])
		}
		out = append(out, v)
	}
	return out
}

func applyVariant(c rescorr.Case, k *know, v variant) rescorr.Case {
	texts := make([]string, len(c.Texts))
	copy(texts, c.Texts)
	for fi, p := range v.augs {
		b := k.Blocks[c.Names[fi]]
		lines := strings.Split(c.Texts[fi], "\n")
		nl := append([]string{}, lines...)
		for j, src := range p {
			if b[0]-1+j < len(nl) && b[0]-1+src < len(lines) {
				nl[b[0]-1+j] = lines[b[0]-1+src]
			}
		}
		texts[fi] = strings.Join(nl, "\n")
	}
	vc := rescorr.Case{IgnoreCircular: c.IgnoreCircular, IgnoreNotSupported: c.IgnoreNotSupported}
	for _, i := range v.order {
		vc.Names = append(vc.Names, c.Names[i])
		vc.Texts = append(vc.Texts, texts[i])
	}
	return vc
}

func runVariant(vc rescorr.Case) (dump []string, parseErr, panicMsg string) {
	defer func() {
		if r := recover(); r != nil {
			panicMsg = fmt.Sprint(r)
		}
	}()
	ms, err := rescorr.Load(vc)
	if err != nil {
		return nil, err.Error(), ""
	}
	errs := ms.Process()
	return lib.DumpOutcome(ms, errs), "", ""
}

// errKey maps the errors of a variant back to the base layout; duplicate-node errors are reduced to their presence.
func errKey(d []string, c rescorr.Case, k *know, v *variant) (set []string, dup bool) {
	_, errs := parseDump(d)
	for _, e := range errs {
		if e.class == "duplicate-node" {
			dup = true
			continue
		}
		if v != nil {
			for fi, p := range v.augs {
				b := k.Blocks[c.Names[fi]]
				if e.file == c.Names[fi] && e.line >= b[0] && e.line < b[0]+b[1] {
					e.line = b[0] + p[e.line-b[0]]
					break
				}
			}
		}
		set = append(set, fmt.Sprintf("%s:%d:%d:%s", e.file, e.line, e.col, e.class))
	}
	sort.Strings(set)
	return
}

func readable(d []string, max int) []string {
	var out []string
	for i, r := range lib.Project(d, keys, true) {
		if i >= max {
			out = append(out, "...")
			break
		}
		out = append(out, rescorr.Readable(r))
	}
	return out
}

// historyRuns: load orders with an intermediate Process: the first pos texts are parsed, Process runs
// (its result is ignored), the rest is parsed, Process runs again. Every Process run starts from a
// clean slate, so the last run has to give what one run over all texts gives. For sets with several
// revisions of one name (there the meaning of a plain import changes when a newer revision arrives)
// and for every third other set; all positions of the base order when the set has at most 5 files,
// plus random orders with random positions.
func historyRuns(c rescorr.Case, k *know) (vs []variant, pos []int) {
	n := len(c.Names)
	if rescorr.FromPath(c) || c.Extra["process_after"] != "" || n < 2 {
		return
	}
	multi := false
	for _, nm := range c.Names {
		if strings.Contains(nm, "@") {
			multi = true
		}
	}
	if !multi && k.Seed%3 != 0 {
		return
	}
	r := rand.New(rand.NewSource(k.Seed*31 + 7))
	random := func(identity bool) variant {
		v := variant{order: r.Perm(n), augs: map[int][]int{}}
		for i, nm := range c.Names {
			if b, ok := k.Blocks[nm]; ok && b[1] > 0 {
				v.augs[i] = r.Perm(b[1])
				if identity {
					for j := range v.augs[i] {
						v.augs[i][j] = j
					}
				}
			}
		}
		if identity {
			for i := range v.order {
				v.order[i] = i
			}
		}
		return v
	}
	id := random(true)
	if n <= 5 {
		for p := 1; p < n; p++ {
			vs, pos = append(vs, id), append(pos, p)
		}
	} else {
		for i := 0; i < 2; i++ {
			vs, pos = append(vs, id), append(pos, 1+r.Intn(n-1))
		}
	}
	extra := 2
	if multi {
		extra = 6
	}
	for i := 0; i < extra; i++ {
		vs, pos = append(vs, random(false)), append(pos, 1+r.Intn(n-1))
	}
	return
}

func oraclePerm(c rescorr.Case, k *know, out *rescorr.GoOut) {
	base := out.Dump
	baseErr := rescorr.HasErrors(base)
	baseSet, baseDup := errKey(base, c, k, nil)
	vs := variants(c, k)
	after := make([]int, len(vs)) // 0: no intermediate Process
	hv, hp := historyRuns(c, k)
	vs, after = append(vs, hv...), append(after, hp...)
	n, nh := 0, 0
	cur := ""
	report := func(kind string, v variant, vdump []string, what string) {
		if kind == "perm" && cur != "" {
			kind = "history"
		}
		out.Findings = append(out.Findings, fmt.Sprintf("%s[]: %s%s: %s", kind, v.String(c.Names), cur, what))
		if out.Extra["variant"] == nil {
			out.Extra["variant"] = []string{v.String(c.Names) + cur}
			out.Extra["variant_outcome"] = readable(vdump, 80)
		}
	}
	bad := 0
	for vi, v := range vs {
		vc := applyVariant(c, k, v)
		cur = ""
		if after[vi] > 0 {
			vc.Extra = map[string]string{"process_after": strconv.Itoa(after[vi])}
			cur = fmt.Sprintf("; Process also after the first %d texts", after[vi])
			nh++
			n--
		}
		d, perr, pmsg := runVariant(vc)
		n++
		switch {
		case pmsg != "":
			report("crash", v, nil, "goyang panicked: "+pmsg)
			bad++
		case perr != "":
			report("perm", v, nil, "Parse rejects a text that it accepted in the base order: "+perr)
			bad++
		case !baseErr:
			if diff := rescorr.Diff(base, d); diff != "" {
				if rescorr.HasErrors(d) {
					_, es := parseDump(d)
					diff = "clean in the base order, errors here: " + errStrings(es)
				}
				report("perm", v, d, "outcome differs from the base order: "+diff)
				bad++
			}
		default:
			if !rescorr.HasErrors(d) {
				report("perm", v, d, "errors in the base order ("+strings.Join(baseSet, " ")+"), clean here")
				bad++
				break
			}
			set, dup := errKey(d, c, k, &v)
			if strings.Join(set, " ") != strings.Join(baseSet, " ") || dup != baseDup {
				report("perm", v, d, fmt.Sprintf("error set differs: base {%s dup=%v} variant (positions mapped back) {%s dup=%v}",
					strings.Join(baseSet, " "), baseDup, strings.Join(set, " "), dup))
				bad++
			}
		}
		if bad >= 3 {
			break
		}
	}
	out.Extra["variants"] = []string{strconv.Itoa(n)}
	out.Extra["history_variants"] = []string{strconv.Itoa(nh)}
}

func hook(c rescorr.Case, ms *yang.Modules, errs []error, out *rescorr.GoOut) {
	k := getKnow(c)
	if k == nil {
		return
	}
	if out.Extra == nil {
		out.Extra = map[string][]string{}
	}
	if k.Outside {
		// using an implicit case as a target is outside the claim: compared with the model only
		out.Extra["outside_claim"] = []string{"1"}
		return
	}
	if rescorr.FromPath(c) && len(out.Extra["loaded"]) != len(c.Names) {
		// files on disk: generator knowledge speaks about the whole set; when Process did not load
		// every file (cannot happen while every module imports all others) the oracles do not apply
		out.Extra["partial_load"] = []string{"1"}
		return
	}
	out.Findings = append(out.Findings, oracleOnce(k, out.Dump)...)
	// for a files-on-disk case the base outcome comes from the implicit load, every variant hands all
	// texts over explicitly (in permuted order): both ways of loading must give the same outcome
	oraclePerm(c, k, out)
}

// ---- cases ---------------------------------------------------------------------------------------

func caseOf(s *gen.C07Set, seed int64, maxVariants int) rescorr.Case {
	names, texts := s.Files()
	k := know{Shape: s.Shape, Shapes: s.Shapes, Augs: s.Augs, Blocks: s.AugBlocks, ExpectClean: s.ExpectClean, Outside: s.OutsideClaim, IONamed: s.IONamed,
		Forest: s.Forest, NSMod: map[string]string{}, Seed: seed, MaxVariants: maxVariants}
	for _, m := range s.Mods {
		if !m.Sub {
			k.NSMod[m.Namespace] = m.Name
		}
	}
	b, _ := json.Marshal(k)
	return rescorr.Case{Names: names, Texts: texts, Extra: map[string]string{"c07": string(b)}}
}

// caseOfRevSub: a set of the family "revisions of a module that include the same submodule(s)".
func caseOfRevSub(s *gen.C07RevSubSet, seed int64, maxVariants int) rescorr.Case {
	k := know{Shape: gen.C07RevSubShape + ":" + s.Layout, Augs: s.Augs, Blocks: s.AugBlocks, ExpectClean: s.ExpectClean, Forest: s.Forest,
		NSMod: s.NSMod, Seed: seed, MaxVariants: maxVariants}
	b, _ := json.Marshal(k)
	return rescorr.Case{Names: s.Names, Texts: s.Texts, Extra: map[string]string{"c07": string(b)}}
}

// pathCase is the files-on-disk variant of a generated case (rescorr.FromPath): only the roots are
// handed to Parse, everything else lies on the search path and is read by Process while it links
// imports and includes. Roots: a random non-empty subset of the modules, often a single one, plus
// now and then a submodule of a root module (never a submodule without its module: finding D04-P1).
// Every module of a generated set imports all others, so the whole set ends up loaded and the
// generator knowledge applies as it stands. Sets with several revisions of one name are left out
// (rescorr does not ask the model for them, and a bare import would pick a file by name).
func pathCase(c rescorr.Case, s *gen.C07Set, r *rand.Rand) (rescorr.Case, bool) {
	for _, n := range c.Names {
		if strings.Contains(n, "@") {
			return c, false
		}
	}
	var mods []int
	for i, m := range s.Mods {
		if !m.Sub {
			mods = append(mods, i)
		}
	}
	if len(mods) == 0 || len(s.Mods) < 2 {
		return c, false
	}
	root := map[int]bool{}
	if r.Intn(2) == 0 {
		root[mods[r.Intn(len(mods))]] = true
	} else {
		for _, i := range mods {
			if r.Intn(2) == 0 {
				root[i] = true
			}
		}
		if len(root) == 0 || len(root) == len(s.Mods) {
			root = map[int]bool{mods[r.Intn(len(mods))]: true}
		}
	}
	for i, m := range s.Mods {
		if m.Sub && r.Intn(5) == 0 {
			for j, o := range s.Mods {
				if o == m.Owner && root[j] {
					root[i] = true
				}
			}
		}
	}
	if len(root) == len(s.Mods) {
		return c, false
	}
	var rs []string
	for i := range s.Mods {
		if root[i] {
			rs = append(rs, strconv.Itoa(i))
		}
	}
	r.Shuffle(len(rs), func(i, j int) { rs[i], rs[j] = rs[j], rs[i] })
	pc := c
	pc.Extra = map[string]string{"c07": c.Extra["c07"], "label": "path", "from_path": "1", "roots": strings.Join(rs, ",")}
	return pc, true
}

// historyCase: for a set with several revisions of one name, the same texts in the order "older
// revisions and everything else first, the newest revision of each name last", with a Process before
// the newest revisions arrive (rescorr: process_after). The outcome of the last Process is compared
// with the model (which knows no history: one run over all texts) and with all explicit orders.
func historyCase(c rescorr.Case) (rescorr.Case, bool) {
	newest := map[string]string{}
	for _, n := range c.Names {
		if i := strings.Index(n, "@"); i > 0 && n > newest[n[:i]] {
			newest[n[:i]] = n
		}
	}
	if len(newest) == 0 {
		return c, false
	}
	hc := rescorr.Case{IgnoreCircular: c.IgnoreCircular, IgnoreNotSupported: c.IgnoreNotSupported}
	var lastN, lastT []string
	for i, n := range c.Names {
		j := strings.Index(n, "@")
		if j > 0 && newest[n[:j]] == n {
			lastN, lastT = append(lastN, n), append(lastT, c.Texts[i])
			continue
		}
		hc.Names, hc.Texts = append(hc.Names, n), append(hc.Texts, c.Texts[i])
	}
	k := len(hc.Names)
	if k == 0 {
		return c, false
	}
	hc.Names, hc.Texts = append(hc.Names, lastN...), append(hc.Texts, lastT...)
	hc.Extra = map[string]string{"c07": c.Extra["c07"], "label": "history", "process_after": strconv.Itoa(k)}
	return hc, true
}

// implicitAugments counts the augment statements of a files-on-disk case that are written in files
// the caller did not hand over.
func implicitAugments(c rescorr.Case, k *know) int {
	root := map[string]bool{}
	for _, f := range strings.Split(c.Extra["roots"], ",") {
		if i, err := strconv.Atoi(f); err == nil && i >= 0 && i < len(c.Names) {
			root[c.Names[i]] = true
		}
	}
	n := 0
	for _, a := range k.Augs {
		if !root[a.File] {
			n++
		}
	}
	return n
}

// corpusCase builds a hand-written set: every line that starts with "  augment " is one augment
// statement, augs gives the knowledge in order of appearance (file order, then line order).
type cAug struct {
	expect string
	nodes  []gen.C07Node
	flag   string
}

func corpusCase(label string, names, texts []string, nsmod map[string]string, augs []cAug, forest []gen.C07Node, seed int64) rescorr.Case {
	k := know{Shape: "corpus:" + label, Blocks: map[string][2]int{}, ExpectClean: true, NSMod: nsmod, Seed: seed, MaxVariants: 24, Forest: forest}
	id := 0
	for fi, t := range texts {
		first, cnt := 0, 0
		for li, line := range strings.Split(t, "\n") {
			if !strings.HasPrefix(line, "  augment ") {
				continue
			}
			if cnt == 0 {
				first = li + 1
			}
			cnt++
			if id >= len(augs) {
				lib.Fatal("corpus %s: more augment lines than knowledge", label)
			}
			arg := strings.TrimSuffix(strings.Fields(line)[1], ";") // (an augment without body: `augment "/p:x";`)
			mod := strings.TrimSuffix(names[fi], ".yang")
			a := &gen.C07Aug{ID: id, File: names[fi], Line: li + 1, Module: mod, TargetArg: strings.Trim(arg, `"`), Expect: augs[id].expect,
				Nodes: augs[id].nodes, Shape: "corpus", UniqueNames: augs[id].flag != "notunique", Childless: strings.HasPrefix(label, "childless")}
			switch augs[id].flag {
			case "subnoprefix":
				a.SubNoPrefix = true
			case "actionnoio":
				a.ActionNoIO = true
			case "shareduses":
				a.SharedUses = true
			}
			if a.Expect != gen.C07Apply {
				k.ExpectClean = false
			}
			k.Augs = append(k.Augs, a)
			id++
		}
		if cnt > 0 {
			k.Blocks[names[fi]] = [2]int{first, cnt}
		}
	}
	if id != len(augs) {
		lib.Fatal("corpus %s: %d augment lines, %d knowledge entries", label, id, len(augs))
	}
	b, _ := json.Marshal(k)
	return rescorr.Case{Names: names, Texts: texts, Extra: map[string]string{"c07": string(b)}}
}

func hdr(name string, others ...string) string {
	s := fmt.Sprintf("module %s {\n  namespace \"urn:%s\";\n  prefix p%s;\n", name, name, name)
	for _, o := range others {
		if strings.Contains(o, "-") {
			s += fmt.Sprintf("  include %s;\n", o)
		} else {
			s += fmt.Sprintf("  import %s { prefix p%s; }\n", o, o)
		}
	}
	return s
}

func nd(mod, path, ns string) gen.C07Node { return gen.C07Node{Mod: mod, Path: path, NS: ns} }

func corpus(seed int64) []rescorr.Case {
	abc := map[string]string{"urn:a": "a", "urn:b": "b", "urn:c": "c"}
	ap := func(n ...gen.C07Node) cAug { return cAug{expect: gen.C07Apply, nodes: n} }
	var out []rescorr.Case
	add := func(label string, names, texts []string, augs ...cAug) {
		out = append(out, corpusCase(label, names, texts, abc, augs, nil, seed+int64(len(out))))
	}
	// addF: with the complete expected forest, so that nodes nobody should have added are seen
	addF := func(label string, names, texts []string, forest []gen.C07Node, augs ...cAug) {
		out = append(out, corpusCase(label, names, texts, abc, augs, forest, seed+int64(len(out))))
	}
	// 1. chain of four links over three modules in the worst order: the module visited first holds the
	// last links, and writes the dependent one first
	add("chain-worst", []string{"a.yang", "b.yang", "c.yang"}, []string{
		hdr("a", "b", "c") +
			"  augment \"/pc:top/pc:l1/pb:l2/pa:l3\" { leaf l4 { type string; } }\n" +
			"  augment \"/pc:top/pc:l1/pb:l2\" { container l3 { leaf z3 { type string; } } }\n}\n",
		hdr("b", "c") +
			"  augment \"/pc:top/pc:l1\" { container l2 { leaf z2 { type string; } } }\n}\n",
		hdr("c") + "  container top {\n    leaf t { type string; }\n  }\n" +
			"  augment \"/pc:top\" { container l1 { leaf z1 { type string; } } }\n}\n"},
		ap(nd("c", "/c/top/l1/l2/l3/l4", "urn:a")), ap(nd("c", "/c/top/l1/l2/l3", "urn:a")),
		ap(nd("c", "/c/top/l1/l2", "urn:b")), ap(nd("c", "/c/top/l1", "urn:c")))
	// 2. target created by uses of an imported grouping; two instances, one augmented
	add("uses-target", []string{"a.yang", "b.yang"}, []string{
		hdr("a", "b") + "  container u1 {\n    uses pb:g;\n  }\n  container u2 {\n    uses pb:g;\n  }\n}\n",
		hdr("b", "a") + "  grouping g {\n    container gc {\n      leaf gl { type string; }\n    }\n  }\n" +
			"  augment \"/pa:u1/pa:gc\" { leaf only1 { type string; } }\n}\n"},
		ap(nd("a", "/a/u1/gc/only1", "urn:b")))
	// 3. rpc input and output that the source writes
	add("rpc-io", []string{"a.yang", "b.yang"}, []string{
		hdr("a") + "  rpc r {\n    input {\n      leaf i { type string; }\n    }\n    output {\n      leaf o { type string; }\n    }\n  }\n}\n",
		hdr("b", "a") + "  augment \"/pa:r/pa:input\" { leaf bi { type string; } }\n" +
			"  augment \"/pa:r/pa:output\" { container bo { leaf x { type string; } } }\n}\n"},
		ap(nd("a", "/a/r/input/bi", "urn:b")), ap(nd("a", "/a/r/output/bo", "urn:b")))
	// 4. rpc without input/output statement; a chain through the implicit input
	add("rpc-implicit-io", []string{"a.yang", "b.yang"}, []string{
		hdr("a", "b") + "  rpc r;\n" +
			"  augment \"/pa:r/pa:input/pb:bi\" { leaf ai { type string; } }\n}\n",
		hdr("b", "a") + "  augment \"/pa:r/pa:input\" { container bi { leaf x { type string; } } }\n" +
			"  augment \"/pa:r/pa:output\" { leaf bo { type string; } }\n}\n"},
		ap(nd("a", "/a/r/input/bi/ai", "urn:a")), ap(nd("a", "/a/r/input/bi", "urn:b")), ap(nd("a", "/a/r/output/bo", "urn:b")))
	// 5. two modules define the same child name in one target
	add("collision-two-modules", []string{"a.yang", "b.yang", "c.yang"}, []string{
		hdr("a", "c") + "  augment \"/pc:top\" { leaf dup { type string; } }\n}\n",
		hdr("b", "c") + "  augment \"/pc:top\" { leaf dup { type int8; } }\n}\n",
		hdr("c") + "  container top {\n    leaf t { type string; }\n  }\n}\n"},
		cAug{expect: gen.C07Collide}, cAug{expect: gen.C07Collide})
	// 6. targets that cannot have children
	add("leaf-target", []string{"a.yang", "b.yang"}, []string{
		hdr("a") + "  container top {\n    leaf t { type string; }\n    leaf-list tl { type string; }\n    anyxml ax;\n    anydata ad;\n  }\n}\n",
		hdr("b", "a") + "  augment \"/pa:top/pa:t\" { leaf x1 { type string; } }\n" +
			"  augment \"/pa:top/pa:tl\" { leaf x2 { type string; } }\n" +
			"  augment \"/pa:top/pa:ax\" { leaf x3 { type string; } }\n" +
			"  augment \"/pa:top/pa:ad\" { leaf x4 { type string; } }\n}\n"},
		cAug{expect: gen.C07NoChildren}, cAug{expect: gen.C07NoChildren}, cAug{expect: gen.C07NoChildren}, cAug{expect: gen.C07NoChildren})
	// 7. missing targets, an applying augment beside them, a dependent of a missing one
	add("missing", []string{"a.yang", "b.yang"}, []string{
		hdr("a") + "  container top {\n    leaf t { type string; }\n  }\n}\n",
		hdr("b", "a") + "  augment \"/pa:top/pb:m1/pb:m2\" { leaf x1 { type string; } }\n" +
			"  augment \"/pa:top/pa:nosuch\" { container m1 { container m2; } }\n" +
			"  augment \"/pa:top\" { leaf ok { type string; } }\n" +
			"  augment \"/zz:top\" { leaf x2 { type string; } }\n}\n"},
		cAug{expect: gen.C07MissingT}, cAug{expect: gen.C07MissingT}, ap(nd("a", "/a/top/ok", "urn:b")), cAug{expect: gen.C07MissingT})
	// 8. error inside the body
	add("body-error", []string{"a.yang", "b.yang"}, []string{
		hdr("a") + "  container top {\n    leaf t { type string; }\n  }\n}\n",
		hdr("b", "a") + "  augment \"/pa:top\" { container bc { uses nosuchgrouping; } }\n}\n"},
		cAug{expect: gen.C07BodyErr})
	add("body-error-type", []string{"a.yang", "b.yang"}, []string{
		hdr("a") + "  container top {\n    leaf t { type string; }\n  }\n}\n",
		hdr("b", "a") + "  augment \"/pa:top\" { leaf bl { type nosuchtype; } }\n}\n"},
		cAug{expect: gen.C07BodyErr})
	// 9. submodules: a node of a submodule as target (from another module and from the owner), augments written in a submodule
	add("submodule", []string{"a.yang", "a-s1.yang", "b.yang"}, []string{
		hdr("a", "b", "a-s1") + "  container x {\n    leaf l { type string; }\n  }\n" +
			"  augment \"/pa:xs/y\" { leaf fromowner { type string; } }\n}\n",
		"submodule a-s1 {\n  belongs-to a { prefix pa; }\n  import b { prefix pb; }\n  container xs {\n    container y {\n      leaf q { type string; }\n    }\n  }\n" +
			"  augment \"/pa:x\" { leaf fromsub1 { type string; } }\n" +
			"  augment \"/pb:bt/pb:fromb\" { leaf fromsub2 { type string; } }\n" +
			"  augment \"/pa:xs/pa:y/pb:fromb2\" { leaf fromsub3 { type string; } }\n}\n",
		hdr("b", "a") + "  container bt {\n    container fromb;\n  }\n" +
			"  augment \"/pa:xs/pa:y\" { container fromb2 { leaf q { type string; } } }\n}\n"},
		ap(nd("a", "/a/xs/y/fromowner", "urn:a")), ap(nd("a", "/a/x/fromsub1", "urn:a")), ap(nd("b", "/b/bt/fromb/fromsub2", "urn:a")),
		ap(nd("a", "/a/xs/y/fromb2/fromsub3", "urn:a")), ap(nd("a", "/a/xs/y/fromb2", "urn:b")))
	// 10. choice, explicit case, container inside a case; a case and a shorthand member added to the choice
	add("choice-case", []string{"a.yang", "b.yang"}, []string{
		hdr("a") + "  choice ch {\n    case c1 {\n      container cc {\n        leaf q { type string; }\n      }\n    }\n  }\n}\n",
		hdr("b", "a") + "  augment \"/pa:ch\" { case bcase { container bcc { leaf q { type string; } } } leaf bshort { type string; } }\n" +
			"  augment \"/pa:ch/pa:c1\" { leaf bin { type string; } }\n" +
			"  augment \"/pa:ch/pa:c1/pa:cc\" { list bl { key k; leaf k { type string; } } }\n" +
			"  augment \"/pa:ch/pb:bcase/pb:bcc\" { leaf deep { type string; } }\n}\n"},
		ap(nd("a", "/a/ch/bcase", "urn:b"), nd("a", "/a/ch/bshort/bshort", "urn:b")), ap(nd("a", "/a/ch/c1/bin", "urn:b")),
		ap(nd("a", "/a/ch/c1/cc/bl", "urn:b")), ap(nd("a", "/a/ch/bcase/bcc/deep", "urn:b")))
	// 11. notification and action output
	add("notification-action", []string{"a.yang", "b.yang"}, []string{
		hdr("a") + "  notification n {\n    container nc;\n  }\n  container x {\n    action act {\n      input {\n        leaf i { type string; }\n      }\n    }\n  }\n}\n",
		hdr("b", "a") + "  augment \"/pa:n\" { leaf b1 { type string; } }\n" +
			"  augment \"/pa:n/pa:nc\" { leaf b2 { type string; } }\n" +
			"  augment \"/pa:x/pa:act/pa:output\" { leaf b3 { type string; } }\n}\n"},
		ap(nd("a", "/a/n/b1", "urn:b")), ap(nd("a", "/a/n/nc/b2", "urn:b")), ap(nd("a", "/a/x/act/output/b3", "urn:b")))
	// 12. augment written in a submodule, first step without prefix: the owner's tree is meant
	add("sub-noprefix", []string{"a.yang", "a-s1.yang"}, []string{
		hdr("a", "a-s1") + "  container x {\n    leaf l { type string; }\n  }\n}\n",
		"submodule a-s1 {\n  belongs-to a { prefix pa; }\n  container xs {\n    leaf q { type string; }\n  }\n" +
			"  augment \"/xs\" { leaf s1 { type string; } }\n}\n"},
		cAug{expect: gen.C07Apply, nodes: []gen.C07Node{nd("a", "/a/xs/s1", "urn:a")}, flag: "subnoprefix"})
	add("sub-noprefix-owner-node", []string{"a.yang", "a-s1.yang"}, []string{
		hdr("a", "a-s1") + "  container x {\n    leaf l { type string; }\n  }\n}\n",
		"submodule a-s1 {\n  belongs-to a { prefix pa; }\n  container xs {\n    leaf q { type string; }\n  }\n" +
			"  augment \"/x\" { leaf s1 { type string; } }\n}\n"},
		cAug{expect: gen.C07Apply, nodes: []gen.C07Node{nd("a", "/a/x/s1", "urn:a")}, flag: "subnoprefix"})
	// 13. action without input and output: implicit input/output
	add("action-no-io", []string{"a.yang", "b.yang"}, []string{
		hdr("a") + "  container x {\n    action act;\n  }\n}\n",
		hdr("b", "a") + "  augment \"/pa:x/pa:act/pa:input\" { leaf b1 { type string; } }\n}\n"},
		cAug{expect: gen.C07Apply, nodes: []gen.C07Node{nd("a", "/a/x/act/input/b1", "urn:b")}, flag: "actionnoio"})
	// 14. rpc and action nodes themselves as targets: their only children are input and output
	add("rpc-node-target", []string{"a.yang", "b.yang"}, []string{
		hdr("a") + "  rpc r1;\n  rpc r2 {\n    input {\n      leaf i { type string; }\n    }\n  }\n  container x {\n    action act {\n      output {\n        leaf o { type string; }\n      }\n    }\n  }\n}\n",
		hdr("b", "a") + "  augment \"/pa:r1\" { leaf x1 { type string; } }\n" +
			"  augment \"/pa:r2\" { container x2 { leaf q { type string; } } }\n" +
			"  augment \"/pa:x/pa:act\" { leaf x3 { type string; } }\n" +
			"  augment \"/pa:x\" { leaf ok { type string; } }\n}\n"},
		cAug{expect: gen.C07NoChildren}, cAug{expect: gen.C07NoChildren}, cAug{expect: gen.C07NoChildren}, ap(nd("a", "/a/x/ok", "urn:b")))
	// 15./16. a childless container inside a grouping that is used at three places: every instance is a
	// node of its own. The same child name into two instances does not collide; an instance nobody
	// augments stays empty.
	gbase := []string{
		hdr("a") + "  grouping g {\n    container e;\n  }\n  container x {\n    uses g;\n  }\n  container y {\n    uses pa:g;\n  }\n}\n",
		hdr("b", "a") + "  container z {\n    uses pa:g;\n  }\n",
		hdr("c", "a"),
	}
	gforest := func(extra ...gen.C07Node) []gen.C07Node {
		return append([]gen.C07Node{nd("a", "/a", "urn:a"), nd("a", "/a/x", "urn:a"), nd("a", "/a/x/e", "urn:a"), nd("a", "/a/y", "urn:a"),
			nd("a", "/a/y/e", "urn:a"), nd("b", "/b", "urn:b"), nd("b", "/b/z", "urn:b"), nd("b", "/b/z/e", "urn:b"), nd("c", "/c", "urn:c")}, extra...)
	}
	addF("childless-same-name-two-instances", []string{"a.yang", "b.yang", "c.yang"}, []string{gbase[0],
		gbase[1] + "  augment \"/pa:x/pa:e\" { leaf n1 { type string; } }\n}\n",
		gbase[2] + "  augment \"/pa:y/pa:e\" { leaf n1 { type string; } }\n}\n"},
		gforest(nd("a", "/a/x/e/n1", "urn:b"), nd("a", "/a/y/e/n1", "urn:c")),
		cAug{expect: gen.C07Apply, nodes: []gen.C07Node{nd("a", "/a/x/e/n1", "urn:b")}, flag: "notunique"},
		cAug{expect: gen.C07Apply, nodes: []gen.C07Node{nd("a", "/a/y/e/n1", "urn:c")}, flag: "notunique"})
	addF("childless-one-instance-only", []string{"a.yang", "b.yang", "c.yang"}, []string{gbase[0],
		gbase[1] + "}\n",
		gbase[2] + "  augment \"/pa:x/pa:e\" { container n1 { leaf q { type string; } } }\n" +
			"  augment \"/pa:y\" { leaf n2 { type string; } }\n}\n"},
		gforest(nd("a", "/a/x/e/n1", "urn:c"), nd("a", "/a/x/e/n1/q", "urn:c"), nd("a", "/a/y/n2", "urn:c")),
		ap(nd("a", "/a/x/e/n1", "urn:c")), ap(nd("a", "/a/y/n2", "urn:c")))
	// 17.-19. two augments of one target whose clashing children come from uses of ONE grouping: the
	// second cannot be applied and must be reported, although both copies stem from the same statements
	abcd := map[string]string{"urn:a": "a", "urn:b": "b", "urn:c": "c", "urn:d": "d"}
	coll := cAug{expect: gen.C07Collide, flag: "shareduses"}
	out = append(out, corpusCase("shared-grouping-across-modules", []string{"a.yang", "b.yang", "c.yang", "d.yang"}, []string{
		hdr("a") + "  container top {\n    leaf own { type string; }\n  }\n}\n",
		hdr("b", "a", "c") + "  augment \"/pa:top\" { uses pc:g; }\n}\n",
		hdr("c") + "  grouping g {\n    leaf shared { type string; }\n    container box {\n      leaf inner { type string; }\n    }\n  }\n}\n",
		hdr("d", "a", "c") + "  augment \"/pa:top\" { uses pc:g; leaf extra { type string; } }\n}\n"},
		abcd, []cAug{coll, coll}, nil, seed+int64(len(out))))
	add("shared-grouping-same-module", []string{"a.yang", "b.yang"}, []string{
		hdr("a") + "  container top;\n}\n",
		hdr("b", "a") + "  grouping g {\n    leaf shared { type string; }\n  }\n" +
			"  augment \"/pa:top\" { uses g; }\n" +
			"  augment \"/pa:top\" { uses g; }\n}\n"},
		coll, coll)
	add("shared-grouping-module-and-submodule", []string{"a.yang", "b.yang", "b-s1.yang"}, []string{
		hdr("a") + "  container top {\n    leaf own { type string; }\n  }\n}\n",
		hdr("b", "a", "b-s1") + "  augment \"/pa:top\" { uses g; }\n}\n",
		"submodule b-s1 {\n  belongs-to b { prefix pb; }\n  import a { prefix pa; }\n  grouping g {\n    container box {\n      leaf inner { type string; }\n    }\n  }\n" +
			"  augment \"/pa:top\" { leaf before { type string; } uses g; leaf after { type string; } }\n}\n"},
		coll, coll)
	// 20.-22. several revisions of one module (or submodule) loaded at once: the augments of every
	// loaded revision are applied or reported, not only those of the revision the bare name denotes
	rbase := "module base {\n  namespace \"urn:base\";\n  prefix b;\n  container c {\n    leaf l { type string; }\n  }\n}\n"
	rnm := map[string]string{"urn:base": "base", "urn:ext": "ext", "urn:user": "user", "urn:bad": "bad", "urn:m": "m"}
	extRev := func(date, aug string) string {
		return "module ext {\n  namespace \"urn:ext\";\n  prefix e;\n  import base { prefix b; }\n  revision " + date + ";\n" + aug + "}\n"
	}
	out = append(out, corpusCase("revisions-old-augment-and-chain", []string{"base.yang", "ext@2020-01-01.yang", "ext@2021-01-01.yang", "user.yang"}, []string{
		rbase,
		extRev("2020-01-01", "  augment \"/b:c\" { container old-box { leaf o { type string; } } }\n"),
		extRev("2021-01-01", "  augment \"/b:c\" { container new-box { leaf n { type string; } } }\n"),
		"module user {\n  namespace \"urn:user\";\n  prefix u;\n  import base { prefix b; }\n  import ext { prefix e; revision-date 2020-01-01; }\n" +
			"  augment \"/b:c/e:old-box\" { leaf mine { type string; } }\n}\n"},
		rnm, []cAug{ap(nd("base", "/base/c/old-box", "urn:ext")), ap(nd("base", "/base/c/new-box", "urn:ext")), ap(nd("base", "/base/c/old-box/mine", "urn:user"))},
		[]gen.C07Node{nd("base", "/base", "urn:base"), nd("base", "/base/c", "urn:base"), nd("base", "/base/c/l", "urn:base"),
			nd("base", "/base/c/new-box", "urn:ext"), nd("base", "/base/c/new-box/n", "urn:ext"), nd("base", "/base/c/old-box", "urn:ext"),
			nd("base", "/base/c/old-box/mine", "urn:user"), nd("base", "/base/c/old-box/o", "urn:ext"),
			nd("ext@2020-01-01", "/ext", "urn:ext"), nd("ext@2021-01-01", "/ext", "urn:ext"), nd("user", "/user", "urn:user")},
		seed+int64(len(out))))
	badRev := func(date, aug string) string {
		return "module bad {\n  namespace \"urn:bad\";\n  prefix bad;\n  import base { prefix b; }\n  revision " + date + ";\n" + aug + "}\n"
	}
	out = append(out, corpusCase("revisions-old-missing-target", []string{"base.yang", "bad@2020-01-01.yang", "bad@2021-01-01.yang"}, []string{
		rbase, badRev("2020-01-01", "  augment \"/b:c/b:nowhere\" { leaf x { type string; } }\n"), badRev("2021-01-01", "")},
		rnm, []cAug{{expect: gen.C07MissingT}}, nil, seed+int64(len(out))))
	subRev := func(date, body string) string {
		return "submodule sub {\n  belongs-to m { prefix m; }\n  import base { prefix b; }\n  revision " + date + ";\n" + body + "}\n"
	}
	out = append(out, corpusCase("revisions-of-a-submodule", []string{"base.yang", "m.yang", "sub@2020-01-01.yang", "sub@2021-01-01.yang"}, []string{
		rbase,
		"module m {\n  namespace \"urn:m\";\n  prefix m;\n  import base { prefix b; }\n  include sub;\n  container mc {\n    leaf x { type string; }\n  }\n}\n",
		subRev("2020-01-01", "  container subold;\n  augment \"/b:c\" { leaf fromoldsub { type string; } }\n  augment \"/m:mc\" { leaf fromoldsub2 { type string; } }\n"),
		subRev("2021-01-01", "  container subnew;\n  augment \"/b:c\" { leaf fromnewsub { type string; } }\n")},
		rnm, []cAug{ap(nd("base", "/base/c/fromoldsub", "urn:m")), ap(nd("m", "/m/mc/fromoldsub2", "urn:m")), ap(nd("base", "/base/c/fromnewsub", "urn:m"))},
		[]gen.C07Node{nd("base", "/base", "urn:base"), nd("base", "/base/c", "urn:base"), nd("base", "/base/c/l", "urn:base"),
			nd("base", "/base/c/fromoldsub", "urn:m"), nd("base", "/base/c/fromnewsub", "urn:m"),
			nd("m", "/m", "urn:m"), nd("m", "/m/mc", "urn:m"), nd("m", "/m/mc/x", "urn:m"), nd("m", "/m/mc/fromoldsub2", "urn:m"), nd("m", "/m/subnew", "urn:m")},
		seed+int64(len(out))))
	// 23.-25. files on disk: only the top module is handed over, Process finds the rest on the search
	// path; the augments written in the implicitly loaded files are applied like all others
	onPath := func(c rescorr.Case, roots string) rescorr.Case {
		c.Extra = map[string]string{"c07": c.Extra["c07"], "label": "corpus-path", "from_path": "1", "roots": roots}
		return c
	}
	pnm := map[string]string{"urn:base": "base", "urn:ext": "ext", "urn:top": "top", "urn:host": "host"}
	pImport := corpusCase("path-import-chain", []string{"base.yang", "ext.yang", "top.yang"}, []string{
		"module base {\n  namespace \"urn:base\";\n  prefix b;\n  container c {\n    leaf name { type string; }\n  }\n}\n",
		"module ext {\n  namespace \"urn:ext\";\n  prefix e;\n  import base { prefix b; }\n" +
			"  augment \"/b:c\" { container box { leaf w { type string; } } }\n}\n",
		"module top {\n  namespace \"urn:top\";\n  prefix t;\n  import base { prefix b; }\n  import ext { prefix e; }\n" +
			"  augment \"/b:c/e:box\" { leaf y { type string; } }\n}\n"},
		pnm, []cAug{ap(nd("base", "/base/c/box", "urn:ext")), ap(nd("base", "/base/c/box/y", "urn:top"))},
		[]gen.C07Node{nd("base", "/base", "urn:base"), nd("base", "/base/c", "urn:base"), nd("base", "/base/c/name", "urn:base"),
			nd("base", "/base/c/box", "urn:ext"), nd("base", "/base/c/box/w", "urn:ext"), nd("base", "/base/c/box/y", "urn:top"),
			nd("ext", "/ext", "urn:ext"), nd("top", "/top", "urn:top")}, seed+int64(len(out)))
	out = append(out, onPath(pImport, "2"))
	pInclude := corpusCase("path-include", []string{"host.yang", "host-sub.yang"}, []string{
		"module host {\n  namespace \"urn:host\";\n  prefix h;\n  include host-sub;\n  container h {\n    leaf own { type string; }\n  }\n}\n",
		"submodule host-sub {\n  belongs-to host { prefix h; }\n" +
			"  augment \"/h:h\" { leaf s { type string; } }\n}\n"},
		pnm, []cAug{ap(nd("host", "/host/h/s", "urn:host"))},
		[]gen.C07Node{nd("host", "/host", "urn:host"), nd("host", "/host/h", "urn:host"), nd("host", "/host/h/own", "urn:host"), nd("host", "/host/h/s", "urn:host")},
		seed+int64(len(out)))
	out = append(out, onPath(pInclude, "0"))
	pMissing := corpusCase("path-missing-target-in-implicit-module", []string{"base.yang", "ext.yang", "top.yang"}, []string{
		"module base {\n  namespace \"urn:base\";\n  prefix b;\n  container c {\n    leaf name { type string; }\n  }\n}\n",
		"module ext {\n  namespace \"urn:ext\";\n  prefix e;\n  import base { prefix b; }\n" +
			"  augment \"/b:c/b:nowhere\" { leaf w { type string; } }\n}\n",
		"module top {\n  namespace \"urn:top\";\n  prefix t;\n  import base { prefix b; }\n  import ext { prefix e; }\n" +
			"  augment \"/b:c\" { leaf y { type string; } }\n}\n"},
		pnm, []cAug{{expect: gen.C07MissingT}, ap(nd("base", "/base/c/y", "urn:top"))}, nil, seed+int64(len(out)))
	out = append(out, onPath(pMissing, "2"))
	// 26.-28. what goes wrong while an augment is merged is recorded on the target; a deviation that
	// removes the target afterwards must not take the report with it
	dnm := map[string]string{"urn:t": "t", "urn:a": "a", "urn:d": "d"}
	dT := "module t {\n  namespace \"urn:t\";\n  prefix t;\n  container c {\n    leaf x { type string; }\n  }\n  container other {\n    leaf o { type string; }\n  }\n}\n"
	dD := "module d {\n  namespace \"urn:d\";\n  prefix d;\n  import t { prefix t; }\n  deviation \"/t:c\" {\n    deviate not-supported;\n  }\n}\n"
	dA := func(body string) string {
		return "module a {\n  namespace \"urn:a\";\n  prefix a;\n  import t { prefix t; }\n  augment \"/t:c\" { " + body + " }\n}\n"
	}
	out = append(out, corpusCase("clash-then-not-supported", []string{"t.yang", "a.yang", "d.yang"}, []string{dT,
		dA("leaf x { type string; } leaf z { type string; }"), dD},
		dnm, []cAug{{expect: gen.C07Collide}}, nil, seed+int64(len(out))))
	out = append(out, corpusCase("bad-body-then-not-supported", []string{"t.yang", "a.yang", "d.yang"}, []string{dT,
		dA("leaf q { type string; } container q;"), dD},
		dnm, []cAug{{expect: gen.C07BodyErr}}, nil, seed+int64(len(out))))
	out = append(out, corpusCase("clean-then-not-supported(control)", []string{"t.yang", "a.yang", "d.yang"}, []string{dT,
		dA("leaf z { type string; }"), dD},
		dnm, []cAug{{expect: gen.C07Apply, flag: "notunique"}},
		[]gen.C07Node{nd("t", "/t", "urn:t"), nd("t", "/t/other", "urn:t"), nd("t", "/t/other/o", "urn:t"), nd("a", "/a", "urn:a"), nd("d", "/d", "urn:d")},
		seed+int64(len(out))))
	// 29./30. import tables are per file: a module and its submodule (two sibling submodules) bind the
	// prefix t to different modules and write the same path string
	cnm := map[string]string{"urn:alpha": "alpha", "urn:beta": "beta", "urn:main": "main"}
	tmod := func(n string) string {
		return "module " + n + " {\n  namespace \"urn:" + n + "\";\n  prefix " + n + ";\n  container top {\n    leaf own { type string; }\n  }\n}\n"
	}
	cforest := func(extra ...gen.C07Node) []gen.C07Node {
		return append([]gen.C07Node{nd("alpha", "/alpha", "urn:alpha"), nd("alpha", "/alpha/top", "urn:alpha"), nd("alpha", "/alpha/top/own", "urn:alpha"),
			nd("beta", "/beta", "urn:beta"), nd("beta", "/beta/top", "urn:beta"), nd("beta", "/beta/top/own", "urn:beta"), nd("main", "/main", "urn:main")}, extra...)
	}
	out = append(out, corpusCase("per-file-prefix-owner-and-submodule", []string{"alpha.yang", "beta.yang", "main.yang", "main-sub.yang"}, []string{
		tmod("alpha"), tmod("beta"),
		"module main {\n  namespace \"urn:main\";\n  prefix main;\n  include main-sub;\n  import alpha { prefix t; }\n" +
			"  augment \"/t:top\" { leaf from-main { type string; } }\n}\n",
		"submodule main-sub {\n  belongs-to main { prefix main; }\n  import beta { prefix t; }\n" +
			"  augment \"/t:top\" { container from-sub { leaf x { type string; } } }\n}\n"},
		cnm, []cAug{ap(nd("alpha", "/alpha/top/from-main", "urn:main")), ap(nd("beta", "/beta/top/from-sub", "urn:main"))},
		cforest(nd("alpha", "/alpha/top/from-main", "urn:main"), nd("beta", "/beta/top/from-sub", "urn:main"), nd("beta", "/beta/top/from-sub/x", "urn:main")),
		seed+int64(len(out))))
	out = append(out, corpusCase("per-file-prefix-sibling-submodules", []string{"alpha.yang", "beta.yang", "main.yang", "main-s1.yang", "main-s2.yang"}, []string{
		tmod("alpha"), tmod("beta"),
		"module main {\n  namespace \"urn:main\";\n  prefix main;\n  include main-s1;\n  include main-s2;\n}\n",
		"submodule main-s1 {\n  belongs-to main { prefix main; }\n  import alpha { prefix t; }\n" +
			"  augment \"/t:top\" { leaf n1 { type string; } }\n}\n",
		"submodule main-s2 {\n  belongs-to main { prefix main; }\n  import beta { prefix t; }\n" +
			"  augment \"/t:top\" { leaf n1 { type string; } }\n}\n"},
		cnm, []cAug{{expect: gen.C07Apply, nodes: []gen.C07Node{nd("alpha", "/alpha/top/n1", "urn:main")}, flag: "notunique"},
			{expect: gen.C07Apply, nodes: []gen.C07Node{nd("beta", "/beta/top/n1", "urn:main")}, flag: "notunique"}},
		cforest(nd("alpha", "/alpha/top/n1", "urn:main"), nd("beta", "/beta/top/n1", "urn:main")),
		seed+int64(len(out))))
	// 31. a newer revision of the augmented module arrives after a first Process: the plain import of b
	// then means the newer revision, as in a fresh run over the three texts
	hist := corpusCase("history-newer-revision-after-a-process", []string{"a@2020-01-01.yang", "b.yang", "a@2021-01-01.yang"}, []string{
		"module a {\n  namespace \"urn:a\";\n  prefix a;\n  revision 2020-01-01;\n  container top {\n    leaf own { type string; }\n  }\n}\n",
		"module b {\n  namespace \"urn:b\";\n  prefix b;\n  import a { prefix a; }\n" +
			"  augment \"/a:top\" { container from-b { leaf x { type string; } } }\n}\n",
		"module a {\n  namespace \"urn:a\";\n  prefix a;\n  revision 2021-01-01;\n  revision 2020-01-01;\n  container top {\n    leaf own { type string; }\n    leaf newer { type string; }\n  }\n}\n"},
		abc, []cAug{ap(nd("a@2021-01-01", "/a/top/from-b", "urn:b"))},
		[]gen.C07Node{nd("a@2020-01-01", "/a", "urn:a"), nd("a@2020-01-01", "/a/top", "urn:a"), nd("a@2020-01-01", "/a/top/own", "urn:a"),
			nd("a@2021-01-01", "/a", "urn:a"), nd("a@2021-01-01", "/a/top", "urn:a"), nd("a@2021-01-01", "/a/top/own", "urn:a"),
			nd("a@2021-01-01", "/a/top/newer", "urn:a"), nd("a@2021-01-01", "/a/top/from-b", "urn:b"), nd("a@2021-01-01", "/a/top/from-b/x", "urn:b"),
			nd("b", "/b", "urn:b")},
		seed+int64(len(out)))
	out = append(out, hist)
	hist.Extra = map[string]string{"c07": hist.Extra["c07"], "label": "corpus-history", "process_after": "2"}
	out = append(out, hist)
	// 33.-35. ordinary data nodes called input / output (openconfig-qos has both) beside the input and
	// output of rpcs: as target, on the way to a target, grafted and then chained upon, as a leaf
	qnm := map[string]string{"urn:y": "y", "urn:x": "x", "urn:z": "z"}
	out = append(out, corpusCase("nodes-named-input-output-qos", []string{"y.yang", "x.yang", "z.yang"}, []string{
		"module y {\n  namespace \"urn:y\";\n  prefix y;\n  container qos {\n    container input {\n      leaf rate { type string; }\n      container queues;\n    }\n    container output;\n  }\n}\n",
		"module x {\n  namespace \"urn:x\";\n  prefix x;\n  import y { prefix y; }\n" +
			"  augment \"/y:qos/y:input\" { leaf burst { type string; } }\n" +
			"  augment \"/y:qos/y:input/y:queues\" { leaf depth { type string; } }\n" +
			"  augment \"/y:qos/y:output\" { container shaper { leaf peak { type string; } } }\n}\n",
		"module z {\n  namespace \"urn:z\";\n  prefix z;\n  import y { prefix y; }\n  import x { prefix x; }\n" +
			"  augment \"/y:qos/y:output/x:shaper\" { leaf mode { type string; } }\n}\n"},
		qnm, []cAug{ap(nd("y", "/y/qos/input/burst", "urn:x")), ap(nd("y", "/y/qos/input/queues/depth", "urn:x")),
			ap(nd("y", "/y/qos/output/shaper", "urn:x")), ap(nd("y", "/y/qos/output/shaper/mode", "urn:z"))},
		[]gen.C07Node{nd("y", "/y", "urn:y"), nd("y", "/y/qos", "urn:y"), nd("y", "/y/qos/input", "urn:y"), nd("y", "/y/qos/input/rate", "urn:y"),
			nd("y", "/y/qos/input/queues", "urn:y"), nd("y", "/y/qos/output", "urn:y"), nd("y", "/y/qos/input/burst", "urn:x"),
			nd("y", "/y/qos/input/queues/depth", "urn:x"), nd("y", "/y/qos/output/shaper", "urn:x"), nd("y", "/y/qos/output/shaper/peak", "urn:x"),
			nd("y", "/y/qos/output/shaper/mode", "urn:z"), nd("x", "/x", "urn:x"), nd("z", "/z", "urn:z")},
		seed+int64(len(out))))
	add("nodes-named-input-output-beside-rpc", []string{"a.yang", "b.yang"}, []string{
		hdr("a") + "  rpc r;\n  rpc r2 {\n    input {\n      container input {\n        leaf x { type string; }\n      }\n    }\n  }\n" +
			"  container c {\n    container input {\n      leaf x { type string; }\n    }\n    leaf output { type string; }\n  }\n" +
			"  choice ch {\n    case input {\n      container cc;\n    }\n  }\n}\n",
		hdr("b", "a") + "  augment \"/pa:r/pa:input\" { leaf b1 { type string; } }\n" +
			"  augment \"/pa:c/pa:input\" { leaf b2 { type string; } container input { leaf deep { type string; } } }\n" +
			"  augment \"/pa:c/pa:input/pb:input\" { leaf b3 { type string; } }\n" +
			"  augment \"/pa:r2/pa:input/pa:input\" { leaf b4 { type string; } }\n" +
			"  augment \"/pa:ch/pa:input/pa:cc\" { leaf b5 { type string; } }\n" +
			"  augment \"/pa:ch/pa:input\" { leaf b6 { type string; } }\n}\n"},
		ap(nd("a", "/a/r/input/b1", "urn:b")),
		cAug{expect: gen.C07Apply, nodes: []gen.C07Node{nd("a", "/a/c/input/b2", "urn:b"), nd("a", "/a/c/input/input", "urn:b")}, flag: "notunique"},
		ap(nd("a", "/a/c/input/input/b3", "urn:b")), ap(nd("a", "/a/r2/input/input/b4", "urn:b")),
		ap(nd("a", "/a/ch/input/cc/b5", "urn:b")), ap(nd("a", "/a/ch/input/b6", "urn:b")))
	add("leaf-named-output-and-collision-with-input", []string{"a.yang", "b.yang"}, []string{
		hdr("a") + "  container c {\n    container input {\n      leaf x { type string; }\n    }\n    leaf output { type string; }\n  }\n}\n",
		hdr("b", "a") + "  augment \"/pa:c/pa:output\" { leaf b1 { type string; } }\n" +
			"  augment \"/pa:c\" { container input { leaf b2 { type string; } } }\n}\n"},
		cAug{expect: gen.C07NoChildren}, cAug{expect: gen.C07Collide})
	// revisions of one module loaded together that include the SAME submodule: the latest revision (the
	// one a plain import, an import with its date, and the submodule's own paths denote) holds the
	// submodule's nodes, so augments aimed at them, below them, at what another augment made there, and
	// augments the submodule writes itself are applied exactly once in every load order. The submodule's
	// nodes in the older revision are not judged (D63).
	snm := map[string]string{"urn:t": "t", "urn:b": "b", "urn:c": "c"}
	tRev := func(date string) string {
		return "module t {\n  namespace \"urn:t\";\n  prefix t;\n  include ts;\n  revision " + date + ";\n  container own {\n    leaf o { type string; }\n  }\n}\n"
	}
	tSub := func(augs string) string {
		return "submodule ts {\n  belongs-to t { prefix t; }\n  import b { prefix b; }\n  container top {\n    leaf l { type string; }\n    container in;\n  }\n" + augs + "}\n"
	}
	opt := func(mod, path string) gen.C07Node { return gen.C07Node{Mod: mod, Path: path, NS: "urn:t", Opt: true} }
	out = append(out, corpusCase("revisions-sharing-a-submodule", []string{"t@2019-01-01.yang", "t@2020-01-01.yang", "ts.yang", "b.yang", "c.yang"}, []string{
		tRev("2019-01-01"), tRev("2020-01-01"),
		tSub("  augment \"/t:own\" { leaf fromsub { type string; } }\n  augment \"/t:top/b:x\" { leaf fromsub2 { type string; } }\n"),
		"module b {\n  namespace \"urn:b\";\n  prefix b;\n  import t { prefix t; }\n" +
			"  augment \"/t:top\" { container x { leaf y { type string; } } }\n}\n",
		"module c {\n  namespace \"urn:c\";\n  prefix c;\n  import t { prefix t; revision-date 2020-01-01; }\n  import t { prefix told; revision-date 2019-01-01; }\n  import b { prefix b; }\n" +
			"  augment \"/t:top/t:in\" { leaf fromc { type string; } }\n" +
			"  augment \"/t:top/b:x\" { container chained { leaf z { type string; } } }\n" +
			"  augment \"/told:own\" { leaf intoold { type string; } }\n}\n"},
		snm, []cAug{ap(nd("t@2020-01-01", "/t/own/fromsub", "urn:t")), ap(nd("t@2020-01-01", "/t/top/x/fromsub2", "urn:t")),
			ap(nd("t@2020-01-01", "/t/top/x", "urn:b")), ap(nd("t@2020-01-01", "/t/top/in/fromc", "urn:c")),
			ap(nd("t@2020-01-01", "/t/top/x/chained", "urn:c")), ap(nd("t@2019-01-01", "/t/own/intoold", "urn:c"))},
		[]gen.C07Node{nd("t@2019-01-01", "/t", "urn:t"), nd("t@2019-01-01", "/t/own", "urn:t"), nd("t@2019-01-01", "/t/own/o", "urn:t"),
			nd("t@2019-01-01", "/t/own/intoold", "urn:c"),
			opt("t@2019-01-01", "/t/top"), opt("t@2019-01-01", "/t/top/l"), opt("t@2019-01-01", "/t/top/in"),
			nd("t@2020-01-01", "/t", "urn:t"), nd("t@2020-01-01", "/t/own", "urn:t"), nd("t@2020-01-01", "/t/own/o", "urn:t"),
			nd("t@2020-01-01", "/t/own/fromsub", "urn:t"), nd("t@2020-01-01", "/t/top", "urn:t"), nd("t@2020-01-01", "/t/top/l", "urn:t"),
			nd("t@2020-01-01", "/t/top/in", "urn:t"), nd("t@2020-01-01", "/t/top/in/fromc", "urn:c"),
			nd("t@2020-01-01", "/t/top/x", "urn:b"), nd("t@2020-01-01", "/t/top/x/y", "urn:b"), nd("t@2020-01-01", "/t/top/x/fromsub2", "urn:t"),
			nd("t@2020-01-01", "/t/top/x/chained", "urn:c"), nd("t@2020-01-01", "/t/top/x/chained/z", "urn:c"),
			nd("b", "/b", "urn:b"), nd("c", "/c", "urn:c")},
		seed+int64(len(out))))
	out = append(out, corpusCase("revisions-sharing-a-submodule-missing-beside-applying", []string{"t@2019-01-01.yang", "t@2020-01-01.yang", "t@2021-06-01.yang", "ts.yang", "b.yang"}, []string{
		tRev("2019-01-01"), tRev("2020-01-01"), tRev("2021-06-01"), tSub(""),
		"module b {\n  namespace \"urn:b\";\n  prefix b;\n  import t { prefix t; }\n" +
			"  augment \"/t:top/t:nosuch\" { leaf x1 { type string; } }\n" +
			"  augment \"/t:top/t:l\" { leaf x2 { type string; } }\n" +
			"  augment \"/t:top\" { leaf ok { type string; } }\n}\n"},
		snm, []cAug{{expect: gen.C07MissingT}, {expect: gen.C07NoChildren}, ap(nd("t@2021-06-01", "/t/top/ok", "urn:b"))}, nil, seed+int64(len(out))))
	// chains of augments that only become applicable after FixChoice (gen.LeftoverChains: every link's
	// target lies below the implied case of a short-hand choice member, 2-3 links across modules, every
	// assignment of module names to the links, links that add short-hand choice members of their own,
	// complete chains and chains with a link missing), each unsplit and with an augment-free submodule
	// split off the target module: the stage after FixChoice is a fixpoint, so every link of a complete
	// chain is applied exactly once whatever the module order, and exactly the links after a gap are
	// reported
	for _, c := range gen.LeftoverChains(chainDepth) {
		nsmod := map[string]string{"urn:t": "t"}
		var augs []cAug
		for _, l := range c.Links {
			nsmod["urn:"+l.Module] = l.Module
			if !l.Found {
				augs = append(augs, cAug{expect: gen.C07MissingT})
				continue
			}
			var nodes []gen.C07Node
			for _, p := range l.Nodes {
				nodes = append(nodes, nd("t", "/t"+p, "urn:"+l.Module))
			}
			augs = append(augs, cAug{expect: gen.C07Apply, nodes: nodes})
		}
		out = append(out, corpusCase(c.Label, c.Names, c.Texts, nsmod, augs, nil, seed+int64(len(out))))
		for _, sp := range c.Splits {
			out = append(out, corpusCase(c.Label+" split="+sp.Sub, sp.Names, sp.Texts, nsmod, augs, nil, seed+int64(len(out))))
		}
	}
	// augment bodies without data nodes (the family of gen/c07barren.go generates these in bulk): whether a
	// target can have children does not depend on what the augment would add
	add("body-without-nodes-accepted", []string{"a.yang", "b.yang"}, []string{
		hdr("a") + "  grouping none;\n  container c {\n    leaf l { type string; }\n    choice h {\n      case s {\n        leaf m { type string; }\n      }\n    }\n  }\n" +
			"  rpc r;\n  notification n {\n    leaf o { type string; }\n  }\n}\n",
		hdr("b", "a") + "  augment \"/pa:c\";\n  augment \"/pa:c/pa:h\" { description \"none\"; }\n  augment \"/pa:c/pa:h/pa:s\" { when \"1 = 1\"; }\n" +
			"  augment \"/pa:r/pa:input\" { uses pa:none; }\n  augment \"/pa:n\" { status current; }\n}\n"},
		ap(), ap(), ap(), ap(), ap())
	add("body-without-nodes-reported", []string{"a.yang", "b.yang"}, []string{
		hdr("a") + "  grouping none;\n  container c {\n    leaf l { type string; }\n    leaf-list ll { type string; }\n    anyxml x;\n    anydata d;\n    action t;\n  }\n  rpc r;\n}\n",
		hdr("b", "a") + "  augment \"/pa:c/pa:l\";\n  augment \"/pa:c/pa:ll\" { description \"none\"; }\n  augment \"/pa:c/pa:x\" { when \"1 = 1\"; }\n" +
			"  augment \"/pa:c/pa:d\" { uses pa:none; }\n  augment \"/pa:r\";\n  augment \"/pa:c/pa:t\" { uses pa:none; }\n  augment \"/pa:c/pa:nosuch\";\n}\n"},
		cAug{expect: gen.C07NoChildren}, cAug{expect: gen.C07NoChildren}, cAug{expect: gen.C07NoChildren}, cAug{expect: gen.C07NoChildren},
		cAug{expect: gen.C07NoChildren}, cAug{expect: gen.C07NoChildren}, cAug{expect: gen.C07MissingT})
	out = append(out, namesakeCases(seed+int64(len(out)))...)
	return out
}

// namesakeCases: a submodule that carries the name of an unrelated loaded module (modules and
// submodules are filed in separate tables, the library accepts the namesake): without revisions, with the
// same revision date (identical full names) and with different dates. The augments written in the
// namesake submodule are augments like any other: applied to an existing target (in the tree of its own
// module, of a third module, of the namesake module) exactly once, reported for a missing target; the
// namesake module has augments of its own.
func namesakeCases(seed int64) []rescorr.Case {
	var out []rescorr.Case
	for ri, revs := range [][2]string{{"", ""}, {"2020-01-01", "2020-01-01"}, {"2020-01-01", "2021-05-05"}, {"2021-05-05", ""}} {
		for _, target := range []string{"own", "third", "namesake"} {
			for _, missing := range []bool{false, true} {
				for _, moduleAugments := range []bool{true, false} {
					if !moduleAugments && target != "own" {
						continue
					}
					mrev, srev := revs[0], revs[1]
					rv := func(d string) string {
						if d == "" {
							return ""
						}
						return "  revision " + d + ";\n"
					}
					full := func(n, d string) string {
						if d == "" {
							return n
						}
						return n + "@" + d
					}
					var path, tmod, tpath string
					switch target {
					case "own":
						path, tmod, tpath = "/h:hc", "h", "/h/hc"
					case "third":
						path, tmod, tpath = "/b:bc", "b", "/b/bc"
					default:
						path, tmod, tpath = "/xm:xc", full("x", mrev), "/x/xc"
					}
					sub := "submodule x {\n  belongs-to h { prefix h; }\n  import b { prefix b; }\n  import x { prefix xm; }\n" + rv(srev) +
						"  container sc {\n    leaf q { type string; }\n  }\n" +
						"  augment \"" + path + "\" { leaf froms { type string; } }\n"
					augs := []cAug{{expect: gen.C07Apply, nodes: []gen.C07Node{nd(tmod, tpath+"/froms", "urn:h")}}}
					if missing {
						sub += "  augment \"" + path + "/" + path[1:strings.Index(path, ":")] + ":nosuch\" { leaf never { type string; } }\n"
						augs = append(augs, cAug{expect: gen.C07MissingT})
					}
					sub += "}\n"
					host := "module h {\n  namespace \"urn:h\";\n  prefix h;\n  include x;\n  container hc {\n    leaf own { type string; }\n  }\n}\n"
					mod := "module x {\n  namespace \"urn:x\";\n  prefix x;\n  import b { prefix b; }\n" + rv(mrev) + "  container xc {\n    leaf l { type string; }\n  }\n"
					var maugs []cAug
					if moduleAugments {
						mod += "  augment \"/b:bc\" { leaf fromx { type string; } }\n"
						maugs = append(maugs, cAug{expect: gen.C07Apply, nodes: []gen.C07Node{nd("b", "/b/bc/fromx", "urn:x")}})
					}
					mod += "}\n"
					third := "module b {\n  namespace \"urn:b\";\n  prefix b;\n  container bc {\n    leaf l { type string; }\n  }\n}\n"
					label := fmt.Sprintf("submodule-named-like-a-module revisions=%d target=%s missing=%v module-augments=%v", ri, target, missing, moduleAugments)
					// (the submodule's file stands before the module's: knowledge entries follow the texts)
					out = append(out, corpusCase(label, []string{"h.yang", "x-submodule.yang", "x.yang", "b.yang"}, []string{host, sub, mod, third},
						map[string]string{"urn:h": "h", "urn:x": "x", "urn:b": "b"}, append(augs, maugs...), nil, seed+int64(len(out))))
				}
			}
		}
	}
	return out
}

// ---- main ----------------------------------------------------------------------------------------

func firstLine(s string) string {
	if i := strings.IndexByte(s, '\n'); i > 0 {
		return s[:i]
	}
	return s
}

// finding splits "kind[known]: text".
func finding(s string) (kind, known, text string) {
	i := strings.Index(s, "[")
	j := strings.Index(s, "]: ")
	if i < 0 || j < i {
		return "once", "", s
	}
	return s[:i], s[i+1 : j], s[j+3:]
}

// shapeOf: every second set is mixed; the others cycle through the named shapes, the
// outside-claim shape only in every fourth round.
func shapeOf(i int) int {
	if i%2 == 0 {
		return gen.C07Mixed
	}
	if (i/2)%5 == 2 {
		// the collision in which the clashing children are one shared definition needs sets in which
		// nothing else fails: a fifth of the named sets
		return gen.C07SharedUses
	}
	if (i/2)%5 == 4 {
		// several revisions of one module or submodule loaded at once: also a fifth
		return gen.C07MultiRev
	}
	if (i/2)%10 == 6 {
		// ordinary data nodes called input / output beside real rpc input / output
		return gen.C07IONames
	}
	if (i/2)%10 == 8 {
		// one prefix bound to different modules in the files of one module
		return gen.C07PrefixClash
	}
	if (i/2)%10 == 3 {
		// a failing augment whose target a deviation removes afterwards: nothing else may fail in such a set
		return gen.C07DevGone
	}
	// the remaining three slots of every ten (0, 1, 5) cycle through all named shapes: count them on
	// their own, or the cycle would only ever meet the shapes whose number fits those residues
	slot := map[int]int{0: 0, 1: 1, 5: 2}[(i/2)%10]
	j := (i/2)/10*3 + slot
	shape := 1 + j%(gen.C07NumShapes-1)
	if shape == gen.C07ImplicitCase && (j/(gen.C07NumShapes-1))%4 != 0 {
		shape = gen.C07ChainWorst + j%2
	}
	return shape
}

// chainDepth: longest chain of gen.LeftoverChains in the corpus (4 in the thorough tier).
var chainDepth = 3

func main() {
	f := lib.ParseFlags()
	if lib.IsChild() {
		rescorr.ServeChild(hook)
		return
	}
	if f.Replay != "" {
		rescorr.Replay(f, hook, keys)
		return
	}
	res := lib.NewResult("C07", f)
	if f.Thorough() {
		chainDepth = 4
	}
	n := 3600
	if f.Thorough() {
		n = 120000
	}
	if os.Getenv("C07_ONLY") == "revsub" {
		n = 1 // debugging aid: the corpus, one ordinary set and the revisions-sharing-a-submodule family
	}
	const batch = 4000
	revSubPerBatch := 256
	if f.Thorough() {
		revSubPerBatch = 270
	}
	if v, err := strconv.Atoi(os.Getenv("C07_REVSUB_N")); err == nil && v >= 0 {
		revSubPerBatch = v // debugging aid (timing with and without the family)
	}
	barrenPerBatch := 200
	if f.Thorough() {
		barrenPerBatch = 220
	}
	if v, err := strconv.Atoi(os.Getenv("C07_BARREN_N")); err == nil && v >= 0 {
		barrenPerBatch = v // debugging aid
	}
	if os.Getenv("C07_ONLY") == "barren" {
		n, revSubPerBatch = 1, 0 // debugging aid: the corpus, one ordinary set and the bodies-without-nodes family
	}
	distinct := lib.NewDistinct()
	all := lib.NewDistinct()
	var clean, withErr, outside, skipped, outsideClaim, variantsRun, expClean, expErr, exhaustive, total, childlessSets, childlessSets2, sharedOnlySets, oldRevSets, multiRevSets, pathCases, pathImplicit, pathPartial, noModel, devErrSets, devCtlSets, historyRun, historyBase, clashSets, ioSets, ioTarget, ioThrough, revSubSets, revSubInSub, revSubChained int64
	shapeCount := map[string]int64{}
	expectCount := map[string]int64{}
	barrenCount := map[string]int64{} // augment statements whose body defines no data node, per expectation
	originCount := map[string]int64{}
	knownCount := map[string]int64{}
	oracleCount := map[string]int64{} // disagreements per oracle: perm, once, reported, crash, correspondence(verdict)
	ncorpus := 0
	for lo := 0; lo < n; lo += batch {
		var cases []rescorr.Case
		if lo == 0 {
			cases = corpus(f.Seed * 7919)
			ncorpus = len(cases)
		}
		for i := lo; i < lo+batch && i < n; i++ {
			set := gen.GenerateC07(f.Rand(i), shapeOf(i))
			c := caseOf(set, f.Seed*1000003+int64(i), 24)
			cases = append(cases, c)
			if hc, ok := historyCase(c); ok {
				cases = append(cases, hc)
			}
			if i%4 == 1 {
				// the same set once more with most files on the search path only
				if pc, ok := pathCase(c, set, f.Rand(n+i)); ok {
					cases = append(cases, pc)
				}
			}
		}
		// the family "revisions of a module that include the same submodule(s)" (gen/c07revsub.go): a
		// share of every batch, each set also with the newest revisions arriving after a first Process
		for jj := 0; jj < revSubPerBatch; jj++ {
			j := lo/batch*revSubPerBatch + jj
			c := caseOfRevSub(gen.C07RevSub(f.Rand(4*n+j), j), f.Seed*1000003+int64(4*n+j), 24)
			cases = append(cases, c)
			if hc, ok := historyCase(c); ok && jj%2 == 0 {
				cases = append(cases, hc)
			}
		}
		// the family "augment bodies without data nodes" (gen/c07barren.go) against every kind of target
		for jj := 0; jj < barrenPerBatch; jj++ {
			j := lo/batch*barrenPerBatch + jj
			c := caseOf(gen.GenerateC07Barren(f.Rand(6*n+j), j), f.Seed*1000003+int64(6*n+j), 12)
			cases = append(cases, c)
			if hc, ok := historyCase(c); ok && jj%4 == 0 {
				cases = append(cases, hc)
			}
		}
		total += int64(len(cases))
		outs := rescorr.RunAll(cases, f)
		for i, o := range outs {
			k := getKnow(o.Case)
			isCorpus := lo == 0 && i < ncorpus
			shapeCount[strings.SplitN(k.Shape, ":", 2)[0]]++
			if k.ExpectClean {
				expClean++
			} else {
				expErr++
			}
			childless := map[string]bool{}
			for _, a := range k.Augs {
				if a.Childless && a.Expect == gen.C07Apply {
					childless[a.TargetPath+"|"+a.TargetArg] = true
				}
			}
			sharedOnly, anyFail := true, false
			for _, a := range k.Augs {
				if a.Expect != gen.C07Apply {
					anyFail = true
					if !a.SharedUses || a.Expect != gen.C07Collide {
						sharedOnly = false
					}
				}
			}
			if anyFail && sharedOnly {
				sharedOnlySets++
			}
			for _, a := range k.Augs {
				if a.OldRevision {
					oldRevSets++
					break
				}
			}
			if o.Case.Extra["process_after"] != "" {
				historyBase++
			}
			for _, a := range k.Augs {
				if a.PrefixClash {
					clashSets++
					break
				}
			}
			if k.IONamed {
				ioSets++
			}
			if strings.HasPrefix(k.Shape, gen.C07RevSubShape) {
				revSubSets++
				for _, a := range k.Augs {
					if a.Expect == gen.C07Apply && strings.Contains(a.TargetModule, "@") {
						switch a.Origin {
						case "submodule":
							revSubInSub++
						case "augment":
							revSubChained++
						}
					}
				}
			}
			for _, a := range k.Augs {
				switch a.IOName {
				case "target":
					ioTarget++
				case "through":
					ioThrough++
				}
			}
			devErr, devCtl := false, false
			for _, a := range k.Augs {
				if a.DevRemoved && (a.Expect == gen.C07Collide || a.Expect == gen.C07BodyErr) {
					devErr = true
				}
				if a.DevRemoved && a.Expect == gen.C07Apply {
					devCtl = true
				}
			}
			if devErr {
				devErrSets++
			} else if devCtl {
				devCtlSets++
			}
			multi := map[string]bool{}
			for _, n := range o.Case.Names {
				if i := strings.Index(n, "@"); i > 0 {
					if multi[n[:i]] {
						multiRevSets++
						break
					}
					multi[n[:i]] = true
				}
			}
			if len(childless) > 0 {
				childlessSets++
			}
			if len(childless) > 1 {
				childlessSets2++
			}
			for _, a := range k.Augs {
				expectCount[a.Expect]++
				if a.Shape == gen.C07BarrenShape {
					barrenCount[a.Expect]++
				}
				if a.Expect == gen.C07Apply && a.Origin != "" {
					originCount[a.Origin]++
				}
			}
			switch {
			case o.Crashed:
				oracleCount["crash(whole case)"]++
				res.AddDisagreement(lib.Disagreement{Kind: "crash", Input: o.Case, Go: o.CrashMsg, SpecVerdict: "violates",
					What: "goyang crashed or hung: " + firstLine(o.CrashMsg), Replay: o.Case})
				continue
			case o.Skipped != "":
				skipped++
				continue
			}
			if v := o.Go.Extra["history_variants"]; len(v) == 1 {
				x, _ := strconv.Atoi(v[0])
				historyRun += int64(x)
			}
			if v := o.Go.Extra["variants"]; len(v) == 1 {
				x, _ := strconv.Atoi(v[0])
				variantsRun += int64(x)
				tot := 0
				for _, b := range k.Blocks {
					tot += b[1]
				}
				if tot <= 4 && len(o.Case.Names) <= 4 {
					exhaustive++
				}
			}
			if k.Outside {
				outsideClaim++
			}
			// Go-side oracles (b) and (c)
			flagged := false
			byKind := map[string][]string{}
			knownOf := map[string]string{}
			for _, s := range o.Go.Findings {
				kind, kn, text := finding(s)
				byKind[kind] = append(byKind[kind], text)
				if _, seen := knownOf[kind]; !seen {
					knownOf[kind] = kn
				} else if knownOf[kind] != kn {
					knownOf[kind] = "" // mixed: not fully explained by one known finding
				}
			}
			for _, kind := range lib.SortedKeys(byKind) {
				flagged = true
				texts := byKind[kind]
				d := lib.Disagreement{Kind: "spec", Input: o.Case, SpecVerdict: "violates", Known: knownOf[kind], Replay: o.Case}
				if rescorr.FromPath(o.Case) && len(o.Go.Extra["late_loaded"]) > 0 {
					// finding D04-P1 (known_findings.txt): a module read from the path after the linking
					// walk keeps its augments unapplied; cannot arise while a module is among the roots
					d.Known = "D04-P1"
				}
				if d.Known != "" {
					knownCount[d.Known]++
				}
				switch kind {
				case "crash":
					d.Kind = "crash"
					d.Go = map[string]any{"findings": texts}
					d.What = "goyang panicked on a permutation of the set: " + texts[0]
				case "perm", "history":
					d.Go = map[string]any{"base": map[string]any{"order": "load order " + strings.Join(o.Case.Names, ",") + "; augments as written",
						"outcome": readable(o.Go.Dump, 80)},
						"variant":  map[string]any{"order": o.Go.Extra["variant"], "outcome": o.Go.Extra["variant_outcome"]},
						"findings": texts}
					d.What = "two orders of one source set give different outcomes: " + texts[0]
					if kind == "history" {
						d.What = "loading in steps with a Process in between gives another outcome than one Process over all texts: " + texts[0]
					}
				case "reported":
					d.Go = map[string]any{"outcome": readable(o.Go.Dump, 80), "findings": texts}
					d.What = "an augment that cannot be applied is not reported (or one that can is): " + texts[0]
				default:
					d.Go = map[string]any{"outcome": readable(o.Go.Dump, 120), "findings": texts}
					d.What = "exactly-once / attribution oracle: " + texts[0]
				}
				oracleCount[kind]++
				res.AddDisagreement(d)
			}
			if rescorr.FromPath(o.Case) {
				pathCases++
				if implicitAugments(o.Case, k) > 0 {
					pathImplicit++
				}
				if len(o.Go.Extra["partial_load"]) > 0 {
					pathPartial++
				}
			}
			if o.Outside != "" {
				outside++
				continue
			}
			if o.NoModel != "" {
				noModel++
				continue
			}
			// (a) correspondence with the model
			g := lib.Project(o.Go.Dump, keys, true)
			m := lib.Project(o.Model, keys, true)
			if d := rescorr.Diff(g, m); d != "" {
				verdict := "holds"
				if flagged {
					verdict = "violates"
				}
				oracleCount["correspondence("+verdict+")"]++
				res.AddDisagreement(lib.Disagreement{Kind: "correspondence", Input: o.Case, Go: g, Model: m, SpecVerdict: verdict,
					What: "resolver differs from the model: " + d, Replay: o.Case})
			}
			// bookkeeping
			key := strings.Join(o.Case.Texts, "\x00") + "\x00" + o.Case.Extra["roots"]
			fresh := all.Add(key)
			nontrivial := false
			if rescorr.HasErrors(o.Go.Dump) {
				withErr++
				_, errs := parseDump(o.Go.Dump)
				for _, e := range errs {
					if e.class == "augment-not-found" || e.class == "duplicate-node" {
						nontrivial = true
					}
					for _, a := range k.Augs {
						if a.File == e.file && a.Line == e.line {
							nontrivial = true
						}
					}
				}
			} else {
				clean++
				for _, a := range k.Augs {
					if a.Expect == gen.C07Apply && (a.Origin == "augment" || a.Origin == "uses" || a.Origin == "submodule" || a.Origin == "implicit-io") {
						nontrivial = true
					}
				}
				if isCorpus {
					nontrivial = true
				}
			}
			if nontrivial && distinct.Add(key) && fresh && lo == 0 && (i < 2 || (i-ncorpus)%997 == 5) {
				res.AddSample(map[string]any{"shape": k.Shape, "files": o.Case.Names, "texts": o.Case.Texts, "augments": len(k.Augs),
					"expect_clean": k.ExpectClean, "go_records": len(o.Go.Dump), "variants": o.Go.Extra["variants"]})
			}
		}
		if n, _ := res.Distribution["disagreements_total"].(int); n > 400 {
			res.Notes = append(res.Notes, fmt.Sprintf("stopped after %d base sets: mass disagreement", total))
			break
		}
	}
	res.Evaluations = total + variantsRun + historyRun
	res.DistinctNontrivial = distinct.Len()
	res.Rule = "hand-written corpus (chain over three modules in the worst order, uses target, rpc input/output written and implicit, collisions, " +
		"leaf/leaf-list/anyxml/anydata targets, missing targets, errors in the body, submodules, choice/case, notification, action) then seeded sets of " +
		"harness/gen/c07.go (2-4 modules importing each other, submodules, groupings; shapes: chains of depth 3-5 in worst and random order, " +
		"targets made by uses / in choice, case / rpc, action input, output (written and implicit) / notifications / submodule trees, collisions, " +
		"targets that cannot have children, missing targets, errors in the body; mixed sets combine several) and of harness/gen/c07revsub.go (two or three " +
		"revisions of a module loaded together that include the same submodule(s); augments from every kind of text, importing with and without " +
		"revision-date, aimed at nodes the shared submodule defines, below them, or made there by another augment); evaluations = base sets + executed " +
		"permutation variants; distinct_nontrivial = distinct base sets (by text) that Process accepts and in which >= 1 augment is applied on a " +
		"target that exists only because of another augment, a uses, a submodule or an unwritten rpc input/output, or that end in an " +
		"augment-related error (augment-not-found, duplicate-node, or any error positioned at an augment statement)"
	res.Distribution["base_sets"] = total
	res.Distribution["corpus_sets"] = int64(ncorpus)
	res.Distribution["distinct_base_sets"] = all.Len()
	res.Distribution["permutation_variants_executed"] = variantsRun
	res.Distribution["sets_with_all_permutations"] = exhaustive
	res.Distribution["go_clean_sets"] = clean
	res.Distribution["go_sets_with_errors"] = withErr
	res.Distribution["expected_clean_sets"] = expClean
	res.Distribution["expected_error_sets"] = expErr
	res.Distribution["sets_augmenting_a_childless_grouping_container"] = childlessSets
	res.Distribution["sets_augmenting_two_or_more_childless_instances"] = childlessSets2
	res.Distribution["sets_whose_only_expected_failure_is_a_shared_grouping_collision"] = sharedOnlySets
	res.Distribution["sets_with_several_revisions_of_one_module_or_submodule"] = multiRevSets
	res.Distribution["sets_with_an_augment_written_in_a_non_latest_revision"] = oldRevSets
	res.Distribution["path_cases(files on disk, roots handed over)"] = pathCases
	res.Distribution["path_cases_with_an_augment_in_an_implicitly_loaded_file"] = pathImplicit
	res.Distribution["path_cases_not_fully_loaded(oracles skipped)"] = pathPartial
	res.Distribution["path_cases_model_not_asked"] = noModel
	res.Distribution["sets_with_a_failing_augment_whose_target_a_not_supported_deviation_removes"] = devErrSets
	res.Distribution["sets_with_a_clean_augment_whose_target_a_not_supported_deviation_removes"] = devCtlSets
	res.Distribution["history_variants_executed(intermediate Process)"] = historyRun
	res.Distribution["multi_revision_cases_where_the_newest_revision_arrives_after_an_intermediate_Process"] = historyBase
	res.Distribution["sets_with_one_path_string_under_per_file_prefix_bindings"] = clashSets
	res.Distribution["sets_with_an_ordinary_node_named_input_or_output"] = ioSets
	res.Distribution["augments_targeting_an_ordinary_node_named_input_or_output"] = ioTarget
	res.Distribution["augments_passing_through_an_ordinary_node_named_input_or_output"] = ioThrough
	res.Distribution["sets_with_revisions_of_a_module_that_include_the_same_submodule"] = revSubSets
	res.Distribution["there:applying_augments_whose_target_a_shared_submodule_defines(or lies below such a node)"] = revSubInSub
	res.Distribution["there:applying_augments_whose_target_another_augment_made_in_a_revision_tree"] = revSubChained
	res.Distribution["outside_model"] = outside
	res.Distribution["go_parse_rejected"] = skipped
	res.Distribution["outside_claim(implicit case as target)"] = outsideClaim
	for k, v := range shapeCount {
		res.Distribution["shape:"+k] = v
	}
	for k, v := range expectCount {
		res.Distribution["augments_expect:"+k] = v
	}
	for k, v := range barrenCount {
		res.Distribution["augments_without_data_nodes_in_the_body_expect:"+k] = v
	}
	for k, v := range originCount {
		res.Distribution["applied_target_origin:"+k] = v
	}
	for k, v := range oracleCount {
		res.Distribution["disagreements_by_oracle:"+k] = v
	}
	for k, v := range knownCount {
		res.Distribution["known:"+k] = v
	}
	res.Write(f.Out)
}
