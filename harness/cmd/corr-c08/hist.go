package main

// Histories on one Modules value.
//
// The property speaks about "after processing ... under default options (with the ignore-not-supported
// option the target of not-supported is retained ...)": what a Process call leaves behind is judged
// against the modules loaded and the options in force AT THAT CALL.  pkg/yang/options.go names the use:
// one syntax tree, processed with and without the not-supported nodes.  So for the cases that have Hist
// set the worker, after the ordinary run (fresh Modules value, the case's options = "A"), goes on:
//
//	twice              Process again under the same options
//	toggle             IgnoreDeviateNotSupported toggled (= "B"), nothing loaded, Process
//	back-getmodule     option set back, GetModule of (up to three of) the modules — each call runs Process
//	toggle-load        option toggled, StoreUses set, a module that defines nothing loaded, Process
//	load-between       a second fresh value: the opposite of all three options (IgnoreDeviateNotSupported,
//	                   IgnoreSubmoduleCircularDependencies, StoreUses), the base files loaded, Process, the
//	                   options set to the case's, the deviating modules loaded, Process
//	reverse            a third fresh value: all files loaded, Process under the opposite of all three
//	                   options, options set to the case's with no load in between, Process
//	reverse-getmodule  on that value: IgnoreDeviateNotSupported toggled again, GetModule
//
// and dumps the outcome of the last step of each.  The parent requires every such dump to be the dump of
// a FRESH Modules value under the options in force at that step (A: the ordinary run of the case, B: a
// further ordinary run of the same texts under the toggled option; both are compared with the Lean model
// and judged by the specification like every run).  A dump that differs is judged like the dump of a run:
// the whole frame / target / must-be-reported evaluation (spec.deviate, spec.target, spec.missing of
// drv_dev) under the option in force at the last step, on that dump.

import (
	"fmt"
	"sort"
	"strings"

	"github.com/openconfig/goyang/pkg/yang"
	"verif/harness/lib"
	"verif/harness/rescorr"
)

type histDef struct {
	id   string
	desc string
	// toggled: IgnoreDeviateNotSupported at the last step is the opposite of the case's
	toggled bool
}

var histories = []histDef{
	{"twice", "Process, Process again under the same options", false},
	{"toggle", "Process, IgnoreDeviateNotSupported toggled with nothing loaded in between, Process", true},
	{"back-getmodule", "Process, option toggled, Process, option set back, GetModule", false},
	{"toggle-load", "Process, IgnoreDeviateNotSupported toggled, StoreUses set, an empty module loaded, Process", true},
	{"load-between", "opposite of all three options, base files loaded, Process, options changed, deviating modules loaded, Process", false},
	{"reverse", "all files loaded, Process under the opposite of all three options, options changed with nothing loaded in between, Process", false},
	{"reverse-getmodule", "as `reverse`, then IgnoreDeviateNotSupported toggled once more, GetModule", true},
}

const histExtraMod = "zz-c08-hist-extra"

func setOpts(ms *yang.Modules, ignoreNS, ignoreCircular, storeUses bool) {
	ms.ParseOptions.DeviateOptions.IgnoreDeviateNotSupported = ignoreNS
	ms.ParseOptions.IgnoreSubmoduleCircularDependencies = ignoreCircular
	ms.ParseOptions.StoreUses = storeUses
}

func sameDump(a, b []string) bool {
	if len(a) != len(b) {
		return false
	}
	for i := range a {
		if a[i] != b[i] {
			return false
		}
	}
	return true
}

// histHook is the worker side (rescorr.Hook): called after the ordinary run of a case.
func histHook(c rescorr.Case, ms *yang.Modules, errs []error, out *rescorr.GoOut) {
	if c.Extra["hist"] != "1" || rescorr.FromPath(c) {
		return
	}
	a, ic := c.IgnoreNotSupported, c.IgnoreCircular
	if out.Extra == nil {
		out.Extra = map[string][]string{}
	}
	// a dump equal to one already on its way is sent as a reference
	type sentDump struct {
		id string
		d  []string
	}
	sent := []sentDump{{"fresh", out.Dump}}
	emit := func(id string, d []string) {
		for _, s := range sent {
			if sameDump(s.d, d) {
				out.Extra["h:"+id] = []string{"=" + s.id}
				return
			}
		}
		out.Extra["h:"+id] = append([]string{"+"}, d...)
		sent = append(sent, sentDump{id, d})
	}
	modNames := func(m *yang.Modules) []string {
		var names []string
		for k := range m.Modules {
			names = append(names, k)
		}
		sort.Strings(names)
		if len(names) > 3 {
			names = names[:3]
		}
		return names
	}
	getModules := func(m *yang.Modules, names []string) []error {
		var last []error
		for _, n := range names {
			_, last = m.GetModule(n)
		}
		return last
	}
	load := func(m *yang.Modules, lo, hi int) bool {
		for i := lo; i < hi && i < len(c.Names); i++ {
			if m.Parse(c.Texts[i], c.Names[i]) != nil {
				return false
			}
		}
		return true
	}

	// on the value of the ordinary run
	emit("twice", lib.DumpOutcome(ms, ms.Process()))
	setOpts(ms, !a, ic, false)
	emit("toggle", lib.DumpOutcome(ms, ms.Process()))
	setOpts(ms, a, ic, false)
	if names := modNames(ms); len(names) > 0 {
		emit("back-getmodule", lib.DumpOutcome(ms, getModules(ms, names)))
	}
	setOpts(ms, !a, ic, true)
	extra := fmt.Sprintf("module %s {\n  namespace \"urn:%s\";\n  prefix zzh;\n}\n", histExtraMod, histExtraMod)
	if ms.Parse(extra, histExtraMod+".yang") == nil {
		var d []string
		pre := "N " + lib.HexS(histExtraMod) + " "
		for _, r := range lib.DumpOutcome(ms, ms.Process()) {
			if !strings.HasPrefix(r, pre) {
				d = append(d, r)
			}
		}
		emit("toggle-load", d)
	}

	// a second value: option change with a load in between
	k := len(c.Names)
	fmt.Sscanf(c.Extra["hist_split"], "%d", &k)
	ms2 := yang.NewModules()
	setOpts(ms2, !a, !ic, true)
	if load(ms2, 0, k) {
		ms2.Process()
		setOpts(ms2, a, ic, false)
		if load(ms2, k, len(c.Names)) {
			emit("load-between", lib.DumpOutcome(ms2, ms2.Process()))
		}
	}

	// a third value: the other direction, no load in between
	ms3 := yang.NewModules()
	setOpts(ms3, !a, !ic, true)
	if load(ms3, 0, len(c.Names)) {
		ms3.Process()
		setOpts(ms3, a, ic, false)
		emit("reverse", lib.DumpOutcome(ms3, ms3.Process()))
		setOpts(ms3, !a, ic, false)
		if names := modNames(ms3); len(names) > 0 {
			emit("reverse-getmodule", lib.DumpOutcome(ms3, getModules(ms3, names[:1])))
		}
	}
}

// histDump resolves what the worker sent for history id (ok = false: that history was not run).
func histDump(o rescorr.Outcome, id string) (dump []string, ok bool) {
	for depth := 0; depth < 10; depth++ {
		v := o.Go.Extra["h:"+id]
		switch {
		case len(v) == 0:
			return nil, false
		case v[0] == "+":
			return v[1:], true
		case v[0] == "=fresh":
			return o.Go.Dump, true
		case strings.HasPrefix(v[0], "="):
			id = v[0][1:]
		default:
			return nil, false
		}
	}
	return nil, false
}
