// corr-c08: deviations change exactly what they name, in written order, or are reported.
//
// Every case is a base schema plus 1-2 deviating modules; it is processed WITH and WITHOUT the
// deviating modules, by goyang and by the Lean resolver model (drv_res):
//
//	(i)   model = Go on both runs (projection kind, dir, cfg, mand, def, units, la, type + errors);
//	(ii)  frame, on the Go dumps: every node record that no deviation targets and that does not lie
//	      below a not-supported target is identical in both runs, and the with-run has no other nodes;
//	(iii) at every target the Go record of the with-run equals the executable RFC 7950 7.20.3
//	      transcription (Goyang.Spec.Deviate via drv_dev `spec.deviate`) applied to the Go record of
//	      the without-run, statements in application order (deviating modules by name, deviations
//	      and deviate statements as written); a deviation the property says must be reported
//	      (missing target, claimed precondition failures, unknown kind, unresolvable type) makes
//	      Process return errors, and a set of deviations the RFC allows does not.
package main

import (
	"encoding/json"
	"fmt"
	"os"
	"path/filepath"
	"sort"
	"strings"

	"verif/harness/gen"
	"verif/harness/lib"
	"verif/harness/rescorr"
)

var keys = []string{"kind", "dir", "cfg", "mand", "def", "units", "la", "type"}

// frameKeys: everything the dump prints except `ro` (ReadOnly() is derived from the config of the
// ancestors, so it legitimately follows a config deviation further up).
var frameKeys = []string{"kind", "dir", "rpc", "cfg", "mand", "def", "units", "key", "la", "type", "ns", "im"}

type rec struct {
	mod, path string
	f         map[string]string
	raw       string
}

func parseRec(r string) (rec, bool) {
	fs := strings.Fields(r)
	if len(fs) < 3 || fs[0] != "N" {
		return rec{}, false
	}
	m, _ := lib.UnHex(fs[1])
	p, _ := lib.UnHex(fs[2])
	x := rec{mod: string(m), path: string(p), f: map[string]string{}, raw: r}
	for _, kv := range fs[3:] {
		if i := strings.IndexByte(kv, '='); i > 0 {
			x.f[kv[:i]] = kv[i+1:]
		}
	}
	return x, true
}

func (r rec) proj(ks []string) string {
	var sb strings.Builder
	for _, k := range ks {
		sb.WriteString(k + "=" + r.f[k] + " ")
	}
	return sb.String()
}

func index(dump []string) map[string]rec {
	m := map[string]rec{}
	for _, r := range dump {
		if x, ok := parseRec(r); ok {
			m[x.mod+" "+x.path] = x
		}
	}
	return m
}

// Locations are "module-full-name path" (several revisions of one module are separate trees with
// equal paths).
func below(p, anc string) bool { return p == anc || strings.HasPrefix(p, anc+"/") }

func loc(d gen.Deviation) string { return d.TargetMod + " " + d.Target }

func stripped(c gen.C08Case) bool { return len(c.DevTexts) > 0 && len(c.StrippedDevTexts) == len(c.DevTexts) }

func cases(c gen.C08Case) (with, without rescorr.Case) {
	without = rescorr.Case{Names: c.BaseNames, Texts: c.BaseTexts, IgnoreNotSupported: c.IgnoreNS}
	if stripped(c) {
		// the deviating modules define nodes of their own: "without" = without their deviation statements
		without = rescorr.Case{Names: append(append([]string{}, c.BaseNames...), c.DevNames...),
			Texts: append(append([]string{}, c.BaseTexts...), c.StrippedDevTexts...), IgnoreNotSupported: c.IgnoreNS}
	}
	wb := c.BaseTexts
	if len(c.WithBaseTexts) == len(c.BaseTexts) {
		wb = c.WithBaseTexts // deviations written inside a submodule of the base
	}
	with = rescorr.Case{Names: append(append([]string{}, c.BaseNames...), c.DevNames...),
		Texts: append(append([]string{}, wb...), c.DevTexts...), IgnoreNotSupported: c.IgnoreNS}
	if len(c.PathRoots) > 0 {
		// files on disk: only the roots are handed to Parse, everything else (the deviating modules in
		// particular) is found on the search path by the first Process, through imports / includes
		with.Names = append(with.Names, c.LoaderNames...)
		with.Texts = append(with.Texts, c.LoaderTexts...)
		var idx []string
		for _, r := range c.PathRoots {
			for i, n := range with.Names {
				if n == r {
					idx = append(idx, fmt.Sprint(i))
				}
			}
		}
		with.Extra = map[string]string{"from_path": "1", "roots": strings.Join(idx, ",")}
	}
	return
}

// plan is what the property expects of one case, computed from the deviations as generated and the
// Go dump of the without-run.  A target is followed through "incarnations": an rpc input / output
// always exists for the path lookup (an absent one is created empty), so a deviation that names an
// input / output which an earlier not-supported removed meets a fresh, empty node.
type plan struct {
	missing   []string // deviations without a target (designed, or target removed earlier)
	order     []string // incarnation keys in first-application order
	path      map[string]string
	stmts     map[string][]gen.DevStmt
	start     map[string]rec    // record the incarnation starts from
	last      map[string]string // path -> key of its last incarnation
	implicit  map[string]bool   // path is an rpc input/output the base does not write
	removed   []string          // paths removed by not-supported (unless ignored), in order
	emptied   map[string]bool   // path was removed at some point (whatever was below it is gone)
	unknown   bool              // some deviate statement has an unknown kind
	notInBase []string          // generator named a target the base dump does not have
	reqIdx    map[string]int    // incarnation key -> index of its spec request
}

func isKnownKind(k string) bool {
	return k == "add" || k == "replace" || k == "delete" || k == "not-supported"
}

func parentPath(p string) string {
	if i := strings.LastIndexByte(p, '/'); i > 0 {
		return p[:i]
	}
	return ""
}

// isRpcIO: path is the input / output of an rpc (or action with input/output) of the base.
func isRpcIO(path string, base map[string]rec) bool {
	if !(strings.HasSuffix(path, "/input") || strings.HasSuffix(path, "/output")) {
		return false
	}
	pr, ok := base[parentPath(path)]
	return ok && pr.f["rpc"] == "1"
}

func implicitRec(path string, base map[string]rec) rec {
	kind := "Input"
	if strings.HasSuffix(path, "/output") {
		kind = "Output"
	}
	pr := base[parentPath(path)]
	return rec{path: path, f: map[string]string{"kind": kind, "dir": "1", "rpc": "0", "cfg": "unset", "mand": "unset", "def": "[]",
		"units": "-", "key": "-", "la": "-", "type": "-", "ns": pr.f["ns"], "im": pr.f["im"]}}
}

func makePlan(c gen.C08Case, base map[string]rec) *plan {
	p := &plan{path: map[string]string{}, stmts: map[string][]gen.DevStmt{}, start: map[string]rec{}, last: map[string]string{},
		implicit: map[string]bool{}, emptied: map[string]bool{}, reqIdx: map[string]int{}}
	devs := append([]gen.Deviation{}, c.Devs...)
	// deviating modules are applied in module name order, whatever the load order
	// (and submodules take their turn after all modules)
	sort.SliceStable(devs, func(i, j int) bool {
		if devs[i].Sub != devs[j].Sub {
			return !devs[i].Sub
		}
		return devs[i].Module < devs[j].Module
	})
	gone := map[string]bool{} // paths currently removed
	for _, d := range devs {
		for _, s := range d.Stmts {
			if !isKnownKind(s.Kind) {
				p.unknown = true
			}
		}
		if d.Missing {
			p.missing = append(p.missing, d.Arg)
			continue
		}
		_, inBase := base[loc(d)]
		if !inBase && !(d.Implicit && isRpcIO(loc(d), base)) {
			p.notInBase = append(p.notInBase, loc(d))
			p.missing = append(p.missing, d.Arg)
			continue
		}
		if !inBase {
			p.implicit[loc(d)] = true
		}
		// an ancestor was removed at some point (whatever was below it is gone for good, also when an
		// rpc input / output itself came back empty), or the node itself is gone and is not an rpc
		// input / output
		lost := false
		for r := range p.emptied {
			if loc(d) != r && below(loc(d), r) {
				lost = true
			}
		}
		if gone[loc(d)] && !isRpcIO(loc(d), base) {
			lost = true
		}
		if lost {
			p.missing = append(p.missing, d.Arg+" (removed by an earlier not-supported)")
			continue
		}
		key, ok := p.last[loc(d)]
		if !ok || gone[loc(d)] {
			key = fmt.Sprintf("%s#%d", loc(d), len(p.order))
			p.order = append(p.order, key)
			p.path[key] = loc(d)
			p.last[loc(d)] = key
			if r, ok := base[loc(d)]; ok && !gone[loc(d)] {
				p.start[key] = r
			} else {
				p.start[key] = implicitRec(loc(d), base)
			}
			delete(gone, loc(d))
		}
		rm := false
		for _, s := range d.Stmts {
			if !isKnownKind(s.Kind) {
				continue // reported when the module is converted; never applied
			}
			p.stmts[key] = append(p.stmts[key], s)
			if s.Kind == "not-supported" && !c.IgnoreNS {
				rm = true
			}
		}
		if rm {
			p.removed = append(p.removed, loc(d))
			p.emptied[loc(d)] = true
			gone[loc(d)] = true
		}
	}
	return p
}

func b01(x bool) string {
	if x {
		return "1"
	}
	return "0"
}

// specRequest renders the spec.deviate request for one target.
// typeTok maps a replacement type name to the token the dump prints for a leaf of that type.
func specRequest(ignoreNS bool, r rec, stmts []gen.DevStmt, typeTok func(string) string) string {
	la := r.f["la"]
	listLike, leafList := false, false
	mn, mx := "0", "18446744073709551615"
	if la != "-" && la != "" {
		parts := strings.Split(la, ":")
		if len(parts) == 3 {
			mn, mx = parts[0], parts[1]
		}
		if r.f["dir"] == "1" {
			listLike = true
		} else if r.f["kind"] == "Leaf" {
			listLike, leafList = true, true
		}
	}
	var sb strings.Builder
	fmt.Fprintf(&sb, "spec.deviate %s %s %s %s %s %s %s %s %s %s", b01(ignoreNS), b01(listLike), b01(leafList),
		r.f["cfg"], r.f["mand"], r.f["def"], mn, mx, r.f["units"], r.f["type"])
	for _, s := range stmts {
		def := "[]"
		if s.Def != nil {
			def = "[" + lib.HexS(*s.Def) + "]"
		}
		hexOr := func(v string) string {
			if v == "-" || v == "" {
				return "-"
			}
			return lib.HexS(v)
		}
		ty := "-"
		if s.Type != "-" && s.Type != "" {
			ty = typeTok(s.Type)
		}
		fmt.Fprintf(&sb, " %s %s %s %s %s %s %s %s", s.Kind, s.Cfg, s.Mand, def, s.Min, s.Max, hexOr(s.Units), ty)
	}
	return sb.String()
}

type specAns struct {
	removed     bool
	f           map[string]string
	claimed     []string
	unclaimed   []string
	unsupported bool
}

func parseSpec(a string) (specAns, bool) {
	parts := strings.Split(a, " ; ")
	if len(parts) != 3 {
		return specAns{}, false
	}
	out := specAns{f: map[string]string{}}
	if parts[0] == "removed" {
		out.removed = true
	} else {
		for _, kv := range strings.Fields(parts[0]) {
			if i := strings.IndexByte(kv, '='); i > 0 {
				out.f[kv[:i]] = kv[i+1:]
			}
		}
	}
	if parts[1] != "-" {
		for _, v := range strings.Split(parts[1], ",") {
			if strings.HasSuffix(v, ":1") {
				out.claimed = append(out.claimed, strings.TrimSuffix(v, ":1"))
			} else {
				out.unclaimed = append(out.unclaimed, strings.TrimSuffix(v, ":0"))
			}
		}
	}
	out.unsupported = strings.TrimSpace(parts[2]) == "1"
	return out, true
}

type stats struct {
	noModel, fromPath                                                                                            int64
	evaluated, clean, reportedAsClaimed, unclaimedReported, unclaimedApplied, baseErr, outside, parse, badTypeCases int64
	targets, framed                                                                                              int64
	notInBase                                                                                                    int64
	baseErrClass, claimedWhy                                                                                     map[string]int
	combos                                                                                                       map[string]bool
	distinct                                                                                                     *lib.Distinct
}

// evaluate runs the items and records every disagreement in res.
func evaluate(items []gen.C08Case, f *lib.Flags, res *lib.Result, st *stats, verbose bool) {
	var cs []rescorr.Case
	for _, it := range items {
		w, wo := cases(it)
		cs = append(cs, w, wo)
	}
	outs := rescorr.RunAll(cs, f)
	specDrv := filepath.Join(filepath.Dir(f.Driver), "drv_dev")
	plans := make([]*plan, len(items))
	bases := make([]map[string]rec, len(items))
	var reqs []string
	for i, it := range items {
		ow, owo := outs[2*i], outs[2*i+1]
		if ow.Crashed || owo.Crashed || ow.Skipped != "" || owo.Skipped != "" || rescorr.HasErrors(owo.Go.Dump) {
			continue
		}
		bases[i] = index(owo.Go.Dump)
		p := makePlan(it, bases[i])
		if it.Malformed {
			p.order = nil // nothing to ask the specification: the statement itself is malformed
		}
		plans[i] = p
		// how the replacement types are dumped: read off the reference leaves of the deviating modules
		withIdx := index(ow.Go.Dump)
		mods := it.DevMods
		typeTok := func(name string) string {
			for _, m := range mods {
				if r, ok := withIdx[m+" /"+m+"/"+gen.C08TypeRefLeaf(name)]; ok {
					return r.f["type"]
				}
			}
			return lib.HexS("?" + name) // only reached when the with-run reports errors (no records to compare)
		}
		for _, k := range p.order {
			p.reqIdx[k] = len(reqs)
			reqs = append(reqs, specRequest(it.IgnoreNS, p.start[k], p.stmts[k], typeTok))
		}
	}
	ans, err := lib.ParBatch(specDrv, reqs, f.Procs)
	if err != nil {
		lib.Fatal("spec driver %s: %v", specDrv, err)
	}
	for i, it := range items {
		ow, owo := outs[2*i], outs[2*i+1]
		st.evaluated++
		if len(it.PathRoots) > 0 {
			st.fromPath++
		}
		if verbose {
			for k := range it.DevNames {
				fmt.Printf("--- %s\n%s", it.DevNames[k], it.DevTexts[k])
			}
			for k := range it.BaseNames {
				fmt.Printf("--- %s\n%s", it.BaseNames[k], it.BaseTexts[k])
			}
		}
		if ow.Crashed || owo.Crashed {
			msg := ow.CrashMsg + owo.CrashMsg
			res.AddDisagreement(lib.Disagreement{Kind: "crash", Input: it, Go: msg, SpecVerdict: "violates",
				What: "goyang crashed or hung: " + firstLine(msg), Replay: it})
			continue
		}
		if ow.Skipped != "" || owo.Skipped != "" {
			st.parse++
			continue
		}
		// (i) model = Go, on both runs
		for k, o := range []rescorr.Outcome{ow, owo} {
			if o.Outside != "" {
				st.outside++
				continue
			}
			if o.NoModel != "" {
				st.noModel++ // files on disk, loaded set not a plain set of texts (two revisions): Go-side checks only
				continue
			}
			g := lib.Project(o.Go.Dump, keys, true)
			m := lib.Project(o.Model, keys, true)
			if verbose {
				fmt.Println([]string{"with:", "without:"}[k])
				for _, r := range g {
					fmt.Println("   go   ", rescorr.Readable(r))
				}
				for _, r := range m {
					fmt.Println("   model", rescorr.Readable(r))
				}
			}
			if d := rescorr.Diff(g, m); d != "" {
				res.AddDisagreement(lib.Disagreement{Kind: "correspondence", Input: it, Go: g, Model: m, SpecVerdict: "",
					What: "resolver differs from the model (" + []string{"with", "without"}[k] + " the deviating modules): " + d, Replay: it})
			}
		}
		if rescorr.HasErrors(owo.Go.Dump) {
			st.baseErr++
			if f := strings.Split(owo.Go.Dump[0], ":"); len(f) > 0 {
				st.baseErrClass[f[len(f)-1]]++
			}
			continue
		}
		p := plans[i]
		base := bases[i]
		st.notInBase += int64(len(p.notInBase))
		// expectations per target
		specs := map[string]specAns{}
		var claimed, unclaimed []string
		bad := false
		for _, t := range p.order {
			a, ok := parseSpec(ans[p.reqIdx[t]])
			if !ok {
				res.AddDisagreement(lib.Disagreement{Kind: "obligation", Input: it, Go: reqs[p.reqIdx[t]], Model: ans[p.reqIdx[t]], SpecVerdict: "",
					What: "spec driver did not answer a spec.deviate request", Replay: it})
				bad = true
				continue
			}
			if verbose {
				fmt.Printf("spec %s: %s\n      -> %s\n", t, reqs[p.reqIdx[t]], ans[p.reqIdx[t]])
			}
			specs[t] = a
			for _, c := range a.claimed {
				claimed = append(claimed, p.path[t]+": "+c)
			}
			if a.unsupported {
				claimed = append(claimed, p.path[t]+": delete of a leaf-list default (refused by the library as unsupported)")
			}
			for _, c := range a.unclaimed {
				unclaimed = append(unclaimed, p.path[t]+": "+c)
			}
		}
		if bad {
			continue
		}
		for _, m := range p.missing {
			claimed = append(claimed, "no target: "+m)
		}
		if p.unknown {
			claimed = append(claimed, "unknown deviate kind")
		}
		if it.BadType {
			claimed = append(claimed, "unresolvable replacement type")
		}
		if it.Malformed {
			claimed = append(claimed, "malformed substatement value")
		}
		goErr := rescorr.HasErrors(ow.Go.Dump)
		key := it.Combo
		if key == "" {
			key = strings.Join(it.DevTexts, "\x00") + "\x01" + strings.Join(it.BaseTexts, "\x00")
		}
		switch {
		case len(claimed) > 0 && !goErr:
			res.AddDisagreement(lib.Disagreement{Kind: "spec", Input: it, Go: lib.Project(ow.Go.Dump, keys, true), Model: claimed,
				SpecVerdict: "violates", What: "a deviation that cannot be applied was not reported: " + claimed[0], Replay: it})
			continue
		case len(claimed) > 0:
			st.reportedAsClaimed++
			why := claimed[0]
			if i := strings.LastIndex(why, ": "); i >= 0 {
				why = why[i+2:]
			}
			if strings.HasPrefix(claimed[0], "no target") {
				why = "no target"
				if strings.Contains(claimed[0], "removed by") {
					why = "no target (removed earlier)"
				}
			}
			st.claimedWhy[why]++
			st.distinct.Add(key)
			if it.Combo != "" {
				st.combos[it.Combo] = true
			}
			continue
		case goErr && len(unclaimed) > 0:
			// invalid by the RFC for a reason the property does not promise a report for; the library
			// may report it anyway (e.g. a second not-supported)
			st.unclaimedReported++
			if it.Combo != "" {
				st.combos[it.Combo] = true
			}
			continue
		case goErr:
			res.AddDisagreement(lib.Disagreement{Kind: "spec", Input: it, Go: lib.Project(ow.Go.Dump, keys, true), Model: "no condition of RFC 7950 7.20.3 is broken",
				SpecVerdict: "violates", What: "deviations the RFC allows were refused: " + firstErr(ow.Go.Dump), Replay: it})
			continue
		}
		// no errors: frame and targets
		with := index(ow.Go.Dump)
		devMod := map[string]bool{}
		for _, m := range it.DevMods {
			devMod[m] = true
		}
		loader := map[string]bool{}
		for _, n := range it.LoaderNames {
			loader[strings.TrimSuffix(n, ".yang")] = true
		}
		isTarget := func(path string) bool { _, ok := p.last[path]; return ok }
		belowRemoved := func(path string) bool {
			for _, r := range p.removed {
				if below(path, r) {
					return true
				}
			}
			return false
		}
		ok := true
		// (ii) frame
		var paths []string
		for path := range base {
			paths = append(paths, path)
		}
		sort.Strings(paths)
		for _, path := range paths {
			if isTarget(path) || belowRemoved(path) {
				continue
			}
			st.framed++
			w, there := with[path]
			if !there {
				res.AddDisagreement(lib.Disagreement{Kind: "spec", Input: it, Go: "node " + path + " is missing from the run with the deviating modules",
					SpecVerdict: "violates", What: "frame: a node that no deviation targets disappeared: " + path, Replay: it})
				ok = false
				break
			}
			if a, b := w.proj(frameKeys), base[path].proj(frameKeys); a != b {
				res.AddDisagreement(lib.Disagreement{Kind: "spec", Input: it, Go: map[string]string{"with": a, "without": b},
					SpecVerdict: "violates", What: "frame: a node that no deviation targets changed: " + path, Replay: it})
				ok = false
				break
			}
		}
		var wpaths []string
		for path := range with {
			wpaths = append(wpaths, path)
		}
		sort.Strings(wpaths)
		for _, path := range wpaths {
			if _, there := base[path]; there || (devMod[with[path].mod] && !stripped(it)) || loader[with[path].mod] {
				continue
			}
			if p.implicit[path] {
				continue
			}
			res.AddDisagreement(lib.Disagreement{Kind: "spec", Input: it, Go: with[path].raw,
				SpecVerdict: "violates", What: "frame: the run with the deviating modules has a node the base does not: " + path, Replay: it})
			ok = false
			break
		}
		// (iii) targets: the last incarnation of every targeted path
		var tpaths []string
		for path := range p.last {
			tpaths = append(tpaths, path)
		}
		sort.Strings(tpaths)
		for _, t := range tpaths {
			st.targets++
			key := p.last[t]
			a := specs[key]
			b := p.start[key]
			verdict, kind := "violates", "spec"
			if len(unclaimed) > 0 {
				// the RFC calls some deviation of this case invalid for a reason the property does not
				// speak about: the effect function is what the model proves the code does
				verdict, kind = "", "correspondence"
			}
			// removed: by its own not-supported, or because an ancestor was removed
			gone := a.removed
			for _, r := range p.removed {
				if t != r && below(t, r) {
					gone = true
				}
			}
			if p.emptied[t] || gone {
				// whatever the base had below a removed node is gone, also when the node itself came back empty
				for _, path := range wpaths {
					if below(path, t) && (gone || path != t) {
						res.AddDisagreement(lib.Disagreement{Kind: kind, Input: it, Go: with[path].raw, Model: "removed",
							SpecVerdict: verdict, What: "not-supported did not remove " + path, Replay: it})
						ok = false
						break
					}
				}
			}
			if gone {
				continue
			}
			w, there := with[t]
			if !there {
				res.AddDisagreement(lib.Disagreement{Kind: kind, Input: it, Go: "absent", Model: a.f,
					SpecVerdict: verdict, What: "target " + t + " is missing although no not-supported applies", Replay: it})
				ok = false
				continue
			}
			want := map[string]string{}
			for k, v := range b.f {
				want[k] = v
			}
			for _, k := range []string{"cfg", "mand", "def", "units", "type"} {
				want[k] = a.f[k]
			}
			if b.f["la"] != "-" {
				// min:max from the specification, ordered-by as in the base
				parts := strings.Split(b.f["la"], ":")
				want["la"] = a.f["la"] + ":" + parts[len(parts)-1]
			}
			wr := rec{f: want}
			if x, y := w.proj(frameKeys), wr.proj(frameKeys); x != y {
				res.AddDisagreement(lib.Disagreement{Kind: kind, Input: it, Go: x, Model: y,
					SpecVerdict: verdict, What: fmt.Sprintf("target %s is not what RFC 7950 7.20.3 prescribes (without: %s)", t, b.proj(frameKeys)), Replay: it})
				ok = false
			}
		}
		if ok {
			if len(unclaimed) > 0 {
				st.unclaimedApplied++
			} else {
				st.clean++
			}
			st.distinct.Add(key)
			if it.Combo != "" {
				st.combos[it.Combo] = true
			}
		}
	}
}

func firstErr(d []string) string {
	if len(d) > 0 {
		return d[0]
	}
	return ""
}

func firstLine(s string) string {
	if i := strings.IndexByte(s, '\n'); i > 0 {
		return s[:i]
	}
	return s
}

func main() {
	f := lib.ParseFlags()
	if lib.IsChild() {
		rescorr.ServeChild(nil)
		return
	}
	st := &stats{combos: map[string]bool{}, distinct: lib.NewDistinct(), baseErrClass: map[string]int{}, claimedWhy: map[string]int{}}
	if f.Replay != "" {
		raw, err := os.ReadFile(f.Replay)
		if err != nil {
			lib.Fatal("%v", err)
		}
		var p struct {
			Disagreement struct {
				Replay gen.C08Case `json:"replay"`
			} `json:"disagreement"`
		}
		if err := json.Unmarshal(raw, &p); err != nil {
			lib.Fatal("%v", err)
		}
		res := lib.NewResult("C08", f)
		evaluate([]gen.C08Case{p.Disagreement.Replay}, f, res, st, true)
		for _, d := range res.Disagreements {
			fmt.Printf("DIFFERENT [%s, spec verdict %q]: %s\n  go:    %v\n  other: %v\n", d.Kind, d.SpecVerdict, d.What, d.Go, d.Model)
		}
		if len(res.Disagreements) > 0 {
			os.Exit(1)
		}
		fmt.Println("same")
		return
	}
	res := lib.NewResult("C08", f)
	items := gen.C08Exhaustive()
	if os.Getenv("C08_PART") == "random" {
		items = nil // diagnostics only: see what the random part finds on its own
	}
	// every fifth enumerated case also as a files-on-disk run (deviating modules found by the first Process)
	for i, n := 0, len(items); i < n; i++ {
		if i%5 == 2 {
			if c := gen.C08FromDisk(items[i], i/5%2); len(c.PathRoots) > 0 {
				items = append(items, c)
			}
		}
	}
	nEx := len(items)
	n := 15000
	if f.Thorough() {
		n = 300000
	}
	for i := 0; i < n; i++ {
		c := gen.C08Random(f.Rand(i))
		if i%6 == 4 {
			c = gen.C08FromDisk(c, i/6%2)
		}
		items = append(items, c)
	}
	// in slices, so that a mass disagreement stops the run early
	const slice = 4000
	for lo := 0; lo < len(items); lo += slice {
		hi := lo + slice
		if hi > len(items) {
			hi = len(items)
		}
		evaluate(items[lo:hi], f, res, st, false)
		if n, _ := res.Distribution["disagreements_total"].(int); n >= 50 {
			res.Notes = append(res.Notes, fmt.Sprintf("stopped after %d of %d cases: 50 disagreements", hi, len(items)))
			break
		}
	}
	for i, it := range items {
		if i%(len(items)/6+1) == 0 {
			res.AddSample(map[string]any{"label": it.Label, "combo": it.Combo, "deviating_module": it.DevTexts[0], "devs": len(it.Devs)})
		}
	}
	res.Evaluations = st.evaluated
	res.DistinctNontrivial = st.distinct.Len()
	res.Rule = "each case = base schema x set of deviations, run with and without the deviating modules on goyang and on the Lean model; " +
		"exhaustive part: deviate kind x property x target kind (leaf, leaf-list, list, container, choice, anyxml, rpc input) x state of the property in the target " +
		"(absent / same value / other value), not-supported under both options (once, twice, followed by another statement or deviation), unknown kinds, missing targets, " +
		"unresolvable types, boundary bound values, every ordered pair of kinds on one property in one deviation / two deviations / two modules; random part: generated base sets " +
		"(harness/gen without deliberate faults) with 1-2 deviating modules x 1-3 deviations x 1-3 deviate statements x 1-3 properties, 30% with the ignore option; " +
		"distinct_nontrivial = distinct cases (combination name, or texts) whose base processes cleanly and on which the verdict was fully evaluated: " +
		"either an error was demanded and reported, or frame and every target record were compared with the specification"
	res.Exhaustive = false
	res.Notes = append(res.Notes,
		"RFC-invalid deviations outside the property's list of reportable conditions (add of an existing config/mandatory/bound/units/type, replace of an absent property, delete of config/mandatory that is absent or different, add/replace/delete after not-supported in one deviation) are applied by the library; they are compared with the RFC effect function (Props/C08 deviate_code_exact) and counted under rfc_invalid_outside_claim_*",
		"deviate delete of a leaf-list default is refused by the library as unsupported (pinned by its own unit test); the runner expects an error there")
	res.Distribution["exhaustive_combinations"] = nEx
	res.Distribution["exhaustive_combinations_evaluated"] = len(st.combos)
	res.Distribution["random_cases"] = n
	res.Distribution["applied_cleanly(frame+targets compared)"] = st.clean
	res.Distribution["reported(error demanded by the property)"] = st.reportedAsClaimed
	res.Distribution["rfc_invalid_outside_claim_reported_anyway"] = st.unclaimedReported
	res.Distribution["rfc_invalid_outside_claim_applied(compared with the effect function)"] = st.unclaimedApplied
	res.Distribution["reported_first_reason"] = st.claimedWhy
	res.Distribution["base_has_errors"] = st.baseErr
	res.Distribution["base_error_classes"] = st.baseErrClass
	res.Distribution["outside_model_runs"] = st.outside
	res.Distribution["with_run_from_files_on_disk(first Process, deviating modules reached through imports/includes)"] = st.fromPath
	res.Distribution["from_disk_runs_model_not_asked(two revisions loaded)"] = st.noModel
	res.Distribution["go_parse_rejected"] = st.parse
	res.Distribution["targets_compared_with_spec"] = st.targets
	res.Distribution["frame_records_compared"] = st.framed
	res.Distribution["generated_target_not_in_base_dump"] = st.notInBase
	res.Write(f.Out)
}
