// corr-c08: deviations change exactly what they name, in written order, or are reported.
//
// Every case is a base schema plus 1-2 deviating modules; it is processed WITH and WITHOUT the
// deviating modules, by goyang and by the Lean resolver model (drv_res):
//
//	(i)   model = Go on both runs (projection kind, dir, cfg, mand, def, units, la, type + errors);
//	(ii)  frame, on the Go dumps: every node record that no deviation targets and that does not lie
//	      below a not-supported target is identical in both runs, and the with-run has no other nodes;
//	(iii) at every target the Go record of the with-run equals the executable RFC 7950 7.20.3
//	      transcription (Goyang.Spec.Deviate via drv_dev `spec.deviate`) applied to the Go record of
//	      the without-run, statements in application order (deviating modules by name, deviations
//	      and deviate statements as written); a deviation the property says must be reported
//	      (missing target, claimed precondition failures, unknown kind, unresolvable type) makes
//	      Process return errors, and a set of deviations the RFC allows does not;
//	(iv)  target resolution: a deviation argument that names no schema node by RFC 7950 6.5 (every step
//	      names a direct child of the node before it, choice and case nodes — written or implied —
//	      included; judged by Goyang.Spec.DevTarget via drv_dev `spec.target` on the Go dump of the
//	      without-run) must be reported — with an error of the missing-target class whenever the
//	      deviation stage was reached at all — and must change nothing (`spec.missing`).  The generator
//	      proposes near misses (choice / case steps left out, a case without its choice, a descendant
//	      named as a child); a proposal that does name a node is an ordinary target.
//	(v)   the converse of (iv): a deviation whose target is a node of the FINAL tree of the without-run
//	      (whatever augment stage grafted it: gen/c08late.go builds targets that only the left-over augment
//	      stage after FixChoice creates, through implied cases, in chains) is applicable; when every
//	      deviation of a set names a node (spec.target on the Go dump of the without-run) a reported
//	      missing-target error — and, when no condition of 7.20.3.2 is broken either, any reported error —
//	      is a refusal of an applicable deviation (Goyang.Spec.DevTarget.refusedVerdict via `spec.refused`).
package main

import (
	"encoding/json"
	"fmt"
	"os"
	"path/filepath"
	"sort"
	"strings"

	"verif/harness/gen"
	"verif/harness/lib"
	"verif/harness/rescorr"
)

var keys = []string{"kind", "dir", "cfg", "mand", "def", "units", "la", "type"}

// frameKeys: everything the dump prints except `ro` (ReadOnly() is derived from the config of the
// ancestors, so it legitimately follows a config deviation further up).
var frameKeys = []string{"kind", "dir", "rpc", "cfg", "mand", "def", "units", "key", "la", "type", "ns", "im"}

type rec struct {
	mod, path string
	f         map[string]string
	raw       string
}

func parseRec(r string) (rec, bool) {
	fs := strings.Fields(r)
	if len(fs) < 3 || fs[0] != "N" {
		return rec{}, false
	}
	m, _ := lib.UnHex(fs[1])
	p, _ := lib.UnHex(fs[2])
	x := rec{mod: string(m), path: string(p), f: map[string]string{}, raw: r}
	for _, kv := range fs[3:] {
		if i := strings.IndexByte(kv, '='); i > 0 {
			x.f[kv[:i]] = kv[i+1:]
		}
	}
	return x, true
}

func (r rec) proj(ks []string) string {
	var sb strings.Builder
	for _, k := range ks {
		sb.WriteString(k + "=" + r.f[k] + " ")
	}
	return sb.String()
}

func index(dump []string) map[string]rec {
	m := map[string]rec{}
	for _, r := range dump {
		if x, ok := parseRec(r); ok {
			m[x.mod+" "+x.path] = x
		}
	}
	return m
}

// Locations are "module-full-name path" (several revisions of one module are separate trees with
// equal paths).
func below(p, anc string) bool { return p == anc || strings.HasPrefix(p, anc+"/") }

func loc(d gen.Deviation) string { return d.TargetMod + " " + d.Target }

func stripped(c gen.C08Case) bool {
	return len(c.DevTexts) > 0 && len(c.StrippedDevTexts) == len(c.DevTexts)
}

func cases(c gen.C08Case) (with, without rescorr.Case) {
	without = rescorr.Case{Names: c.BaseNames, Texts: c.BaseTexts, IgnoreNotSupported: c.IgnoreNS}
	if stripped(c) {
		// the deviating modules define nodes of their own: "without" = without their deviation statements
		without = rescorr.Case{Names: append(append([]string{}, c.BaseNames...), c.DevNames...),
			Texts: append(append([]string{}, c.BaseTexts...), c.StrippedDevTexts...), IgnoreNotSupported: c.IgnoreNS}
	}
	wb := c.BaseTexts
	if len(c.WithBaseTexts) == len(c.BaseTexts) {
		wb = c.WithBaseTexts // deviations written inside a submodule of the base
	}
	with = rescorr.Case{Names: append(append([]string{}, c.BaseNames...), c.DevNames...),
		Texts: append(append([]string{}, wb...), c.DevTexts...), IgnoreNotSupported: c.IgnoreNS}
	if len(c.PathRoots) > 0 {
		// files on disk: only the roots are handed to Parse, everything else (the deviating modules in
		// particular) is found on the search path by the first Process, through imports / includes
		with.Names = append(with.Names, c.LoaderNames...)
		with.Texts = append(with.Texts, c.LoaderTexts...)
		var idx []string
		for _, r := range c.PathRoots {
			for i, n := range with.Names {
				if n == r {
					idx = append(idx, fmt.Sprint(i))
				}
			}
		}
		with.Extra = map[string]string{"from_path": "1", "roots": strings.Join(idx, ",")}
	}
	return
}

// plan is what the property expects of one case, computed from the deviations as generated and the
// Go dump of the without-run.  A target is followed through "incarnations": an rpc input / output
// always exists for the path lookup (an absent one is created empty), so a deviation that names an
// input / output which an earlier not-supported removed meets a fresh, empty node.
type plan struct {
	missing   []string // deviations without a target (designed, or target removed earlier)
	order     []string // incarnation keys in first-application order
	path      map[string]string
	stmts     map[string][]gen.DevStmt
	start     map[string]rec    // record the incarnation starts from
	last      map[string]string // path -> key of its last incarnation
	implicit  map[string]bool   // path is an rpc input/output the base does not write
	removed   []string          // paths removed by not-supported (unless ignored), in order
	emptied   map[string]bool   // path was removed at some point (whatever was below it is gone)
	unknown   bool              // some deviate statement has an unknown kind
	notInBase []string          // generator named a target the base dump does not have
	reqIdx    map[string]int    // incarnation key -> index of its spec request
	// noNode: the deviations whose written path names no schema node at all (designed so, or a target
	// the base dump does not have), as opposed to targets an earlier not-supported removed
	noNode []string
	near   []string // kinds of the near misses among them (which steps were left out)
}

func isKnownKind(k string) bool {
	return k == "add" || k == "replace" || k == "delete" || k == "not-supported"
}

func parentPath(p string) string {
	if i := strings.LastIndexByte(p, '/'); i > 0 {
		return p[:i]
	}
	return ""
}

// isRpcIO: path is the input / output of an rpc (or action with input/output) of the base.
func isRpcIO(path string, base map[string]rec) bool {
	if !(strings.HasSuffix(path, "/input") || strings.HasSuffix(path, "/output")) {
		return false
	}
	pr, ok := base[parentPath(path)]
	return ok && pr.f["rpc"] == "1"
}

func implicitRec(path string, base map[string]rec) rec {
	kind := "Input"
	if strings.HasSuffix(path, "/output") {
		kind = "Output"
	}
	pr := base[parentPath(path)]
	return rec{path: path, f: map[string]string{"kind": kind, "dir": "1", "rpc": "0", "cfg": "unset", "mand": "unset", "def": "[]",
		"units": "-", "key": "-", "la": "-", "type": "-", "ns": pr.f["ns"], "im": pr.f["im"]}}
}

func makePlan(c gen.C08Case, base map[string]rec) *plan {
	p := &plan{path: map[string]string{}, stmts: map[string][]gen.DevStmt{}, start: map[string]rec{}, last: map[string]string{},
		implicit: map[string]bool{}, emptied: map[string]bool{}, reqIdx: map[string]int{}}
	devs := append([]gen.Deviation{}, c.Devs...)
	// deviating modules are applied in module name order, whatever the load order
	// (and submodules take their turn after all modules)
	sort.SliceStable(devs, func(i, j int) bool {
		if devs[i].Sub != devs[j].Sub {
			return !devs[i].Sub
		}
		return devs[i].Module < devs[j].Module
	})
	gone := map[string]bool{} // paths currently removed
	for _, d := range devs {
		for _, s := range d.Stmts {
			if !isKnownKind(s.Kind) {
				p.unknown = true
			}
		}
		if d.Missing {
			if d.Spelt != "" {
				p.missing = append(p.missing, d.Arg+" (near miss, left out: "+d.Near+")")
				p.near = append(p.near, d.Near)
			} else {
				p.missing = append(p.missing, d.Arg)
			}
			p.noNode = append(p.noNode, d.Arg)
			continue
		}
		_, inBase := base[loc(d)]
		if !inBase && !(d.Implicit && isRpcIO(loc(d), base)) {
			p.notInBase = append(p.notInBase, loc(d))
			p.missing = append(p.missing, d.Arg)
			p.noNode = append(p.noNode, d.Arg)
			continue
		}
		if !inBase {
			p.implicit[loc(d)] = true
		}
		// an ancestor was removed at some point (whatever was below it is gone for good, also when an
		// rpc input / output itself came back empty), or the node itself is gone and is not an rpc
		// input / output
		lost := false
		for r := range p.emptied {
			if loc(d) != r && below(loc(d), r) {
				lost = true
			}
		}
		if gone[loc(d)] && !isRpcIO(loc(d), base) {
			lost = true
		}
		if lost {
			p.missing = append(p.missing, d.Arg+" (removed by an earlier not-supported)")
			continue
		}
		key, ok := p.last[loc(d)]
		if !ok || gone[loc(d)] {
			key = fmt.Sprintf("%s#%d", loc(d), len(p.order))
			p.order = append(p.order, key)
			p.path[key] = loc(d)
			p.last[loc(d)] = key
			if r, ok := base[loc(d)]; ok && !gone[loc(d)] {
				p.start[key] = r
			} else {
				p.start[key] = implicitRec(loc(d), base)
			}
			delete(gone, loc(d))
		}
		rm := false
		for _, s := range d.Stmts {
			if !isKnownKind(s.Kind) {
				continue // reported when the module is converted; never applied
			}
			p.stmts[key] = append(p.stmts[key], s)
			if s.Kind == "not-supported" && !c.IgnoreNS {
				rm = true
			}
		}
		if rm {
			p.removed = append(p.removed, loc(d))
			p.emptied[loc(d)] = true
			gone[loc(d)] = true
		}
	}
	return p
}

func b01(x bool) string {
	if x {
		return "1"
	}
	return "0"
}

// targetRequest renders the spec.target request for a near miss: the tree is what the Go dump of the
// without-run shows of the module the first prefix denotes.
func targetRequest(d gen.Deviation, base map[string]rec) string {
	names := strings.Split(strings.TrimPrefix(d.Spelt, "/"), "/")
	var sb strings.Builder
	fmt.Fprintf(&sb, "spec.target %s %d", lib.HexS(names[0]), len(names)-1)
	for _, n := range names[1:] {
		sb.WriteString(" " + lib.HexS(n))
	}
	var nodes []string
	for _, r := range base {
		if r.mod == d.TargetMod {
			n := lib.HexS(r.path)
			if r.f["rpc"] == "1" {
				n += "!"
			}
			nodes = append(nodes, n)
		}
	}
	sort.Strings(nodes)
	for _, n := range nodes {
		sb.WriteString(" " + n)
	}
	return sb.String()
}

// errClasses: the classes of the errors of a dump ("E file:line:col:class").
func errClasses(dump []string) map[string]bool {
	out := map[string]bool{}
	for _, r := range dump {
		if strings.HasPrefix(r, "E ") {
			out[r[strings.LastIndexByte(r, ':')+1:]] = true
		}
	}
	return out
}

// deviationStage: the error classes only Entry.ApplyDeviate produces.  One of them among the errors of a
// run means that the run reached the deviation stage (it is the last one), and there every deviation
// without a target node adds an error of the class deviate-no-target of its own.
var deviationStage = []string{"deviate-no-target", "deviate-add-many-defaults", "deviate-add-default-exists", "deviate-delete-default-leaflist",
	"deviate-delete-default-missing", "deviate-delete-default-mismatch", "deviate-min-nonlist", "deviate-max-nonlist",
	"deviate-delete-min-mismatch", "deviate-delete-max-mismatch", "deviate-no-parent", "deviate-already-removed"}

// frameChanges lists the nodes outside every deviation target (and not below a not-supported target)
// that the run with the deviating modules shows differently from the run without them.
func frameChanges(p *plan, base, with map[string]rec) []string {
	var paths, out []string
	for path := range base {
		paths = append(paths, path)
	}
	sort.Strings(paths)
	for _, path := range paths {
		if _, isTarget := p.last[path]; isTarget {
			continue
		}
		skip := false
		for _, r := range p.removed {
			if below(path, r) {
				skip = true
			}
		}
		if skip {
			continue
		}
		w, there := with[path]
		switch {
		case !there:
			out = append(out, path+" disappeared")
		case w.proj(frameKeys) != base[path].proj(frameKeys):
			out = append(out, path+" changed: "+readableDiff(base[path], w))
		}
	}
	return out
}

// readableDiff names the fields of two records that differ ("def [3830] -> [78]").
func readableDiff(a, b rec) string {
	var ds []string
	for _, k := range frameKeys {
		if a.f[k] != b.f[k] {
			ds = append(ds, k+" "+short(a.f[k])+" -> "+short(b.f[k]))
		}
	}
	return strings.Join(ds, ", ")
}

func short(v string) string {
	if len(v) > 20 {
		return v[:16] + "…"
	}
	return v
}

// specRequest renders the spec.deviate request for one target.
// typeTok maps a replacement type name to the token the dump prints for a leaf of that type.
func specRequest(ignoreNS bool, r rec, stmts []gen.DevStmt, typeTok func(string) string) string {
	la := r.f["la"]
	listLike, leafList := false, false
	mn, mx := "0", "18446744073709551615"
	if la != "-" && la != "" {
		parts := strings.Split(la, ":")
		if len(parts) == 3 {
			mn, mx = parts[0], parts[1]
		}
		if r.f["dir"] == "1" {
			listLike = true
		} else if r.f["kind"] == "Leaf" {
			listLike, leafList = true, true
		}
	}
	var sb strings.Builder
	fmt.Fprintf(&sb, "spec.deviate %s %s %s %s %s %s %s %s %s %s", b01(ignoreNS), b01(listLike), b01(leafList),
		r.f["cfg"], r.f["mand"], r.f["def"], mn, mx, r.f["units"], r.f["type"])
	for _, s := range stmts {
		def := "[]"
		if s.Def != nil {
			def = "[" + lib.HexS(*s.Def) + "]"
		}
		hexOr := func(v string) string {
			if v == "-" || v == "" {
				return "-"
			}
			return lib.HexS(v)
		}
		ty := "-"
		if s.Type != "-" && s.Type != "" {
			ty = typeTok(s.Type)
		}
		fmt.Fprintf(&sb, " %s %s %s %s %s %s %s %s", s.Kind, s.Cfg, s.Mand, def, s.Min, s.Max, hexOr(s.Units), ty)
	}
	return sb.String()
}

type specAns struct {
	removed     bool
	f           map[string]string
	claimed     []string
	unclaimed   []string
	unsupported bool
}

func parseSpec(a string) (specAns, bool) {
	parts := strings.Split(a, " ; ")
	if len(parts) != 3 {
		return specAns{}, false
	}
	out := specAns{f: map[string]string{}}
	if parts[0] == "removed" {
		out.removed = true
	} else {
		for _, kv := range strings.Fields(parts[0]) {
			if i := strings.IndexByte(kv, '='); i > 0 {
				out.f[kv[:i]] = kv[i+1:]
			}
		}
	}
	if parts[1] != "-" {
		for _, v := range strings.Split(parts[1], ",") {
			if strings.HasSuffix(v, ":1") {
				out.claimed = append(out.claimed, strings.TrimSuffix(v, ":1"))
			} else {
				out.unclaimed = append(out.unclaimed, strings.TrimSuffix(v, ":0"))
			}
		}
	}
	out.unsupported = strings.TrimSpace(parts[2]) == "1"
	return out, true
}

type stats struct {
	noModel, fromPath                                                                                               int64
	evaluated, clean, reportedAsClaimed, unclaimedReported, unclaimedApplied, baseErr, outside, parse, badTypeCases int64
	targets, framed                                                                                                 int64
	notInBase, refusedAsked                                                                                         int64
	nearProposed, nearNames, nearReported                                                                           int64
	nearMissing                                                                                                     map[string]int
	baseErrClass, claimedWhy                                                                                        map[string]int
	combos                                                                                                          map[string]bool
	histCases, histDiffer                                                                                           int64
	histRuns                                                                                                        map[string]int
	distinct                                                                                                        *lib.Distinct
}

// unit is one (run with the deviating modules, run without them) pair to be judged: the ordinary run of
// a case, the run of the same texts under the toggled option (cases with Hist), or — only when it
// differs from the fresh run it must equal — the last step of a history on one Modules value.
type unit struct {
	it      gen.C08Case // IgnoreNS = the option in force at the (last) Process of ow
	orig    gen.C08Case // the case as generated (replay)
	ow, owo rescorr.Outcome
	hist    *histDef
	fresh   []string // history units: the dump of the fresh run that the history's last step must equal
}

func withHistory(it gen.C08Case) bool { return it.Hist && len(it.PathRoots) == 0 }

// evaluate runs the items and records every disagreement in res.
func evaluate(cases0 []gen.C08Case, f *lib.Flags, res *lib.Result, st *stats, verbose bool) {
	var cs []rescorr.Case
	type cidx struct{ w, wo, wb int }
	cix := make([]cidx, len(cases0))
	for i, it := range cases0 {
		w, wo := cases(it)
		cix[i] = cidx{len(cs), len(cs) + 1, -1}
		if withHistory(it) {
			w.Extra = map[string]string{"hist": "1", "hist_split": fmt.Sprint(len(it.BaseNames))}
			wb := w
			wb.Extra = nil
			wb.IgnoreNotSupported = !w.IgnoreNotSupported
			cix[i].wb = len(cs) + 2
			cs = append(cs, w, wo, wb)
			continue
		}
		cs = append(cs, w, wo)
	}
	outs := rescorr.RunAll(cs, f)
	usable := func(o rescorr.Outcome) bool { return !o.Crashed && o.Skipped == "" }
	var items []unit
	for i, it := range cases0 {
		ow, owo := outs[cix[i].w], outs[cix[i].wo]
		items = append(items, unit{it: it, orig: it, ow: ow, owo: owo})
		if cix[i].wb < 0 {
			continue
		}
		// the same texts under the toggled option: an ordinary run of its own
		itB := it
		itB.IgnoreNS = !it.IgnoreNS
		itB.Label += " [IgnoreDeviateNotSupported toggled]"
		itB.Combo = ""
		owb := outs[cix[i].wb]
		items = append(items, unit{it: itB, orig: it, ow: owb, owo: owo})
		if !usable(ow) {
			continue
		}
		st.histCases++
		for k := range histories {
			h := &histories[k]
			got, ran := histDump(ow, h.id)
			if !ran {
				continue
			}
			want, uit := ow, it
			if h.toggled {
				want, uit = owb, itB
			}
			if !usable(want) {
				continue
			}
			st.histRuns[h.id]++
			if sameDump(got, want.Go.Dump) {
				continue
			}
			st.histDiffer++
			hw := want
			hw.Go.Dump = got
			items = append(items, unit{it: uit, orig: it, ow: hw, owo: owo, hist: h, fresh: want.Go.Dump})
		}
	}
	specDrv := filepath.Join(filepath.Dir(f.Driver), "drv_dev")
	plans := make([]*plan, len(items))
	bases := make([]map[string]rec, len(items))
	var reqs []string
	// (iv) the proposed near misses: the specification decides, on the Go dump of the without-run, whether
	// the written steps name a node
	adj := make([][]gen.Deviation, len(items))
	{
		type tref struct{ item, dev int }
		var treqs []string
		var trefs []tref
		for i, u := range items {
			it, ow, owo := u.it, u.ow, u.owo
			if ow.Crashed || owo.Crashed || ow.Skipped != "" || owo.Skipped != "" || rescorr.HasErrors(owo.Go.Dump) {
				continue
			}
			bases[i] = index(owo.Go.Dump)
			for k, d := range it.Devs {
				if d.Missing && d.Spelt != "" {
					treqs = append(treqs, targetRequest(d, bases[i]))
					trefs = append(trefs, tref{i, k})
				}
			}
		}
		tans, err := lib.ParBatch(specDrv, treqs, f.Procs)
		if err != nil {
			lib.Fatal("spec driver %s: %v", specDrv, err)
		}
		for j, tr := range trefs {
			it := items[tr.item].it
			if adj[tr.item] == nil {
				adj[tr.item] = append([]gen.Deviation{}, it.Devs...)
			}
			d := &adj[tr.item][tr.dev]
			st.nearProposed++
			switch a := tans[j]; {
			case a == "names":
				// the shortened path happens to name another node: an ordinary deviation of that node
				st.nearNames++
				d.Missing, d.Target = false, d.Spelt
				if _, inBase := bases[tr.item][loc(*d)]; !inBase {
					d.Implicit = true
				}
			case strings.HasPrefix(a, "missing "):
				st.nearMissing[d.Near]++
			default:
				res.AddDisagreement(lib.Disagreement{Kind: "obligation", Input: it, Go: treqs[j], Model: a, SpecVerdict: "",
					What: "spec driver did not answer a spec.target request", Replay: items[tr.item].orig})
			}
			if verbose {
				fmt.Printf("spec.target %s in %s (%s left out) -> %s\n", d.Arg, d.TargetMod, d.Near, tans[j])
			}
		}
	}
	for i, u := range items {
		it, ow, owo := u.it, u.ow, u.owo
		if ow.Crashed || owo.Crashed || ow.Skipped != "" || owo.Skipped != "" || rescorr.HasErrors(owo.Go.Dump) {
			continue
		}
		if adj[i] != nil {
			it.Devs = adj[i]
		}
		p := makePlan(it, bases[i])
		if it.Malformed {
			p.order = nil // nothing to ask the specification: the statement itself is malformed
		}
		plans[i] = p
		// how the replacement types are dumped: read off the reference leaves of the deviating modules
		withIdx := index(ow.Go.Dump)
		mods := it.DevMods
		typeTok := func(name string) string {
			for _, m := range mods {
				if r, ok := withIdx[m+" /"+m+"/"+gen.C08TypeRefLeaf(name)]; ok {
					return r.f["type"]
				}
			}
			return lib.HexS("?" + name) // only reached when the with-run reports errors (no records to compare)
		}
		for _, k := range p.order {
			p.reqIdx[k] = len(reqs)
			reqs = append(reqs, specRequest(it.IgnoreNS, p.start[k], p.stmts[k], typeTok))
		}
	}
	ans, err := lib.ParBatch(specDrv, reqs, f.Procs)
	if err != nil {
		lib.Fatal("spec driver %s: %v", specDrv, err)
	}
	// spec.missing: what the property demands of a run with a deviation that names no node
	var md *lib.Driver
	defer func() {
		if md != nil {
			md.Close()
		}
	}()
	missMemo := map[string]string{}
	askSpec := func(q string) string {
		if a, ok := missMemo[q]; ok {
			return a
		}
		if md == nil {
			var err error
			if md, err = lib.StartDriver(specDrv); err != nil {
				lib.Fatal("spec driver %s: %v", specDrv, err)
			}
		}
		a, err := md.Ask(q)
		if err != nil {
			lib.Fatal("spec driver %s: %v", specDrv, err)
		}
		missMemo[q] = a
		return a
	}
	// spec.refused: the converse clause.  Every deviation of the set (none of them counted as missing by the
	// plan) is put to spec.target with the steps of its target, on the Go dump of the run WITHOUT the
	// deviating modules (its final tree: whatever augment stage grafted a node, it is there); when all of
	// them name a node the specification says what a reported error means.
	askRefused := func(devs []gen.Deviation, base map[string]rec, allowed, noTarget bool) (string, []string) {
		allNamed := true
		var asked []string
		for _, d := range devs {
			if d.Missing {
				allNamed = false
				continue
			}
			t := d
			t.Spelt = d.Target
			a := askSpec(targetRequest(t, base))
			asked = append(asked, d.Arg+" -> "+a)
			if a != "names" {
				allNamed = false
			}
		}
		return askSpec(fmt.Sprintf("spec.refused %s %s %s 1", b01(allNamed), b01(allowed), b01(noTarget))), asked
	}
	askMissing := func(reported bool, changed int) string {
		return askSpec(fmt.Sprintf("spec.missing %s %d", b01(reported), changed))
	}
	evalUnit := func(i int, u unit, add func(lib.Disagreement)) {
		it, ow, owo := u.it, u.ow, u.owo
		if u.hist == nil {
			st.evaluated++
			if len(it.PathRoots) > 0 {
				st.fromPath++
			}
		}
		if verbose {
			switch {
			case u.hist != nil:
				fmt.Printf("===== last step of history %s (%s), IgnoreDeviateNotSupported=%v at that step: differs from the fresh run\n", u.hist.id, u.hist.desc, it.IgnoreNS)
				for _, r := range lib.Project(ow.Go.Dump, keys, true) {
					fmt.Println("   go (history)", rescorr.Readable(r))
				}
				for _, r := range lib.Project(u.fresh, keys, true) {
					fmt.Println("   go (fresh)  ", rescorr.Readable(r))
				}
			default:
				fmt.Printf("===== fresh run, IgnoreDeviateNotSupported=%v\n", it.IgnoreNS)
			}
			for k := range it.DevNames {
				fmt.Printf("--- %s\n%s", it.DevNames[k], it.DevTexts[k])
			}
			for k := range it.BaseNames {
				fmt.Printf("--- %s\n%s", it.BaseNames[k], it.BaseTexts[k])
			}
		}
		if ow.Crashed || owo.Crashed {
			msg := ow.CrashMsg + owo.CrashMsg
			add(lib.Disagreement{Kind: "crash", Input: it, Go: msg, SpecVerdict: "violates",
				What: "goyang crashed or hung: " + firstLine(msg), Replay: u.orig})
			return
		}
		if ow.Skipped != "" || owo.Skipped != "" {
			st.parse++
			return
		}
		// (i) model = Go, on both runs
		for k, o := range []rescorr.Outcome{ow, owo} {
			if u.hist != nil {
				break // both fresh runs were compared with the model as units of their own
			}
			if o.Outside != "" {
				st.outside++
				continue
			}
			if o.NoModel != "" {
				st.noModel++ // files on disk, loaded set not a plain set of texts (two revisions): Go-side checks only
				continue
			}
			g := lib.Project(o.Go.Dump, keys, true)
			m := lib.Project(o.Model, keys, true)
			if verbose {
				fmt.Println([]string{"with:", "without:"}[k])
				for _, r := range g {
					fmt.Println("   go   ", rescorr.Readable(r))
				}
				for _, r := range m {
					fmt.Println("   model", rescorr.Readable(r))
				}
			}
			if d := rescorr.Diff(g, m); d != "" {
				add(lib.Disagreement{Kind: "correspondence", Input: it, Go: g, Model: m, SpecVerdict: "",
					What: "resolver differs from the model (" + []string{"with", "without"}[k] + " the deviating modules): " + d, Replay: u.orig})
			}
		}
		if rescorr.HasErrors(owo.Go.Dump) {
			st.baseErr++
			if f := strings.Split(owo.Go.Dump[0], ":"); len(f) > 0 {
				st.baseErrClass[f[len(f)-1]]++
			}
			return
		}
		p := plans[i]
		base := bases[i]
		st.notInBase += int64(len(p.notInBase))
		if len(p.notInBase) > 0 && os.Getenv("C08_DEBUG") != "" {
			fmt.Fprintf(os.Stderr, "not in base: %s: %v\n", it.Label, p.notInBase)
		}
		// expectations per target
		specs := map[string]specAns{}
		var claimed, unclaimed []string
		bad := false
		for _, t := range p.order {
			a, ok := parseSpec(ans[p.reqIdx[t]])
			if !ok {
				add(lib.Disagreement{Kind: "obligation", Input: it, Go: reqs[p.reqIdx[t]], Model: ans[p.reqIdx[t]], SpecVerdict: "",
					What: "spec driver did not answer a spec.deviate request", Replay: u.orig})
				bad = true
				continue
			}
			if verbose {
				fmt.Printf("spec %s: %s\n      -> %s\n", t, reqs[p.reqIdx[t]], ans[p.reqIdx[t]])
			}
			specs[t] = a
			for _, c := range a.claimed {
				claimed = append(claimed, p.path[t]+": "+c)
			}
			if a.unsupported {
				claimed = append(claimed, p.path[t]+": delete of a leaf-list default (refused by the library as unsupported)")
			}
			for _, c := range a.unclaimed {
				unclaimed = append(unclaimed, p.path[t]+": "+c)
			}
		}
		if bad {
			return
		}
		for _, m := range p.missing {
			claimed = append(claimed, "no target: "+m)
		}
		if p.unknown {
			claimed = append(claimed, "unknown deviate kind")
		}
		if it.BadType {
			claimed = append(claimed, "unresolvable replacement type")
		}
		if it.Malformed {
			claimed = append(claimed, "malformed substatement value")
		}
		goErr := rescorr.HasErrors(ow.Go.Dump)
		key := it.Combo
		if key == "" {
			key = strings.Join(it.DevTexts, "\x00") + "\x01" + strings.Join(it.BaseTexts, "\x00")
		}
		cls := errClasses(ow.Go.Dump)
		stageReached := false
		for _, c := range deviationStage {
			stageReached = stageReached || cls[c]
		}
		refused, refusedAsked := "", []string(nil)
		if goErr && len(p.missing) == 0 && len(it.Devs) > 0 && (cls["deviate-no-target"] || (len(claimed) == 0 && len(unclaimed) == 0)) {
			st.refusedAsked++
			refused, refusedAsked = askRefused(it.Devs, base, len(claimed) == 0 && len(unclaimed) == 0, cls["deviate-no-target"])
		}
		switch {
		case len(p.missing) > 0 && !goErr:
			// (iv) a deviation without a target node: not reported; did it change anything?
			ch := frameChanges(p, base, index(ow.Go.Dump))
			v := askMissing(false, len(ch))
			what := "a deviation that names no schema node was not reported (RFC 7950 6.5: each step names a direct child, choice/case too): " + p.missing[0]
			if len(ch) > 0 {
				what += fmt.Sprintf("; and it changed %d node(s) no deviation targets: %s", len(ch), ch[0])
			}
			verdict := ""
			if strings.HasPrefix(v, "violates") {
				verdict = "violates"
			}
			add(lib.Disagreement{Kind: "spec", Input: it, Go: lib.Project(ow.Go.Dump, keys, true),
				Model:       map[string]any{"must_be_reported": claimed, "changed_although_untargeted": ch, "spec.missing": v},
				SpecVerdict: verdict, What: what, Replay: u.orig})
			return
		case len(claimed) > 0 && !goErr:
			add(lib.Disagreement{Kind: "spec", Input: it, Go: lib.Project(ow.Go.Dump, keys, true), Model: claimed,
				SpecVerdict: "violates", What: "a deviation that cannot be applied was not reported: " + claimed[0], Replay: u.orig})
			return
		case len(p.missing) > 0 && stageReached && !cls["deviate-no-target"]:
			// errors were returned, the deviation stage was reached (some error is of a class only that
			// stage produces), and yet none of them is about the missing target
			add(lib.Disagreement{Kind: "spec", Input: it, Go: lib.Project(ow.Go.Dump, keys, true),
				Model:       map[string]any{"must_be_reported": claimed, "spec.missing": askMissing(false, 0)},
				SpecVerdict: "violates", What: "a deviation that names no schema node was not reported as such (RFC 7950 6.5: each step names a direct child, choice/case too), " +
					"the errors of the deviation stage are only " + strings.Join(lib.SortedKeys(cls), ",") + ": " + p.missing[0], Replay: u.orig})
			return
		case goErr && len(p.missing) == 0 && cls["deviate-no-target"] && strings.HasPrefix(refused, "violates"):
			// every deviation names a node of the tree the run without the deviating modules yields, and yet the
			// run says that a target cannot be found (whatever else may be wrong with the statements)
			add(lib.Disagreement{Kind: "spec", Input: it, Go: lib.Project(ow.Go.Dump, keys, true),
				Model:       map[string]any{"spec.refused": refused, "spec.target": refusedAsked, "must_be_reported": claimed},
				SpecVerdict: "violates", What: "an applicable deviation was refused: every deviation names a node of the final tree of the run without the deviating modules " +
					"(RFC 7950 6.5, spec.target), yet the run reports a missing target and reflects nothing: " + refusedAsked[0] + " [" + refused + "]", Replay: u.orig})
			return
		case len(claimed) > 0:
			if len(p.missing) > 0 && askMissing(true, 0) != "holds" {
				lib.Fatal("spec.missing 1 0 is not `holds`")
			}
			if len(p.near) > 0 {
				st.nearReported++
			}
			st.reportedAsClaimed++
			why := claimed[0]
			if i := strings.LastIndex(why, ": "); i >= 0 {
				why = why[i+2:]
			}
			if strings.HasPrefix(claimed[0], "no target") {
				why = "no target"
				if strings.Contains(claimed[0], "removed by") {
					why = "no target (removed earlier)"
				}
				if strings.Contains(claimed[0], "(near miss, left out") {
					why = "no target (near miss: steps left out)"
				}
			}
			st.claimedWhy[why]++
			st.distinct.Add(key)
			if it.Combo != "" {
				st.combos[it.Combo] = true
			}
			return
		case goErr && len(unclaimed) > 0:
			// invalid by the RFC for a reason the property does not promise a report for; the library
			// may report it anyway (e.g. a second not-supported)
			st.unclaimedReported++
			if it.Combo != "" {
				st.combos[it.Combo] = true
			}
			return
		case goErr:
			what := "deviations the RFC allows were refused: "
			if strings.HasPrefix(refused, "violates") {
				what = "an applicable deviation was refused (every target is a node of the final tree of the run without the deviating modules, no condition of RFC 7950 7.20.3 is broken) [" + refused + "]: "
			}
			add(lib.Disagreement{Kind: "spec", Input: it, Go: lib.Project(ow.Go.Dump, keys, true),
				Model:       map[string]any{"rfc": "no condition of RFC 7950 7.20.3 is broken", "spec.refused": refused, "spec.target": refusedAsked},
				SpecVerdict: "violates", What: what + firstErr(ow.Go.Dump), Replay: u.orig})
			return
		}
		// no errors: frame and targets
		with := index(ow.Go.Dump)
		devMod := map[string]bool{}
		for _, m := range it.DevMods {
			devMod[m] = true
		}
		loader := map[string]bool{}
		for _, n := range it.LoaderNames {
			loader[strings.TrimSuffix(n, ".yang")] = true
		}
		isTarget := func(path string) bool { _, ok := p.last[path]; return ok }
		belowRemoved := func(path string) bool {
			for _, r := range p.removed {
				if below(path, r) {
					return true
				}
			}
			return false
		}
		ok := true
		// (ii) frame
		var paths []string
		for path := range base {
			paths = append(paths, path)
		}
		sort.Strings(paths)
		for _, path := range paths {
			if isTarget(path) || belowRemoved(path) {
				continue
			}
			st.framed++
			w, there := with[path]
			if !there {
				add(lib.Disagreement{Kind: "spec", Input: it, Go: "node " + path + " is missing from the run with the deviating modules",
					SpecVerdict: "violates", What: "frame: a node that no deviation targets disappeared: " + path, Replay: u.orig})
				ok = false
				break
			}
			if a, b := w.proj(frameKeys), base[path].proj(frameKeys); a != b {
				add(lib.Disagreement{Kind: "spec", Input: it, Go: map[string]string{"with": a, "without": b},
					SpecVerdict: "violates", What: "frame: a node that no deviation targets changed: " + path, Replay: u.orig})
				ok = false
				break
			}
		}
		var wpaths []string
		for path := range with {
			wpaths = append(wpaths, path)
		}
		sort.Strings(wpaths)
		for _, path := range wpaths {
			if _, there := base[path]; there || (devMod[with[path].mod] && !stripped(it)) || loader[with[path].mod] {
				continue
			}
			if p.implicit[path] {
				continue
			}
			add(lib.Disagreement{Kind: "spec", Input: it, Go: with[path].raw,
				SpecVerdict: "violates", What: "frame: the run with the deviating modules has a node the base does not: " + path, Replay: u.orig})
			ok = false
			break
		}
		// (iii) targets: the last incarnation of every targeted path
		var tpaths []string
		for path := range p.last {
			tpaths = append(tpaths, path)
		}
		sort.Strings(tpaths)
		for _, t := range tpaths {
			st.targets++
			key := p.last[t]
			a := specs[key]
			b := p.start[key]
			verdict, kind := "violates", "spec"
			if len(unclaimed) > 0 {
				// the RFC calls some deviation of this case invalid for a reason the property does not
				// speak about: the effect function is what the model proves the code does
				verdict, kind = "", "correspondence"
			}
			// removed: by its own not-supported, or because an ancestor was removed
			gone := a.removed
			for _, r := range p.removed {
				if t != r && below(t, r) {
					gone = true
				}
			}
			if p.emptied[t] || gone {
				// whatever the base had below a removed node is gone, also when the node itself came back empty
				for _, path := range wpaths {
					if below(path, t) && (gone || path != t) {
						add(lib.Disagreement{Kind: kind, Input: it, Go: with[path].raw, Model: "removed",
							SpecVerdict: verdict, What: "not-supported did not remove " + path, Replay: u.orig})
						ok = false
						break
					}
				}
			}
			if gone {
				continue
			}
			w, there := with[t]
			if !there {
				add(lib.Disagreement{Kind: kind, Input: it, Go: "absent", Model: a.f,
					SpecVerdict: verdict, What: "target " + t + " is missing although no not-supported applies", Replay: u.orig})
				ok = false
				continue
			}
			want := map[string]string{}
			for k, v := range b.f {
				want[k] = v
			}
			for _, k := range []string{"cfg", "mand", "def", "units", "type"} {
				want[k] = a.f[k]
			}
			if b.f["la"] != "-" {
				// min:max from the specification, ordered-by as in the base
				parts := strings.Split(b.f["la"], ":")
				want["la"] = a.f["la"] + ":" + parts[len(parts)-1]
			}
			wr := rec{f: want}
			if x, y := w.proj(frameKeys), wr.proj(frameKeys); x != y {
				add(lib.Disagreement{Kind: kind, Input: it, Go: x, Model: y,
					SpecVerdict: verdict, What: fmt.Sprintf("target %s is not what RFC 7950 7.20.3 prescribes (without: %s)", t, b.proj(frameKeys)), Replay: u.orig})
				ok = false
			}
		}
		if ok {
			if len(unclaimed) > 0 {
				st.unclaimedApplied++
			} else {
				st.clean++
			}
			st.distinct.Add(key)
			if it.Combo != "" {
				st.combos[it.Combo] = true
			}
		}
	}
	for i, u := range items {
		if u.hist == nil {
			evalUnit(i, u, res.AddDisagreement)
			continue
		}
		// the last step of a history left something else behind than a fresh Modules value under the
		// options then in force: judged like the outcome of a run under those options
		opt := "default options"
		if u.it.IgnoreNS {
			opt = "IgnoreDeviateNotSupported set"
		}
		post := fmt.Sprintf(" -- at the last step of a history on one Modules value (%s; in force at that step: %s), where a fresh Modules value under these options gives another outcome [history %s]",
			u.hist.desc, opt, u.hist.id)
		n := 0
		evalUnit(i, u, func(d lib.Disagreement) {
			n++
			d.What = d.What + post
			d.Input = map[string]any{"case": u.orig, "history": u.hist.id, "steps": u.hist.desc, "options_at_last_step": opt}
			res.AddDisagreement(d)
		})
		if n == 0 {
			// no clause of the property is broken by the dump itself (e.g. only records of the deviating
			// modules, derived fields, or the errors of a base that does not process differ)
			res.AddDisagreement(lib.Disagreement{Kind: "correspondence",
				Input: map[string]any{"case": u.orig, "history": u.hist.id, "steps": u.hist.desc, "options_at_last_step": opt},
				Go:    u.ow.Go.Dump, Model: u.fresh, SpecVerdict: "",
				What: "the outcome differs from that of a fresh Modules value, first difference (go: history, model: fresh): " + rescorr.Diff(u.ow.Go.Dump, u.fresh) + post, Replay: u.orig})
		}
	}
}

func firstErr(d []string) string {
	if len(d) > 0 {
		return d[0]
	}
	return ""
}

func firstLine(s string) string {
	if i := strings.IndexByte(s, '\n'); i > 0 {
		return s[:i]
	}
	return s
}

func main() {
	f := lib.ParseFlags()
	if lib.IsChild() {
		rescorr.ServeChild(histHook)
		return
	}
	st := &stats{combos: map[string]bool{}, distinct: lib.NewDistinct(), baseErrClass: map[string]int{}, claimedWhy: map[string]int{},
		nearMissing: map[string]int{}, histRuns: map[string]int{}}
	if f.Replay != "" {
		raw, err := os.ReadFile(f.Replay)
		if err != nil {
			lib.Fatal("%v", err)
		}
		var p struct {
			Disagreement struct {
				Replay gen.C08Case `json:"replay"`
			} `json:"disagreement"`
		}
		if err := json.Unmarshal(raw, &p); err != nil {
			lib.Fatal("%v", err)
		}
		res := lib.NewResult("C08", f)
		evaluate([]gen.C08Case{p.Disagreement.Replay}, f, res, st, true)
		for _, d := range res.Disagreements {
			fmt.Printf("DIFFERENT [%s, spec verdict %q]: %s\n  go:    %v\n  other: %v\n", d.Kind, d.SpecVerdict, d.What, d.Go, d.Model)
		}
		if len(res.Disagreements) > 0 {
			os.Exit(1)
		}
		fmt.Println("same")
		return
	}
	res := lib.NewResult("C08", f)
	items := gen.C08Exhaustive()
	if os.Getenv("C08_PART") == "random" {
		items = nil // diagnostics only: see what the random part finds on its own
	}
	// every fifth enumerated case also as a files-on-disk run (deviating modules found by the first Process)
	for i, n := 0, len(items); i < n; i++ {
		if i%5 == 2 {
			if c := gen.C08FromDisk(items[i], i/5%2); len(c.PathRoots) > 0 {
				items = append(items, c)
			}
		}
	}
	// histories on one Modules value (hist.go): every enumerated case with a not-supported statement and
	// one in eight of the others (not the files-on-disk copies)
	for i := range items {
		if len(items[i].PathRoots) == 0 && (items[i].HasNotSupported() || i%8 == 3) {
			items[i].Hist = true
		}
	}
	nEx := len(items)
	n := 15000
	if f.Thorough() {
		n = 300000
	}
	if os.Getenv("C08_PART") == "late" {
		n = 0
	}
	for i := 0; i < n; i++ {
		c := gen.C08Random(f.Rand(i))
		if i%6 == 4 {
			c = gen.C08FromDisk(c, i/6%2)
		}
		// histories: one in three of the random sets with a not-supported statement, one in forty of the others
		if len(c.PathRoots) == 0 && ((c.HasNotSupported() && i%3 == 0) || i%40 == 7) {
			c.Hist = true
		}
		items = append(items, c)
	}
	// targets that only the left-over augment stage grafts (gen/c08late.go): random sets of that family
	nLate := 400
	if f.Thorough() {
		nLate = 8000
	}
	if os.Getenv("C08_PART") == "late" {
		// diagnostics only: the enumerated and the random sets of that family on their own
		items = nil
		for _, c := range gen.C08Exhaustive() {
			if strings.HasPrefix(c.Combo, "late-augment/") {
				items = append(items, c)
			}
		}
	}
	for i := 0; i < nLate; i++ {
		c := gen.C08RandomLate(f.Rand(1000000 + i))
		if c.HasNotSupported() && i%4 == 0 {
			c.Hist = true
		}
		items = append(items, c)
	}
	// in slices, so that a mass disagreement stops the run early
	const slice = 4000
	for lo := 0; lo < len(items); lo += slice {
		hi := lo + slice
		if hi > len(items) {
			hi = len(items)
		}
		evaluate(items[lo:hi], f, res, st, false)
		if n, _ := res.Distribution["disagreements_total"].(int); n >= 50 {
			res.Notes = append(res.Notes, fmt.Sprintf("stopped after %d of %d cases: 50 disagreements", hi, len(items)))
			break
		}
	}
	for i, it := range items {
		if i%(len(items)/6+1) == 0 {
			res.AddSample(map[string]any{"label": it.Label, "combo": it.Combo, "deviating_module": it.DevTexts[0], "devs": len(it.Devs)})
		}
	}
	res.Evaluations = st.evaluated
	res.DistinctNontrivial = st.distinct.Len()
	res.Rule = "each case = base schema x set of deviations, run with and without the deviating modules on goyang and on the Lean model; " +
		"exhaustive part: deviate kind x property x target kind (leaf, leaf-list, list, container, choice, anyxml, rpc input) x state of the property in the target " +
		"(absent / same value / other value), not-supported under both options (once, twice, followed by another statement or deviation), unknown kinds, missing targets, near-miss targets (one base with written, short-hand, nested, grouping-made, augmented choices, in a list and an rpc input: " +
		"every way of leaving out choice / case / container steps, a case without its choice, a descendant as a child, x statements that would apply cleanly to the node a generous lookup reaches), " +
		"unresolvable types, boundary bound values, every ordered pair of kinds on one property in one deviation / two deviations / two modules; random part: generated base sets " +
		"(harness/gen without deliberate faults) with 1-2 deviating modules x 1-3 deviations x 1-3 deviate statements x 1-3 properties, 30% with the ignore option, one deviation in twenty (one in six of those through a choice or case) turned into a near miss (steps other than the last left out; spec.target on the Go dump of the without-run decides whether it names a node); " +
		"late targets (gen/c08late.go): a short-hand choice at the top / in a container / in a list / in an rpc input and a chain of 1-3 augmenting modules, each grafting through the implied case the one before left behind (applied only by the left-over augment stage after FixChoice, link i+1 one retry round after link i; names ascending and descending; last link written to the single step), " +
		"deviation targets = every grafted leaf, leaf-list, container, choice, implied case and the nodes below x the statements of its kind, enumerated, + random sets of the family (1-2 deviating modules x 1-2 deviations, 20% with the ignore option); " +
		"histories: for every enumerated case with a not-supported statement (among them hand-written witnesses gen/c08hist.go), one in eight of the other enumerated cases, one in three of the random sets with a not-supported statement and one in forty of the others, " +
		"the same texts are also run fresh under the toggled IgnoreDeviateNotSupported (an ordinary case of its own: model, frame, targets, errors), and on ONE Modules value: Process twice; option toggled with nothing loaded, Process; option back, GetModule; option toggled + StoreUses + a load, Process; " +
		"a fresh value under the opposite of all three options: base loaded, Process, options changed, deviating modules loaded, Process; a fresh value: all loaded, Process under the opposite options, options changed, Process, toggled again, GetModule - the dump after each last step must be the dump of the fresh run under the options then in force, " +
		"and a dump that is not is judged by the specification under those options like the dump of a run; " +
		"distinct_nontrivial = distinct cases (combination name, or texts) whose base processes cleanly and on which the verdict was fully evaluated: " +
		"either an error was demanded and reported, or frame and every target record were compared with the specification"
	res.Exhaustive = false
	res.Notes = append(res.Notes,
		"RFC-invalid deviations outside the property's list of reportable conditions (add of an existing config/mandatory/bound/units/type, replace of an absent property, delete of config/mandatory that is absent or different, add/replace/delete after not-supported in one deviation) are applied by the library; they are compared with the RFC effect function (Props/C08 deviate_code_exact) and counted under rfc_invalid_outside_claim_*",
		"deviate delete of a leaf-list default is refused by the library as unsupported (pinned by its own unit test); the runner expects an error there")
	res.Distribution["exhaustive_combinations"] = nEx
	res.Distribution["exhaustive_combinations_evaluated"] = len(st.combos)
	res.Distribution["random_cases"] = n
	res.Distribution["random_late_augment_target_cases"] = nLate
	res.Distribution["refusal_clause_asked(spec.refused)"] = st.refusedAsked
	res.Distribution["applied_cleanly(frame+targets compared)"] = st.clean
	res.Distribution["reported(error demanded by the property)"] = st.reportedAsClaimed
	res.Distribution["rfc_invalid_outside_claim_reported_anyway"] = st.unclaimedReported
	res.Distribution["rfc_invalid_outside_claim_applied(compared with the effect function)"] = st.unclaimedApplied
	res.Distribution["reported_first_reason"] = st.claimedWhy
	res.Distribution["base_has_errors"] = st.baseErr
	res.Distribution["base_error_classes"] = st.baseErrClass
	res.Distribution["outside_model_runs"] = st.outside
	res.Distribution["with_run_from_files_on_disk(first Process, deviating modules reached through imports/includes)"] = st.fromPath
	res.Distribution["from_disk_runs_model_not_asked(two revisions loaded)"] = st.noModel
	res.Distribution["go_parse_rejected"] = st.parse
	res.Distribution["targets_compared_with_spec"] = st.targets
	res.Distribution["frame_records_compared"] = st.framed
	res.Distribution["generated_target_not_in_base_dump"] = st.notInBase
	res.Distribution["near_miss_paths_proposed(steps other than the last left out)"] = st.nearProposed
	res.Distribution["near_miss_paths_that_name_another_node(ordinary target)"] = st.nearNames
	res.Distribution["near_miss_paths_naming_no_node_by_spec.target"] = st.nearMissing
	res.Distribution["cases_with_near_miss_reported"] = st.nearReported
	res.Distribution["history_cases(also run fresh under the toggled option)"] = st.histCases
	res.Distribution["history_last_steps_compared_with_the_fresh_run"] = st.histRuns
	res.Distribution["history_last_steps_that_differ_from_the_fresh_run"] = st.histDiffer
	res.Write(f.Out)
}
