package main

import (
	"fmt"
	"math/rand"
	"strings"
)

// ---------------------------------------------------------------------------------------------
// exhaustive enumeration of binding situations
//
// A reference `t` / `p:t` (own prefix) / `q:t` (prefix of an import) stands in module m or in
// its submodule s1, below one of nine shapes of enclosing statements; every statement that can
// hold typedefs on the way, the top level of the file, the other files of the module (owner,
// sibling submodule), the imported module x and its submodule xs each do or do not declare `t`,
// each with a different base type so that the dump shows which one was bound.  The imported
// module's own prefix equals the importing module's own prefix.

type shape struct {
	open  []string // statements from the outside in; "%T" marks where a typedef may go
	close string
	uses  string // extra top-level statement (a uses for the grouping shape)
}

var shapes = []shape{
	{nil, "", ""},
	{[]string{"container c1 { %T"}, "}", ""},
	{[]string{"container c1 { %T", "list l1 { %T"}, "} }", ""},
	{[]string{"grouping g1 { %T"}, "}", "uses g1;"},
	{[]string{"rpc r1 { %T", "input { %T"}, "} }", ""},
	{[]string{"rpc r1 { %T", "output { %T"}, "} }", ""},
	{[]string{"notification n1 { %T"}, "}", ""},
	{[]string{"container c1 { %T", "action a1 { %T", "input { %T"}, "} } }", ""},
	{[]string{"container c1 { %T", "choice ch1 {", "case k1 {"}, "} } }", ""},
	{[]string{"list l1 { %T", "grouping g2 { %T", "container c2 { %T"}, "} } }", ""},
}

var markers = []string{"int16", "int32", "int64", "boolean"}

func exhaustiveCases() []tcase {
	var out []tcase
	// the name is an ordinary one or that of a built-in type (goyang accepts `typedef string`):
	// unprefixed it then denotes the built-in, with any prefix it is an ordinary name
	for ni, tname := range []string{"t", "string"} {
		forms := []string{tname, "p:" + tname, "q:" + tname}
		for variant := 0; variant < 2; variant++ {
			nOther := 1
			if variant == 1 {
				nOther = 2
			}
			for si, sh := range shapes {
				k := 0
				for _, o := range sh.open {
					if strings.Contains(o, "%T") {
						k++
					}
				}
				for mask := 0; mask < 1<<k; mask++ {
					for top := 0; top < 2; top++ {
						for other := 0; other < 1<<nOther; other++ {
							for imp := 0; imp < 4; imp++ {
								for fi, form := range forms {
									var body strings.Builder
									bit := 0
									for _, o := range sh.open {
										if strings.Contains(o, "%T") {
											td := ""
											if mask&(1<<bit) != 0 {
												td = fmt.Sprintf("typedef %s { type %s; }", tname, markers[bit])
											}
											bit++
											o = strings.Replace(o, "%T", td, 1)
										}
										body.WriteString(o + "\n")
									}
									body.WriteString(fmt.Sprintf("leaf x1 { type %s; }\n", form))
									body.WriteString(sh.close + "\n" + sh.uses + "\n")
									td := func(on bool, ty string) string {
										if on {
											return "typedef " + tname + " { type " + ty + "; }\n"
										}
										return ""
									}
									var files []srcFile
									if variant == 0 {
										files = append(files,
											srcFile{"m.yang", "module m { namespace \"urn:m\"; prefix p; import x { prefix q; } include s1;\n" + td(top == 1, "int8") + body.String() + "}\n"},
											srcFile{"s1.yang", "submodule s1 { belongs-to m { prefix p; }\n" + td(other&1 != 0, "uint16") + "}\n"})
									} else {
										files = append(files,
											srcFile{"m.yang", "module m { namespace \"urn:m\"; prefix p; include s1; include s2;\n" + td(other&1 != 0, "uint8") + "}\n"},
											srcFile{"s1.yang", "submodule s1 { belongs-to m { prefix p; } import x { prefix q; }\n" + td(top == 1, "int8") + body.String() + "}\n"},
											srcFile{"s2.yang", "submodule s2 { belongs-to m { prefix p; }\n" + td(other&2 != 0, "uint16") + "}\n"})
									}
									files = append(files,
										srcFile{"x.yang", "module x { namespace \"urn:x\"; prefix p; include xs;\n" + td(imp&1 != 0, "uint32") + "}\n"},
										srcFile{"xs.yang", "submodule xs { belongs-to x { prefix p; }\n" + td(imp&2 != 0, "uint64") + "}\n"})
									out = append(out, tcase{ID: fmt.Sprintf("exh/n%d/v%d/s%d/m%d/t%d/o%d/i%d/f%d", ni, variant, si, mask, top, other, imp, fi), Files: files})
								}
							}
						}
					}
				}
			}
		}
	}
	return out
}

// ---------------------------------------------------------------------------------------------
// random schemas

type family int

const (
	famString family = iota
	famInt
	famDec
	famEnum
	famBits
	famLeafref
	famIdref
	famInstID
	famUnion
	famBool
	famBinary
	nFamilies
)

var typedefNames = []string{"a", "b", "c"}
var prefixPool = []string{"p", "q", "r"}

type fileCtx struct {
	r         *rand.Rand
	sb        *strings.Builder
	ownPrefix string
	imports   []string // prefixes of the import statements
	fams      []family
	n         *int // counter for data node names (shared by the whole case: names never clash)
	hasOCExt  bool
	groupings []string
	deep      bool
}

func (c *fileCtx) pick(l []string) string { return l[c.r.Intn(len(l))] }

// pickDefault: a default of the family, or (one time in six) the empty string, which is a value
// like any other: stated nearer, it replaces an inherited default.
func (c *fileCtx) pickDefault(f family) string {
	if c.r.Intn(6) == 0 {
		return ""
	}
	return c.pick(defaultsOf[f])
}

func (c *fileCtx) name(stem string) string {
	*c.n++
	return fmt.Sprintf("%s%d", stem, *c.n)
}

func (c *fileCtx) fam() family { return c.fams[c.r.Intn(len(c.fams))] }

var builtinOf = map[family][]string{
	famString:  {"string"},
	famInt:     {"int8", "int16", "int32", "int64", "uint8", "uint16", "uint32", "uint64"},
	famDec:     {"decimal64"},
	famEnum:    {"enumeration"},
	famBits:    {"bits"},
	famLeafref: {"leafref"},
	famIdref:   {"identityref"},
	famInstID:  {"instance-identifier"},
	famUnion:   {"union"},
	famBool:    {"boolean", "empty"},
	famBinary:  {"binary"},
}

// typeRef picks what a type statement names and says whether it is the built-in of the family.
func (c *fileCtx) typeRef(f family) (string, bool) {
	x := c.r.Intn(100)
	switch {
	case x < 34:
		b := c.pick(builtinOf[f])
		// a built-in name behind a prefix is an ordinary name (a typedef of that name, or unknown)
		switch y := c.r.Intn(100); {
		case y < 6:
			return c.ownPrefix + ":" + b, false
		case y < 9 && len(c.imports) > 0:
			return c.pick(c.imports) + ":" + b, false
		}
		return b, true
	case x < 66:
		return c.pick(typedefNames), false
	case x < 80:
		return c.ownPrefix + ":" + c.pick(typedefNames), false
	case x < 97:
		if len(c.imports) > 0 {
			return c.pick(c.imports) + ":" + c.pick(typedefNames), false
		}
		return c.pick(typedefNames), false
	case x < 98:
		if c.r.Intn(2) == 0 {
			// the name of a module of the set as qualifier: a prefix only when an import (or
			// the module itself) assigns exactly that text, else an unknown prefix
			return fmt.Sprintf("m%d:%s", c.r.Intn(3), c.pick(typedefNames)), false
		}
		return "nosuch", false
	case x < 99:
		return c.pick(prefixPool) + ":nosuch", false
	default:
		return "zz:" + c.pick(typedefNames), false
	}
}

var (
	patterns   = []string{"a*", "b+", "[0-9]+", "x"}
	lengths    = []string{"1..10", "2..5", "3", "min..4", "0..max", "1..2|4..8", "20..30", "0..5", "7"}
	intRanges  = []string{"0..100", "1..10", "5", "min..50", "-5..5", "1..3|7..9", "200..300", "0..max", "2..8", "4..6"}
	decRanges  = []string{"1.5..2.5", "0..10", "1.25", "min..3", "-1.5..1.5", "2..3|5..7.5", "0.001..0.002"}
	unitsPool  = []string{"m", "s", "kg", "", ""}
	pathPool   = []string{"../x", "/m0:top/m0:k", "../../y"}
	enumNames  = []string{"e0", "e1", "e2", "e3"}
	bitNames   = []string{"b0", "b1", "b2"}
	defaultsOf = map[family][]string{
		famString: {"x", "aa", ""}, famInt: {"5", "7", "0"}, famDec: {"2.5", "1"}, famEnum: {"e0", "e1"}, famBits: {"b0", "b0 b1"},
		famLeafref: {"d"}, famIdref: {"id1"}, famInstID: {"/a"}, famUnion: {"5", "x"}, famBool: {"true"}, famBinary: {"AA=="},
	}
	// (the texts of `patterns` are in the pool too: the two kinds of statement keep lists of their own,
	// whatever the texts; see pat.go)
	posixPool = []string{"^a+$", "^[0-9]+$", "^(x|y)$", "a*", "b+", "[0-9]+", "x"}
)

// restrictions writes the body of a type statement for family f; root says whether the
// statement names the built-in type itself.
func (c *fileCtx) restrictions(f family, root bool, depth int) string {
	var b strings.Builder
	p := func(prob int) bool { return c.r.Intn(100) < prob }
	switch f {
	case famString:
		for i := 0; i < 2; i++ {
			if p(30) {
				fmt.Fprintf(&b, " pattern \"%s\";", c.pick(patterns))
			}
		}
		if p(30) {
			fmt.Fprintf(&b, " length \"%s\";", c.pick(lengths))
		}
		if c.hasOCExt && p(25) {
			fmt.Fprintf(&b, " oc-ext:posix-pattern \"%s\";", c.pick(posixPool))
		}
	case famInt:
		if p(40) {
			fmt.Fprintf(&b, " range \"%s\";", c.pick(intRanges))
		}
	case famDec:
		if root && p(92) || !root && p(6) {
			fmt.Fprintf(&b, " fraction-digits %d;", []int{1, 2, 3, 18, 0, 19}[c.r.Intn(4)+c.r.Intn(2)*c.r.Intn(3)])
		}
		if p(35) {
			fmt.Fprintf(&b, " range \"%s\";", c.pick(decRanges))
		}
	case famEnum:
		if root && p(95) || !root && p(6) {
			n := 1 + c.r.Intn(3)
			perm := c.r.Perm(len(enumNames))
			for i := 0; i < n; i++ {
				if p(30) {
					fmt.Fprintf(&b, " enum %s { value %d; }", enumNames[perm[i]], []int{0, 1, 5, -3, 7, 2147483647}[c.r.Intn(6)])
				} else {
					fmt.Fprintf(&b, " enum %s;", enumNames[perm[i]])
				}
			}
		}
	case famBits:
		if root && p(95) || !root && p(6) {
			n := 1 + c.r.Intn(3)
			perm := c.r.Perm(len(bitNames))
			for i := 0; i < n; i++ {
				if p(30) {
					fmt.Fprintf(&b, " bit %s { position %d; }", bitNames[perm[i]], []int{0, 1, 5, 7, 4294967295}[c.r.Intn(5)])
				} else {
					fmt.Fprintf(&b, " bit %s;", bitNames[perm[i]])
				}
			}
		}
	case famLeafref:
		if root && p(90) || !root && p(10) {
			fmt.Fprintf(&b, " path \"%s\";", c.pick(pathPool))
		}
		if p(25) {
			fmt.Fprintf(&b, " require-instance %s;", []string{"true", "false", "false", "maybe"}[c.r.Intn(4)])
		}
	case famIdref:
		if root && p(90) || !root && p(8) {
			x := c.r.Intn(10)
			switch {
			case x < 5:
				fmt.Fprintf(&b, " base id0;")
			case x < 7:
				fmt.Fprintf(&b, " base %s:id1;", c.ownPrefix)
			case x < 9 && len(c.imports) > 0:
				fmt.Fprintf(&b, " base %s:id0;", c.pick(c.imports))
			default:
				fmt.Fprintf(&b, " base idnone;")
			}
		}
	case famInstID:
		if p(40) {
			fmt.Fprintf(&b, " require-instance %s;", []string{"true", "false"}[c.r.Intn(2)])
		}
	case famUnion:
		if (root && p(95) || !root && p(8)) && depth < 3 {
			n := 1 + c.r.Intn(3)
			for i := 0; i < n; i++ {
				b.WriteString(" " + c.typeStmt(family(c.r.Intn(int(nFamilies))), depth+1))
			}
		}
	case famBinary:
		if p(30) {
			fmt.Fprintf(&b, " length \"%s\";", c.pick(lengths))
		}
	}
	// a little cross-family noise: restrictions the resolved kind does not expect
	if c.r.Intn(100) < 4 {
		has := func(kw string) bool { return strings.Contains(b.String(), " "+kw+" ") }
		switch c.r.Intn(5) {
		case 0:
			if !has("range") {
				fmt.Fprintf(&b, " range \"%s\";", c.pick(intRanges))
			}
		case 1:
			if !has("length") {
				fmt.Fprintf(&b, " length \"%s\";", c.pick(lengths))
			}
		case 2:
			fmt.Fprintf(&b, " pattern \"%s\";", c.pick(patterns))
		case 3:
			if !has("fraction-digits") {
				fmt.Fprintf(&b, " fraction-digits 2;")
			}
		case 4:
			if !has("path") {
				fmt.Fprintf(&b, " path \"../z\";")
			}
		}
	}
	return b.String()
}

func (c *fileCtx) typeStmt(f family, depth int) string {
	ref, root := c.typeRef(f)
	body := c.restrictions(f, root, depth)
	if body == "" {
		return "type " + ref + ";"
	}
	return "type " + ref + " {" + body + " }"
}

func (c *fileCtx) typedef(name string) {
	f := c.fam()
	ts := c.typeStmt(f, 0)
	// a typedef that names itself is cyclic wherever it stands, and free references among three
	// names close cycles most of the time: usually refer only to alphabetically smaller names
	refName := func(ts string) string {
		ref := strings.TrimPrefix(ts, "type ")
		ref = strings.TrimRight(strings.SplitN(ref, " ", 2)[0], ";")
		if i := strings.Index(ref, ":"); i >= 0 {
			if ref[:i] != c.ownPrefix {
				return ""
			}
			ref = ref[i+1:]
		}
		return ref
	}
	for i := 0; i < 6 && c.r.Intn(100) < 90; i++ {
		ref := refName(ts)
		if len(ref) != 1 || ref < name {
			break
		}
		ts = c.typeStmt(f, 0)
	}
	fmt.Fprintf(c.sb, "typedef %s { %s", name, ts)
	if c.r.Intn(100) < 30 {
		fmt.Fprintf(c.sb, " units \"%s\";", c.pick(unitsPool))
	}
	if c.r.Intn(100) < 30 {
		fmt.Fprintf(c.sb, " default \"%s\";", c.pickDefault(f))
	}
	c.sb.WriteString(" }\n")
}

// typedefs writes typedefs with names from the tiny pool: most names at the top level of a
// module (each name once per module and its submodules, but for rare illegal repetitions), 0-2
// in a nested scope.
func (c *fileCtx) typedefs(top bool, avoid map[string]bool) {
	if c.r.Intn(100) < 5 {
		// a typedef named like a built-in type: only a prefixed reference can mean it
		bn := c.pick(builtinOf[c.fam()])
		if avoid == nil || !avoid["builtin:"+bn] {
			if avoid != nil {
				avoid["builtin:"+bn] = true
			}
			c.typedef(bn)
		}
	}
	if top {
		for _, name := range typedefNames {
			if avoid[name] {
				if c.r.Intn(1000) < 12 {
					c.typedef(name)
				}
				continue
			}
			if c.r.Intn(100) < 85 {
				avoid[name] = true
				c.typedef(name)
				if c.r.Intn(1000) < 8 {
					c.typedef(name)
				}
			}
		}
		return
	}
	used := map[string]bool{}
	for i := c.r.Intn(3); i > 0; i-- {
		name := c.pick(typedefNames)
		if used[name] && c.r.Intn(100) < 97 {
			continue
		}
		used[name] = true
		c.typedef(name)
	}
}

func (c *fileCtx) leaf() {
	f := c.fam()
	if c.r.Intn(4) == 0 {
		fmt.Fprintf(c.sb, "leaf-list %s { %s", c.name("ll"), c.typeStmt(f, 0))
		for i := c.r.Intn(3); i > 0 && c.r.Intn(2) == 0; i-- {
			fmt.Fprintf(c.sb, " default \"%s\";", c.pickDefault(f))
		}
		if c.r.Intn(4) == 0 {
			fmt.Fprintf(c.sb, " min-elements %d;", c.r.Intn(3))
		}
		c.sb.WriteString(" }\n")
		return
	}
	fmt.Fprintf(c.sb, "leaf %s { %s", c.name("x"), c.typeStmt(f, 0))
	if c.r.Intn(5) == 0 {
		fmt.Fprintf(c.sb, " default \"%s\";", c.pickDefault(f))
	}
	if c.r.Intn(5) == 0 {
		fmt.Fprintf(c.sb, " mandatory %s;", []string{"true", "false"}[c.r.Intn(2)])
	}
	c.sb.WriteString(" }\n")
}

// body writes typedefs, leaves and nested scopes below a statement of the given kind.
func (c *fileCtx) body(kind string, depth int) {
	if kind != "choice" && kind != "case" && kind != "augment" && kind != "rpc" && kind != "action" && kind != "module" {
		c.typedefs(false, nil)
	}
	if kind == "rpc" || kind == "action" {
		c.typedefs(false, nil)
		if c.r.Intn(3) > 0 {
			c.sb.WriteString("input {\n")
			c.body("input", depth+1)
			c.sb.WriteString("}\n")
		}
		if c.r.Intn(3) > 0 {
			c.sb.WriteString("output {\n")
			c.body("output", depth+1)
			c.sb.WriteString("}\n")
		}
		return
	}
	if kind == "choice" {
		for i := 1 + c.r.Intn(2); i > 0; i-- {
			fmt.Fprintf(c.sb, "case %s {\n", c.name("k"))
			c.body("case", depth+1)
			c.sb.WriteString("}\n")
		}
		return
	}
	for i := 1 + c.r.Intn(2); i > 0; i-- {
		c.leaf()
	}
	if depth >= 3 {
		return
	}
	maxKids := 2
	if c.deep {
		maxKids = 3
	}
	for i := c.r.Intn(maxKids + 1); i > 0; i-- {
		switch k := c.r.Intn(12); {
		case k < 3:
			fmt.Fprintf(c.sb, "container %s {\n", c.name("c"))
			c.body("container", depth+1)
			c.sb.WriteString("}\n")
		case k < 5:
			fmt.Fprintf(c.sb, "list %s {\n", c.name("l"))
			c.body("list", depth+1)
			c.sb.WriteString("}\n")
		case k < 7 && kind != "case":
			g := c.name("g")
			fmt.Fprintf(c.sb, "grouping %s {\n", g)
			c.body("grouping", depth+1)
			c.sb.WriteString("}\n")
			// use it here, perhaps twice under different containers (the copies must agree)
			if c.r.Intn(3) > 0 && kind != "input" && kind != "output" {
				fmt.Fprintf(c.sb, "container %s { uses %s; }\n", c.name("u"), g)
				if c.r.Intn(2) == 0 {
					fmt.Fprintf(c.sb, "container %s { uses %s; }\n", c.name("u"), g)
				}
			}
		case k < 8 && (kind == "container" || kind == "list" || kind == "grouping"):
			fmt.Fprintf(c.sb, "action %s {\n", c.name("a"))
			c.body("action", depth+1)
			c.sb.WriteString("}\n")
		case k < 9 && (kind == "container" || kind == "list" || kind == "grouping" || kind == "module"):
			fmt.Fprintf(c.sb, "notification %s {\n", c.name("n"))
			c.body("notification", depth+1)
			c.sb.WriteString("}\n")
		case k < 10 && kind == "module":
			fmt.Fprintf(c.sb, "rpc %s {\n", c.name("r"))
			c.body("rpc", depth+1)
			c.sb.WriteString("}\n")
		case k < 11 && kind != "grouping" || kind == "case":
			fmt.Fprintf(c.sb, "choice %s {\n", c.name("ch"))
			c.body("choice", depth+1)
			c.sb.WriteString("}\n")
		default:
			c.leaf()
		}
	}
}

const ocExt = "module openconfig-extensions { namespace \"urn:oc-ext\"; prefix oc-ext;\n extension posix-pattern { argument pattern; }\n}\n"

// randomCase: 1-3 modules, each with 0-2 submodules, imports with arbitrary prefixes, typedefs
// with names from {a, b, c} at every kind of scope, chains through all of them.
func randomCase(r *rand.Rand, id string) tcase {
	nMods := 1 + r.Intn(3)
	counter := 0
	var files []srcFile
	withOC := r.Intn(12) == 0
	// one or two families per case keep chains type-compatible most of the time
	fams := []family{family(r.Intn(int(nFamilies)))}
	if r.Intn(2) == 0 {
		fams = append(fams, family(r.Intn(int(nFamilies))))
	}
	if r.Intn(6) == 0 {
		fams = append(fams, famUnion)
	}
	// prefixes are drawn from the usual pool or (some of the time) from the module names of the
	// set: a prefix is a name of its own, whatever module happens to be called the same
	modNames := []string{"m0", "m1", "m2"}
	ownPrefix := make([]string, nMods)
	for i := range ownPrefix {
		ownPrefix[i] = prefixPool[r.Intn(len(prefixPool))]
		if r.Intn(100) < 12 {
			ownPrefix[i] = modNames[r.Intn(len(modNames))]
		}
	}
	deep := r.Intn(4) == 0
	for i := 0; i < nMods; i++ {
		mname := fmt.Sprintf("m%d", i)
		nSubs := r.Intn(3)
		if r.Intn(3) == 0 {
			nSubs = 0
		}
		avoid := map[string]bool{}
		importsFor := func(sb *strings.Builder, self string) []string {
			var pf []string
			for j := 0; j < nMods; j++ {
				if j == i || r.Intn(2) == 0 {
					continue
				}
				p := append(prefixPool, "w")[r.Intn(len(prefixPool)+1)]
				if r.Intn(100) < 18 {
					p = modNames[r.Intn(len(modNames))] // e.g. import m1 under prefix m2
				}
				if p == self && r.Intn(100) < 96 {
					continue // an import prefix equal to the own prefix is rare (illegal YANG)
				}
				dup := false
				for _, q := range pf {
					if q == p {
						dup = true
					}
				}
				if dup && r.Intn(100) < 97 {
					continue
				}
				fmt.Fprintf(sb, "import m%d { prefix %s; }\n", j, p)
				pf = append(pf, p)
			}
			if r.Intn(400) == 0 {
				fmt.Fprintf(sb, "import mmissing { prefix v; }\n")
				pf = append(pf, "v")
			}
			if withOC {
				sb.WriteString("import openconfig-extensions { prefix oc-ext; }\n")
			}
			return pf
		}
		var sb strings.Builder
		fmt.Fprintf(&sb, "module %s { namespace \"urn:%s\"; prefix %s;\n", mname, mname, ownPrefix[i])
		imps := importsFor(&sb, ownPrefix[i])
		included := make([]bool, nSubs)
		for k := 0; k < nSubs; k++ {
			if r.Intn(100) < 93 {
				fmt.Fprintf(&sb, "include %ss%d;\n", mname, k)
				included[k] = true
			}
		}
		if r.Intn(300) == 0 {
			sb.WriteString("include smissing;\n")
		}
		sb.WriteString("identity id0; identity id1 { base id0; }\n")
		c := &fileCtx{r: r, sb: &sb, ownPrefix: ownPrefix[i], imports: imps, fams: fams, n: &counter, hasOCExt: withOC, deep: deep}
		c.typedefs(true, avoid)
		c.body("module", 0)
		if r.Intn(4) == 0 {
			// an augment of a container of the same module: references in its body see the
			// module's typedefs (an augment holds none itself), nested containers may declare more
			tgt := c.name("t")
			fmt.Fprintf(&sb, "container %s { }\naugment \"/%s:%s\" {\n", tgt, ownPrefix[i], tgt)
			c.leaf()
			fmt.Fprintf(&sb, "container %s {\n", c.name("c"))
			c.body("container", 2)
			sb.WriteString("}\n}\n")
		}
		sb.WriteString("}\n")
		files = append(files, srcFile{mname + ".yang", sb.String()})
		for k := 0; k < nSubs; k++ {
			var sb strings.Builder
			sname := fmt.Sprintf("%ss%d", mname, k)
			bp := ownPrefix[i]
			if r.Intn(5) == 0 {
				bp = prefixPool[r.Intn(len(prefixPool))]
				if r.Intn(3) == 0 {
					bp = modNames[r.Intn(len(modNames))]
				}
			}
			owner := mname
			if r.Intn(100) == 0 {
				owner = "mabsent"
			}
			fmt.Fprintf(&sb, "submodule %s { belongs-to %s { prefix %s; }\n", sname, owner, bp)
			simps := importsFor(&sb, bp)
			for k2 := 0; k2 < nSubs; k2++ {
				if k2 != k && (k2 > k && r.Intn(100) < 35 || k2 < k && r.Intn(100) < 6) {
					fmt.Fprintf(&sb, "include %ss%d;\n", mname, k2)
				}
			}
			if r.Intn(3) == 0 {
				sb.WriteString("identity id2 { base id0; }\n")
			}
			c := &fileCtx{r: r, sb: &sb, ownPrefix: bp, imports: simps, fams: fams, n: &counter, hasOCExt: withOC, deep: deep}
			c.typedefs(true, avoid)
			c.body("module", 0)
			sb.WriteString("}\n")
			files = append(files, srcFile{sname + ".yang", sb.String()})
		}
	}
	if withOC {
		files = append(files, srcFile{"openconfig-extensions.yang", ocExt})
	}
	// load order is arbitrary
	r.Shuffle(len(files), func(a, b int) { files[a], files[b] = files[b], files[a] })
	return tcase{ID: id, Files: files}
}

// ---------------------------------------------------------------------------------------------
// odd but builder-accepted type statements

var oddTypes = []string{
	"type p:int8;",
	"type p:string { pattern \"a\"; }",
	"type p:union { type string; }",
	"type p:boolean;",
	"type p:decimal64 { fraction-digits 2; }",
	"type zz:int8;",
	"type string;",
	"type int8;",
	"type string { type int8; }",
	"type string { base id0; }",
	"type int8 { fraction-digits 2; }",
	"type decimal64;",
	"type decimal64 { fraction-digits 0; }",
	"type decimal64 { fraction-digits 19; }",
	"type decimal64 { fraction-digits abc; }",
	"type decimal64 { fraction-digits 0x2; }",
	"type decimal64 { fraction-digits 2; range \"1.001..2\"; }",
	"type decimal64 { fraction-digits 18; range \"-9..9\"; }",
	"type leafref { require-instance maybe; }",
	"type int8 { range \"a..b\"; }",
	"type int8 { range \"1..2..3\"; }",
	"type int8 { range \"5..1\"; }",
	"type int8 { range \"\"; }",
	"type uint64 { range \"0..18446744073709551615|18446744073709551615\"; }",
	"type string { length \"-1..5\"; }",
	"type string { length \"min..max\"; }",
	"type string { length \"1..18446744073709551616\"; }",
	"type enumeration { enum a; enum a; }",
	"type enumeration { enum a { value 1; } enum b { value 1; } }",
	"type enumeration { enum a { value 2147483647; } enum b; }",
	"type enumeration { enum a { value -2147483649; } }",
	"type enumeration { enum a { value x; } }",
	"type enumeration { enum a { value -5; } enum b; }",
	"type enumeration;",
	"type bits { bit a { position 4294967295; } bit b; }",
	"type bits { bit a { position 4294967296; } }",
	"type bits { bit a { position 3; } bit b { position 3; } }",
	"type bits { bit a { position -1; } }",
	"type identityref;",
	"type identityref { base q:nosuch; }",
	"type identityref { base zz:id0; }",
	"type union;",
	"type union { type union { type union { type string; } } }",
	"type union { type string; type string; type int8; type int8 { range \"1..2\"; } }",
	"type union { type enumeration { enum a; } type enumeration { enum a; } type enumeration { enum b; } }",
	"type union { type bits { bit a; } type bits { bit b; } }",
	"type a:b:c;",
	"type p:;",
	"type \":a\";",
	"type string { zz:ext \"x\"; }",
	"type string { p:ext \"x\"; }",
	"type string { pattern \"a\"; pattern \"a\"; pattern \"b\"; }",
	"type a { pattern \"p1\"; }",
	"type b { length \"1..3\"; }",
	"type c { range \"1..3\"; }",
	"type empty { length \"1\"; range \"2\"; pattern \"3\"; path \"4\"; }",
	"type instance-identifier { require-instance false; }",
	"type boolean { enum a; bit b; }",
}

// oddCase: one module (sometimes with a submodule), typedefs a, b, c built from odd type
// statements, leaves using them and further odd statements.
func oddCase(r *rand.Rand, id string) tcase {
	var sb strings.Builder
	pick := func() string { return oddTypes[r.Intn(len(oddTypes))] }
	sb.WriteString("module m0 { namespace \"urn:m0\"; prefix p;\nidentity id0;\n")
	withSub := r.Intn(3) == 0
	if withSub {
		sb.WriteString("include m0s0;\n")
	}
	for _, n := range typedefNames {
		if r.Intn(4) > 0 {
			fmt.Fprintf(&sb, "typedef %s { %s", n, pick())
			if r.Intn(3) == 0 {
				sb.WriteString([]string{" default \"1\";", " default \"\";"}[r.Intn(2)])
			}
			if r.Intn(3) == 0 {
				sb.WriteString([]string{" units \"u\";", " units \"\";"}[r.Intn(2)])
			}
			sb.WriteString(" }\n")
		}
	}
	for _, bn := range []string{"string", "int8", "union", "boolean"} {
		if r.Intn(5) == 0 {
			fmt.Fprintf(&sb, "typedef %s { %s }\n", bn, pick())
		}
	}
	for i := 0; i < 2+r.Intn(4); i++ {
		if r.Intn(3) == 0 {
			fmt.Fprintf(&sb, "container c%d { typedef %s { %s }\n leaf y%d { %s } }\n", i, typedefNames[r.Intn(3)], pick(), i, pick())
		}
		fmt.Fprintf(&sb, "leaf x%d { %s }\n", i, pick())
	}
	sb.WriteString("}\n")
	files := []srcFile{{"m0.yang", sb.String()}}
	if withSub {
		files = append(files, srcFile{"m0s0.yang", fmt.Sprintf("submodule m0s0 { belongs-to m0 { prefix p; }\n typedef %s { %s }\n leaf z1 { %s }\n}\n", typedefNames[r.Intn(3)], pick(), pick())})
	}
	return tcase{ID: id, Files: files}
}

// ---------------------------------------------------------------------------------------------
// derivation chains of depth 5 with every attribute
//
// d1 (module mb) <- d2 (submodule of mb) <- d3 (module ma, through the import of mb) <- d4
// (container scope in ma) <- d5 (list scope below it); every level may add what its family
// allows (a further pattern, a narrower range or length, units, a default, a path, ...); several
// leaves use d5, d4 and d3, each with a restriction of its own (use sites of one typedef must not
// see each other's additions).
func chainCase(r *rand.Rand, id string) tcase {
	f := family(r.Intn(int(nFamilies)))
	p := func(prob int) bool { return r.Intn(100) < prob }
	narrowInt := []string{"0..100", "1..90", "5..80", "10..70", "20..60", "30..50", "35..45"}
	narrowLen := []string{"0..200", "1..100", "2..90", "3..80", "4..70", "5..60", "6..50"}
	narrowDec := []string{"0..100", "0.5..90", "1.25..80", "2..70.5", "10..60", "20..50", "30.75..40"}
	root := map[family]string{
		famString: "string", famInt: []string{"int8", "int32", "uint16", "uint64"}[r.Intn(4)], famDec: "decimal64", famEnum: "enumeration",
		famBits: "bits", famLeafref: "leafref", famIdref: "identityref", famInstID: "instance-identifier", famUnion: "union",
		famBool: "boolean", famBinary: "binary",
	}[f]
	step := 0 // how far the narrowing has come
	body := func(level int, site bool) string {
		var b strings.Builder
		switch f {
		case famString:
			if p(60) {
				fmt.Fprintf(&b, " pattern \"p%d%s\";", level, map[bool]string{true: "s", false: ""}[site])
			}
			if p(15) {
				fmt.Fprintf(&b, " pattern \"p1\";") // restating an inherited pattern adds nothing
			}
			if p(40) && step < len(narrowLen) {
				fmt.Fprintf(&b, " length \"%s\";", narrowLen[step])
				if !site {
					step++
				}
			}
		case famBinary:
			if p(50) && step < len(narrowLen) {
				fmt.Fprintf(&b, " length \"%s\";", narrowLen[step])
				if !site {
					step++
				}
			}
		case famInt:
			if p(55) && step < len(narrowInt) {
				fmt.Fprintf(&b, " range \"%s\";", narrowInt[step])
				if !site {
					step++
				}
			}
			if p(4) {
				b.Reset()
				fmt.Fprintf(&b, " range \"0..120\";") // wider than what is inherited: an error
			}
		case famDec:
			if level == 1 {
				fmt.Fprintf(&b, " fraction-digits %d;", 1+r.Intn(3))
			}
			if p(50) && step < len(narrowDec) {
				fmt.Fprintf(&b, " range \"%s\";", narrowDec[step])
				if !site {
					step++
				}
			}
		case famEnum:
			if level == 1 {
				b.WriteString(" enum e0; enum e1 { value 5; } enum e2; enum e3 { value -2; }")
			}
		case famBits:
			if level == 1 {
				b.WriteString(" bit b0; bit b1 { position 7; } bit b2;")
			}
		case famLeafref:
			if level == 1 || p(25) {
				fmt.Fprintf(&b, " path \"../l%d\";", level)
			}
			if p(25) {
				fmt.Fprintf(&b, " require-instance %s;", []string{"true", "false"}[r.Intn(2)])
			}
		case famIdref:
			if level == 1 {
				b.WriteString(" base id0;")
			}
		case famInstID:
			if p(30) {
				fmt.Fprintf(&b, " require-instance %s;", []string{"true", "false"}[r.Intn(2)])
			}
		case famUnion:
			if level == 1 {
				b.WriteString(" type string { pattern \"u\"; } type int8 { range \"1..5\"; } type enumeration { enum x; }")
				if p(50) {
					b.WriteString(" type m1t;")
				}
			}
		}
		return b.String()
	}
	ts := func(ref string, level int, site bool) string {
		bd := body(level, site)
		if bd == "" {
			return "type " + ref + ";"
		}
		return "type " + ref + " {" + bd + " }"
	}
	extras := func(level int) string {
		var b strings.Builder
		if p(35) {
			if p(30) {
				b.WriteString(" units \"\";") // explicitly no units: hides what the chain below states
			} else {
				fmt.Fprintf(&b, " units \"u%d\";", level)
			}
		}
		if p(35) {
			if p(25) {
				b.WriteString(" default \"\";")
			} else {
				fmt.Fprintf(&b, " default \"%s\";", defaultsOf[f][r.Intn(len(defaultsOf[f]))])
			}
		}
		return b.String()
	}
	td := func(name, ref string, level int) string {
		return fmt.Sprintf("typedef %s { %s%s }\n", name, ts(ref, level, false), extras(level))
	}
	var mb, mbs, ma strings.Builder
	mb.WriteString("module mb { namespace \"urn:mb\"; prefix pb; include mbs;\nidentity id0;\ntypedef m1t { type boolean; }\n")
	mb.WriteString(td("d1", root, 1))
	mb.WriteString("}\n")
	mbs.WriteString("submodule mbs { belongs-to mb { prefix pb; }\n")
	mbs.WriteString(td("d2", []string{"d1", "pb:d1"}[r.Intn(2)], 2))
	mbs.WriteString("leaf s1 { type d2; }\n}\n")
	ma.WriteString("module ma { namespace \"urn:ma\"; prefix pa; import mb { prefix x; }\n")
	ma.WriteString(td("d3", "x:d2", 3))
	ma.WriteString("leaf a1 { " + ts("d3", 6, true) + " }\n")
	ma.WriteString("leaf a2 { " + ts("pa:d3", 6, true) + " }\n")
	ma.WriteString("container c1 {\n")
	ma.WriteString(td("d4", []string{"d3", "pa:d3"}[r.Intn(2)], 4))
	ma.WriteString("leaf b1 { " + ts("d4", 6, true) + " }\n")
	ma.WriteString("leaf-list b2 { " + ts("d4", 6, true) + " }\n")
	ma.WriteString("list l1 {\n")
	ma.WriteString(td("d5", "d4", 5))
	for i := 1; i <= 3; i++ {
		ma.WriteString(fmt.Sprintf("leaf c%d { %s", i, ts("d5", 6, true)))
		if p(20) {
			ma.WriteString(" mandatory true;")
		}
		ma.WriteString(" }\n")
	}
	ma.WriteString("leaf c4 { type d5; }\n")
	ma.WriteString("grouping g1 { leaf g1l { " + ts("d5", 6, true) + " } }\n")
	ma.WriteString("container u1 { uses g1; }\ncontainer u2 { uses g1; }\n")
	ma.WriteString("}\n}\n}\n")
	files := []srcFile{{"ma.yang", ma.String()}, {"mb.yang", mb.String()}, {"mbs.yang", mbs.String()}}
	r.Shuffle(len(files), func(a, b int) { files[a], files[b] = files[b], files[a] })
	return tcase{ID: id, Files: files}
}

// ---------------------------------------------------------------------------------------------
// several revisions of an imported module; histories
//
// Module b is loaded in two or three revisions whose same-named typedefs differ (kind, units,
// default, patterns, ...).  Module a (and sometimes a2) imports b once or twice, each import under
// its own prefix, pinned to a revision with revision-date, not pinned (the latest loaded revision
// is meant), or pinned to a revision that is not loaded.  References go to the prefixed names
// directly, through local typedefs, through typedefs of typedefs and through union members.
//
// With history = true only some of the files are there for the first Process; the rest (newer or
// older revisions of b) is loaded afterwards and everything is processed again: what a prefix
// denotes may change between the runs, and every resolved type has to follow.

var revDates = []string{"2019-01-01", "2020-02-02", "2021-03-03"}

var tdVariants = []string{
	"type string { pattern \"x.*\"; } units \"old-units\"; default \"xold\";",
	"type int32; units \"new-units\"; default \"7\";",
	"type string { length \"1..10\"; pattern \"a+\"; }",
	"type uint8 { range \"1..100\"; } default \"5\";",
	"type enumeration { enum e0; enum e1 { value 5; } } default \"e0\";",
	"type decimal64 { fraction-digits 2; range \"1..10\"; } units \"m\";",
	"type bits { bit b0; bit b1; }",
	"type union { type string; type int8; }",
	"type boolean; default \"true\";",
	"type leafref { path \"../x\"; }",
	"type int16 { range \"-5..5\"; } units \"k\";",
	"type string; units \"s\";",
}

var siteRestrictions = []string{"", "", " pattern \".*z\";", " length \"2..8\";", " range \"2..4\";", " pattern \"x.*\";"}

func revisionCase(r *rand.Rand, id string, history bool) tcase {
	p := func(prob int) bool { return r.Intn(100) < prob }
	nRev := 2 + r.Intn(2)
	dates := append([]string{}, revDates[:nRev]...)
	withSub := p(25)
	var bFiles []srcFile
	perm := r.Perm(len(tdVariants))
	for i, d := range dates {
		var sb strings.Builder
		fmt.Fprintf(&sb, "module b { namespace \"urn:b\"; prefix pb;\n")
		if withSub {
			sb.WriteString("include bs;\n")
		}
		for j := i; j >= 0; j-- {
			fmt.Fprintf(&sb, "revision %s;\n", dates[j])
		}
		if !p(8) {
			fmt.Fprintf(&sb, "typedef t { %s }\n", tdVariants[perm[i]])
		}
		if p(60) {
			ref := []string{"t", "pb:t"}[r.Intn(2)]
			if withSub && p(40) {
				ref = "s"
			}
			fmt.Fprintf(&sb, "typedef u { type %s {%s }", ref, siteRestrictions[r.Intn(len(siteRestrictions))])
			if p(40) {
				fmt.Fprintf(&sb, " units \"u%d\";", i)
			}
			sb.WriteString(" }\n")
		}
		fmt.Fprintf(&sb, "leaf bl%d { type t; }\n}\n", i)
		bFiles = append(bFiles, srcFile{"b@" + d + ".yang", sb.String()})
	}
	var other []srcFile
	if withSub {
		other = append(other, srcFile{"bs.yang", fmt.Sprintf("submodule bs { belongs-to b { prefix pb; }\ntypedef s { %s }\n}\n", tdVariants[perm[len(perm)-1]])})
	}
	pin := func() string {
		x := r.Intn(100)
		lim := 45
		if history {
			lim = 65
		}
		switch {
		case x < lim:
			return ""
		case x < 93:
			return fmt.Sprintf(" revision-date %s;", dates[r.Intn(len(dates))])
		default:
			return " revision-date 2018-08-08;"
		}
	}
	importer := func(name, own string, extra string) string {
		var sb strings.Builder
		fmt.Fprintf(&sb, "module %s { namespace \"urn:%s\"; prefix %s;\n", name, name, own)
		pf := []string{"old", "new"}
		if p(50) {
			pf = pf[:1]
		}
		if p(30) {
			pf[0] = "pb" // the import prefix equals the imported module's own prefix
		}
		for _, q := range pf {
			fmt.Fprintf(&sb, "import b { prefix %s;%s }\n", q, pin())
		}
		sb.WriteString(extra)
		n := 0
		for _, q := range pf {
			n++
			fmt.Fprintf(&sb, "typedef mine%d { type %s:t {%s }", n, q, siteRestrictions[r.Intn(len(siteRestrictions))])
			if p(30) {
				fmt.Fprintf(&sb, " units \"%s\";", []string{fmt.Sprintf("mu%d", n), ""}[r.Intn(2)])
			}
			sb.WriteString(" }\n")
			fmt.Fprintf(&sb, "typedef mine2%d { type mine%d {%s }", n, n, siteRestrictions[r.Intn(len(siteRestrictions))])
			if p(30) {
				fmt.Fprintf(&sb, " default \"%s\";", []string{fmt.Sprintf("d%d", n), ""}[r.Intn(2)])
			}
			sb.WriteString(" }\n")
			fmt.Fprintf(&sb, "leaf direct%d { type %s:t; }\n", n, q)
			fmt.Fprintf(&sb, "leaf directu%d { type %s:u; }\n", n, q)
			fmt.Fprintf(&sb, "leaf site%d { type %s:t {%s } }\n", n, q, siteRestrictions[r.Intn(len(siteRestrictions))])
			fmt.Fprintf(&sb, "leaf derived%d { type mine%d; }\n", n, n)
			fmt.Fprintf(&sb, "leaf derivedtwo%d { type mine2%d {%s } }\n", n, n, siteRestrictions[r.Intn(len(siteRestrictions))])
			fmt.Fprintf(&sb, "container c%d { typedef mine%d { type mine2%d; units \"cu\"; }\n leaf-list inner%d { type mine%d; } }\n", n, n, n, n, n)
		}
		if len(pf) == 2 {
			fmt.Fprintf(&sb, "leaf both { type union { type %s:t; type %s:t; type mine1; type mine22; } }\n", pf[0], pf[1])
		}
		sb.WriteString("}\n")
		return sb.String()
	}
	other = append(other, srcFile{"a.yang", importer("a", "pa", "")})
	if p(35) {
		// a second importer, pinned independently; a third module derives from its typedefs
		other = append(other, srcFile{"a2.yang", importer("a2", "pa2", "")})
		other = append(other, srcFile{"a3.yang", "module a3 { namespace \"urn:a3\"; prefix pa3; import a2 { prefix x; } import a { prefix y; }\n" +
			"typedef far { type x:mine21 { pattern \"far\"; } }\nleaf f1 { type far; }\nleaf f2 { type y:mine1; }\nleaf f3 { type x:mine1; }\n}\n"})
	}
	if !history {
		files := append(append([]srcFile{}, bFiles...), other...)
		r.Shuffle(len(files), func(a, b int) { files[a], files[b] = files[b], files[a] })
		return tcase{ID: id, Files: files}
	}
	// history: at least one revision of b is there from the start, at least one comes later
	k := 1 + r.Intn(len(bFiles)-1)
	order := r.Perm(len(bFiles))
	var first, later []srcFile
	for i, x := range order {
		if i < k {
			first = append(first, bFiles[x])
		} else {
			later = append(later, bFiles[x])
		}
	}
	first = append(first, other...)
	r.Shuffle(len(first), func(a, b int) { first[a], first[b] = first[b], first[a] })
	return tcase{ID: id, Files: first, Later: later}
}

// ---------------------------------------------------------------------------------------------
// exhaustive enumeration of prefix / module-name collisions
//
// Module m (or its submodule s) imports module b and module a, in that order; the import
// prefixes, m's own prefix (the submodule's belongs-to prefix) and the qualifier of the reference
// run over texts that are also module names of the set.  a, b and m each declare `t` with a
// different base type, so the dump shows where the reference was bound; a qualifier that no
// import assigns (and that is not the own prefix) is an unknown prefix, also when a module of
// that name is imported.
func collisionCases() []tcase {
	var out []tcase
	own := []string{"p", "a", "b"}
	imp := []string{"x", "a", "b", "m", "p"}
	quals := []string{"x", "a", "b", "m", "p", "zz"}
	aText := "module a { namespace \"urn:a\"; prefix pa;\ntypedef t { type uint8; }\n}\n"
	bText := "module b { namespace \"urn:b\"; prefix pb;\ntypedef t { type uint16; }\n}\n"
	for variant := 0; variant < 2; variant++ {
		for _, o := range own {
			for _, pb := range imp {
				for _, pa := range imp {
					for _, q := range quals {
						imports := fmt.Sprintf("import b { prefix %s; }\nimport a { prefix %s; }\n", pb, pa)
						leaf := fmt.Sprintf("leaf x1 { type %s:t; }\ncontainer c1 { typedef t { type boolean; } leaf x2 { type %s:t; } }\n", q, q)
						var files []srcFile
						if variant == 0 {
							files = []srcFile{{"m.yang", fmt.Sprintf("module m { namespace \"urn:m\"; prefix %s;\n%stypedef t { type int8; }\n%s}\n", o, imports, leaf)}}
						} else {
							files = []srcFile{
								{"m.yang", "module m { namespace \"urn:m\"; prefix p; include s;\ntypedef t { type int8; }\n}\n"},
								{"s.yang", fmt.Sprintf("submodule s { belongs-to m { prefix %s; }\n%s%s}\n", o, imports, leaf)}}
						}
						files = append(files, srcFile{"a.yang", aText}, srcFile{"b.yang", bText})
						out = append(out, tcase{ID: fmt.Sprintf("col/v%d/o%s/b%s/a%s/q%s", variant, o, pb, pa, q), Files: files})
					}
				}
			}
		}
	}
	return out
}
