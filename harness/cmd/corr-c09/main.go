// corr-c09: correspondence between goyang's type resolution (real code, run in crash-isolated
// child processes) and the Lean model Goyang.Model.Types (driver drv_types), plus the executable
// specification Goyang.Spec.Types (lexical binding + chain inheritance) evaluated on the Go output
// of every case.
//
// Inputs: corpus (corpus/C09/*.json, the witnesses of the repaired defects and of seeded changes), an exhaustive
// enumeration of binding situations (which of the visible scopes declare the name x how the
// reference is written x where it stands), seeded random schemas (gen.go), a stream of odd but
// builder-accepted type statements, schemas with a typedef at every kind of scope in every
// statement, chains with pattern and posix-pattern statements of coinciding texts at every level
// (pat.go, with a Go-side reference accumulation of both lists), and packagings (pack.go): every corpus set and a share of every generated group
// loaded again with the same statements distributed over source texts differently (all in one
// text, module + submodule, importer + imported), compared with the model, the specification and
// the one-statement-per-text form.
package main

import (
	"bufio"
	"encoding/json"
	"flag"
	"fmt"
	"os"
	"os/exec"
	"path/filepath"
	"reflect"
	"runtime/debug"
	"sort"
	"strings"
	"sync"
	"time"

	"github.com/openconfig/goyang/pkg/yang"
	"verif/harness/lib"
)

// ---------------------------------------------------------------------------------------------
// cases and observations

type srcFile struct {
	Name string `json:"name"`
	Text string `json:"text"`
}

// A case: the files are loaded in order and processed (twice); when there are later files, they
// are then loaded into the same Modules and everything is processed again (twice): what is
// observed afterwards must be what a fresh Modules holding all the texts gives, which is the
// model's answer for files followed by later.
type tcase struct {
	ID    string    `json:"id"`
	Files []srcFile `json:"files"`
	Later []srcFile `json:"later,omitempty"`
	// GoOnly: a case the memo-free model cannot evaluate in reasonable time (its cost is the size
	// of the unfolded derivation, exponential for a chain of unions that name the previous
	// typedef twice); the Go side must finish, not crash, and report exactly ExpectErrors.
	GoOnly       bool     `json:"go_only,omitempty"`
	ExpectErrors []string `json:"expect_process_errors,omitempty"`
	// A packaging (pack.go) of the case Base: the same statements in the load order Pack names,
	// cut into source texts as Pack says ("2+0,1": files 2 and 0 in one text, then file 1); Segs
	// maps the lines of the packaged texts back to the original files.  Versus (replay files only)
	// is the one-statement-per-text form with the same load order, which must show the same.
	Base   string `json:"base,omitempty"`
	Pack   string `json:"pack,omitempty"`
	Segs   []seg  `json:"segs,omitempty"`
	Versus *tcase `json:"versus,omitempty"`
}

func (c tcase) all() []srcFile {
	return append(append([]srcFile{}, c.Files...), c.Later...)
}

// leafObs is what one leaf entry (or AST leaf) shows.
type leafObs struct {
	Dump string   `json:"dump"`
	DV   string   `json:"dv"`
	Errs []string `json:"errs"`
	Spec string   `json:"spec"`
}

type goRes struct {
	ID       string               `json:"id"`
	ParseErr string               `json:"parse_err,omitempty"`
	Phase1   []string             `json:"phase1_errors,omitempty"`
	P1       []string             `json:"p1"`
	P2       []string             `json:"p2"`
	Leaves   map[string][]leafObs `json:"leaves"`
	Ast      map[string]string    `json:"ast"`
	InAug    map[string]bool      `json:"in_augment,omitempty"`
	Dropped  int                  `json:"entry_layer_errors_left_out,omitempty"`
	Panic    string               `json:"panic,omitempty"`
	// Acc: findings of the Go-side accumulation oracle (pat.go): pattern / posix-pattern lists of a
	// resolved type that are not the accumulation of the chain's statements of their own kind
	Acc []string `json:"pattern_accumulation_findings,omitempty"`
}

// ---------------------------------------------------------------------------------------------
// the Go side (runs in the child)

func errLines(errs []error) []string {
	out, _ := errLinesN(errs)
	return out
}

// errLinesN also counts the errors it leaves out.
func errLinesN(errs []error) ([]string, int) {
	out := make([]string, 0, len(errs))
	dropped := 0
	for _, e := range errs {
		msg := e.Error()
		// reports of the entry layer about include statements (a submodule nobody includes, an
		// include cycle) are not the type layer's business
		if strings.Contains(msg, "is not resolved") || strings.Contains(msg, "has a circular dependency") {
			dropped++
			continue
		}
		out = append(out, lib.ErrLine(msg))
	}
	return out, dropped
}

func runGo(c tcase) (res goRes) {
	res.ID = c.ID
	res.Leaves = map[string][]leafObs{}
	res.Ast = map[string]string{}
	res.InAug = map[string]bool{}
	defer func() {
		if r := recover(); r != nil {
			res.Panic = fmt.Sprint(r)
		}
	}()
	ms := yang.NewModules()
	for _, f := range c.Files {
		if err := ms.Parse(f.Text, f.Name); err != nil {
			res.ParseErr = err.Error()
			return res
		}
	}
	res.P1, res.Dropped = errLinesN(ms.Process())
	res.P2 = errLines(ms.Process())
	if len(c.Later) > 0 {
		res.Phase1 = res.P1
		for _, f := range c.Later {
			if err := ms.Parse(f.Text, f.Name); err != nil {
				res.ParseErr = err.Error()
				return res
			}
		}
		res.P1, res.Dropped = errLinesN(ms.Process())
		res.P2 = errLines(ms.Process())
	}
	seen := map[*yang.Module]bool{}
	var mods []*yang.Module
	for _, m := range ms.Modules {
		if !seen[m] {
			seen[m] = true
			mods = append(mods, m)
		}
	}
	for _, m := range ms.SubModules {
		if !seen[m] {
			seen[m] = true
			mods = append(mods, m)
		}
	}
	sort.Slice(mods, func(i, j int) bool { return mods[i].Name < mods[j].Name })
	for _, m := range mods {
		walkEntry(yang.ToEntry(m), &res, map[*yang.Entry]bool{})
		walkAST(m, &res)
	}
	return res
}

func addObs(res *goRes, key string, o leafObs) {
	for _, p := range res.Leaves[key] {
		if p.Dump == o.Dump && p.DV == o.DV && strings.Join(p.Errs, " ") == strings.Join(o.Errs, " ") {
			return
		}
	}
	res.Leaves[key] = append(res.Leaves[key], o)
}

func walkEntry(e *yang.Entry, res *goRes, seen map[*yang.Entry]bool) {
	if e == nil || seen[e] {
		return
	}
	seen[e] = true
	if e.Kind == yang.LeafEntry && e.Node != nil {
		if _, ok := e.Node.(*yang.Leaf); ok {
			hexdv := make([]string, 0)
			for _, d := range e.DefaultValues() {
				hexdv = append(hexdv, lib.HexS(d))
			}
			addObs(res, yang.Source(e.Node), leafObs{
				Dump: lib.DumpYangType(e.Type),
				DV:   "[" + strings.Join(hexdv, ",") + "]",
				Errs: errLines(e.Errors),
				Spec: lib.SpecDumpYangType(e.Type),
			})
		}
	}
	for _, k := range lib.SortedKeys(e.Dir) {
		walkEntry(e.Dir[k], res, seen)
	}
	if e.RPC != nil {
		walkEntry(e.RPC.Input, res, seen)
		walkEntry(e.RPC.Output, res, seen)
	}
	for _, a := range e.Augments {
		walkEntry(a, res, seen)
	}
}

// walkAST visits every leaf and leaf-list node of the AST (also those in groupings nobody uses)
// and records what Type.YangType holds.  The walk follows exactly the substatement fields (struct
// fields with a lower-case yang tag).
func walkAST(m *yang.Module, res *goRes) {
	var visit func(n yang.Node)
	inAug := 0
	visit = func(n yang.Node) {
		switch s := n.(type) {
		case *yang.Leaf:
			if s.Type != nil {
				accOracle(res, s.Type, 0)
				res.Ast[yang.Source(s)] = lib.DumpYangType(s.Type.YangType)
				if inAug > 0 {
					res.InAug[yang.Source(s)] = true
				}
			}
			return
		case *yang.LeafList:
			if s.Type != nil {
				accOracle(res, s.Type, 0)
				res.Ast[yang.Source(s)] = lib.DumpYangType(s.Type.YangType)
				if inAug > 0 {
					res.InAug[yang.Source(s)] = true
				}
			}
			return
		case *yang.Value:
			return
		case *yang.Typedef:
			accOracleTypedef(res, s)
		case *yang.Augment:
			inAug++
			defer func() { inAug-- }()
		}
		v := reflect.ValueOf(n)
		if v.Kind() != reflect.Ptr || v.IsNil() {
			return
		}
		v = v.Elem()
		t := v.Type()
		for i := 0; i < t.NumField(); i++ {
			tag := strings.Split(t.Field(i).Tag.Get("yang"), ",")[0]
			if tag == "" || tag[0] < 'a' || tag[0] > 'z' {
				continue
			}
			f := v.Field(i)
			switch f.Kind() {
			case reflect.Ptr:
				if !f.IsNil() {
					if c, ok := f.Interface().(yang.Node); ok {
						visit(c)
					}
				}
			case reflect.Slice:
				for j := 0; j < f.Len(); j++ {
					if c, ok := f.Index(j).Interface().(yang.Node); ok {
						visit(c)
					}
				}
			}
		}
	}
	visit(m)
}

// child reads one case per line and answers one result per line.
func child() {
	// a runaway recursion is fatal either way; a 64 MB limit makes it fatal quickly
	debug.SetMaxStack(64 << 20)
	in := bufio.NewReaderSize(os.Stdin, 1<<20)
	out := bufio.NewWriterSize(os.Stdout, 1<<20)
	for {
		line, err := in.ReadBytes('\n')
		if len(line) > 0 {
			var c tcase
			if json.Unmarshal(line, &c) == nil {
				r := runGo(c)
				b, _ := json.Marshal(r)
				out.Write(b)
				out.WriteByte('\n')
				out.Flush()
			}
		}
		if err != nil {
			return
		}
	}
}

// ---------------------------------------------------------------------------------------------
// supervisor: cases are handed to children one at a time, so a dead child names its case

type childProc struct {
	cmd *exec.Cmd
	in  *bufio.Writer
	out *bufio.Reader
	wc  interface{ Close() error }
	err *strings.Builder
}

func startChild() (*childProc, error) {
	cmd := exec.Command(os.Args[0], "-child")
	cmd.Env = append(os.Environ(), "GOTRACEBACK=single")
	wc, err := cmd.StdinPipe()
	if err != nil {
		return nil, err
	}
	rc, err := cmd.StdoutPipe()
	if err != nil {
		return nil, err
	}
	sb := &strings.Builder{}
	cmd.Stderr = &capWriter{sb: sb}
	if err := cmd.Start(); err != nil {
		return nil, err
	}
	return &childProc{cmd: cmd, in: bufio.NewWriterSize(wc, 1<<20), out: bufio.NewReaderSize(rc, 1<<22), wc: wc, err: sb}, nil
}

// capWriter keeps the first 4000 bytes of a child's stderr (the head of a fatal error report).
type capWriter struct {
	mu sync.Mutex
	sb *strings.Builder
}

func (w *capWriter) Write(p []byte) (int, error) {
	w.mu.Lock()
	defer w.mu.Unlock()
	if w.sb.Len() < 4000 {
		n := 4000 - w.sb.Len()
		if n > len(p) {
			n = len(p)
		}
		w.sb.Write(p[:n])
	}
	return len(p), nil
}

func (c *childProc) stop() {
	c.wc.Close()
	c.cmd.Wait()
}

// runShard runs the cases of one shard; a case on which the child dies (fatal error, stack
// overflow, exit) or hangs gets a result with Panic set.
func runShard(cases []tcase, out []goRes) {
	var ch *childProc
	for i, c := range cases {
		if ch == nil {
			var err error
			ch, err = startChild()
			if err != nil {
				lib.Fatal("start child: %v", err)
			}
		}
		b, _ := json.Marshal(c)
		ch.in.Write(b)
		ch.in.WriteByte('\n')
		ch.in.Flush()
		type rd struct {
			line []byte
			err  error
		}
		done := make(chan rd, 1)
		go func(r *bufio.Reader) {
			l, err := r.ReadBytes('\n')
			done <- rd{l, err}
		}(ch.out)
		var got rd
		select {
		case got = <-done:
		case <-time.After(60 * time.Second):
			ch.cmd.Process.Kill()
			got = <-done
			got.err = fmt.Errorf("timeout after 60 s")
		}
		var r goRes
		if got.err != nil || json.Unmarshal(got.line, &r) != nil {
			ch.cmd.Wait()
			head := ch.err.String()
			if len(head) > 600 {
				head = head[:600]
			}
			r = goRes{ID: c.ID, Panic: fmt.Sprintf("child died: %v; stderr: %s", got.err, head)}
			ch = nil
		}
		out[i] = r
	}
	if ch != nil {
		ch.stop()
	}
}

func runAllGo(cases []tcase, procs int) []goRes {
	out := make([]goRes, len(cases))
	if procs < 1 {
		procs = 1
	}
	chunk := (len(cases) + procs - 1) / procs
	var wg sync.WaitGroup
	for p := 0; p < procs; p++ {
		lo, hi := p*chunk, (p+1)*chunk
		if lo >= len(cases) {
			break
		}
		if hi > len(cases) {
			hi = len(cases)
		}
		wg.Add(1)
		go func(lo, hi int) {
			defer wg.Done()
			runShard(cases[lo:hi], out[lo:hi])
		}(lo, hi)
	}
	wg.Wait()
	return out
}

// ---------------------------------------------------------------------------------------------
// the model side

type modelLeaf struct {
	Dump string
	DV   string
	Errs []string
}

type modelRes struct {
	Status string // ok | linkfail | loaderr | outsideModel | ...
	ID     []string
	TD     []string
	Leaves map[string]modelLeaf
	Order  []string
}

func wire(c tcase) (string, error) {
	fs := c.all()
	names := make([]string, len(fs))
	texts := make([]string, len(fs))
	for i, f := range fs {
		names[i], texts[i] = f.Name, f.Text
	}
	return lib.WireFiles(names, texts)
}

func parseModel(ans string) modelRes {
	f := strings.Fields(ans)
	m := modelRes{Leaves: map[string]modelLeaf{}}
	if len(f) == 0 {
		m.Status = "empty"
		return m
	}
	m.Status = f[0]
	if f[0] != "ok" {
		return m
	}
	i := 1
	readErrs := func() []string {
		n := 0
		fmt.Sscanf(f[i], "%d", &n)
		i++
		es := append([]string{}, f[i:i+n]...)
		i += n
		return es
	}
	if i < len(f) && f[i] == "ID" {
		i++
		m.ID = readErrs()
	}
	if i < len(f) && f[i] == "TD" {
		i++
		m.TD = readErrs()
	}
	for i < len(f) && f[i] == "L" {
		key, dump, dv := f[i+1], f[i+2], f[i+3]
		i += 4
		es := readErrs()
		m.Leaves[key] = modelLeaf{Dump: dump, DV: dv, Errs: es}
		m.Order = append(m.Order, key)
	}
	return m
}

func parseSpec(ans string) map[string]string {
	f := strings.Fields(ans)
	out := map[string]string{}
	if len(f) == 0 || f[0] != "ok" {
		return nil
	}
	for i := 1; i+2 < len(f)+0 && f[i] == "L"; i += 3 {
		out[f[i+1]] = f[i+2]
	}
	return out
}

// tdVerdict is the specification's verdict for one typedef statement (driver: `tdItem`).
type tdVerdict struct {
	Key     string   // position of the typedef statement
	V       string   // OK | ERR | NOCLAIM:<why>
	Direct  string   // ERR: position of the typedef's type statement when its own name is unbound, else "-"
	Closure []string // ERR: positions of the statements of the derivation
}

func parseSpecTD(ans string) []tdVerdict {
	f := strings.Fields(ans)
	if len(f) == 0 || f[0] != "ok" {
		return nil
	}
	i := 1
	for i+2 < len(f) && f[i] == "L" {
		i += 3
	}
	var out []tdVerdict
	for i+2 < len(f) && f[i] == "D" {
		v := tdVerdict{Key: f[i+1], V: f[i+2]}
		i += 3
		if v.V == "ERR" && i+1 < len(f) {
			v.Direct = f[i]
			n := 0
			fmt.Sscanf(f[i+1], "%d", &n)
			i += 2
			if i+n > len(f) {
				break
			}
			v.Closure = append([]string{}, f[i:i+n]...)
			i += n
		}
		out = append(out, v)
	}
	return out
}

// specCheckTD: the typedef statements themselves, used by a leaf or not.  For every typedef
// statement of the schema (any scope) whose type is unknown, unresolvable or cyclic by the
// specification, Process() must report an error positioned at it: exactly at the typedef's type
// statement, with class unknown-type / unknown-prefix, when that statement's own name is unbound;
// else at some statement of its derivation (the typedef, its type statement and what is below it,
// the typedefs that names and their type statements, ...).  This is the leaf-level verdict (ERR:
// some error is reported for the reference) with "for the reference" read off the positions, as
// Process() returns one flat list.  Three kinds of error carry no statement position: an identity
// base that is not found (position of the (sub)module statement, or none), a require-instance
// argument that is not a boolean and an extension statement with an unknown prefix (none).  Where
// the derivation holds such a statement the driver lists these positions with the derivation
// (Drv.Types.unplaced): the library stops at a typedef that fails to resolve before it looks at
// the member types written below the type statement naming it (`type a { type nosuch; }` with a
// broken `a`), so such an error may be the only one the derivation gets; a leaf of that type is
// judged the same way (ERR, any error).  Corpus: unplaced-*.json.
func specCheckTD(g goRes, tds []tdVerdict) []string {
	if g.Panic != "" || g.ParseErr != "" {
		return nil
	}
	at := map[string][]string{}
	for _, e := range g.P1 {
		if i := strings.LastIndex(e, ":"); i > 0 {
			at[e[:i]] = append(at[e[:i]], e[i+1:])
		}
	}
	var bad []string
	for _, v := range tds {
		if v.V != "ERR" {
			continue
		}
		if v.Direct != "-" {
			ok := false
			for _, cls := range at[v.Direct] {
				if cls == "unknown-type" || cls == "unknown-prefix" {
					ok = true
				}
			}
			if !ok {
				bad = append(bad, fmt.Sprintf("typedef %s: 'an unknown, unresolvable or cyclic type reference is an error' (wherever the reference stands, also as the type of a typedef no leaf uses): the name in the type statement %s of this typedef denotes no typedef and no built-in type, but Process() reports no unknown type / unknown prefix there (it reports %v)", v.Key, v.Direct, head(g.P1, 6)))
			}
			continue
		}
		ok := false
		for _, p := range v.Closure {
			if len(at[p]) > 0 {
				ok = true
				break
			}
		}
		if !ok {
			bad = append(bad, fmt.Sprintf("typedef %s: 'an unknown, unresolvable or cyclic type reference is an error' (wherever the reference stands, also as the type of a typedef no leaf uses): the derivation of this typedef's type is cyclic or reaches an unknown name, but Process() reports no error at any statement of the derivation (nor, for an identity base, require-instance or extension statement in it, an error that names only the module or nothing) %v (it reports %v)", v.Key, head(v.Closure, 8), head(g.P1, 6)))
		}
	}
	sort.Strings(bad)
	return bad
}

// ---------------------------------------------------------------------------------------------
// comparison

func errClass(line string) string {
	return line[strings.LastIndex(line, ":")+1:]
}

// canonErrs: Go memoises resolved types, the model recomputes them.  For a definition that is
// cyclic, or depends on one, the two then agree on the fact (an error of class cycle is among the
// errors) but not on the rest of the list: which statement of the cycle is named, and which other
// errors were met on the way, depends on where the memoising traversal entered the cycle first.
// A list holding a cycle error is therefore compared as just that.
//
// Otherwise repeated records are dropped (first occurrences stay, in order): a union keeps one
// copy of each member error, by pointer in Go and by (position, class) in the model, which can
// differ only in how often a record without a position of its own is repeated (see
// Goyang.Model.Types.stepMembers); the property does not speak about multiplicity.
func canonErrs(es []string) []string {
	for _, e := range es {
		if errClass(e) == "cycle" {
			return []string{"*:cycle"}
		}
	}
	out := make([]string, 0, len(es))
	seen := map[string]bool{}
	for _, e := range es {
		if !seen[e] {
			seen[e] = true
			out = append(out, e)
		}
	}
	return out
}

func asSet(l []string) []string {
	out := append([]string{}, l...)
	sort.Strings(out)
	j := 0
	for i, s := range out {
		if i == 0 || s != out[i-1] {
			out[j] = s
			j++
		}
	}
	return out[:j]
}

func sameList(a, b []string) bool {
	return strings.Join(a, " ") == strings.Join(b, " ")
}

func isBindingErr(cls string) bool {
	return cls == "unknown-type" || cls == "unknown-prefix" || cls == "cycle"
}

// compare returns the differences between the Go observation and the model's answer.
func compare(g goRes, m modelRes) []string {
	var diffs []string
	if g.Panic != "" {
		return []string{"go crashed: " + g.Panic}
	}
	switch m.Status {
	case "ok":
	case "linkfail":
		ok := false
		for _, e := range g.P1 {
			if c := errClass(e); c == "no-such-module" || c == "no-such-submodule" {
				ok = true
			}
		}
		if !ok {
			diffs = append(diffs, "model: an include/import does not resolve; Process() reports no such error: "+strings.Join(g.P1, " "))
		}
		return diffs
	default:
		if g.ParseErr == "" {
			diffs = append(diffs, "model answered "+m.Status+" but the Go side loaded the files")
		}
		return diffs
	}
	if g.ParseErr != "" {
		return []string{"go rejected the files: " + g.ParseErr}
	}
	if !sameList(g.P1, g.P2) {
		diffs = append(diffs, fmt.Sprintf("second Process() differs from the first: %v vs %v", g.P1, g.P2))
	}
	// Process(): the typedef errors when there are any, else the errors of all leaves
	var want []string
	if len(m.TD)+len(m.ID) > 0 {
		want = append(append(want, m.ID...), m.TD...)
	} else {
		// the first error sweep does not see the bodies of augments; their errors are reported
		// (after the augments are merged) only when that sweep found nothing
		var inAug []string
		for _, k := range m.Order {
			if g.InAug[k] {
				inAug = append(inAug, m.Leaves[k].Errs...)
			} else {
				want = append(want, m.Leaves[k].Errs...)
			}
		}
		if len(want) == 0 && g.Dropped == 0 {
			want = inAug
		}
	}
	if w, h := canonErrs(asSet(want)), canonErrs(asSet(g.P1)); !sameList(w, h) {
		diffs = append(diffs, fmt.Sprintf("Process() errors: go %v, model %v", g.P1, want))
	}
	for key, obs := range g.Leaves {
		ml, ok := m.Leaves[key]
		if !ok {
			diffs = append(diffs, "leaf "+key+" unknown to the model")
			continue
		}
		if len(obs) > 1 {
			diffs = append(diffs, fmt.Sprintf("leaf %s: its entries disagree among themselves (%d variants)", key, len(obs)))
		}
		for _, o := range obs {
			if o.Dump != ml.Dump {
				diffs = append(diffs, fmt.Sprintf("leaf %s type: go %s model %s", key, o.Dump, ml.Dump))
			}
			if o.DV != ml.DV {
				diffs = append(diffs, fmt.Sprintf("leaf %s defaults: go %s model %s", key, o.DV, ml.DV))
			}
			if !sameList(canonErrs(o.Errs), canonErrs(ml.Errs)) {
				diffs = append(diffs, fmt.Sprintf("leaf %s errors: go %v model %v", key, o.Errs, ml.Errs))
			}
		}
	}
	for key, d := range g.Ast {
		ml, ok := m.Leaves[key]
		if !ok {
			diffs = append(diffs, "AST leaf "+key+" unknown to the model")
			continue
		}
		if d != ml.Dump {
			diffs = append(diffs, fmt.Sprintf("AST leaf %s type: go %s model %s", key, d, ml.Dump))
		}
	}
	for _, key := range m.Order {
		if _, ok := g.Ast[key]; !ok {
			diffs = append(diffs, "model leaf "+key+" not found in the Go AST")
		}
	}
	return diffs
}

// specCheck evaluates the specification's verdict per leaf on the Go observation.
func specCheck(g goRes, spec map[string]string) []string {
	var bad []string
	if g.Panic != "" || g.ParseErr != "" || spec == nil {
		return nil
	}
	for key, obs := range g.Leaves {
		v, ok := spec[key]
		if !ok {
			continue
		}
		for _, o := range obs {
			hasBinding := false
			for _, e := range o.Errs {
				if isBindingErr(errClass(e)) {
					hasBinding = true
				}
			}
			switch {
			case strings.HasPrefix(v, "NOCLAIM"):
			case v == "ERR":
				if len(o.Errs) == 0 {
					bad = append(bad, fmt.Sprintf("leaf %s: 'an unknown, unresolvable or cyclic type reference is an error': the reference is unknown, unresolvable or cyclic but no error is reported (type %s)", key, o.Spec))
				}
			case strings.HasPrefix(v, "T"):
				if hasBinding {
					bad = append(bad, fmt.Sprintf("leaf %s: 'a type reference binds lexically' (nearest enclosing scope, then the module and its submodules; a foreign prefix: the imported module): every name of the derivation is bound but the reference is reported as %v; binding gives %s", key, o.Errs, v[1:]))
				} else if len(o.Errs) == 0 && o.Spec != v[1:] {
					bad = append(bad, fmt.Sprintf("leaf %s: 'binds lexically / carries the attributes of the whole derivation chain': resolved type shows %s, lexical binding and inheritance give %s", key, o.Spec, v[1:]))
				}
			}
		}
	}
	sort.Strings(bad)
	return bad
}

// ---------------------------------------------------------------------------------------------

func loadCorpus() []tcase {
	var out []tcase
	paths, _ := filepath.Glob("corpus/C09/*.json")
	sort.Strings(paths)
	for _, p := range paths {
		b, err := os.ReadFile(p)
		if err != nil {
			continue
		}
		var c tcase
		if json.Unmarshal(b, &c) == nil && len(c.Files) > 0 {
			c.ID = "corpus/" + filepath.Base(p)
			out = append(out, c)
		}
	}
	return out
}

func caseKey(c tcase) string {
	var sb strings.Builder
	for _, f := range c.Files {
		sb.WriteString(f.Name)
		sb.WriteByte(0)
		sb.WriteString(f.Text)
		sb.WriteByte(0)
	}
	for _, f := range c.Later {
		sb.WriteString("later\x00" + f.Name)
		sb.WriteByte(0)
		sb.WriteString(f.Text)
		sb.WriteByte(0)
	}
	return sb.String()
}

var childFlag = flag.Bool("child", false, "run as the crash-isolated Go worker")
var dumpFlag = flag.String("dump", "", "print the generated case with this id as JSON and exit")

func main() {
	f := lib.ParseFlags()
	if *childFlag {
		child()
		return
	}
	if f.Replay != "" {
		replay(f)
		return
	}
	res := lib.NewResult("C09", f)
	var cases []tcase
	corpus := loadCorpus()
	cases = append(cases, corpus...)
	// packagings (pack.go): every corpus set in every load order, run right after the corpus
	pk := newPacker()
	{
		r := f.Rand(7002)
		for _, c := range corpus {
			pk.full(c, r)
		}
	}
	nCorpusPacked := len(pk.cases)
	cases = append(cases, pk.cases...)
	// typedef statements nobody uses, with every kind of fault at every kind of scope (utd.go)
	utd := utdExhaustive()
	nUtd := 240
	if f.Thorough() {
		nUtd = 8000
	}
	{
		r := f.Rand(7003)
		for i := 0; i < nUtd; i++ {
			utd = append(utd, utdRandom(r, fmt.Sprintf("utd/rnd/%d", i)))
		}
	}
	cases = append(cases, utd...)
	exh := exhaustiveCases()
	cases = append(cases, exh...)
	col := collisionCases()
	cases = append(cases, col...)
	// pattern and posix-pattern statements with coinciding texts at every level of a chain (pat.go)
	pat := patExhaustive()
	nPat := 448
	if f.Thorough() {
		nPat = 12000
	}
	{
		r := f.Rand(7004)
		for i := 0; i < nPat; i++ {
			pat = append(pat, patRandom(r, fmt.Sprintf("pat/rnd/%d", i)))
		}
	}
	cases = append(cases, pat...)
	nRandom, nOdd, nChain, nRev, nHist := 6000, 600, 2000, 1500, 1500
	if f.Thorough() {
		nRandom, nOdd, nChain, nRev, nHist = 150000, 8000, 40000, 30000, 30000
	}
	shards := 64
	rnd := make([][]tcase, shards)
	var wg sync.WaitGroup
	for s := 0; s < shards; s++ {
		wg.Add(1)
		go func(s int) {
			defer wg.Done()
			r := f.Rand(s)
			n := nRandom / shards
			for i := 0; i < n; i++ {
				rnd[s] = append(rnd[s], randomCase(r, fmt.Sprintf("rnd/%d/%d", s, i)))
			}
			m := nOdd / shards
			for i := 0; i < m; i++ {
				rnd[s] = append(rnd[s], oddCase(r, fmt.Sprintf("odd/%d/%d", s, i)))
			}
			for i := 0; i < nChain/shards; i++ {
				rnd[s] = append(rnd[s], chainCase(r, fmt.Sprintf("chain/%d/%d", s, i)))
			}
			for i := 0; i < nRev/shards; i++ {
				rnd[s] = append(rnd[s], revisionCase(r, fmt.Sprintf("rev/%d/%d", s, i), false))
			}
			for i := 0; i < nHist/shards; i++ {
				rnd[s] = append(rnd[s], revisionCase(r, fmt.Sprintf("hist/%d/%d", s, i), true))
			}
		}(s)
	}
	wg.Wait()
	for _, l := range rnd {
		cases = append(cases, l...)
	}
	// schemas with typedefs at every kind of scope in every statement: only ever looked at packaged
	nScope := 160
	if f.Thorough() {
		nScope = 4000
	}
	var scope []tcase
	{
		r := f.Rand(7000)
		for i := 0; i < nScope; i++ {
			scope = append(scope, scopeCase(r, fmt.Sprintf("scope/%d", i)))
		}
	}
	cases = append(cases, scope...)
	// packagings of a share of each generated group
	{
		r := f.Rand(7001)
		every := map[string]int{"exh": 8, "col": 6, "rnd": 8, "odd": 4, "chain": 8, "rev": 8, "hist": 8, "utd": 6, "pat": 16}
		count := map[string]int{}
		for _, c := range cases {
			grp := strings.SplitN(c.ID, "/", 2)[0]
			switch grp {
			case "corpus":
			case "scope":
				// (the files of a generated case are in random order already)
				pk.cat(c, identity(len(c.Files)), nil)
				pk.pairs(c, identity(len(c.Files)), true, r)
				if r.Intn(2) == 0 {
					pk.pairs(c, reversed(identity(len(c.Files))), false, r)
				}
			default:
				if len(c.Files)+len(c.Later) < 2 {
					continue
				}
				count[grp]++
				if count[grp]%every[grp] == 0 {
					pk.some(c, r, 1)
				}
			}
		}
	}
	cases = append(cases, pk.cases[nCorpusPacked:]...)

	if *dumpFlag != "" {
		for _, c := range cases {
			if c.ID == *dumpFlag {
				b, _ := json.MarshalIndent(c, "", " ")
				fmt.Println(string(b))
			}
		}
		return
	}

	distinct := lib.NewDistinct()
	nontrivial := int64(0)
	status := map[string]int64{}
	groupStats := map[string]int64{}
	noClaimWhy := map[string]int64{}
	tdStats := map[string]int64{}
	var oddStatus []string
	var leaves, viaTypedef, bindErrs, specT, specErr, specNo int64
	evaluated := 0
	packObsOf := map[string]packObs{}
	caseAt := map[string]int{}
	reported := map[string]bool{}
	const batchSize = 3000
	for lo := 0; lo < len(cases); lo += batchSize {
		hi := lo + batchSize
		if hi > len(cases) {
			hi = len(cases)
		}
		if len(res.Disagreements) >= 50 {
			res.Count("cases_not_run_after_50_disagreements", int64(len(cases)-lo))
			break
		}
		batch := cases[lo:hi]
		evaluated = hi
		// requests for the model and the specification
		reqs := make([]string, len(batch))
		sreqs := make([]string, len(batch))
		wireErr := make([]error, len(batch))
		for i, c := range batch {
			if c.GoOnly {
				reqs[i], sreqs[i] = "skip", "skip"
				continue
			}
			w, err := wire(c)
			wireErr[i] = err
			reqs[i] = "types " + w
			sreqs[i] = "spec.types " + w
		}
		var ans, sans []string
		var gos []goRes
		var e1, e2 error
		wg.Add(3)
		go func() { defer wg.Done(); ans, e1 = lib.ParBatch(f.Driver, reqs, f.Procs) }()
		go func() { defer wg.Done(); sans, e2 = lib.ParBatch(f.Driver, sreqs, f.Procs) }()
		go func() { defer wg.Done(); gos = runAllGo(batch, f.Procs) }()
		wg.Wait()
		if e1 != nil {
			lib.Fatal("driver: %v", e1)
		}
		if e2 != nil {
			lib.Fatal("driver (spec): %v", e2)
		}
		for i, c := range batch {
			g := gos[i]
			if c.Base != "" || pk.isRef[c.ID] {
				packObsOf[c.ID] = canonPackObs(g, c.Segs)
				caseAt[c.ID] = lo + i
			}
			if c.GoOnly {
				status["go-only"]++
				what := ""
				switch {
				case g.Panic != "":
					what = "goyang crashed or hung: " + g.Panic
				case g.ParseErr != "":
					what = "goyang rejected the files: " + g.ParseErr
				case !sameList(asSet(g.P1), asSet(c.ExpectErrors)) || !sameList(g.P1, g.P2):
					what = fmt.Sprintf("Process() errors: go %v (second run %v), expected %v", head(g.P1, 8), head(g.P2, 8), c.ExpectErrors)
				}
				if what != "" {
					kind := "spec"
					if g.Panic != "" {
						kind = "crash"
					}
					g.Leaves, g.Ast = nil, nil
					res.AddDisagreement(lib.Disagreement{Kind: kind, Input: c, Go: g, SpecVerdict: "violates", What: trunc(what, 1500), Replay: c})
				}
				continue
			}
			if wireErr[i] != nil {
				// the text does not parse: outside the resolver model; the Go side must agree
				status["unparseable"]++
				if g.ParseErr == "" && g.Panic == "" {
					res.AddDisagreement(lib.Disagreement{Kind: "correspondence", Input: c, Go: g, SpecVerdict: "",
						What: "yang.Parse rejects a file that Modules.Parse accepts: " + wireErr[i].Error(), Replay: c})
				}
				continue
			}
			m := parseModel(ans[i])
			status[m.Status]++
			if m.Status != "ok" && m.Status != "linkfail" && len(oddStatus) < 10 {
				oddStatus = append(oddStatus, c.ID+":"+m.Status)
			}
			spec := parseSpec(sans[i])
			// measured coverage
			nt := false
			for _, k := range m.Order {
				leaves++
				l := m.Leaves[k]
				if strings.HasPrefix(l.Dump, "{k=") {
					kind := l.Dump[3:strings.Index(l.Dump, ";")]
					if !strings.Contains(l.Dump, ";n="+lib.HexS(kind)+";") {
						viaTypedef++
						nt = true
					}
				}
				for _, e := range l.Errs {
					if isBindingErr(errClass(e)) {
						bindErrs++
						nt = true
						break
					}
				}
			}
			grp := strings.SplitN(c.ID, "/", 2)[0]
			for _, v := range spec {
				switch {
				case v == "ERR":
					specErr++
					groupStats[grp+"_spec_error_required"]++
				case strings.HasPrefix(v, "NOCLAIM"):
					specNo++
					groupStats[grp+"_spec_no_claim"]++
					noClaimWhy[strings.TrimPrefix(v, "NOCLAIM:")]++
				default:
					specT++
					groupStats[grp+"_spec_type"]++
				}
			}
			if distinct.Add(caseKey(c)) && nt {
				nontrivial++
			}
			if (lo+i)%(len(cases)/7+1) == 0 {
				res.AddSample(map[string]any{"case": c.ID, "files": len(c.Files), "model_status": m.Status, "leaves": len(m.Order), "go_process_errors": len(g.P1)})
			}
			diffs := compare(g, m)
			sbad := specCheck(g, spec)
			tds := parseSpecTD(sans[i])
			for _, v := range tds {
				switch {
				case v.V == "ERR" && v.Direct != "-":
					tdStats["error_required_at_the_type_statement"]++
					groupStats[grp+"_spec_typedef_error_required"]++
				case v.V == "ERR":
					tdStats["error_required_in_the_derivation"]++
					groupStats[grp+"_spec_typedef_error_required"]++
				case v.V == "OK":
					tdStats["resolvable"]++
				default:
					tdStats["no_claim"]++
				}
			}
			sbad = append(specCheckTD(g, tds), sbad...)
			sbad = append(sbad, utdPlantedCheck(c, g)...)
			sbad = append(sbad, g.Acc...)
			if len(diffs) == 0 && len(sbad) == 0 {
				continue
			}
			if len(res.Disagreements) >= 50 {
				res.Count("disagreements_not_examined", 1)
				continue
			}
			verdict := "holds"
			if len(sbad) > 0 {
				verdict = "violates"
			}
			kind := "correspondence"
			what := ""
			switch {
			case g.Panic != "":
				kind = "crash"
				verdict = "violates"
				what = "goyang crashed or hung: " + g.Panic
			case len(diffs) > 0:
				what = "goyang and the model differ: " + strings.Join(head(diffs, 3), " ;; ")
				if len(sbad) > 0 {
					// the violated clause first: the dispatcher prints the head of the text
					what = "specification violated: " + strings.Join(head(sbad, 2), " ;; ") + " || " + what
				}
			default:
				kind = "spec"
				what = "goyang's result (equal to the model's) violates the specification: " + strings.Join(head(sbad, 3), " ;; ")
			}
			if c.Base != "" {
				what = "[the files of " + c.Base + " as source texts " + c.Pack + " ('+' joins files into one text)] " + what
			}
			reported[c.ID] = true
			res.AddDisagreement(lib.Disagreement{Kind: kind, Input: c, Go: g, Model: ans[i], SpecVerdict: verdict, What: trunc(what, 1500), Replay: c})
		}
	}
	// packagings against the one-statement-per-text form with the same load order
	var packCompared, packAlready int64
	for _, v := range pk.cases {
		ref, ok := pk.refOf[v.ID]
		if !ok {
			continue
		}
		a, okA := packObsOf[ref]
		b, okB := packObsOf[v.ID]
		if !okA || !okB {
			continue
		}
		packCompared++
		d := packDiff(a, b)
		if len(d) == 0 {
			continue
		}
		if reported[v.ID] || reported[ref] || len(res.Disagreements) >= 50 {
			packAlready++
			continue
		}
		in := v
		rc := cases[caseAt[ref]]
		in.Versus = &rc
		res.AddDisagreement(lib.Disagreement{Kind: "packaging", Input: in, Go: d, SpecVerdict: "holds", Replay: in,
			What: trunc("binding is lexical, so what a set of statements resolves to does not depend on how they are distributed over source texts: the files of "+v.Base+" as source texts "+v.Pack+" ('+' joins files into one text) differ from the same statements in the same load order, one per text: "+strings.Join(head(d, 3), " ;; "), 1500)})
	}
	res.Evaluations = int64(evaluated)
	res.DistinctNontrivial = nontrivial
	res.Rule = "distinct schema sets (by content and distribution of the statements over source texts) in which at least one leaf resolves through a typedef (resolved name differs from the base kind) or is rejected with a binding error (unknown type, unknown prefix, cycle); every case = load all files, Process() twice (history cases: then load further files - other revisions of an imported module - into the same Modules and Process() twice again; the model answers for all texts together, i.e. for a fresh load), dump Entry.Type / DefaultValues / Errors of every leaf entry (Dir, rpc input/output, augments) and Type.YangType of every AST leaf, compared with the model's per-statement answer and with the specification's binding + inheritance"
	res.Distribution["corpus_cases"] = len(corpus)
	res.Distribution["exhaustive_binding_cases"] = len(exh)
	res.Distribution["unused_typedef_cases_scope_x_fault_x_alone_or_next_to_used_then_random"] = len(utd)
	res.Distribution["exhaustive_prefix_vs_module_name_cases"] = len(col)
	res.Distribution["pattern_and_posix_pattern_chain_cases_exhaustive_then_random"] = len(pat)
	res.Distribution["random_cases"] = nRandom / shards * shards
	res.Distribution["odd_cases"] = nOdd / shards * shards
	res.Distribution["chain_depth5_cases"] = nChain / shards * shards
	res.Distribution["multi_revision_import_cases"] = nRev / shards * shards
	res.Distribution["load_process_load_process_history_cases"] = nHist / shards * shards
	res.Distribution["typedef_at_every_scope_of_every_statement_cases"] = nScope
	res.Distribution["packaged_cases"] = len(pk.cases)
	res.Distribution["packaged_cases_by_kind"] = pk.kinds
	res.Distribution["packagings_compared_with_one_statement_per_text"] = packCompared
	res.Distribution["packaging_differences_already_reported_by_the_model_comparison"] = packAlready
	res.Distribution["model_status"] = status
	res.Distribution["cases_not_loaded_by_either_side"] = oddStatus
	res.Distribution["spec_verdicts_by_group"] = groupStats
	res.Distribution["spec_no_claim_reasons"] = noClaimWhy
	res.Distribution["spec_verdicts_for_typedef_statements"] = tdStats
	res.Distribution["leaves_compared"] = leaves
	res.Distribution["leaves_resolved_through_typedefs"] = viaTypedef
	res.Distribution["leaves_with_binding_errors"] = bindErrs
	res.Distribution["spec_verdict_type"] = specT
	res.Distribution["spec_verdict_error_required"] = specErr
	res.Distribution["spec_verdict_no_claim"] = specNo
	res.Notes = append(res.Notes,
		"a cyclic definition is compared by class only: which statement of the cycle is named depends on where the memoising traversal entered it first",
		"sets in which an include/import does not resolve are compared only on Process() reporting it",
		"packagings: every corpus set of two or more files in every load order (up to 3 files; identity, reverse and rotations beyond), and a share of every generated group (1 in 4 to 8; all scope/ cases), is loaded again with the same statements cut into source texts differently: all in one text, a module with its submodule in one text, an importer with an imported module in one text; a packaged case is compared with the model and judged by the specification like any other, and its Go observation (types, defaults, errors per leaf, Process() errors; positions mapped back) with that of the one-statement-per-text form in the same load order",
		"typedef statements themselves (specification verdict per typedef statement, any scope, used or not): where the type of a typedef is unknown, unresolvable or cyclic by lexical binding, Process() must report an error at it - exactly at the typedef's type statement (class unknown type / unknown prefix) when that statement's own name is unbound, else at some statement of the derivation (an identity base, non-boolean require-instance or extension statement of the derivation may answer with an error that carries the position of its (sub)module statement or none); utd/ cases: 12 scope shapes (module, submodule, container, list, used and unused grouping, rpc, input, output, notification, action, grouping in a list in a container) x 19 typedef groups (2 controls; unknown name plain / own prefix / foreign prefix, unknown prefix, a name visible only in a sibling scope or in a nested scope of the imported module, cycles of length 1-3 directly and through unions, chain to an unknown name, unknown union member, dependence on a cyclic typedef, bad range / length / range outside the base / fraction-digits on an integer) x alone or next to a used typedef, then random combinations of 1-3 scopes (also in the submodule's text; also next to an unused good typedef, or used by a leaf itself), files in random order; the restriction faults of the utd/ texts are also judged by construction (utdPlantedCheck: Process() must report an error at the descending range / length, the range outside int8, the type statement with fraction-digits on int16), independent of the model",
		"pat/ cases: pattern statements and openconfig-extensions posix-pattern statements side by side at every level of a chain, texts coinciding between the two kinds and between levels: pat/exh = typedef t1 { type string {A} } typedef t2 { type t1 {B} } leaf { type t2 {C} } for every subset A, B, C of {pattern X, posix-pattern X, pattern Y, posix-pattern Y} (one case per (A, B), one leaf per C, a leaf-list and a union restricting t1 and t2); pat/rnd = chains of depth 1-5 across a submodule and an import, 0-2 statements of each kind per level from a pool of 2 (70%) or 5 texts, openconfig-extensions imported under varying prefixes, a decoy module other-extensions with an extension of the same name whose statements must not count (sometimes the two prefixes swapped); besides the model comparison (both lists, in order) and the executable specification (the set of pattern statements), a Go-side oracle (accOracle) judges both lists of every resolved type statement of every case (leaf, leaf-list, typedef, union member) against a reference accumulation per kind, in chain order, over the statements reached through YangType.Base",
		"multi-revision cases: module b in 2-3 revisions with differing same-named typedefs, imports pinned by revision-date / unpinned / pinned to an absent revision, one or two imports of b per importer, references direct, through typedefs of typedefs, unions and a third module")
	res.Write(f.Out)
}

func head(l []string, n int) []string {
	if len(l) > n {
		return l[:n]
	}
	return l
}

func trunc(s string, n int) string {
	if len(s) > n {
		return s[:n] + "…"
	}
	return s
}

func replay(f *lib.Flags) {
	raw, err := os.ReadFile(f.Replay)
	if err != nil {
		lib.Fatal("%v", err)
	}
	var p struct {
		Disagreement struct {
			Replay tcase `json:"replay"`
		} `json:"disagreement"`
	}
	if err := json.Unmarshal(raw, &p); err != nil || len(p.Disagreement.Replay.Files) == 0 {
		// also accept a bare case file (corpus format)
		var c tcase
		if json.Unmarshal(raw, &c) != nil || len(c.Files) == 0 {
			lib.Fatal("no case in %s", f.Replay)
		}
		p.Disagreement.Replay = c
	}
	c := p.Disagreement.Replay
	gs := runAllGo([]tcase{c}, 1)
	g := gs[0]
	if c.GoOnly {
		fmt.Printf("go-only case: Process() errors %v (second run %v), expected %v, crash %q\n", g.P1, g.P2, c.ExpectErrors, g.Panic)
		if g.Panic != "" || g.ParseErr != "" || !sameList(asSet(g.P1), asSet(c.ExpectErrors)) || !sameList(g.P1, g.P2) {
			fmt.Println("spec verdict: violates")
			os.Exit(1)
		}
		fmt.Println("spec verdict: holds")
		return
	}
	d, err := lib.StartDriver(f.Driver)
	if err != nil {
		lib.Fatal("%v", err)
	}
	defer d.Close()
	w, werr := wire(c)
	if werr != nil {
		fmt.Printf("the text does not parse: %v\n", werr)
	}
	ans, _ := d.Ask("types " + w)
	sans, _ := d.Ask("spec.types " + w)
	m := parseModel(ans)
	diffs := compare(g, m)
	sbad := append(specCheckTD(g, parseSpecTD(sans)), specCheck(g, parseSpec(sans))...)
	sbad = append(sbad, utdPlantedCheck(c, g)...)
	sbad = append(sbad, g.Acc...)
	for _, fl := range c.Files {
		fmt.Printf("--- %s\n%s\n", fl.Name, fl.Text)
	}
	for _, fl := range c.Later {
		fmt.Printf("--- (loaded after the first Process) %s\n%s\n", fl.Name, fl.Text)
	}
	gb, _ := json.MarshalIndent(g, "", " ")
	fmt.Printf("go:    %s\nmodel: %s\nspec:  %s\n", gb, ans, sans)
	for _, x := range diffs {
		fmt.Println("DIFF:", x)
	}
	for _, x := range sbad {
		fmt.Println("SPEC VIOLATED:", x)
	}
	v := "holds"
	if len(sbad) > 0 || g.Panic != "" {
		v = "violates"
	}
	var pd []string
	if c.Versus != nil {
		// the same statements in the same load order, one per text
		rg := runAllGo([]tcase{*c.Versus}, 1)[0]
		for _, fl := range c.Versus.all() {
			fmt.Printf("--- (one statement per text) %s\n%s\n", fl.Name, fl.Text)
		}
		rb, _ := json.MarshalIndent(rg, "", " ")
		fmt.Printf("go, one statement per text: %s\n", rb)
		pd = packDiff(canonPackObs(rg, c.Versus.Segs), canonPackObs(g, c.Segs))
		for _, x := range pd {
			fmt.Println("PACKAGING DIFF:", x)
		}
		if rw, err := wire(*c.Versus); err == nil {
			rsans, _ := d.Ask("spec.types " + rw)
			for _, x := range append(specCheckTD(rg, parseSpecTD(rsans)), specCheck(rg, parseSpec(rsans))...) {
				fmt.Println("SPEC VIOLATED (one statement per text):", x)
				v = "violates"
			}
		}
	}
	fmt.Println("spec verdict:", v)
	if len(diffs) > 0 || len(sbad) > 0 || len(pd) > 0 {
		os.Exit(1)
	}
}
