package main

// Packagings of one set of statements.
//
// Modules.Parse accepts a source text holding any number of top-level statements.  What a set of
// modules and submodules means does not depend on how its statements are distributed over source
// texts: one statement per text (the usual form), all of them in one text (in any order), a
// module together with its submodule, an importer together with what it imports.  A packaging of
// a case is the same list of statements, in a stated load order, cut into texts differently.
//
// Every packaged case is an ordinary case (compared with the model, which adds the statements of
// a text one after the other, and judged by the specification); in addition the Go observations
// of all packagings of one (case, load order) are compared with those of the one-statement-per-
// text form, positions mapped back to the original (file, line).

import (
	"encoding/json"
	"fmt"
	"math/rand"
	"regexp"
	"sort"
	"strconv"
	"strings"
)

// seg: lines Off+1 .. Off+Lines of the packaged text Name are lines 1 .. Lines of the original
// file Orig.
type seg struct {
	Orig  string `json:"orig"`
	Name  string `json:"name"`
	Off   int    `json:"off"`
	Lines int    `json:"lines"`
}

func nl(text string) string {
	if !strings.HasSuffix(text, "\n") {
		return text + "\n"
	}
	return text
}

// packFiles cuts fs into the given groups (lists of indices into fs, each index once); a group of
// one keeps its file, a longer one becomes one text.
func packFiles(fs []srcFile, groups [][]int, stem string) ([]srcFile, []seg) {
	var out []srcFile
	var segs []seg
	for gi, g := range groups {
		if len(g) == 1 {
			f := fs[g[0]]
			out = append(out, f)
			segs = append(segs, seg{Orig: f.Name, Name: f.Name, Off: 0, Lines: strings.Count(nl(f.Text), "\n")})
			continue
		}
		name := fmt.Sprintf("%s%d.yang", stem, gi)
		var sb strings.Builder
		off := 0
		for _, i := range g {
			t := nl(fs[i].Text)
			n := strings.Count(t, "\n")
			segs = append(segs, seg{Orig: fs[i].Name, Name: name, Off: off, Lines: n})
			off += n
			sb.WriteString(t)
		}
		out = append(out, srcFile{Name: name, Text: sb.String()})
	}
	return out, segs
}

func groupsTag(groups [][]int) string {
	var parts []string
	for _, g := range groups {
		var s []string
		for _, i := range g {
			s = append(s, strconv.Itoa(i))
		}
		parts = append(parts, strings.Join(s, "+"))
	}
	return strings.Join(parts, ",")
}

func flatten(groups [][]int) []int {
	var out []int
	for _, g := range groups {
		out = append(out, g...)
	}
	return out
}

func singletons(order []int) [][]int {
	out := make([][]int, len(order))
	for i, x := range order {
		out[i] = []int{x}
	}
	return out
}

func isIdentity(order []int) bool {
	for i, x := range order {
		if i != x {
			return false
		}
	}
	return true
}

// packCase: the packaging of c whose first-phase files are cut into groups and whose later files
// into laterGroups.  The reference of a packaging is the one-statement-per-text form with the
// same load order.
func packCase(c tcase, groups, laterGroups [][]int) tcase {
	p := tcase{Base: c.ID}
	var s1, s2 []seg
	p.Files, s1 = packFiles(c.Files, groups, "cat")
	if len(c.Later) > 0 {
		p.Later, s2 = packFiles(c.Later, laterGroups, "catlater")
	}
	p.Segs = append(s1, s2...)
	p.Pack = groupsTag(groups)
	if len(c.Later) > 0 {
		p.Pack += ";" + groupsTag(laterGroups)
	}
	p.ID = c.ID + "#" + p.Pack
	return p
}

// orderKey names the load order of a packaging (the group of packagings that must agree).
func orderKey(groups, laterGroups [][]int) string {
	return groupsTag(singletons(flatten(groups))) + ";" + groupsTag(singletons(flatten(laterGroups)))
}

var (
	headRe    = regexp.MustCompile(`^\s*(module|submodule)\s+([^\s{;]+)`)
	belongsRe = regexp.MustCompile(`belongs-to\s+([^\s{;]+)`)
	importRe  = regexp.MustCompile(`import\s+([^\s{;]+)`)
	includeRe = regexp.MustCompile(`include\s+([^\s{;]+)`)
)

type fileHead struct {
	kind, name, owner string
	imports, includes map[string]bool
}

func headOf(text string) fileHead {
	h := fileHead{imports: map[string]bool{}, includes: map[string]bool{}}
	if m := headRe.FindStringSubmatch(text); m != nil {
		h.kind, h.name = m[1], m[2]
	}
	if m := belongsRe.FindStringSubmatch(text); m != nil && h.kind == "submodule" {
		h.owner = m[1]
	}
	for _, m := range importRe.FindAllStringSubmatch(text, -1) {
		h.imports[m[1]] = true
	}
	for _, m := range includeRe.FindAllStringSubmatch(text, -1) {
		h.includes[m[1]] = true
	}
	return h
}

// pairGroups walks the files in the given order and joins a file with a partner that comes later:
// a module with one of its submodules (or a submodule with its owner or a sibling it includes),
// an importer with a module it imports (or the other way round); preferSub says which kind of
// pair is looked for first, swap puts the partner in front.
func pairGroups(fs []srcFile, order []int, preferSub bool, r *rand.Rand) [][]int {
	heads := make([]fileHead, len(fs))
	for i, f := range fs {
		heads[i] = headOf(f.Text)
	}
	subPair := func(a, b fileHead) bool {
		return a.kind == "module" && b.kind == "submodule" && (b.owner == a.name || a.includes[b.name]) ||
			b.kind == "module" && a.kind == "submodule" && (a.owner == b.name || b.includes[a.name]) ||
			a.kind == "submodule" && b.kind == "submodule" && (a.includes[b.name] || b.includes[a.name])
	}
	impPair := func(a, b fileHead) bool {
		return b.kind == "module" && a.imports[b.name] || a.kind == "module" && b.imports[a.name]
	}
	used := map[int]bool{}
	var groups [][]int
	for oi, i := range order {
		if used[i] {
			continue
		}
		used[i] = true
		partner := -1
		tests := []func(a, b fileHead) bool{subPair, impPair}
		if !preferSub {
			tests[0], tests[1] = tests[1], tests[0]
		}
		for _, test := range tests {
			var cands []int
			for _, j := range order[oi+1:] {
				if !used[j] && test(heads[i], heads[j]) {
					cands = append(cands, j)
				}
			}
			if len(cands) > 0 {
				partner = cands[r.Intn(len(cands))]
				break
			}
		}
		if partner < 0 {
			groups = append(groups, []int{i})
			continue
		}
		used[partner] = true
		if r.Intn(2) == 0 {
			groups = append(groups, []int{i, partner})
		} else {
			groups = append(groups, []int{partner, i})
		}
	}
	return groups
}

func hasPair(groups [][]int) bool {
	for _, g := range groups {
		if len(g) > 1 {
			return true
		}
	}
	return false
}

func perms(n int) [][]int {
	if n == 0 {
		return [][]int{{}}
	}
	var out [][]int
	for _, p := range perms(n - 1) {
		for pos := 0; pos <= len(p); pos++ {
			q := append(append(append([]int{}, p[:pos]...), n-1), p[pos:]...)
			out = append(out, q)
		}
	}
	sort.Slice(out, func(a, b int) bool { return fmt.Sprint(out[a]) < fmt.Sprint(out[b]) })
	return out
}

func identity(n int) []int {
	o := make([]int, n)
	for i := range o {
		o[i] = i
	}
	return o
}

func reversed(o []int) []int {
	out := make([]int, len(o))
	for i, x := range o {
		out[len(o)-1-i] = x
	}
	return out
}

// packer collects the packaged cases and which case is the reference of which.
type packer struct {
	cases []tcase
	refOf map[string]string // packaged case id -> id of its one-statement-per-text reference
	isRef map[string]bool
	seen  map[string]bool
	kinds map[string]int64
}

func newPacker() *packer {
	return &packer{refOf: map[string]string{}, isRef: map[string]bool{}, seen: map[string]bool{}, kinds: map[string]int64{}}
}

// add records the packaging (groups, laterGroups) of c and, when the load order is not the one of
// c itself, the one-statement-per-text form with that order.
func (p *packer) add(c tcase, groups, laterGroups [][]int, kind string) {
	if len(laterGroups) == 0 && len(c.Later) > 0 {
		laterGroups = singletons(identity(len(c.Later)))
	}
	if !hasPair(groups) && !hasPair(laterGroups) {
		return
	}
	v := packCase(c, groups, laterGroups)
	if p.seen[v.ID] {
		return
	}
	p.seen[v.ID] = true
	ref := c.ID
	if !isIdentity(flatten(groups)) || !isIdentity(flatten(laterGroups)) {
		s := packCase(c, singletons(flatten(groups)), singletons(flatten(laterGroups)))
		ref = s.ID
		if !p.seen[s.ID] {
			p.seen[s.ID] = true
			p.cases = append(p.cases, s)
			p.kinds["one_statement_per_text_in_the_permuted_order"]++
		}
	}
	p.isRef[ref] = true
	p.refOf[v.ID] = ref
	p.cases = append(p.cases, v)
	p.kinds[kind]++
}

// every: all texts of c in one (the later ones in another), in the given orders, and the pairings
// for the first order.
func (p *packer) cat(c tcase, order, laterOrder []int) {
	var lg [][]int
	if len(c.Later) > 0 {
		if laterOrder == nil {
			laterOrder = identity(len(c.Later))
		}
		lg = [][]int{laterOrder}
	}
	p.add(c, [][]int{order}, lg, "all_statements_in_one_text")
}

func (p *packer) pairs(c tcase, order []int, preferSub bool, r *rand.Rand) {
	g := pairGroups(c.Files, order, preferSub, r)
	kind := "importer_and_imported_in_one_text"
	if preferSub {
		kind = "module_and_submodule_in_one_text"
	}
	p.add(c, g, nil, kind)
}

// full: every order (up to 3 files; identity, reverse and rotations beyond), pairings for the
// identity and the reverse order: for corpus sets.
func (p *packer) full(c tcase, r *rand.Rand) {
	n := len(c.Files)
	if n+len(c.Later) < 2 || c.GoOnly {
		return
	}
	var orders [][]int
	if n <= 3 {
		orders = perms(n)
	} else {
		id := identity(n)
		orders = append(orders, id, reversed(id))
		for k := 1; k < n; k++ {
			orders = append(orders, append(append([]int{}, id[k:]...), id[:k]...))
		}
	}
	for _, o := range orders {
		p.cat(c, o, nil)
		if len(c.Later) > 1 {
			p.cat(c, o, reversed(identity(len(c.Later))))
		}
	}
	id := identity(n)
	for _, o := range [][]int{id, reversed(id)} {
		p.pairs(c, o, true, r)
		p.pairs(c, o, false, r)
	}
}

// some: one to three packagings picked at random.
func (p *packer) some(c tcase, r *rand.Rand, howMany int) {
	n := len(c.Files)
	if n+len(c.Later) < 2 || c.GoOnly {
		return
	}
	for k := 0; k < howMany; k++ {
		// mostly the load order of the case itself (generated cases are shuffled already): its
		// own run is then the reference
		order := identity(n)
		switch x := r.Intn(20); {
		case x < 2:
			order = reversed(order)
		case x < 5:
			order = r.Perm(n)
		}
		switch x := r.Intn(10); {
		case x < 5 || n < 2:
			var lo []int
			if len(c.Later) > 1 && r.Intn(2) == 0 {
				lo = r.Perm(len(c.Later))
			}
			p.cat(c, order, lo)
		case x < 8:
			p.pairs(c, order, true, r)
		default:
			p.pairs(c, order, false, r)
		}
	}
}

// ---------------------------------------------------------------------------------------------
// mapping observations back to the original coordinates

func unmapPos(segs []seg, name string, line int) (string, int) {
	for _, s := range segs {
		if s.Name == name && line > s.Off && line <= s.Off+s.Lines {
			return s.Orig, line - s.Off
		}
	}
	return name, line
}

// unmapKey: "file:line:col" or "file:line:col:class" (extra = 1).
func unmapKey(segs []seg, key string, extra int) string {
	if len(segs) == 0 {
		return key
	}
	f := strings.Split(key, ":")
	if len(f) < 3+extra {
		return key
	}
	li := len(f) - 2 - extra
	line, err := strconv.Atoi(f[li])
	if err != nil {
		return key
	}
	name, l := unmapPos(segs, strings.Join(f[:li], ":"), line)
	return name + ":" + strconv.Itoa(l) + ":" + strings.Join(f[li+1:], ":")
}

func unmapErrs(segs []seg, es []string) []string {
	out := make([]string, len(es))
	for i, e := range es {
		out[i] = unmapKey(segs, e, 1)
	}
	return out
}

// packObs is what packagings of one case with one load order must agree on.
type packObs struct {
	Crashed  bool                 `json:"crashed,omitempty"`
	Rejected bool                 `json:"rejected,omitempty"`
	Phase1   []string             `json:"phase1,omitempty"`
	P1       []string             `json:"process_errors"`
	Leaves   map[string][]leafObs `json:"leaves"`
	Ast      map[string]string    `json:"ast"`
}

func canonPackObs(g goRes, segs []seg) packObs {
	o := packObs{Crashed: g.Panic != "", Rejected: g.ParseErr != "", Leaves: map[string][]leafObs{}, Ast: map[string]string{}}
	if o.Crashed || o.Rejected {
		return o
	}
	o.P1 = canonErrs(asSet(unmapErrs(segs, g.P1)))
	if len(g.Phase1) > 0 {
		o.Phase1 = canonErrs(asSet(unmapErrs(segs, g.Phase1)))
	}
	for k, obs := range g.Leaves {
		var l []leafObs
		for _, x := range obs {
			l = append(l, leafObs{Dump: x.Dump, DV: x.DV, Errs: canonErrs(unmapErrs(segs, x.Errs)), Spec: x.Spec})
		}
		o.Leaves[unmapKey(segs, k, 0)] = l
	}
	for k, d := range g.Ast {
		o.Ast[unmapKey(segs, k, 0)] = d
	}
	return o
}

// packDiff lists how the observation of a packaging differs from that of its reference.
func packDiff(ref, got packObs) []string {
	var d []string
	switch {
	case ref.Crashed != got.Crashed:
		return []string{fmt.Sprintf("crashed: one statement per text %v, packaged %v", ref.Crashed, got.Crashed)}
	case ref.Rejected != got.Rejected:
		return []string{fmt.Sprintf("rejected by Modules.Parse: one statement per text %v, packaged %v", ref.Rejected, got.Rejected)}
	}
	if !sameList(ref.P1, got.P1) {
		d = append(d, fmt.Sprintf("Process() errors: one statement per text %v, packaged %v", ref.P1, got.P1))
	}
	if !sameList(ref.Phase1, got.Phase1) {
		d = append(d, fmt.Sprintf("first Process() errors: one statement per text %v, packaged %v", ref.Phase1, got.Phase1))
	}
	keys := map[string]bool{}
	for k := range ref.Leaves {
		keys[k] = true
	}
	for k := range got.Leaves {
		keys[k] = true
	}
	for _, k := range lib_sorted(keys) {
		a, _ := json.Marshal(ref.Leaves[k])
		b, _ := json.Marshal(got.Leaves[k])
		if string(a) != string(b) {
			d = append(d, fmt.Sprintf("leaf %s: one statement per text %s, packaged %s", k, brief(ref.Leaves[k]), brief(got.Leaves[k])))
		}
	}
	keys = map[string]bool{}
	for k := range ref.Ast {
		keys[k] = true
	}
	for k := range got.Ast {
		keys[k] = true
	}
	for _, k := range lib_sorted(keys) {
		if ref.Ast[k] != got.Ast[k] {
			d = append(d, fmt.Sprintf("AST leaf %s: one statement per text %q, packaged %q", k, ref.Ast[k], got.Ast[k]))
		}
	}
	return d
}

func brief(l []leafObs) string {
	if len(l) == 0 {
		return "(no such entry)"
	}
	var parts []string
	for _, o := range l {
		parts = append(parts, fmt.Sprintf("type %s defaults %s errors %v", o.Spec, o.DV, o.Errs))
	}
	return strings.Join(parts, " / ")
}

func lib_sorted(m map[string]bool) []string {
	out := make([]string, 0, len(m))
	for k := range m {
		out = append(out, k)
	}
	sort.Strings(out)
	return out
}

// ---------------------------------------------------------------------------------------------
// schemas with a typedef at every kind of scope in every statement
//
// Modules s0 (imports s1 and perhaps s2), s1, perhaps s2, each with zero to two submodules; every
// file declares typedefs (names t and u: t at the top of modules, u at the top of submodules, so
// that no module sees two of one name at its top level; either name in the nested scopes) at the
// top level and below a container, a list, a grouping, an rpc, its input and output and a
// notification, each with a base type and units of its own, and references them unprefixed, with
// the own prefix and with an import prefix from inside every one of these scopes.
func scopeCase(r *rand.Rand, id string) tcase {
	nMods := 2 + r.Intn(2)
	bases := []string{"int8", "int16", "int32", "int64", "uint8", "uint16", "uint32", "uint64", "string", "boolean", "binary"}
	var files []srcFile
	p := func(prob int) bool { return r.Intn(100) < prob }
	body := func(tag, own string, imports []string) string {
		var sb strings.Builder
		td := func(scope string, prob int) {
			if !p(prob) {
				return
			}
			fmt.Fprintf(&sb, "typedef %s { type %s; units \"%s/%s\"; }\n", []string{"t", "u"}[r.Intn(2)], bases[r.Intn(len(bases))], tag, scope)
		}
		n := 0
		leaves := func(scope string) {
			for k := 1 + r.Intn(2); k > 0; k-- {
				n++
				name := []string{"t", "u"}[r.Intn(2)]
				ref := name
				switch x := r.Intn(10); {
				case x < 2:
					ref = own + ":" + name
				case x < 5 && len(imports) > 0:
					ref = imports[r.Intn(len(imports))] + ":" + name
				}
				fmt.Fprintf(&sb, "leaf %s-%s-x%d { type %s; }\n", tag, scope, n, ref)
			}
		}
		leaves("top")
		fmt.Fprintf(&sb, "container %s-c {\n", tag)
		td("container", 70)
		leaves("container")
		fmt.Fprintf(&sb, "list %s-l { key k; leaf k { type string; }\n", tag)
		td("list", 70)
		leaves("list")
		sb.WriteString("}\n}\n")
		fmt.Fprintf(&sb, "grouping %s-g {\n", tag)
		td("grouping", 70)
		leaves("grouping")
		fmt.Fprintf(&sb, "}\ncontainer %s-ug { uses %s-g; }\n", tag, tag)
		fmt.Fprintf(&sb, "rpc %s-r {\n", tag)
		td("rpc", 60)
		sb.WriteString("input {\n")
		td("input", 70)
		leaves("input")
		sb.WriteString("}\noutput {\n")
		td("output", 70)
		leaves("output")
		sb.WriteString("}\n}\n")
		fmt.Fprintf(&sb, "notification %s-n {\n", tag)
		td("notification", 70)
		leaves("notification")
		sb.WriteString("}\n")
		return sb.String()
	}
	for i := 0; i < nMods; i++ {
		mname := fmt.Sprintf("s%d", i)
		own := fmt.Sprintf("p%d", i)
		nSubs := r.Intn(3)
		var imps []string
		var sb strings.Builder
		fmt.Fprintf(&sb, "module %s { namespace \"urn:%s\"; prefix %s;\n", mname, mname, own)
		for j := 0; j < nMods; j++ {
			if j != i && (i == 0 || p(40)) {
				q := fmt.Sprintf("q%d", j)
				fmt.Fprintf(&sb, "import s%d { prefix %s; }\n", j, q)
				imps = append(imps, q)
			}
		}
		for k := 0; k < nSubs; k++ {
			fmt.Fprintf(&sb, "include %sb%d;\n", mname, k)
		}
		if p(85) {
			fmt.Fprintf(&sb, "typedef t { type %s; units \"%s/top\"; }\n", bases[r.Intn(len(bases))], mname)
		}
		sb.WriteString(body(mname, own, imps))
		sb.WriteString("}\n")
		files = append(files, srcFile{mname + ".yang", sb.String()})
		for k := 0; k < nSubs; k++ {
			sname := fmt.Sprintf("%sb%d", mname, k)
			var sb strings.Builder
			fmt.Fprintf(&sb, "submodule %s { belongs-to %s { prefix %s; }\n", sname, mname, own)
			var simps []string
			for j := 0; j < nMods; j++ {
				if j != i && p(50) {
					q := fmt.Sprintf("q%d", j)
					fmt.Fprintf(&sb, "import s%d { prefix %s; }\n", j, q)
					simps = append(simps, q)
				}
			}
			if k == 0 && p(85) {
				fmt.Fprintf(&sb, "typedef u { type %s; units \"%s/top\"; }\n", bases[r.Intn(len(bases))], sname)
			}
			sb.WriteString(body(sname, own, simps))
			sb.WriteString("}\n")
			files = append(files, srcFile{sname + ".yang", sb.String()})
		}
	}
	r.Shuffle(len(files), func(a, b int) { files[a], files[b] = files[b], files[a] })
	return tcase{ID: id, Files: files}
}
