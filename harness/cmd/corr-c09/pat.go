// pat.go: the two pattern lists of a resolved type.
//
// goyang keeps two lists beside each other: YangType.Pattern (the `pattern` statements) and
// YangType.POSIXPattern (the extension statements `<prefix>:posix-pattern` whose prefix denotes,
// at the type statement, a module named openconfig-extensions).  The property says patterns are
// accumulated along the derivation chain: each list is the accumulation of the statements of its
// own kind, farthest definition first, a text being listed once per kind.  A text that stands in
// a statement of the other kind, at any level, has no bearing.
//
// Generators: patExhaustive (a chain of two typedefs and a use site, every subset of {pattern X,
// pattern Y, posix-pattern X, posix-pattern Y} at each level) and patRandom (chains of depth 1-5
// across an import and a submodule, 0-2 statements of each kind per level from one pool of texts
// shared by both kinds and by all levels, union members restricting chain typedefs, a decoy
// extension `posix-pattern` of a module that is not openconfig-extensions, openconfig-extensions
// imported under different prefixes).
//
// Oracle (accOracle, Go side, independent of the model): for every type statement of the AST
// that resolved (leaf, leaf-list, typedef, union member at any depth) the two lists of
// Type.YangType are compared, as sets, with a reference accumulation over the type statements of
// the chain, which is followed through YangType.Base (which typedef a name denotes is judged by
// the model and the executable specification, not here).
package main

import (
	"fmt"
	"math/rand"
	"sort"
	"strings"

	"github.com/openconfig/goyang/pkg/yang"
)

// ---------------------------------------------------------------------------------------------
// the oracle

// ownPatterns reads the statements of one type statement: the arguments of its pattern statements
// and of its posix-pattern extension statements; ok = false when a prefix of an extension
// statement denotes nothing (the library gives up on the statement: no claim).
func ownPatterns(s *yang.Type) (pat, ppat []string, ok bool) {
	for _, p := range s.Pattern {
		pat = append(pat, p.Name)
	}
	for _, e := range s.Exts() {
		i := strings.Index(e.Keyword, ":")
		if i < 0 {
			return nil, nil, false
		}
		mod := yang.FindModuleByPrefix(s, e.Keyword[:i])
		if mod == nil {
			return nil, nil, false
		}
		if e.Keyword[i+1:] == "posix-pattern" && mod.Name == "openconfig-extensions" {
			ppat = append(ppat, e.Argument)
		}
	}
	return pat, ppat, true
}

func accumulate(acc, own []string) []string {
	for _, p := range own {
		dup := false
		for _, q := range acc {
			if p == q {
				dup = true
			}
		}
		if !dup {
			acc = append(acc, p)
		}
	}
	return acc
}

func setOf(l []string) string {
	m := map[string]bool{}
	for _, s := range l {
		m[s] = true
	}
	out := make([]string, 0, len(m))
	for s := range m {
		out = append(out, s)
	}
	sort.Strings(out)
	return fmt.Sprintf("%q", out)
}

// refPatterns follows the chain of t and accumulates both kinds; ok = false: no claim (a statement
// of the chain did not resolve, or the library stops before it reaches the patterns).
func refPatterns(t *yang.Type) (pat, ppat []string, chain []string, ok bool) {
	var stmts []*yang.Type
	for s := t; ; s = s.YangType.Base {
		if s == nil || s.YangType == nil || len(stmts) > 64 {
			return nil, nil, nil, false
		}
		stmts = append(stmts, s)
		if yang.BaseTypedefs[s.Name] != nil {
			break
		}
		if s.FractionDigits != nil {
			return nil, nil, nil, false // "overriding of fraction-digits": resolve returns early
		}
	}
	for i := len(stmts) - 1; i >= 0; i-- {
		p, pp, ok := ownPatterns(stmts[i])
		if !ok {
			return nil, nil, nil, false
		}
		pat, ppat = accumulate(pat, p), accumulate(ppat, pp)
		chain = append(chain, yang.Source(stmts[i]))
	}
	return pat, ppat, chain, true
}

func accFinding(res *goRes, what string, t *yang.Type, y *yang.YangType) {
	pat, ppat, chain, ok := refPatterns(t)
	if !ok || y == nil {
		return
	}
	if len(res.Acc) >= 6 {
		return
	}
	if setOf(y.Pattern) != setOf(pat) {
		res.Acc = append(res.Acc, fmt.Sprintf("%s %s: 'the resolved type carries ... the patterns (accumulated) ... of the whole derivation chain': the pattern statements of the chain %v (farthest first) accumulate to %q, the resolved type lists %q (posix-pattern statements are a list of their own: they accumulate to %q, listed %q)", what, yang.Source(t), chain, pat, y.Pattern, ppat, y.POSIXPattern))
	}
	if setOf(y.POSIXPattern) != setOf(ppat) {
		res.Acc = append(res.Acc, fmt.Sprintf("%s %s: 'the resolved type carries ... the patterns (accumulated) ... of the whole derivation chain', read for the openconfig-extensions posix-pattern statements: those of the chain %v (farthest first) accumulate to %q, the resolved type lists %q (pattern statements are a list of their own: they accumulate to %q, listed %q)", what, yang.Source(t), chain, ppat, y.POSIXPattern, pat, y.Pattern))
	}
}

// accOracle judges a type statement and the member types written in it.
func accOracle(res *goRes, t *yang.Type, depth int) {
	if t == nil || depth > 8 {
		return
	}
	accFinding(res, "type statement", t, t.YangType)
	for _, m := range t.Type {
		accOracle(res, m, depth+1)
	}
}

// accOracleTypedef: a typedef's resolved type lists what its type statement's does.
func accOracleTypedef(res *goRes, td *yang.Typedef) {
	if td == nil || td.Type == nil {
		return
	}
	accOracle(res, td.Type, 0)
	if td.YangType != nil && td.Type.YangType != nil {
		accFinding(res, "typedef "+td.Name+", type statement", td.Type, td.YangType)
	}
}

// ---------------------------------------------------------------------------------------------
// generators

const decoyExt = "module other-extensions { namespace \"urn:other-ext\"; prefix oe;\n extension posix-pattern { argument pattern; }\n}\n"

// patStmts writes the statements the bits of mask select: 1 pattern X, 2 posix X, 4 pattern Y, 8 posix Y.
func patStmts(mask int, x, y, ocp string) string {
	var b strings.Builder
	if mask&1 != 0 {
		fmt.Fprintf(&b, " pattern \"%s\";", x)
	}
	if mask&2 != 0 {
		fmt.Fprintf(&b, " %s:posix-pattern \"%s\";", ocp, x)
	}
	if mask&4 != 0 {
		fmt.Fprintf(&b, " pattern \"%s\";", y)
	}
	if mask&8 != 0 {
		fmt.Fprintf(&b, " %s:posix-pattern \"%s\";", ocp, y)
	}
	return b.String()
}

func tyWith(ref, body string) string {
	if body == "" {
		return "type " + ref + ";"
	}
	return "type " + ref + " {" + body + " }"
}

// patExhaustive: typedef t1 { type string {A} }  typedef t2 { type t1 {B} }  leaf lC { type t2 {C} }
// for all subsets A, B (one case each) and C (one leaf each) of the four statements, plus a leaf
// that names t2 plainly, a leaf-list and a union whose members restrict t1 and t2.
func patExhaustive() []tcase {
	var out []tcase
	const x, y = "[a-z]+", "x.*"
	for a := 0; a < 16; a++ {
		for b := 0; b < 16; b++ {
			var sb strings.Builder
			sb.WriteString("module pm { namespace \"urn:pm\"; prefix pm;\nimport openconfig-extensions { prefix oc-ext; }\n")
			fmt.Fprintf(&sb, "typedef t1 { %s }\n", tyWith("string", patStmts(a, x, y, "oc-ext")))
			fmt.Fprintf(&sb, "typedef t2 { %s }\n", tyWith("t1", patStmts(b, x, y, "oc-ext")))
			for c := 0; c < 16; c++ {
				fmt.Fprintf(&sb, "leaf l%d { %s }\n", c, tyWith("t2", patStmts(c, x, y, "oc-ext")))
			}
			fmt.Fprintf(&sb, "leaf-list ll { %s }\n", tyWith("pm:t2", patStmts((a+b)%16, x, y, "oc-ext")))
			fmt.Fprintf(&sb, "leaf u { type union { %s %s } }\n", tyWith("t1", patStmts(b, x, y, "oc-ext")), tyWith("t2", patStmts(15-a, x, y, "oc-ext")))
			sb.WriteString("}\n")
			out = append(out, tcase{ID: fmt.Sprintf("pat/exh/%d-%d", a, b), Files: []srcFile{
				{"openconfig-extensions.yang", ocExt}, {"pm.yang", sb.String()}}})
		}
	}
	return out
}

var patTexts = []string{"[a-z]+", "x.*", "a*", "(a|b)c", "[0-9]+"}

// patRandom: a chain d1 (module mb) <- d2 (submodule mbs) <- d3 (module ma, across the import) <-
// d4 (container) <- d5 (list), cut at a random depth; at each level 0-2 statements of each kind
// with texts from one pool; use sites at every depth of the chain.
func patRandom(r *rand.Rand, id string) tcase {
	p := func(prob int) bool { return r.Intn(100) < prob }
	// prefixes under which the two extension modules are imported: sometimes swapped around, so
	// that only the module's name can tell which statements count
	ocA, ocB := "oc-ext", "oc-ext"
	if p(25) {
		ocA = "oe"
	}
	if p(25) {
		ocB = "px"
	}
	decoyA, decoyB := "oe", "oe"
	if ocA == "oe" {
		decoyA = "oc-ext"
	}
	// a narrow sub-pool most of the time: coincidences between kinds and levels are the point
	pool := patTexts
	if p(70) {
		i := r.Intn(len(patTexts))
		j := r.Intn(len(patTexts))
		pool = []string{patTexts[i], patTexts[j]}
	}
	body := func(oc, decoy string) string {
		var b strings.Builder
		var parts []string
		for i := 0; i < 2; i++ {
			if p(40) {
				parts = append(parts, fmt.Sprintf(" pattern \"%s\";", pool[r.Intn(len(pool))]))
			}
			if p(40) {
				parts = append(parts, fmt.Sprintf(" %s:posix-pattern \"%s\";", oc, pool[r.Intn(len(pool))]))
			}
		}
		if p(12) {
			parts = append(parts, fmt.Sprintf(" %s:posix-pattern \"%s\";", decoy, pool[r.Intn(len(pool))]))
		}
		if p(10) {
			parts = append(parts, " length \"1..20\";")
		}
		r.Shuffle(len(parts), func(a, b int) { parts[a], parts[b] = parts[b], parts[a] })
		for _, s := range parts {
			b.WriteString(s)
		}
		return b.String()
	}
	tsA := func(ref string) string { return tyWith(ref, body(ocA, decoyA)) }
	tsB := func(ref string) string { return tyWith(ref, body(ocB, decoyB)) }
	depth := 1 + r.Intn(5)
	var mb, mbs, ma strings.Builder
	fmt.Fprintf(&mb, "module mb { namespace \"urn:mb\"; prefix pb; include mbs;\nimport openconfig-extensions { prefix %s; }\nimport other-extensions { prefix %s; }\n", ocB, decoyB)
	fmt.Fprintf(&mb, "typedef d1 { %s }\n", tsB("string"))
	fmt.Fprintf(&mb, "leaf s0 { %s }\n", tsB("d1"))
	mb.WriteString("}\n")
	fmt.Fprintf(&mbs, "submodule mbs { belongs-to mb { prefix pb; }\nimport openconfig-extensions { prefix %s; }\nimport other-extensions { prefix %s; }\n", ocB, decoyB)
	last := "d1"
	if depth >= 2 {
		fmt.Fprintf(&mbs, "typedef d2 { %s }\n", tsB([]string{"d1", "pb:d1"}[r.Intn(2)]))
		fmt.Fprintf(&mbs, "leaf s1 { %s }\n", tsB("d2"))
		last = "d2"
	}
	mbs.WriteString("}\n")
	fmt.Fprintf(&ma, "module ma { namespace \"urn:ma\"; prefix pa; import mb { prefix x; }\nimport openconfig-extensions { prefix %s; }\nimport other-extensions { prefix %s; }\n", ocA, decoyA)
	last = "x:" + last
	fmt.Fprintf(&ma, "leaf a0 { %s }\n", tsA(last))
	if depth >= 3 {
		fmt.Fprintf(&ma, "typedef d3 { %s }\n", tsA(last))
		last = "d3"
		fmt.Fprintf(&ma, "leaf a1 { %s }\nleaf a2 { %s }\n", tsA("d3"), tsA("pa:d3"))
	}
	ma.WriteString("container c1 {\n")
	if depth >= 4 {
		fmt.Fprintf(&ma, "typedef d4 { %s }\n", tsA(last))
		last = "d4"
		fmt.Fprintf(&ma, "leaf b1 { %s }\nleaf-list b2 { %s }\n", tsA("d4"), tsA("d4"))
	}
	ma.WriteString("list l1 {\n")
	if depth >= 5 {
		fmt.Fprintf(&ma, "typedef d5 { %s }\n", tsA(last))
		last = "d5"
	}
	for i := 1; i <= 3; i++ {
		fmt.Fprintf(&ma, "leaf c%d { %s }\n", i, tsA(last))
	}
	fmt.Fprintf(&ma, "leaf c4 { type %s; }\n", last)
	fmt.Fprintf(&ma, "leaf cu { type union { %s %s type int8; } }\n", tsA(last), tsA("x:d1"))
	fmt.Fprintf(&ma, "grouping g1 { leaf g1l { %s } }\n", tsA(last))
	ma.WriteString("container u1 { uses g1; }\n}\n}\n}\n")
	files := []srcFile{{"ma.yang", ma.String()}, {"mb.yang", mb.String()}, {"mbs.yang", mbs.String()},
		{"openconfig-extensions.yang", ocExt}, {"other-extensions.yang", decoyExt}}
	r.Shuffle(len(files), func(a, b int) { files[a], files[b] = files[b], files[a] })
	return tcase{ID: id, Files: files}
}
