package main

import (
	"fmt"
	"math/rand"
	"strings"
)

// ---------------------------------------------------------------------------------------------
// typedef statements nobody uses
//
// "An unknown, unresolvable or cyclic type reference is an error" wherever the reference stands:
// also as the type of a typedef that no leaf reaches.  Module u0 (own prefix p0, imports u1 as q1,
// includes the submodule u0s) declares, at one to three of the scopes below, a group of typedefs
// with one fault (or none: the controls), alone in the scope, next to a used typedef, next to an
// unused good one, or used by a leaf itself.  Process() has to report the fault at the statement
// (specCheckTD judges every typedef statement; the model answers for all of them as well).

// a scope: %T is where its typedefs go, %L where leaves that see them go
type utdScope struct {
	kind string
	text string
}

var utdScopes = []utdScope{
	{"module", "%T\n%L\n"},
	{"submodule", "%T\n%L\n"}, // the same, in the text of the submodule
	{"container", "container c# {\n%T\n%L\n}\n"},
	{"list", "list l# { key k; leaf k { type string; }\n%T\n%L\n}\n"},
	{"grouping-used", "grouping g# {\n%T\n%L\n}\ncontainer ug# { uses g#; }\n"},
	{"grouping-unused", "grouping g# {\n%T\n%L\n}\n"},
	{"rpc", "rpc r# {\n%T\ninput {\n%L\n}\n}\n"},
	{"input", "rpc r# { input {\n%T\n%L\n} }\n"},
	{"output", "rpc r# { output {\n%T\n%L\n} }\n"},
	{"notification", "notification n# {\n%T\n%L\n}\n"},
	{"action", "container ca# { action a# {\n%T\ninput {\n%L\n}\n} }\n"},
	{"nested", "container cn# { list ln# { key k; leaf k { type string; } grouping gn# {\n%T\n%L\n} } }\n"},
}

// a fault: typedefs f1.., "@" stands for the suffix that keeps the names of different scopes apart
var utdFaults = []struct {
	what string
	tds  string
}{
	{"none", "typedef f1@ { type top; }"},
	{"none-chain", "typedef f1@ { type f2@; } typedef f2@ { type union { type q1:ext; type top8 { range \"1..5\"; } } }"},
	{"unknown-name", "typedef f1@ { type nosuch; }"},
	{"unknown-name-own-prefix", "typedef f1@ { type p0:nosuch; }"},
	{"unknown-prefix", "typedef f1@ { type zz:top; }"},
	{"unknown-name-foreign", "typedef f1@ { type q1:nosuch; }"},
	{"foreign-name-of-a-nested-scope", "typedef f1@ { type q1:inner; }"},
	{"name-of-a-sibling-scope", "typedef f1@ { type sib; }"},
	{"cycle-1", "typedef f1@ { type f1@; }"},
	{"cycle-1-union", "typedef f1@ { type union { type string; type f1@; } }"},
	{"cycle-2", "typedef f1@ { type f2@; }\ntypedef f2@ { type union { type string; type p0:f1@; } }"},
	{"cycle-3", "typedef f1@ { type f2@; }\ntypedef f2@ { type union { type f3@; type int8; } }\ntypedef f3@ { type union { type union { type f1@; } } }"},
	{"chain-to-unknown", "typedef f1@ { type f2@; }\ntypedef f2@ { type p0:missing; }"},
	{"union-member-unknown", "typedef f1@ { type union { type string; type nosuch; } }"},
	{"depends-on-cyclic", "typedef f1@ { type union { type int8; type f2@; } }\ntypedef f2@ { type f2@; }"},
	{"bad-range", "typedef f1@ { type int8 { range \"5..1\"; } }"},
	{"bad-length", "typedef f1@ { type string { length \"10..2\"; } }"},
	{"range-outside-base", "typedef f1@ { type top8 { range \"1000..2000\"; } }"},
	{"fraction-digits-not-decimal", "typedef f1@ { type int16 { fraction-digits 2; } }"},
}

// how the faulty group stands in its scope
const (
	utdAlone = iota
	utdNextToUsed
	utdNextToUnused
	utdUsedItself
	utdModes
)

type utdPick struct{ scope, fault, mode int }

func utdText(picks []utdPick, inSub []bool) (main, sub string) {
	var mb, sb strings.Builder
	for i, p := range picks {
		sfx := fmt.Sprintf("x%d", i)
		tds := strings.ReplaceAll(utdFaults[p.fault].tds, "@", sfx)
		leaves := fmt.Sprintf("leaf plain%s { type string; }", sfx)
		switch p.mode {
		case utdNextToUsed:
			tds = fmt.Sprintf("typedef good%s { type top8 { range \"1..9\"; } units u%s; }\n", sfx, sfx) + tds
			leaves += fmt.Sprintf("\nleaf user%s { type good%s; }", sfx, sfx)
		case utdNextToUnused:
			tds += fmt.Sprintf("\ntypedef idle%s { type q1:ext; default 7; }", sfx)
		case utdUsedItself:
			leaves += fmt.Sprintf("\nleaf user%s { type f1%s; }", sfx, sfx)
		}
		t := utdScopes[p.scope].text
		t = strings.ReplaceAll(t, "#", sfx)
		t = strings.ReplaceAll(t, "%T", tds)
		t = strings.ReplaceAll(t, "%L", leaves)
		if inSub[i] {
			sb.WriteString(t)
		} else {
			mb.WriteString(t)
		}
	}
	return mb.String(), sb.String()
}

func utdFiles(picks []utdPick, inSub []bool) []srcFile {
	main, sub := utdText(picks, inSub)
	u0 := "module u0 { namespace \"urn:u0\"; prefix p0;\nimport u1 { prefix q1; }\ninclude u0s;\n" +
		"typedef top { type string; }\ntypedef top8 { type int8; }\n" +
		"container sibling { typedef sib { type int64; } leaf s { type sib; } }\n" + main + "}\n"
	u0s := "submodule u0s { belongs-to u0 { prefix p0; }\nimport u1 { prefix q1; }\n" +
		"leaf subleaf { type top; }\n" + sub + "}\n"
	u1 := "module u1 { namespace \"urn:u1\"; prefix p1;\ntypedef ext { type int32; }\n" +
		"container c { typedef inner { type int16; } leaf x { type inner; } }\n}\n"
	return []srcFile{{"u0.yang", u0}, {"u0s.yang", u0s}, {"u1.yang", u1}}
}

// every scope x every fault, alone and next to a used typedef
func utdExhaustive() []tcase {
	var out []tcase
	for si, sc := range utdScopes {
		for fi, ft := range utdFaults {
			for _, mode := range []int{utdAlone, utdNextToUsed} {
				id := fmt.Sprintf("utd/%s/%s/%d", sc.kind, ft.what, mode)
				out = append(out, tcase{ID: id, Files: utdFiles([]utdPick{{si, fi, mode}}, []bool{sc.kind == "submodule"})})
			}
		}
	}
	return out
}

// one to three scopes, each with a fault (or a control) and a way of standing there; any scope
// may be in the submodule's text; files in random order
func utdRandom(r *rand.Rand, id string) tcase {
	n := 1 + r.Intn(3)
	picks := make([]utdPick, n)
	inSub := make([]bool, n)
	for i := range picks {
		picks[i] = utdPick{r.Intn(len(utdScopes)), r.Intn(len(utdFaults)), r.Intn(utdModes)}
		switch utdScopes[picks[i].scope].kind {
		case "module":
		case "submodule":
			inSub[i] = true
		default:
			inSub[i] = r.Intn(3) == 0
		}
	}
	files := utdFiles(picks, inSub)
	r.Shuffle(len(files), func(a, b int) { files[a], files[b] = files[b], files[a] })
	return tcase{ID: id, Files: files}
}

// Restriction faults of the utd/ texts: wherever one of these statements stands (they only ever
// stand in typedefs), the typedef is unresolvable and Process() must report an error at the
// statement named (the restriction itself; for fraction-digits the type statement).  Known by
// construction of the texts, independent of the model.
var utdPlanted = []struct{ text, rule string }{
	{"range \"5..1\";", "RFC 7950 9.2.4: the bounds of a range ascend"},
	{"length \"10..2\";", "RFC 7950 9.4.4: the bounds of a length ascend"},
	{"range \"1000..2000\";", "RFC 7950 9.2.4: a range restricts the range of the base type (top8 is int8)"},
	{"type int16 { fraction-digits 2; }", "RFC 7950 9.3.4: fraction-digits belongs to decimal64 only"},
}

func utdPlantedCheck(c tcase, g goRes) []string {
	if !strings.HasPrefix(c.ID, "utd/") && !strings.HasPrefix(c.Base, "utd/") {
		return nil
	}
	if g.Panic != "" || g.ParseErr != "" {
		return nil
	}
	at := map[string]bool{}
	for _, e := range g.P1 {
		if i := strings.LastIndex(e, ":"); i > 0 {
			at[e[:i]] = true
		}
	}
	var bad []string
	for _, f := range c.all() {
		for _, p := range utdPlanted {
			for from := 0; ; {
				i := strings.Index(f.Text[from:], p.text)
				if i < 0 {
					break
				}
				off := from + i
				from = off + len(p.text)
				line := 1 + strings.Count(f.Text[:off], "\n")
				col := off - strings.LastIndex(f.Text[:off], "\n")
				pos := fmt.Sprintf("%s:%d:%d", f.Name, line, col)
				if !at[pos] {
					bad = append(bad, fmt.Sprintf("statement %s `%s`: 'an unresolvable type reference is an error' (wherever it stands, also in a typedef no leaf uses): %s, so the typedef holding this statement cannot be resolved, but Process() reports no error at %s (it reports %v)", pos, p.text, p.rule, pos, head(g.P1, 6)))
				}
			}
		}
	}
	return bad
}
