// Literals of extreme length with a small value (added for the seeded change C10-m21: the count of written
// fraction digits kept in a uint8).
//
// Whatever counts characters, digits or parts of a restriction text in a narrow integer goes wrong only when
// the text is long: hundreds to tens of thousands of fraction zeros, of leading zeros, of blanks, of parts,
// with lengths on both sides of 2^8, 2^9, 2^10, 2^16.  The value written stays small (a few non-zero digits),
// so that a reading which loses count still yields a 64-bit number and *accepts* the restriction.
//
// The cases are ordinary chains (Case): they run through the exported parsers (base none) and through YANG
// typedef chains under the built-in types and under restricted parents, they are placed on union members, in
// deviations, across revisions and next to sibling statements like every other section, the model answers
// them, spec.step judges the Go outcome — and, for this section, spec.written judges it once more with every
// literal read by its written value in exact arithmetic (Drv/Range.lean, namespace Written), a reading that
// shares nothing with the model's digit loops.
package main

import (
	"fmt"
	"math/rand"
	"strconv"
	"strings"
)

func zeros(n int) string { return strings.Repeat("0", n) }

// longLengths: the lengths n of the repeated run.  small: used with every shape; big: with a few shapes only.
func longLengths(thorough bool) (small, big []int) {
	small = []int{19, 100, 254, 255, 256, 257, 258, 274, 275, 511, 512, 513, 530, 768, 1024, 1025}
	big = []int{65535, 65536, 65537, 65554}
	if thorough {
		small = append(small, 20, 21, 36, 37, 38, 127, 128, 129, 510, 514, 767, 769, 786, 1023, 1026, 1042, 1280, 2048)
		for n := 259; n <= 273; n++ {
			small = append(small, n)
		}
		big = append(big, 4096, 32768, 65534, 65555, 65792, 131072, 131073, 131090)
		for n := 65538; n <= 65553; n++ {
			big = append(big, n)
		}
	}
	return
}

type longShape struct {
	name string
	lit  func(n, fd int) string
	core bool // also used with the big lengths
}

// decimal literals; n = number of fraction digits written, resp. number of leading zeros
var longDecShapes = []longShape{
	{"tiny fraction 0.0…07", func(n, fd int) string { return "0." + zeros(n-1) + "7" }, true},
	{"zero fraction 0.0…0", func(n, fd int) string { return "0." + zeros(n) }, true},
	{"1.0…05", func(n, fd int) string { return "1." + zeros(n-1) + "5" }, false},
	{"trailing zeros 0.50…0", func(n, fd int) string { return "0.5" + zeros(n-1) }, false},
	{"signed tiny fraction", func(n, fd int) string { return "-0." + zeros(n-1) + "3" }, false},
	{"plus tiny fraction", func(n, fd int) string { return "+0." + zeros(n-1) + "1" }, false},
	{"fraction ending in fd digits", func(n, fd int) string {
		k := fd
		if k > n {
			k = n
		}
		return "0." + zeros(n-k) + strings.Repeat("1", k)
	}, false},
	{"nines 0.9…9", func(n, fd int) string { return "0." + strings.Repeat("9", n) }, false},
	{"leading zeros 0…07", func(n, fd int) string { return zeros(n) + "7" }, true},
	{"leading zeros 0…07.5", func(n, fd int) string { return zeros(n) + "7.5" }, true},
	{"leading zeros, full scale", func(n, fd int) string { return "-" + zeros(n) + decLit("125", fd) }, false},
	{"leading zeros and fraction zeros", func(n, fd int) string { return zeros(n) + "1." + zeros(n-1) + "5" }, true},
	{"leading zeros, fraction within scale by one", func(n, fd int) string { return zeros(n) + "2." + zeros(fd-1) + "1" }, false},
	{"leading zeros, fraction beyond scale by one", func(n, fd int) string { return zeros(n) + "2." + zeros(fd) + "1" }, false},
	{"1 and n zeros", func(n, fd int) string { return "1" + zeros(n) }, false},
	{"1 and n zeros, fraction", func(n, fd int) string { return "-1" + zeros(n) + ".5" }, false},
}

// integer / length literals (Go's base-0 syntax: a superfluous leading zero means octal)
var longIntShapes = []longShape{
	{"0…07", func(n, fd int) string { return zeros(n) + "7" }, true},
	{"0…08 (not octal)", func(n, fd int) string { return zeros(n) + "8" }, true},
	{"0…0", func(n, fd int) string { return zeros(n) }, false},
	{"-0…01", func(n, fd int) string { return "-" + zeros(n) + "1" }, true},
	{"+0…01", func(n, fd int) string { return "+" + zeros(n) + "1" }, false},
	{"0…0377 (255)", func(n, fd int) string { return zeros(n) + "377" }, true},
	{"0…0400 (256)", func(n, fd int) string { return zeros(n) + "400" }, false},
	{"0…0177 (127)", func(n, fd int) string { return zeros(n) + "177" }, false},
	{"-0…0201 (-129)", func(n, fd int) string { return "-" + zeros(n) + "201" }, false},
	{"0x0…0ff", func(n, fd int) string { return "0x" + zeros(n) + "ff" }, true},
	{"0X0…0100", func(n, fd int) string { return "0X" + zeros(n) + "100" }, false},
	{"0b0…0101", func(n, fd int) string { return "0b" + zeros(n) + "101" }, false},
	{"0o0…017", func(n, fd int) string { return "0o" + zeros(n) + "17" }, false},
	{"1 and n zeros", func(n, fd int) string { return "1" + zeros(n) }, false},
	{"-1 and n zeros", func(n, fd int) string { return "-1" + zeros(n) }, false},
	{"underscores 0_0_…_7", func(n, fd int) string { return "0" + strings.Repeat("_0", n/2) + "_7" }, false},
	{"0…0 2^64-1 in octal", func(n, fd int) string { return zeros(n) + "1777777777777777777777" }, false},
	{"0…0 2^64 in octal", func(n, fd int) string { return zeros(n) + "2000000000000000000000" }, false},
	{"0…0 2^63-1 in octal", func(n, fd int) string { return zeros(n) + "777777777777777777777" }, false},
	{"-0…0 2^63 in octal", func(n, fd int) string { return "-" + zeros(n) + "1000000000000000000000" }, false},
	{"0…0.5", func(n, fd int) string { return zeros(n) + ".5" }, false},
	{"0…07.0", func(n, fd int) string { return zeros(n) + "7.0" }, false},
}

// longWrap: the restriction texts a literal x is written in (all = false: the first three only)
func longWrap(x string, signedOK, all bool) []string {
	w := []string{x, "0.." + x, "1 .. " + x}
	if !all {
		return w
	}
	w = append(w, "min.."+x, x+"..max", x+" | 100")
	if signedOK && !strings.HasPrefix(x, "-") && !strings.HasPrefix(x, "+") {
		w = append(w, "-"+x+".."+x)
	}
	return w
}

type longBase struct {
	mode, base string
	parent     string // an earlier restriction ("" = none)
}

var longIntBases = []longBase{
	{"int", "none", ""}, {"int", "uint8", ""}, {"int", "int8", ""}, {"int", "uint64", ""}, {"int", "int64", ""},
	{"int", "uint8", "0..100"}, {"int", "int32", "-200..-100 | 0..10 | 255"}, {"len", "nil", ""}, {"len", "nil", "1..300"},
}

func longDecBases() []longBase {
	return []longBase{{"dec", "none", ""}, {"dec", "dec", ""}, {"dec", "dec", "0..10"}, {"dec", "dec", "-1..1 | 5..max"}}
}

func addLong(dst *[]Case, b longBase, fd int, text string) {
	if b.parent == "" {
		addCase(dst, b.mode, b.base, fd, text)
	} else {
		addCase(dst, b.mode, b.base, fd, b.parent, text)
	}
}

// genLongLiterals: see the head of the file.
func genLongLiterals(thorough bool, rng *rand.Rand) []Case {
	var cs []Case
	// corpus: the witnesses of C10-m21 and their neighbours
	for _, fd := range []int{1, 2, 9, 18} {
		for _, n := range []int{19, 100, 255, 256, 257, 258, 512, 513, 1025} {
			x := "0." + zeros(n-1) + "7"
			addCase(&cs, "dec", "dec", fd, "0..10", "1 .. "+x)
			for _, t := range []string{x, "0.." + x, "min.." + x, "-" + x + "..max"} {
				addCase(&cs, "dec", "dec", fd, t)
				addCase(&cs, "dec", "none", fd, t)
			}
		}
	}
	small, big := longLengths(thorough)
	fds := []int{1, 2, 9, 18}
	if thorough {
		fds = nil
		for f := 1; f <= 18; f++ {
			fds = append(fds, f)
		}
	}
	// quick tier: the shapes that are not core shapes take half of the lengths only
	fewer := map[int]bool{100: true, 255: true, 256: true, 257: true, 274: true, 512: true, 513: true, 1025: true}
	skip := func(sh longShape, n int) bool { return !thorough && !sh.core && !fewer[n] }
	few := map[int]bool{1: true, 2: true, 9: true, 18: true}
	for _, fd := range fds {
		for _, n := range small {
			for _, sh := range longDecShapes {
				if skip(sh, n) || (!sh.core && !few[fd]) {
					continue
				}
				x := sh.lit(n, fd)
				for _, b := range longDecBases() {
					for _, t := range longWrap(x, true, sh.core || thorough) {
						addLong(&cs, b, fd, t)
					}
				}
			}
		}
	}
	for _, n := range small {
		for _, sh := range longIntShapes {
			if skip(sh, n) {
				continue
			}
			x := sh.lit(n, 0)
			for _, b := range longIntBases {
				for _, t := range longWrap(x, b.mode == "int", sh.core || thorough) {
					addLong(&cs, b, 0, t)
				}
			}
		}
	}
	// the big lengths (around 2^16 and, thorough, 2^17): core shapes, one text per base
	bigFds := []int{2, 18}
	for _, n := range big {
		for _, fd := range bigFds {
			for _, sh := range longDecShapes {
				if !sh.core {
					continue
				}
				x := sh.lit(n, fd)
				addCase(&cs, "dec", "none", fd, x)
				addCase(&cs, "dec", "dec", fd, "0.."+x)
			}
		}
		for _, sh := range longIntShapes {
			if !sh.core {
				continue
			}
			x := sh.lit(n, 0)
			addCase(&cs, "int", "none", 0, x)
			addCase(&cs, "int", "uint8", 0, "0.."+x)
			addCase(&cs, "len", "nil", 0, x)
		}
	}
	// long runs of other characters, and many parts
	for _, n := range small {
		sp, tb := strings.Repeat(" ", n), strings.Repeat("\t", n)
		texts := []string{
			sp + "1" + tb, "1" + sp + ".." + tb + "2", sp + "1..2" + sp + "|" + sp + "4", "1" + sp + "2", sp,
			"1" + strings.Repeat(".", n) + "2", "1" + strings.Repeat("|", n) + "2", strings.Repeat("|", n), strings.Repeat("-", n) + "1",
			strings.Repeat("+", n) + "1", "1" + strings.Repeat("\n", n), strings.Repeat("1|", n) + "1", strings.Repeat("min|", n) + "max",
			strings.Repeat("1..2|", n) + "2..3", "1.." + strings.Repeat("2..", n) + "3",
		}
		for _, t := range texts {
			addCase(&cs, "int", "none", 0, t)
			addCase(&cs, "int", "int16", 0, t)
			addCase(&cs, "len", "nil", 0, t)
			addCase(&cs, "dec", "dec", 3, t)
			addCase(&cs, "dec", "none", 3, t)
		}
	}
	partCounts := []int{13, 255, 256, 257, 513}
	if thorough {
		partCounts = append(partCounts, 127, 128, 129, 254, 258, 511, 512, 1023, 1024, 1025)
	}
	for _, k := range partCounts {
		var apart, touching, desc, same, overl []string
		for i := 0; i < k; i++ {
			apart = append(apart, strconv.Itoa(2*i))
			touching = append(touching, fmt.Sprintf("%d..%d", 2*i, 2*i+1))
			desc = append(desc, strconv.Itoa(2*(k-1-i)))
			same = append(same, "7")
			overl = append(overl, fmt.Sprintf("%d..%d", i, i+2))
		}
		outside := append(append([]string{}, apart...), "70000")
		gap := append(append([]string{}, touching[:k-1]...), strconv.Itoa(2*k))
		for _, parts := range [][]string{apart, touching, desc, same, overl, outside, gap} {
			t := strings.Join(parts, "|")
			addCase(&cs, "int", "none", 0, t)
			addCase(&cs, "int", "uint16", 0, t)
			addCase(&cs, "int", "int32", 0, "-5..5000", t)
			addCase(&cs, "len", "nil", 0, "0..600|1000..max", t)
			addCase(&cs, "dec", "dec", 1, t)
			if thorough {
				addCase(&cs, "len", "nil", 0, t)
				addCase(&cs, "dec", "none", 18, t)
			}
		}
	}
	// seeded random long literals
	nr := 2000
	if thorough {
		nr = 40000
	}
	for i := 0; i < nr; i++ {
		cs = append(cs, randomLongCase(rng, thorough))
	}
	// the drivers get contiguous shares of the requests: spread the very long texts over all of them
	rng.Shuffle(len(cs), func(i, j int) { cs[i], cs[j] = cs[j], cs[i] })
	return cs
}

// randomLength: mostly next to a multiple of 256, sometimes next to a multiple of 65536, else anything up to 3000.
func randomLength(rng *rand.Rand, thorough bool) int {
	switch r := rng.Intn(40); {
	case r == 0 && thorough:
		return 65536*(1+rng.Intn(2)) + rng.Intn(24) - 3
	case r == 0:
		return 65536 + rng.Intn(22) - 2
	case r < 28:
		return 256*(1+rng.Intn(8)) + rng.Intn(24) - 3
	}
	return 19 + rng.Intn(3000)
}

// randomLongDigits: n digits, zeros except for up to three non-zero digits, mostly near the end.
func randomLongDigits(rng *rand.Rand, n int) string {
	d := []byte(zeros(n))
	for k := rng.Intn(4); k > 0; k-- {
		var pos int
		switch rng.Intn(4) {
		case 0:
			pos = rng.Intn(n)
		case 1:
			pos = 0
		default:
			pos = n - 1 - rng.Intn(minInt(n, 19))
		}
		d[pos] = byte('1' + rng.Intn(9))
	}
	return string(d)
}

func minInt(a, b int) int {
	if a < b {
		return a
	}
	return b
}

func randomLongCase(rng *rand.Rand, thorough bool) Case {
	n := randomLength(rng, thorough)
	sign := []string{"", "", "", "-", "+"}[rng.Intn(5)]
	var cs []Case
	if rng.Intn(5) < 3 {
		fd := 1 + rng.Intn(18)
		var x string
		switch rng.Intn(4) {
		case 0: // long fraction
			x = sign + strconv.Itoa(rng.Intn(3)) + "." + randomLongDigits(rng, n)
		case 1: // long integer part, short fraction
			x = sign + randomLongDigits(rng, n) + "." + randomLongDigits(rng, 1+rng.Intn(fd))
		case 2: // both long
			x = sign + randomLongDigits(rng, n) + "." + randomLongDigits(rng, randomLength(rng, false))
		default: // long integer literal in a decimal range
			x = sign + randomLongDigits(rng, n)
		}
		ws := longWrap(x, true, true)
		b := longDecBases()[rng.Intn(4)]
		addLong(&cs, b, fd, ws[rng.Intn(len(ws))])
	} else {
		x := sign + randomLongDigits(rng, n)
		if rng.Intn(6) == 0 {
			x = sign + []string{"0x", "0b", "0o", "0_"}[rng.Intn(4)] + zeros(n) + "1"
		}
		b := longIntBases[rng.Intn(len(longIntBases))]
		ws := longWrap(x, b.mode == "int", true)
		addLong(&cs, b, 0, ws[rng.Intn(len(ws))])
	}
	return cs[0]
}

// compactText writes runs of 12 or more equal bytes as c{n} (for the description of an input; the replay
// record keeps the text itself).
func compactText(s string) string {
	if len(s) <= 160 {
		return s
	}
	var sb strings.Builder
	for i := 0; i < len(s); {
		j := i
		for j < len(s) && s[j] == s[i] {
			j++
		}
		if j-i >= 12 {
			fmt.Fprintf(&sb, "%s{%d}", strconv.Quote(string(s[i]))[1:len(strconv.Quote(string(s[i])))-1], j-i)
		} else {
			sb.WriteString(s[i:j])
		}
		i = j
	}
	out := sb.String()
	if len(out) > 2000 {
		out = out[:1000] + fmt.Sprintf(" …(%d bytes in all)… ", len(s)) + out[len(out)-400:]
	}
	return out
}
