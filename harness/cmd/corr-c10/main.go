// corr-c10: correspondence between the range code of pkg/yang (real code, in-process) and the Lean
// model Goyang.Model.Range (driver drv_range).
//
// Three families of inputs:
//
//	A  restriction chains: a base (no parent = ParseRangesInt/ParseRangesDecimal called directly;
//	   or one of the eight integer types, decimal64 at some fraction-digits, string lengths) and a
//	   list of restriction texts applied one on top of the other.  Chains with a parent are run
//	   through YANG text (typedef chains, yang.NewModules/Parse/Process, reading Entry.Type.Range /
//	   .Length and the errors), because parseChildRanges is not exported.
//	B  the exported methods Contains / Equal / Validate / Sort / String on constructed YangRange values.
//	C  the eight built-in range variables and the decimal64 base ranges.
//
// Section long_literals (longlits.go): literals, blank runs and part lists of extreme length (around 2^8 … 2^16
// characters) with a small value, judged additionally by spec.written (literals read by their written value).
//
// The last restriction of chains with a parent is run once more in other placements: union members,
// the type of a deviate, below an imported typedef whose module is replaced between two runs, and next
// to every other substatement a type statement can carry (siblings.go).
//
// Every Go outcome of family A is also handed to the executable specification (driver op
// spec.step: the outcome must denote exactly the written set, be sorted, disjoint and coalesced,
// lie inside the parent's set, and invalid restrictions must be rejected), every outcome of
// Contains on sorted-disjoint-coalesced lists to spec.contains.
package main

import (
	"encoding/json"
	"errors"
	"fmt"
	"math/rand"
	"os"
	"regexp"
	"runtime/debug"
	"sort"
	"strconv"
	"strings"
	"sync"
	"time"
	"unicode/utf8"

	"github.com/openconfig/goyang/pkg/yang"
	"verif/harness/lib"
)

// ---------------------------------------------------------------- canonical forms

func rawNum(n yang.Number) string {
	neg := 0
	if n.Negative {
		neg = 1
	}
	return fmt.Sprintf("%d/%d/%d", n.Value, n.FractionDigits, neg)
}

func rawRange(r yang.YangRange) string {
	if len(r) == 0 {
		return "-"
	}
	parts := make([]string, len(r))
	for i, p := range r {
		parts[i] = rawNum(p.Min) + "~" + rawNum(p.Max)
	}
	return strings.Join(parts, ",")
}

func fullRange(r yang.YangRange) string { return rawRange(r) + " " + lib.HexS(r.String()) }

func parseRawNum(s string) (yang.Number, error) {
	f := strings.Split(s, "/")
	if len(f) != 3 {
		return yang.Number{}, errors.New("bad number")
	}
	v, err := strconv.ParseUint(f[0], 10, 64)
	if err != nil {
		return yang.Number{}, err
	}
	fd, err := strconv.ParseUint(f[1], 10, 8)
	if err != nil {
		return yang.Number{}, err
	}
	return yang.Number{Value: v, FractionDigits: uint8(fd), Negative: f[2] == "1"}, nil
}

func parseRawRange(s string) (yang.YangRange, error) {
	if s == "-" {
		return yang.YangRange{}, nil
	}
	var out yang.YangRange
	for _, p := range strings.Split(s, ",") {
		mm := strings.Split(p, "~")
		if len(mm) != 2 {
			return nil, errors.New("bad part")
		}
		a, err := parseRawNum(mm[0])
		if err != nil {
			return nil, err
		}
		b, err := parseRawNum(mm[1])
		if err != nil {
			return nil, err
		}
		out = append(out, yang.YRange{Min: a, Max: b})
	}
	return out, nil
}

// classify maps an error of the range code to the class names of Goyang.Model.Range.RangeErr
// (wording is not compared; which kind of error is raised is).
func classify(msg string) string {
	switch {
	case msg == "converting empty string to number":
		return "num.empty"
	case msg == "sign with no value":
		return "num.signOnly"
	case strings.HasPrefix(msg, "cannot resolve 'max' keyword"):
		return "kwMax"
	case strings.HasPrefix(msg, "cannot resolve 'min' keyword"):
		return "kwMin"
	case strings.HasPrefix(msg, "too many '..' in "):
		return "dots"
	case strings.HasPrefix(msg, "range boundaries out of order"):
		return "order"
	case strings.HasPrefix(msg, "invalid number of fraction digits"):
		return "num.badFd"
	case strings.HasPrefix(msg, "strconv.ParseUint: parsing ") && strings.HasSuffix(msg, ": invalid syntax"):
		return "num.syntax"
	case strings.HasPrefix(msg, "strconv.ParseUint: parsing ") && strings.HasSuffix(msg, ": value out of range"):
		return "num.range"
	case strings.Contains(msg, " is not a valid decimal number: strconv.ParseInt: parsing ") && strings.HasSuffix(msg, ": invalid syntax"):
		return "num.syntax"
	case strings.Contains(msg, " is not a valid decimal number: strconv.ParseInt: parsing ") && strings.HasSuffix(msg, ": value out of range"):
		return "num.range"
	case strings.HasSuffix(msg, " is not a valid decimal number"):
		// the guard of the repaired decimalValueFromString (D10-S1): a point directly followed by a sign
		return "num.syntax"
	case strings.Contains(msg, " has too much precision, expect <= "):
		return "num.precision"
	case msg == "range not sorted":
		return "unsorted"
	case msg == "invalid number":
		return "invalid"
	case msg == "overlapping ranges":
		return "overlap"
	case strings.HasPrefix(msg, "negative length: "):
		return "negLength"
	case strings.Contains(msg, " not within "):
		return "outside"
	}
	return "other"
}

// ---------------------------------------------------------------- cases of family A

type Case struct {
	Mode  string   `json:"mode"` // int | dec | len
	Base  string   `json:"base"` // none | int8 … uint64 | dec | nil
	Fd    int      `json:"fd"`
	Steps []string `json:"steps"` // restriction texts, hex
	// pass-through levels (passthrough.go): Pass[k] typedefs without a restriction before step k (the last
	// entry: after the last step); what they carry, where the levels are placed, binary instead of string
	Pass    []int  `json:"pass,omitempty"`
	Flavor  int    `json:"flavor,omitempty"`
	Place   int    `json:"place,omitempty"`
	LenBase string `json:"len_base,omitempty"`
}

func (c Case) key() string {
	return c.Mode + " " + c.Base + " " + strconv.Itoa(c.Fd) + " " + strings.Join(c.Steps, " ") + c.passKey()
}

func (c Case) request() string {
	if c.Mode == "len" {
		return "lenchain nil " + strings.Join(c.Steps, " ")
	}
	dec := "0"
	if c.Mode == "dec" {
		dec = "1"
	}
	return "chain " + c.Base + " " + dec + " " + strconv.Itoa(c.Fd) + " " + strings.Join(c.Steps, " ")
}

func text(h string) string {
	b, _ := lib.UnHex(h)
	return string(b)
}

var intTypes = []string{"int8", "int16", "int32", "int64", "uint8", "uint16", "uint32", "uint64"}

var builtinRanges = map[string]yang.YangRange{
	"int8": yang.Int8Range, "int16": yang.Int16Range, "int32": yang.Int32Range, "int64": yang.Int64Range,
	"uint8": yang.Uint8Range, "uint16": yang.Uint16Range, "uint32": yang.Uint32Range, "uint64": yang.Uint64Range,
}

// stepOut is the canonical outcome of one step: "ok <raw> <hex string>" or "err <class>".
func okOut(r yang.YangRange) string { return "ok " + fullRange(r) }

// runAPI evaluates a chain without parent and with exactly one step through the exported parsers.
func runAPI(c Case) (out []string) {
	defer func() {
		if p := recover(); p != nil {
			out = []string{fmt.Sprintf("panic %v", p)}
		}
	}()
	s := text(c.Steps[0])
	var r yang.YangRange
	var err error
	if c.Mode == "dec" {
		r, err = yang.ParseRangesDecimal(s, uint8(c.Fd))
	} else {
		r, err = yang.ParseRangesInt(s)
	}
	if err != nil {
		return []string{"err " + classify(err.Error())}
	}
	return []string{okOut(r)}
}

var errLine = regexp.MustCompile(`(?s)^m\.yang:(\d+):\d+: (?:bad range|bad length|negative length)?:? ?(.*)$`)

// runYANG evaluates a batch of chains with a parent through one YANG module: chain i becomes
// typedefs c<i>_<k> (k = 1…), each on its own line, with one leaf per typedef.
func runYANG(cases []Case) (outs [][]string) {
	outs = make([][]string, len(cases))
	defer func() {
		if p := recover(); p != nil {
			for i := range outs {
				if outs[i] == nil {
					outs[i] = []string{fmt.Sprintf("panic %v %s", p, firstLines(string(debug.Stack()), 12))}
				}
			}
		}
	}()
	var sb strings.Builder
	sb.WriteString("module m { namespace \"urn:m\"; prefix m;\n")
	line := 2
	type ref struct{ ci, k int }
	lineOf := map[int]ref{}
	for i, c := range cases {
		for k, h := range c.Steps {
			var base string
			if k > 0 {
				base = fmt.Sprintf("c%d_%d", i, k)
			} else {
				switch c.Mode {
				case "len":
					base = "string"
				case "dec":
					base = "decimal64"
				default:
					base = c.Base
				}
			}
			kw := "range"
			if c.Mode == "len" {
				kw = "length"
			}
			fdStmt := ""
			if c.Mode == "dec" && k == 0 {
				fdStmt = fmt.Sprintf("fraction-digits %d; ", c.Fd)
			}
			// single-quoted YANG strings are verbatim; a line feed inside advances the line counter
			t := text(h)
			fmt.Fprintf(&sb, "typedef c%d_%d { type %s { %s%s '%s'; } } leaf l%d_%d { type c%d_%d; }\n", i, k+1, base, fdStmt, kw, t, i, k+1, i, k+1)
			lineOf[line] = ref{i, k}
			line += 1 + strings.Count(t, "\n")
		}
	}
	sb.WriteString("}\n")
	ms := yang.NewModules()
	if err := ms.Parse(sb.String(), "m.yang"); err != nil {
		for i := range outs {
			outs[i] = []string{"parse-error " + firstLines(err.Error(), 2)}
		}
		return outs
	}
	errs := ms.Process()
	// first failing step of every chain
	failAt := map[int]int{}
	failClass := map[[2]int]string{}
	for _, e := range errs {
		m := errLine.FindStringSubmatch(e.Error())
		if m == nil {
			continue
		}
		ln, _ := strconv.Atoi(m[1])
		r, ok := lineOf[ln]
		if !ok {
			continue
		}
		cl := classify(m[2])
		if strings.Contains(e.Error(), ": negative length: ") {
			cl = "negLength"
		}
		if old, ok := failAt[r.ci]; !ok || r.k < old {
			failAt[r.ci] = r.k
		}
		failClass[[2]int{r.ci, r.k}] = cl
	}
	mod := ms.Modules["m"]
	if mod == nil {
		for i := range outs {
			outs[i] = []string{"no-module"}
		}
		return outs
	}
	root := yang.ToEntry(mod)
	for i, c := range cases {
		n := len(c.Steps)
		fa, failed := failAt[i]
		if failed {
			n = fa
		}
		var o []string
		for k := 0; k < n; k++ {
			e := root.Dir[fmt.Sprintf("l%d_%d", i, k+1)]
			if e == nil || e.Type == nil {
				o = append(o, "no-type")
				continue
			}
			if c.Mode == "len" {
				o = append(o, okOut(e.Type.Length))
			} else {
				o = append(o, okOut(e.Type.Range))
			}
		}
		if failed {
			o = append(o, "err "+failClass[[2]int{i, fa}])
		}
		outs[i] = o
	}
	return outs
}


// ---------------------------------------------------------------- union-member placements

// UCase: the last restriction of a chain placed on a *member of a union* whose earlier member is the
// unrestricted parent type (a built-in type or the typedef the chain has reached).  An invalid
// restriction must be reported there exactly as it is on a leaf or typedef of its own; an accepted
// one must give the member the same range.  Union: 1 = second member in a leaf's union, 2 = third
// member after an unrelated first member, 3 = the union sits in a typedef, 4 = a further member follows.
type UCase struct {
	Case
	Union int `json:"union,omitempty"`
	// Deviate: the last restriction sits in the replacement type of a deviation of a leaf of another
	// module: 1 = deviate replace on a leaf, 2 = deviate add on a leaf, 3 = deviate replace on a leaf-list.
	Deviate int `json:"deviate,omitempty"`
	// History: the chain before the last step lives in an imported module of which a newer revision is
	// loaded between two Process runs on the same Modules; the last restriction is a member of a union
	// inside a typedef of the importing module.  1 = revision 1 has the typedefs of the chain without their
	// restrictions, revision 2 has them; 2 = the other way round.  What is observed after the second
	// Process must be the answer for the parent of revision 2.
	History int `json:"history,omitempty"`
	// Sib: the last restriction stands next to another substatement (siblings.go: name of the sibling,
	// Pos 1 = sibling before / 2 = after, Host = where the type statement stands).
	Sib  string `json:"sib,omitempty"`
	Pos  int    `json:"pos,omitempty"`
	Host int    `json:"host,omitempty"`
}

func (u UCase) placement() string {
	switch {
	case u.Sib != "":
		return fmt.Sprintf("sibling %s pos %d host %d", u.Sib, u.Pos, u.Host)
	case u.Deviate != 0:
		return fmt.Sprintf("deviate %d", u.Deviate)
	case u.History != 0:
		return fmt.Sprintf("history %d", u.History)
	}
	return fmt.Sprintf("union %d", u.Union)
}

// expectCase: the chain whose last step the model is asked about (for history 2 the restriction stands
// directly on the base type after the second run).
func (u UCase) expectCase() Case {
	if u.History == 2 {
		return Case{Mode: u.Mode, Base: u.Base, Fd: u.Fd, Steps: u.Steps[len(u.Steps)-1:]}
	}
	return u.Case
}

func run1(u UCase) string {
	switch {
	case u.Sib != "":
		return runSibling1(u)
	case u.Deviate != 0:
		return runDeviate([]UCase{u})[0]
	case u.History != 0:
		return runHistory([]UCase{u})[0]
	}
	return runUnion([]UCase{u})[0]
}

// errorsByLine maps errors "m.yang:<line>:…: bad range|bad length|negative length: …" to their class.
func errorsByLine(errs []error) map[int]string {
	out := map[int]string{}
	for _, e := range errs {
		m := errLine.FindStringSubmatch(e.Error())
		if m == nil {
			continue
		}
		if !strings.Contains(e.Error(), ": bad range: ") && !strings.Contains(e.Error(), ": bad length: ") && !strings.Contains(e.Error(), ": negative length: ") {
			continue
		}
		ln, _ := strconv.Atoi(m[1])
		cl := classify(m[2])
		if strings.Contains(e.Error(), ": negative length: ") {
			cl = "negLength"
		}
		if _, ok := out[ln]; !ok {
			out[ln] = cl
		}
	}
	return out
}

func runUnion(cases []UCase) (outs []string) {
	outs = make([]string, len(cases))
	defer func() {
		if p := recover(); p != nil {
			for i := range outs {
				if outs[i] == "" {
					outs[i] = fmt.Sprintf("panic %v %s", p, firstLines(string(debug.Stack()), 12))
				}
			}
		}
	}()
	var sb strings.Builder
	sb.WriteString("module m { namespace \"urn:m\"; prefix m;\n")
	line := 2
	unionLine := make([]int, len(cases))
	for i, c := range cases {
		n := len(c.Steps)
		kw := "range"
		baseType := c.Base
		fdStmt := ""
		switch c.Mode {
		case "len":
			kw, baseType = "length", "string"
		case "dec":
			baseType = "decimal64"
			fdStmt = fmt.Sprintf("fraction-digits %d; ", c.Fd)
		}
		for k := 0; k < n-1; k++ {
			t := text(c.Steps[k])
			if k == 0 {
				fmt.Fprintf(&sb, "typedef c%d_%d { type %s { %s%s '%s'; } }\n", i, k+1, baseType, fdStmt, kw, t)
			} else {
				fmt.Fprintf(&sb, "typedef c%d_%d { type c%d_%d { %s '%s'; } }\n", i, k+1, i, k, kw, t)
			}
			line += 1 + strings.Count(t, "\n")
		}
		t := text(c.Steps[n-1])
		var pMember, rMember string
		switch {
		case n >= 2:
			pMember = fmt.Sprintf("type c%d_%d;", i, n-1)
			rMember = fmt.Sprintf("type c%d_%d { %s '%s'; }", i, n-1, kw, t)
		case c.Union%2 == 1:
			// the built-in type itself
			if c.Mode == "dec" {
				pMember = fmt.Sprintf("type decimal64 { %s}", fdStmt)
			} else {
				pMember = fmt.Sprintf("type %s;", baseType)
			}
			rMember = fmt.Sprintf("type %s { %s%s '%s'; }", baseType, fdStmt, kw, t)
		default:
			// an unrestricted typedef of the built-in type
			if c.Mode == "dec" {
				fmt.Fprintf(&sb, "typedef p%d { type decimal64 { %s} }\n", i, fdStmt)
			} else {
				fmt.Fprintf(&sb, "typedef p%d { type %s; }\n", i, baseType)
			}
			line++
			pMember = fmt.Sprintf("type p%d;", i)
			rMember = fmt.Sprintf("type p%d { %s '%s'; }", i, kw, t)
		}
		unionLine[i] = line
		switch c.Union {
		case 2:
			fmt.Fprintf(&sb, "leaf u%d { type union { type boolean; %s %s } }\n", i, pMember, rMember)
		case 3:
			fmt.Fprintf(&sb, "typedef tu%d { type union { %s %s } } leaf u%d { type tu%d; }\n", i, pMember, rMember, i, i)
		case 4:
			fmt.Fprintf(&sb, "leaf u%d { type union { %s %s type boolean; } }\n", i, pMember, rMember)
		default:
			fmt.Fprintf(&sb, "leaf u%d { type union { %s %s } }\n", i, pMember, rMember)
		}
		line += 1 + strings.Count(t, "\n")
	}
	sb.WriteString("}\n")
	ms := yang.NewModules()
	if err := ms.Parse(sb.String(), "m.yang"); err != nil {
		for i := range outs {
			outs[i] = "parse-error " + firstLines(err.Error(), 2)
		}
		return outs
	}
	errs := ms.Process()
	mod := ms.Modules["m"]
	if mod == nil {
		for i := range outs {
			outs[i] = "no-module"
		}
		return outs
	}
	root := yang.ToEntry(mod)
	// Process stops before building entries when a typedef has errors: the errors recorded on the
	// entries (leaf types) are collected here as well
	errs = append(errs, root.GetErrors()...)
	byLine := errorsByLine(errs)
	for i, c := range cases {
		if cl, ok := byLine[unionLine[i]]; ok {
			outs[i] = "err " + cl
			continue
		}
		e := root.Dir[fmt.Sprintf("u%d", i)]
		if e == nil || e.Type == nil {
			outs[i] = "no-type"
			continue
		}
		members := e.Type.Type
		full, idxP := 2, 0
		switch c.Union {
		case 2:
			full, idxP = 3, 1
		case 4:
			full = 3
		}
		var m *yang.YangType
		switch len(members) {
		case full:
			m = members[idxP+1]
		case full - 1:
			m = members[idxP] // the restricted member equals the parent type and was not listed again
		default:
			outs[i] = fmt.Sprintf("bad-members %d", len(members))
			continue
		}
		if c.Mode == "len" {
			outs[i] = okOut(m.Length)
		} else {
			outs[i] = okOut(m.Range)
		}
	}
	return outs
}


// typeTexts: how the steps before the last are written as typedefs (prefix pre, names c<i>_<k>), and how
// the type carrying the last restriction is written when it refers to them through prefix ref ("" = local).
func baseTypeText(c Case) (kw, baseType, fdStmt string) {
	kw, baseType = "range", c.Base
	switch c.Mode {
	case "len":
		kw, baseType = "length", "string"
	case "dec":
		baseType = "decimal64"
		fdStmt = fmt.Sprintf("fraction-digits %d; ", c.Fd)
	}
	return
}

var devErr = regexp.MustCompile(`(?s)d\.yang:(\d+):\d+: (bad range|bad length|negative length): (.*)$`)

// runDeviate: module t holds the typedef chains and one leaf per case, module d one deviation per case.
// A deviation with an error stops Process before any deviation is applied, so the cases that raised no
// error are run once more on their own to read the deviated leaf.
func runDeviate(cases []UCase) (outs []string) {
	outs = make([]string, len(cases))
	defer func() {
		if p := recover(); p != nil {
			for i := range outs {
				if outs[i] == "" {
					outs[i] = fmt.Sprintf("panic %v %s", p, firstLines(string(debug.Stack()), 12))
				}
			}
		}
	}()
	pass := func(idx []int) (map[int]string, *yang.Entry, string) {
		var tb, db strings.Builder
		tb.WriteString("module t { namespace \"urn:t\"; prefix t;\n")
		db.WriteString("module d { namespace \"urn:d\"; prefix d; import t { prefix t; }\n")
		line := 2
		lineCase := map[int]int{}
		for _, i := range idx {
			c := cases[i]
			n := len(c.Steps)
			kw, baseType, fdStmt := baseTypeText(c.Case)
			for k := 0; k < n-1; k++ {
				t := text(c.Steps[k])
				if k == 0 {
					fmt.Fprintf(&tb, "typedef c%d_%d { type %s { %s%s '%s'; } }\n", i, k+1, baseType, fdStmt, kw, t)
				} else {
					fmt.Fprintf(&tb, "typedef c%d_%d { type c%d_%d { %s '%s'; } }\n", i, k+1, i, k, kw, t)
				}
			}
			if c.Deviate == 3 {
				fmt.Fprintf(&tb, "leaf-list a%d { type boolean; }\n", i)
			} else {
				fmt.Fprintf(&tb, "leaf a%d { type boolean; }\n", i)
			}
			t := text(c.Steps[n-1])
			var typ string
			if n >= 2 {
				typ = fmt.Sprintf("type t:c%d_%d { %s '%s'; }", i, n-1, kw, t)
			} else {
				typ = fmt.Sprintf("type %s { %s%s '%s'; }", baseType, fdStmt, kw, t)
			}
			how := "replace"
			if c.Deviate == 2 {
				how = "add"
			}
			fmt.Fprintf(&db, "deviation /t:a%d { deviate %s { %s } }\n", i, how, typ)
			lineCase[line] = i
			line += 1 + strings.Count(t, "\n")
		}
		tb.WriteString("}\n")
		db.WriteString("}\n")
		ms := yang.NewModules()
		if err := ms.Parse(tb.String(), "t.yang"); err != nil {
			return nil, nil, "parse-error " + firstLines(err.Error(), 2)
		}
		if err := ms.Parse(db.String(), "d.yang"); err != nil {
			return nil, nil, "parse-error " + firstLines(err.Error(), 2)
		}
		errs := ms.Process()
		bad := map[int]string{}
		for _, e := range errs {
			m := devErr.FindStringSubmatch(e.Error())
			if m == nil {
				continue
			}
			ln, _ := strconv.Atoi(m[1])
			i, ok := lineCase[ln]
			if !ok {
				continue
			}
			cl := "negLength"
			if m[2] != "negative length" {
				cl = classify(strings.TrimSuffix(m[3], "]"))
			}
			if _, seen := bad[i]; !seen {
				bad[i] = cl
			}
		}
		other := ""
		if len(errs) > 0 && len(bad) == 0 {
			other = "unexpected-errors " + firstLines(errs[0].Error(), 2)
		}
		mod := ms.Modules["t"]
		if mod == nil {
			return bad, nil, "no-module"
		}
		return bad, yang.ToEntry(mod), other
	}
	all := make([]int, len(cases))
	for i := range cases {
		all[i] = i
	}
	bad, root, fail := pass(all)
	if fail != "" {
		for i := range outs {
			outs[i] = fail
		}
		return outs
	}
	var rest []int
	for i := range cases {
		if cl, ok := bad[i]; ok {
			outs[i] = "err " + cl
		} else {
			rest = append(rest, i)
		}
	}
	if len(bad) > 0 && len(rest) > 0 {
		bad2, root2, fail2 := pass(rest)
		root = root2
		for _, i := range rest {
			if fail2 != "" {
				outs[i] = fail2
			} else if cl, ok := bad2[i]; ok {
				outs[i] = "err-on-second-pass " + cl
			}
		}
	}
	for _, i := range rest {
		if outs[i] != "" {
			continue
		}
		e := root.Dir[fmt.Sprintf("a%d", i)]
		if e == nil || e.Type == nil {
			outs[i] = "no-type"
			continue
		}
		if e.Type.Kind == yang.Ybool {
			outs[i] = "not-deviated"
			continue
		}
		if cases[i].Mode == "len" {
			outs[i] = okOut(e.Type.Length)
		} else {
			outs[i] = okOut(e.Type.Range)
		}
	}
	return outs
}

// runHistory: see UCase.History.
func runHistory(cases []UCase) (outs []string) {
	outs = make([]string, len(cases))
	defer func() {
		if p := recover(); p != nil {
			for i := range outs {
				if outs[i] == "" {
					outs[i] = fmt.Sprintf("panic %v %s", p, firstLines(string(debug.Stack()), 12))
				}
			}
		}
	}()
	var b1, b2, ub strings.Builder
	b1.WriteString("module b { namespace \"urn:b\"; prefix b; revision 2020-01-01;\n")
	b2.WriteString("module b { namespace \"urn:b\"; prefix b; revision 2021-01-01;\n")
	ub.WriteString("module u { namespace \"urn:u\"; prefix u; import b { prefix b; }\n")
	line := 2
	caseLine := make([]int, len(cases))
	for i, c := range cases {
		n := len(c.Steps)
		kw, baseType, fdStmt := baseTypeText(c.Case)
		for k := 0; k < n-1; k++ {
			t := text(c.Steps[k])
			var with, without string
			if k == 0 {
				with = fmt.Sprintf("typedef c%d_%d { type %s { %s%s '%s'; } }\n", i, k+1, baseType, fdStmt, kw, t)
				if fdStmt != "" {
					without = fmt.Sprintf("typedef c%d_%d { type %s { %s} }\n", i, k+1, baseType, fdStmt)
				} else {
					without = fmt.Sprintf("typedef c%d_%d { type %s; }\n", i, k+1, baseType)
				}
			} else {
				with = fmt.Sprintf("typedef c%d_%d { type c%d_%d { %s '%s'; } }\n", i, k+1, i, k, kw, t)
				without = fmt.Sprintf("typedef c%d_%d { type c%d_%d; }\n", i, k+1, i, k)
			}
			if c.History == 2 {
				b1.WriteString(with)
				b2.WriteString(without)
			} else {
				b1.WriteString(without)
				b2.WriteString(with)
			}
		}
		t := text(c.Steps[n-1])
		fmt.Fprintf(&ub, "typedef set%d { type union { type b:c%d_%d { %s '%s'; } type boolean; } } leaf s%d { type set%d; }\n", i, i, n-1, kw, t, i, i)
		caseLine[i] = line
		line += 1 + strings.Count(t, "\n")
	}
	b1.WriteString("}\n")
	b2.WriteString("}\n")
	ub.WriteString("}\n")
	failAll := func(msg string) []string {
		for i := range outs {
			outs[i] = msg
		}
		return outs
	}
	ms := yang.NewModules()
	if err := ms.Parse(b1.String(), "b1.yang"); err != nil {
		return failAll("parse-error " + firstLines(err.Error(), 2))
	}
	if err := ms.Parse(ub.String(), "m.yang"); err != nil {
		return failAll("parse-error " + firstLines(err.Error(), 2))
	}
	ms.Process() // first run; its verdicts are about the parent of revision 1 and are not compared
	if err := ms.Parse(b2.String(), "b2.yang"); err != nil {
		return failAll("parse-error " + firstLines(err.Error(), 2))
	}
	errs := ms.Process()
	mod := ms.Modules["u"]
	if mod == nil {
		return failAll("no-module")
	}
	root := yang.ToEntry(mod)
	errs = append(errs, root.GetErrors()...)
	byLine := errorsByLine(errs)
	for i, c := range cases {
		if cl, ok := byLine[caseLine[i]]; ok {
			outs[i] = "err " + cl
			continue
		}
		e := root.Dir[fmt.Sprintf("s%d", i)]
		if e == nil || e.Type == nil || len(e.Type.Type) != 2 {
			outs[i] = "no-type"
			continue
		}
		if c.Mode == "len" {
			outs[i] = okOut(e.Type.Type[0].Length)
		} else {
			outs[i] = okOut(e.Type.Type[0].Range)
		}
	}
	return outs
}

func runUnions(cases []UCase, procs int, run func([]UCase) []string) []string {
	outs := make([]string, len(cases))
	const batch = 64
	var wg sync.WaitGroup
	sem := make(chan struct{}, procs)
	for lo := 0; lo < len(cases); lo += batch {
		hi := lo + batch
		if hi > len(cases) {
			hi = len(cases)
		}
		wg.Add(1)
		sem <- struct{}{}
		go func(lo, hi int) {
			defer wg.Done()
			defer func() { <-sem }()
			copy(outs[lo:hi], run(cases[lo:hi]))
		}(lo, hi)
	}
	wg.Wait()
	return outs
}

// unionSpecRequest judges the observed outcome of the restricted member; parent = the set before the last step.
func unionSpecRequest(c UCase, parent, observed string) string {
	f := strings.Fields(observed)
	outcome := ""
	switch {
	case len(f) >= 2 && f[0] == "ok":
		outcome = f[1]
	case len(f) >= 1 && f[0] == "err":
		outcome = "err"
	default:
		return ""
	}
	return fmt.Sprintf("spec.step %s %s %d %s %s", parent, c.Mode, c.Fd, c.Steps[len(c.Steps)-1], outcome)
}

// parentOfLast: the set the last step of a chain restricts, from the Go outcomes of the steps before it
// ("" when an earlier step did not succeed).
func parentOfLast(c Case, goOut []string) string {
	n := len(c.Steps)
	if len(goOut) != n {
		return ""
	}
	for k := 0; k < n-1; k++ {
		if !strings.HasPrefix(goOut[k], "ok ") {
			return ""
		}
	}
	if !strings.HasPrefix(goOut[n-1], "ok ") && !strings.HasPrefix(goOut[n-1], "err ") {
		return ""
	}
	if n == 1 {
		return baseRaw(c)
	}
	return strings.Fields(goOut[n-2])[1]
}

func lastStep(chainAnswer string) string {
	parts := strings.Split(chainAnswer, " ; ")
	return parts[len(parts)-1]
}

// the witnesses of the seeded change C10-b2 (errors of a union member dropped when the member is
// taken for a duplicate of the unrestricted parent) and a few accepted counterparts
func genUnionCorpus() []Case {
	var cs []Case
	addCase(&cs, "int", "uint8", 0, "0..300")
	addCase(&cs, "int", "int32", 0, "10..1")
	addCase(&cs, "int", "int64", 0, "1..2..3")
	addCase(&cs, "len", "nil", 0, "5..2")
	addCase(&cs, "int", "uint8", 0, "0..100", "0..200")
	addCase(&cs, "dec", "dec", 3, "0..1", "0..1.001")
	addCase(&cs, "int", "uint8", 0, "0..100", "0..50")
	addCase(&cs, "int", "uint8", 0, "min..max")
	addCase(&cs, "int", "uint8", 0, "-0..255")
	addCase(&cs, "len", "nil", 0, "1..10", "2..5|7")
	addCase(&cs, "len", "nil", 0, "-0")
	addCase(&cs, "dec", "dec", 3, "0..1", "0.001..0.999")
	addCase(&cs, "dec", "dec", 2, "1.005")
	addCase(&cs, "int", "int8", 0, "")
	addCase(&cs, "int", "int8", 0, "1|")
	// witnesses of C10-f2 (errors of the type of a deviate dropped) and C10-f1 (a union typedef kept across runs)
	addCase(&cs, "int", "uint8", 0, "1..10", "min..11")
	addCase(&cs, "int", "uint8", 0, "1..10", "min..3 | 9..max")
	addCase(&cs, "int", "int16", 0, "1..3 | 9..5")
	addCase(&cs, "int", "int16", 0, "1...3")
	addCase(&cs, "dec", "dec", 2, "-1.50..1.50", "-1.51..0")
	addCase(&cs, "len", "nil", 0, "1..8", "1..9")
	addCase(&cs, "len", "nil", 0, "1..8", "2..max")
	addCase(&cs, "int", "uint8", 0, "3..10", "min..5")
	addCase(&cs, "int", "uint8", 0, "7..10", "min..5")
	addCase(&cs, "int", "uint8", 0, "0..10", "min..5")
	addCase(&cs, "int", "int32", 0, "-5..5", "-2..2", "min..0|max")
	// witnesses of C10-k22 (errors of range / length dropped when the type statement also carries a
	// posix-pattern extension): in a gap of the parent, wider than the parent
	addCase(&cs, "int", "uint8", 0, "1..4 | 10..20", "5..9")
	addCase(&cs, "len", "nil", 0, "1..8", "1..64")
	addCase(&cs, "len", "nil", 0, "1..2..3")
	addCase(&cs, "dec", "dec", 1, "1..0")
	addCase(&cs, "dec", "dec", 18, "-9.3..0")
	return cs
}

func firstLines(s string, n int) string {
	l := strings.Split(s, "\n")
	if len(l) > n {
		l = l[:n]
	}
	return strings.Join(l, " / ")
}

// runGo evaluates all cases (direct ones singly, the others in YANG batches), in parallel.
func runGo(cases []Case, procs int) [][]string {
	outs := make([][]string, len(cases))
	var yangIdx []int
	for i, c := range cases {
		if c.Base == "none" {
			outs[i] = runAPI(c)
		} else {
			yangIdx = append(yangIdx, i)
		}
	}
	const batch = 64
	var wg sync.WaitGroup
	sem := make(chan struct{}, procs)
	for lo := 0; lo < len(yangIdx); lo += batch {
		hi := lo + batch
		if hi > len(yangIdx) {
			hi = len(yangIdx)
		}
		wg.Add(1)
		sem <- struct{}{}
		go func(idx []int) {
			defer wg.Done()
			defer func() { <-sem }()
			b := make([]Case, len(idx))
			for j, i := range idx {
				b[j] = cases[i]
			}
			res := runBatchYANG(b)
			for j, i := range idx {
				outs[i] = res[j]
			}
		}(yangIdx[lo:hi])
	}
	wg.Wait()
	return outs
}

// batchOf returns the chains that were resolved in one module together with cases[i] (runGo puts 64
// consecutive chains with a parent into one module) and the position of cases[i] among them.  A
// disagreement may depend on what else the Modules value has resolved, so the replay record keeps them.
func batchOf(cases []Case, i int) ([]Case, int) {
	if cases[i].Base == "none" {
		return nil, 0
	}
	pos := 0
	for j := 0; j < i; j++ {
		if cases[j].Base != "none" {
			pos++
		}
	}
	lo := pos / 64 * 64
	var b []Case
	seen := 0
	for j := range cases {
		if cases[j].Base == "none" {
			continue
		}
		if seen >= lo && seen < lo+64 {
			b = append(b, cases[j])
		}
		seen++
		if seen >= lo+64 {
			break
		}
	}
	return b, pos - lo
}

// replayIdx marks a disagreement of cases[i] whose replay record is built only if it is kept.
type replayIdx int

// chainReplay is the replay record of a plain chain.
type chainReplay struct {
	Case
	Batch []Case `json:"batch,omitempty"`
	Index int    `json:"index,omitempty"`
}

func mkReplay(cases []Case, i int) chainReplay {
	b, k := batchOf(cases, i)
	return chainReplay{Case: cases[i], Batch: b, Index: k}
}

// baseRaw is the parent of the first step as a raw range list, taken from the real code.
var decBaseRaw = map[int]string{}

func baseRaw(c Case) string {
	switch c.Mode {
	case "len":
		return rawRange(yang.Uint64Range)
	case "dec":
		if c.Base == "none" {
			return "none"
		}
		return decBaseRaw[c.Fd]
	}
	if c.Base == "none" {
		return "none"
	}
	return rawRange(builtinRanges[c.Base])
}

// specRequests builds the spec.step request of every step of a case from the Go outcome.
func specRequests(c Case, goOut []string) []string {
	var reqs []string
	parent := baseRaw(c)
	for k, o := range goOut {
		if k >= len(c.Steps) {
			break
		}
		f := strings.Fields(o)
		var outcome string
		switch {
		case len(f) >= 2 && f[0] == "ok":
			outcome = f[1]
		case len(f) >= 1 && f[0] == "err":
			outcome = "err"
		default:
			return reqs // panic / infrastructure outcome: reported separately
		}
		reqs = append(reqs, fmt.Sprintf("spec.step %s %s %d %s %s", parent, c.Mode, c.Fd, c.Steps[k], outcome))
		if outcome == "err" {
			break
		}
		parent = outcome
	}
	return reqs
}

// ---------------------------------------------------------------- generators

func hx(s string) string { return lib.HexS(s) }

func addCase(dst *[]Case, mode, base string, fd int, steps ...string) {
	hs := make([]string, len(steps))
	for i, s := range steps {
		hs[i] = hx(s)
	}
	*dst = append(*dst, Case{Mode: mode, Base: base, Fd: fd, Steps: hs})
}

// partsOver returns all texts `a` and `a..b` over the bounds.
func partsOver(bounds []string) []string {
	var out []string
	out = append(out, bounds...)
	for _, a := range bounds {
		for _, b := range bounds {
			out = append(out, a+".."+b)
		}
	}
	return out
}

// rangesOver returns all restriction texts with exactly n parts.
func rangesOver(parts []string, n int) []string {
	if n == 1 {
		return parts
	}
	var out []string
	for _, r := range rangesOver(parts, n-1) {
		for _, p := range parts {
			out = append(out, r+"|"+p)
		}
	}
	return out
}

func uniq(s []string) []string {
	seen := map[string]bool{}
	var out []string
	for _, x := range s {
		if !seen[x] {
			seen[x] = true
			out = append(out, x)
		}
	}
	return out
}

type lim struct{ lo, hi string }

var limits = map[string]lim{
	"int8": {"-128", "127"}, "int16": {"-32768", "32767"}, "int32": {"-2147483648", "2147483647"},
	"int64":  {"-9223372036854775808", "9223372036854775807"},
	"uint8": {"0", "255"}, "uint16": {"0", "65535"}, "uint32": {"0", "4294967295"}, "uint64": {"0", "18446744073709551615"},
}

// dec adds d to the decimal integer literal s (big enough for 2^64+1).
func addLit(s string, d int64) string {
	neg := strings.HasPrefix(s, "-")
	var v, m uint64
	v, _ = strconv.ParseUint(strings.TrimPrefix(s, "-"), 10, 64)
	// work in 128-bit-ish: values are at most 2^64-1 and |d| small
	if (d >= 0) != neg {
		// magnitude grows
		m = uint64(abs64(d))
		if v > ^uint64(0)-m {
			// overflow past 2^64-1: spell it out
			sum := new128(v, m)
			if neg {
				return "-" + sum
			}
			return sum
		}
		v += m
	} else {
		m = uint64(abs64(d))
		if v >= m {
			v -= m
		} else {
			v = m - v
			neg = !neg
		}
	}
	if neg && v != 0 {
		return "-" + strconv.FormatUint(v, 10)
	}
	return strconv.FormatUint(v, 10)
}

func abs64(d int64) int64 {
	if d < 0 {
		return -d
	}
	return d
}

// new128 prints v+m where the sum exceeds 2^64-1 (m small).
func new128(v, m uint64) string {
	// v + m = 2^64 + (v + m - 2^64)
	rest := v + m // wrapped
	// 2^64 = 18446744073709551616
	const p = "18446744073709551616"
	if rest == 0 {
		return p
	}
	// add rest (< 2^32 in our use) to the decimal string p
	digits := []byte(p)
	carry := rest
	for i := len(digits) - 1; i >= 0 && carry > 0; i-- {
		carry += uint64(digits[i] - '0')
		digits[i] = byte('0' + carry%10)
		carry /= 10
	}
	if carry > 0 {
		return strconv.FormatUint(carry, 10) + string(digits)
	}
	return string(digits)
}

// allLimitBounds: 0, ±1, -0, every integer type's limits and limits±1, 2^63-1, 2^63, 2^64-1 (and beyond).
func allLimitBounds() []string {
	b := []string{"0", "-0", "1", "-1", "2", "min", "max"}
	for _, t := range intTypes {
		l := limits[t]
		for _, d := range []int64{-1, 0, 1} {
			b = append(b, addLit(l.lo, d), addLit(l.hi, d))
		}
	}
	b = append(b, "9223372036854775806", "18446744073709551614", "-18446744073709551615", "-18446744073709551616")
	return uniq(b)
}

func genIntAPI(thorough bool) []Case {
	var cs []Case
	// corpus: witnesses of D21 and the literals of the Go test-suite shapes
	for _, s := range []string{
		"0..18446744073709551615|18446744073709551615", "0..18446744073709551615|5", "0..max|5",
		"18446744073709551614..18446744073709551615|0", "18446744073709551615|18446744073709551614",
		"1..10", "1..10|12..20", "1..10|11..20", "1..20|5..10", "1..10|5..20", "10|1", "-1..1|-0", "0|-0", "-0|0",
		"-0..5|0..5", "0..5|-0..5", "1|1|1", "min..max", "1..0", "5..-5",
		"-9223372036854775808..9223372036854775807", "-18446744073709551615..18446744073709551615",
	} {
		addCase(&cs, "int", "none", 0, s)
	}
	all := allLimitBounds()
	for _, s := range partsOver(all) {
		addCase(&cs, "int", "none", 0, s)
	}
	mid := []string{"0", "-0", "1", "-1", "127", "128", "-128", "-129", "9223372036854775807", "9223372036854775808",
		"18446744073709551615", "18446744073709551614", "-9223372036854775808", "max"}
	if thorough {
		mid = append(mid, "2", "-2", "255", "256", "-9223372036854775809", "-18446744073709551615", "18446744073709551616", "min")
	}
	for _, s := range rangesOver(partsOver(mid), 2) {
		addCase(&cs, "int", "none", 0, s)
	}
	tiny := []string{"0", "1", "2", "18446744073709551614", "18446744073709551615", "-1"}
	if thorough {
		tiny = append(tiny, "-0", "3", "18446744073709551613")
	}
	for _, s := range rangesOver(partsOver(tiny), 3) {
		addCase(&cs, "int", "none", 0, s)
	}
	return cs
}

// literal syntax: white space, `..` counts, empty parts, base-0 literals, keywords.
var syntaxTokens = []string{
	"", " ", "1", " 1 ", "\t1\n", "\v1\f", "\r1", "\u00a01\u00a0", "\u20001\u3000", "\u00851", "1\u2028", "\ufeff1", "\u200b1", "1\u1680", "\u205f1\u202f", "\xa01", "\xc2", "1\xe2\x80", "1 0",
	"+5", "-5", "+-5", "--5", "- 5", "+", "-", " + ", "++1",
	"0x10", "0X1f", "0o17", "0O17", "0b101", "0B11", "017", "08", "0_1", "1_000", "0x_10", "_1", "1_", "1__0", "0x", "0b2", "0o8", "0xg", "00", "-00", "-0x10", "+0b1",
	"0xFFFFFFFFFFFFFFFF", "0x10000000000000000", "0777777777777777777777", "01777777777777777777777", "02000000000000000000000",
	"1e3", "1.0", ".", "1.", ".1", "0.5",
	"min", "max", "MIN", "Max", "mins", " min ", "\tmax\t", "m in", "minmax",
	"99999999999999999999", "18446744073709551616", "-18446744073709551616", "000000000000000000000000000001",
}

var dotsJoiners = []string{"..", " .. ", "...", "....", ".....", "......", ". .", "..\n..", "\t..\t"}

func genSyntax(thorough bool) []Case {
	var cs []Case
	toks := syntaxTokens
	var parts []string
	parts = append(parts, toks...)
	for _, a := range toks {
		for _, b := range toks {
			parts = append(parts, a+".."+b)
		}
	}
	small := []string{"1", "5", " 7 ", "", "0x10", "max", "-0", "1_0"}
	for _, j := range dotsJoiners {
		for _, a := range small {
			for _, b := range small {
				parts = append(parts, a+j+b)
				parts = append(parts, a+j+b+j+"9")
			}
		}
	}
	parts = uniq(parts)
	for _, p := range parts {
		addCase(&cs, "int", "none", 0, p)
		addCase(&cs, "dec", "none", 2, p)
		if !utf8.ValidString(p) {
			continue // the YANG lexer replaces ill-formed bytes; only the direct parsers see them
		}
		addCase(&cs, "int", "uint8", 0, p)
		addCase(&cs, "len", "nil", 0, p)
		addCase(&cs, "dec", "dec", 2, p)
		if thorough {
			addCase(&cs, "int", "int64", 0, p)
			addCase(&cs, "dec", "dec", 18, p)
		}
	}
	// points: bounds with several points, a point next to a sign, a lone point, points in integer and length
	// bounds -- small values, so that a reader that merely drops or skips points finds a number of admissible
	// precision and in order (lower bounds below, upper bounds above what the points could be read as); at
	// fraction-digits large enough for every misreading (4, 9, 18) and too small for some (1, 2)
	pointBounds := []string{"1.2.3", "0.1.5", "0.0.1", "1.5.0", "2.0.5", "-2.0.5", "+1.0.0", "1..2.3", "1.2.", ".1.2", ".1.", "..1", "1..", "0.0.0", "0.0.0.0", "1.2.3.4",
		"1.2.3.4.5.6.7.8.9", ".", "-.", "+.", ".-1", "-.5", "+.5", ".5", "5.", "-5.", "1.-5", "1.+5", "-.-5", "1.5-", "0.-0", ". 5", "5 .5", "1. 5", "1.\t5", ".5.", "..", "...", "....",
		"0x1.8", "1.5e1", "1e1", "1_0.5", "1.0_0", "07.5", "00.50", "٣.٥", "1,5", "1·5", "1。5", "1．5"}
	var pointParts []string
	for _, b := range pointBounds {
		pointParts = append(pointParts, b, "0.."+b, "-9.."+b, "min.."+b, b+"..9", b+"..max", b+".."+b, "0|"+b+"..9", "-9.."+b+"|9", b+" .. 9", "-9 .. "+b)
	}
	pointParts = append(pointParts, "1.2.3..5", "0..1.5.0", "-2.0.5", "-2.0.5..0", "1.2.3..4.5.6", "0.1..0.2.5", "1.0..1.0.5", "0.5..1.0.0|2..3", "1|2.0.0..3", "1 .. 2.5.0")
	pointParts = uniq(pointParts)
	for _, p := range pointParts {
		addCase(&cs, "int", "none", 0, p)
		addCase(&cs, "int", "int8", 0, p)
		addCase(&cs, "int", "uint64", 0, p)
		addCase(&cs, "len", "nil", 0, p)
		for _, fd := range []int{1, 2, 4, 9, 18} {
			addCase(&cs, "dec", "none", fd, p)
			addCase(&cs, "dec", "dec", fd, p)
		}
		// under restricted parents (the point bound is the second step)
		addCase(&cs, "dec", "dec", 4, "-9..9", p)
		addCase(&cs, "dec", "dec", 18, "-9.000000000000000000..9", p)
		addCase(&cs, "int", "int16", 0, "-9..9", p)
		addCase(&cs, "len", "nil", 0, "0..9", p)
	}
	// bar structure
	bars := []string{"|", "||", "1|", "|1", "1||2", "1|2|", " | ", "1 | 2", "1|2|3|4|5|6|7|8|9|10|11|12|13|14", "14|13|12|11|10|9|8|7|6|5|4|3|2|1|0",
		"1..2|", "|1..2", "1..2||3", "1|\n2", "1\n|\n2", "3|1|2", "min|max", "max|min", "1..3|2", "2|1..3", "1..2|2..3", "1..2|3..4", "1..2|4..5",
		"0|2|4|6|8|10|12|14|16|18|20|22|24|26|28|30", "30|28|26|24|22|20|18|16|14|12|10|8|6|4|2|0|1|3|5|7|9|11|13|15|17|19|21|23|25|27|29"}
	for _, p := range bars {
		addCase(&cs, "int", "none", 0, p)
		addCase(&cs, "int", "uint8", 0, p)
		addCase(&cs, "int", "int16", 0, p)
		addCase(&cs, "len", "nil", 0, p)
		addCase(&cs, "dec", "dec", 1, p)
	}
	return cs
}

// genIntParents: boundary grid relative to every integer type and to restricted parents of it.
func genIntParents(thorough bool) []Case {
	var cs []Case
	for _, t := range intTypes {
		l := limits[t]
		signed := strings.HasPrefix(t, "int")
		lo1, lo2, hi1, hi2 := addLit(l.lo, 1), addLit(l.lo, 2), addLit(l.hi, -1), addLit(l.hi, -2)
		parents := []string{"", "min..max", lo1 + ".." + hi1, l.lo + "|" + l.hi, l.lo + ".." + lo1 + "|" + hi1 + ".." + l.hi, "10..20|30..40|50"}
		if signed {
			parents = append(parents, "min..-1|1..max", "-10..-5|-0|5..10")
		} else {
			parents = append(parents, "1..max", "0|2..10")
		}
		if thorough {
			parents = append(parents, "min..10|12..max", lo2+".."+hi2, "0", "1|3|5|7")
		}
		bounds := []string{"min", "max", "0", "1", "-1", addLit(l.lo, -1), l.lo, lo1, hi1, l.hi, addLit(l.hi, 1)}
		small := []string{"min", "max", "0", l.lo, lo1, hi1, l.hi, addLit(l.hi, 1)}
		for _, p := range parents {
			extra := []string{}
			switch p {
			case "10..20|30..40|50":
				extra = []string{"9", "10", "20", "21", "29", "30", "40", "41", "49", "50", "51"}
			case "min..-1|1..max", "1..max":
				extra = []string{"2", "-2"}
			case "-10..-5|-0|5..10":
				extra = []string{"-11", "-10", "-5", "-4", "-0", "4", "5", "10", "11"}
			case "0|2..10":
				extra = []string{"2", "3", "10", "11"}
			case "min..10|12..max":
				extra = []string{"10", "11", "12"}
			case "1|3|5|7":
				extra = []string{"2", "3", "4", "5", "7", "8"}
			}
			b1 := uniq(append(append([]string{}, bounds...), extra...))
			b2 := uniq(append(append([]string{}, small...), extra...))
			if !thorough && len(b2) > 10 {
				b2 = b2[:10]
			}
			var steps [][]string
			for _, s := range partsOver(b1) {
				steps = append(steps, []string{s})
			}
			for _, s := range rangesOver(partsOver(b2), 2) {
				steps = append(steps, []string{s})
			}
			if thorough {
				b3 := uniq(append([]string{"min", "max", l.lo, l.hi, lo1, hi1}, extra...))
				if len(b3) > 7 {
					b3 = b3[:7]
				}
				for _, s := range rangesOver(partsOver(b3), 3) {
					steps = append(steps, []string{s})
				}
			}
			for _, st := range steps {
				if p == "" {
					addCase(&cs, "int", t, 0, st...)
				} else {
					addCase(&cs, "int", t, 0, append([]string{p}, st...)...)
				}
			}
		}
	}
	return cs
}

// genLengths: the same for string lengths (parent = 0..2^64-1 or an earlier length).
func genLengths(thorough bool) []Case {
	var cs []Case
	parents := []string{"", "min..max", "1..max", "0..10|20..max", "0|18446744073709551615", "5"}
	bounds := []string{"min", "max", "0", "-0", "1", "-1", "5", "10", "11", "19", "20", "18446744073709551614", "18446744073709551615", "18446744073709551616"}
	small := []string{"min", "max", "0", "1", "10", "11", "20", "18446744073709551615", "-0"}
	for _, p := range parents {
		var texts []string
		texts = append(texts, partsOver(bounds)...)
		texts = append(texts, rangesOver(partsOver(small), 2)...)
		for _, s := range texts {
			if p == "" {
				addCase(&cs, "len", "nil", 0, s)
			} else {
				addCase(&cs, "len", "nil", 0, p, s)
			}
		}
	}
	return cs
}

// decimal literals at fd fraction digits
func decLit(mant string, fd int) string {
	neg := strings.HasPrefix(mant, "-")
	m := strings.TrimPrefix(mant, "-")
	for len(m) <= fd {
		m = "0" + m
	}
	s := m[:len(m)-fd] + "." + m[len(m)-fd:]
	if neg {
		s = "-" + s
	}
	return s
}

func genDecimal(thorough bool) []Case {
	var cs []Case
	fds := []int{1, 2, 17, 18}
	if thorough {
		fds = nil
		for f := 1; f <= 18; f++ {
			fds = append(fds, f)
		}
	}
	for _, fd := range fds {
		maxM, minM := "9223372036854775807", "-9223372036854775808"
		bounds := []string{"min", "max", "0", "-0", "0." + strings.Repeat("0", fd), decLit("1", fd), decLit("-1", fd), decLit("2", fd),
			decLit(maxM, fd), decLit(minM, fd), decLit("9223372036854775806", fd), decLit("-9223372036854775807", fd),
			decLit("9223372036854775808", fd), decLit("-9223372036854775809", fd), decLit("18446744073709551615", fd),
			decLit("1", fd+1), "1", "-1", "1.5", "3.14", "+0.5", ".5", "5."}
		if fd <= 16 {
			bounds = append(bounds, "10", "92", "93", "-93")
		} else {
			bounds = append(bounds, "9", "10", "-9", "-10", "92", "93")
		}
		small := []string{"min", "max", "0", decLit("1", fd), decLit("-1", fd), decLit(maxM, fd), decLit(minM, fd), decLit("9223372036854775806", fd), "1", decLit("2", fd)}
		parents := []string{"", "min..max", decLit("-9223372036854775807", fd) + ".." + decLit("9223372036854775806", fd),
			"min.." + decLit("-1", fd) + "|" + decLit("1", fd) + "..max", "0.." + decLit("1", fd) + "|" + decLit("3", fd), decLit(minM, fd) + "|" + decLit(maxM, fd)}
		var texts []string
		texts = append(texts, partsOver(uniq(bounds))...)
		texts = append(texts, rangesOver(partsOver(uniq(small)), 2)...)
		for _, s := range texts {
			addCase(&cs, "dec", "none", fd, s)
		}
		for _, p := range parents {
			tx := texts
			if !thorough && p != "" && p != "min..max" {
				tx = append(partsOver(uniq(bounds)), rangesOver(partsOver(uniq(small[:7])), 2)...)
			}
			for _, s := range tx {
				if p == "" {
					addCase(&cs, "dec", "dec", fd, s)
				} else {
					addCase(&cs, "dec", "dec", fd, p, s)
				}
			}
		}
	}
	// fraction-digits outside 1..18 through the exported parser
	for _, fd := range []int{0, 19, 20, 63, 64, 100, 255} {
		for _, s := range []string{"1", "1.0", "min..max", "1..2", "", "0.5|1"} {
			addCase(&cs, "dec", "none", fd, s)
		}
	}
	return cs
}

// genSameBounds: groups of chains that share the child text and the *outer bounds* of the parent but
// differ in the parent's interior (a full interval, the same with gaps, only the two end points);
// the members of a group are adjacent, so they are resolved inside one module.  What is accepted
// under one parent must still be judged afresh under the next (witness of seeded change C10-b1).
func genSameBounds() []Case {
	var cs []Case
	group := func(mode, base string, fd int, lit func(off int64, fromHi bool) string) {
		lo, hi := lit(0, false), lit(0, true)
		parents := []string{
			lo + ".." + hi,
			lo + ".." + lit(10, false) + "|" + lit(10, true) + ".." + hi,
			lo + "|" + hi,
			lo + ".." + lit(24, false) + "|" + lit(26, false) + ".." + hi,
			"min..max",
		}
		children := []string{
			lit(20, false) + ".." + lit(30, false), lit(25, false), lit(5, false), "min..max", lo + ".." + hi,
			lit(20, true) + ".." + lit(5, true), "min.." + lit(12, false), lit(11, false), lit(1, false) + ".." + lit(1, true),
			lo + "|" + hi, "min|max", lit(3, false) + "|" + lit(40, false) + ".." + lit(50, false),
		}
		for _, ch := range children {
			for _, p := range parents {
				addCase(&cs, mode, base, fd, p, ch)
			}
		}
	}
	for _, t := range intTypes {
		l := limits[t]
		group("int", t, 0, func(off int64, fromHi bool) string {
			if fromHi {
				return addLit(l.hi, -off)
			}
			return addLit(l.lo, off)
		})
	}
	group("len", "nil", 0, func(off int64, fromHi bool) string {
		if fromHi {
			return addLit("18446744073709551615", -off)
		}
		return addLit("0", off)
	})
	for _, fd := range []int{1, 3, 18} {
		fd := fd
		group("dec", "dec", fd, func(off int64, fromHi bool) string {
			if fromHi {
				return decLit(addLit("9223372036854775807", -off), fd)
			}
			return decLit(addLit("-9223372036854775808", off), fd)
		})
	}
	return cs
}

// random chains around the endpoints of the previous step
func genRandom(rng *rand.Rand, n int) []Case {
	var cs []Case
	for i := 0; i < n; i++ {
		mode := []string{"int", "int", "int", "dec", "len"}[rng.Intn(5)]
		var base string
		fd := 0
		var lo, hi string
		switch mode {
		case "int":
			base = intTypes[rng.Intn(8)]
			lo, hi = limits[base].lo, limits[base].hi
		case "dec":
			base = "dec"
			fd = 1 + rng.Intn(18)
			lo, hi = "-9223372036854775808", "9223372036854775807"
		default:
			base = "nil"
			lo, hi = "0", "18446744073709551615"
		}
		// interesting mantissas: near the limits, near zero, and values drawn earlier in the chain
		pool := []string{lo, hi, addLit(lo, 1), addLit(hi, -1), addLit(lo, -1), addLit(hi, 1), "0", "1", "-1", "2", "10", "100", "-10"}
		depth := 1 + rng.Intn(4)
		var steps []string
		for d := 0; d < depth; d++ {
			np := 1 + rng.Intn(4)
			var parts []string
			for p := 0; p < np; p++ {
				pick := func() string {
					if rng.Intn(6) == 0 {
						return []string{"min", "max"}[rng.Intn(2)]
					}
					m := pool[rng.Intn(len(pool))]
					m = addLit(m, int64(rng.Intn(7)-3))
					pool = append(pool, m)
					if mode == "dec" {
						if rng.Intn(5) == 0 {
							return m // integer literal in a decimal range
						}
						return decLit(m, fd)
					}
					return m
				}
				a := pick()
				if rng.Intn(3) == 0 {
					parts = append(parts, a)
				} else {
					b := pick()
					// mostly ordered
					parts = append(parts, a+".."+b)
				}
			}
			sep := "|"
			if rng.Intn(4) == 0 {
				sep = " | "
			}
			steps = append(steps, strings.Join(parts, sep))
		}
		addCase(&cs, mode, base, fd, steps...)
	}
	return cs
}

// narrowing random chains: every step is built from the set of the step before (sub-intervals of
// its parts, sometimes split, parts dropped, written in random order, with min/max for the outer
// bounds now and then), so that deep chains are accepted; with a small probability one bound is
// pushed one value outside, which must be rejected unless it lands on an adjacent part.
func genRandomOrdered(rng *rand.Rand, n int) []Case {
	type iv struct{ a, b int64 }
	var cs []Case
	for i := 0; i < n; i++ {
		mode := []string{"int", "int", "dec", "len"}[rng.Intn(4)]
		base, fd := "", 0
		var lo, hi string
		switch mode {
		case "int":
			base = intTypes[rng.Intn(8)]
			lo, hi = limits[base].lo, limits[base].hi
		case "dec":
			base, fd = "dec", 1+rng.Intn(18)
			lo, hi = "-9223372036854775808", "9223372036854775807"
		default:
			base = "nil"
			lo, hi = "0", "18446744073709551615"
		}
		// offsets are relative to an anchor: the lower limit (going up), the upper limit (going down) or zero
		anchor, dir := lo, int64(1)
		switch rng.Intn(3) {
		case 1:
			anchor, dir = hi, -1
		case 2:
			if lo != "0" {
				anchor = "-30"
			}
		}
		lit := func(off int64) string {
			m := addLit(anchor, dir*off)
			if mode == "dec" {
				return decLit(m, fd)
			}
			return m
		}
		cur := []iv{{0, 60}}
		depth := 1 + rng.Intn(5)
		var steps []string
		for d := 0; d < depth; d++ {
			var next []iv
			for _, p := range cur {
				if len(cur) > 1 && rng.Intn(5) == 0 {
					continue // drop the part
				}
				a := p.a + int64(rng.Intn(int(p.b-p.a)/3+1))
				b := p.b - int64(rng.Intn(int(p.b-p.a)/3+1))
				if a > b {
					a, b = b, a
				}
				if b-a >= 4 && rng.Intn(3) == 0 {
					m := a + 1 + int64(rng.Intn(int(b-a-2)))
					next = append(next, iv{a, m - 1}, iv{m + 1, b})
				} else {
					next = append(next, iv{a, b})
				}
			}
			if len(next) == 0 {
				next = []iv{cur[0]}
			}
			written := append([]iv{}, next...)
			if rng.Intn(12) == 0 {
				k := rng.Intn(len(written))
				if rng.Intn(2) == 0 {
					written[k].a--
				} else {
					written[k].b++
				}
			}
			// set bounds in the direction of the literals
			minOff, maxOff := next[0].a, next[len(next)-1].b
			var parts []string
			for _, p := range written {
				a, b := p.a, p.b
				if dir < 0 {
					a, b = b, a
				}
				as, bs := lit(a), lit(b)
				// min / max are the bounds of the *parent*; use them where the bound coincides with it
				pmin, pmax := cur[0].a, cur[len(cur)-1].b
				if dir < 0 {
					pmin, pmax = pmax, pmin
				}
				if a == pmin && rng.Intn(3) == 0 {
					as = "min"
				}
				if b == pmax && rng.Intn(3) == 0 {
					bs = "max"
				}
				if as == bs {
					parts = append(parts, as)
				} else {
					parts = append(parts, as+".."+bs)
				}
			}
			_, _ = minOff, maxOff
			rng.Shuffle(len(parts), func(x, y int) { parts[x], parts[y] = parts[y], parts[x] })
			sep := "|"
			if rng.Intn(5) == 0 {
				sep = " |\t"
			}
			steps = append(steps, strings.Join(parts, sep))
			cur = next
		}
		addCase(&cs, mode, base, fd, steps...)
	}
	return cs
}

// malformed stream: random texts over the alphabet of the grammar
func genMalformed(rng *rand.Rand, n int) []Case {
	alpha := []string{"0", "1", "2", "9", ".", ".", "|", "-", "+", " ", "\t", "m", "i", "n", "a", "x", "_", "min", "max", "..", "0x", "18446744073709551615", "\n", " "}
	var cs []Case
	for i := 0; i < n; i++ {
		l := 1 + rng.Intn(10)
		var sb strings.Builder
		for j := 0; j < l; j++ {
			sb.WriteString(alpha[rng.Intn(len(alpha))])
		}
		s := sb.String()
		switch rng.Intn(4) {
		case 0:
			addCase(&cs, "int", "none", 0, s)
		case 1:
			addCase(&cs, "int", intTypes[rng.Intn(8)], 0, s)
		case 2:
			addCase(&cs, "dec", "dec", 1+rng.Intn(18), s)
		default:
			addCase(&cs, "len", "nil", 0, s)
		}
	}
	return cs
}

// ---------------------------------------------------------------- family B: methods on values

type MCase struct {
	Op string `json:"op"` // contains | equal | validate | sort | str
	A  string `json:"a"`
	B  string `json:"b,omitempty"`
}

func (m MCase) request() string {
	if m.B != "" || m.Op == "contains" || m.Op == "equal" {
		return m.Op + " " + m.A + " " + m.B
	}
	return m.Op + " " + m.A
}

func runMethod(m MCase) (out string) {
	defer func() {
		if p := recover(); p != nil {
			out = fmt.Sprintf("panic %v", p)
		}
	}()
	a, err := parseRawRange(m.A)
	if err != nil {
		return "bad-case"
	}
	b01 := func(b bool) string {
		if b {
			return "1"
		}
		return "0"
	}
	switch m.Op {
	case "contains", "equal":
		b, err := parseRawRange(m.B)
		if err != nil {
			return "bad-case"
		}
		if m.Op == "contains" {
			return b01(a.Contains(b))
		}
		return b01(a.Equal(b))
	case "validate":
		if err := a.Validate(); err != nil {
			return "err " + classify(err.Error())
		}
		return "ok"
	case "sort":
		a.Sort()
		return rawRange(a)
	case "str":
		return lib.HexS(a.String())
	}
	return "bad-case"
}

func numRaw(v uint64, fd int, neg bool) string {
	n := 0
	if neg {
		n = 1
	}
	return fmt.Sprintf("%d/%d/%d", v, fd, n)
}

// listsOver: all lists of at most maxParts parts with bounds from nums (every pair, also min > max).
func listsOver(nums []string, maxParts int) []string {
	var parts []string
	for _, a := range nums {
		for _, b := range nums {
			parts = append(parts, a+"~"+b)
		}
	}
	out := []string{"-"}
	frontier := []string{""}
	for k := 1; k <= maxParts; k++ {
		var next []string
		for _, f := range frontier {
			for _, p := range parts {
				if f == "" {
					next = append(next, p)
				} else {
					next = append(next, f+","+p)
				}
			}
		}
		out = append(out, next...)
		frontier = next
	}
	return out
}

func genMethods(thorough bool, rng *rand.Rand) []MCase {
	var ms []MCase
	// corpus: the witnesses of the two observation theorems of Props/C10.lean (Contains on a list that is
	// not coalesced; Validate looking at the first part only)
	ms = append(ms, MCase{Op: "contains", A: "1/0/0~2/0/0,3/0/0~4/0/0", B: "2/0/0~3/0/0"},
		MCase{Op: "validate", A: "0/0/0~0/0/0,2/0/0~3/0/0,3/0/0~3/0/0"})
	// small universe 0..4 (adjacency, overlap, containment in every arrangement), lists of <= 2 parts
	var u5 []string
	for v := uint64(0); v <= 4; v++ {
		u5 = append(u5, numRaw(v, 0, false))
	}
	l2 := listsOver(u5, 2)
	for _, a := range l2 {
		for _, b := range l2 {
			ms = append(ms, MCase{Op: "contains", A: a, B: b})
		}
	}
	// equality, validation, sorting and printing on a universe with signs and a negative zero
	sg := []string{numRaw(2, 0, true), numRaw(1, 0, true), numRaw(0, 0, true), numRaw(0, 0, false), numRaw(1, 0, false), numRaw(2, 0, false)}
	sl2 := listsOver(sg, 2)
	step := 1
	if !thorough {
		step = 13
	}
	for i, a := range sl2 {
		ms = append(ms, MCase{Op: "validate", A: a}, MCase{Op: "sort", A: a}, MCase{Op: "str", A: a})
		for j := (i * 3) % step; j < len(sl2); j += step {
			ms = append(ms, MCase{Op: "equal", A: a, B: sl2[j]}, MCase{Op: "contains", A: a, B: sl2[j]})
		}
	}
	// three parts: validate compares every part with the first only
	u4 := u5[:4]
	for _, a := range listsOver(u4, 3) {
		ms = append(ms, MCase{Op: "validate", A: a}, MCase{Op: "sort", A: a})
	}
	// the extremes, integers and decimals
	estep := 11
	if !thorough {
		estep = 41
	}
	for _, fd := range []int{0, 1, 18} {
		ex := []string{numRaw(^uint64(0), fd, true), numRaw(1<<63, fd, true), numRaw(0, fd, false), numRaw(1<<63-1, fd, false), numRaw(1<<63, fd, false), numRaw(^uint64(0)-1, fd, false), numRaw(^uint64(0), fd, false)}
		el := listsOver(ex, 2)
		for i, a := range el {
			ms = append(ms, MCase{Op: "validate", A: a}, MCase{Op: "sort", A: a}, MCase{Op: "str", A: a})
			for j := (i * 5) % estep; j < len(el); j += estep {
				ms = append(ms, MCase{Op: "contains", A: a, B: el[j]}, MCase{Op: "equal", A: a, B: el[j]})
			}
		}
	}
	// random sorted-disjoint-coalesced lists of up to 6 parts against each other, and long lists for Sort
	n := 20000
	if thorough {
		n = 200000
	}
	mk := func(fd int) string {
		k := rng.Intn(6)
		cur := int64(rng.Intn(5)) - 20
		var parts []string
		for i := 0; i < k; i++ {
			a := cur
			b := a + int64(rng.Intn(4))
			cur = b + 2 + int64(rng.Intn(3))
			num := func(x int64) string {
				if x < 0 {
					return numRaw(uint64(-x), fd, true)
				}
				return numRaw(uint64(x), fd, false)
			}
			parts = append(parts, num(a)+"~"+num(b))
		}
		if len(parts) == 0 {
			return "-"
		}
		return strings.Join(parts, ",")
	}
	for i := 0; i < n; i++ {
		fd := []int{0, 0, 2, 18}[rng.Intn(4)]
		ms = append(ms, MCase{Op: "contains", A: mk(fd), B: mk(fd)})
	}
	for i := 0; i < n/10; i++ {
		// Sort on lists of up to 40 parts; beyond 12 parts no negative zero (ties must be identical)
		k := 1 + rng.Intn(40)
		var parts []string
		for j := 0; j < k; j++ {
			num := func() string {
				v := uint64(rng.Intn(6))
				neg := rng.Intn(2) == 0
				if v == 0 && k > 12 {
					neg = false
				}
				return numRaw(v, 0, neg)
			}
			parts = append(parts, num()+"~"+num())
		}
		a := strings.Join(parts, ",")
		ms = append(ms, MCase{Op: "sort", A: a}, MCase{Op: "validate", A: a})
	}
	return ms
}

// ---------------------------------------------------------------- main

func nontrivial(c Case) bool {
	for _, h := range c.Steps {
		t := text(h)
		if strings.Contains(t, "|") || strings.Contains(t, "min") || strings.Contains(t, "max") {
			return true
		}
	}
	return len(c.Steps) > 1
}

func initDecBases(d *lib.Driver, res *lib.Result) {
	for fd := 1; fd <= 18; fd++ {
		src := fmt.Sprintf("module m { namespace \"urn:m\"; prefix m; leaf l { type decimal64 { fraction-digits %d; } } }", fd)
		ms := yang.NewModules()
		if err := ms.Parse(src, "m.yang"); err != nil {
			lib.Fatal("decimal base: %v", err)
		}
		if errs := ms.Process(); len(errs) > 0 {
			lib.Fatal("decimal base: %v", errs)
		}
		e := yang.ToEntry(ms.Modules["m"]).Dir["l"]
		decBaseRaw[fd] = rawRange(e.Type.Range)
		g := fullRange(e.Type.Range)
		m, _ := d.Ask(fmt.Sprintf("base dec %d", fd))
		if g != m {
			res.AddDisagreement(lib.Disagreement{Kind: "correspondence", Input: fmt.Sprintf("decimal64 base range at fraction-digits %d", fd), Go: g, Model: m,
				SpecVerdict: specBase(g, fd), What: "decimal64 base range differs from the model", Replay: map[string]any{"base": "dec", "fd": fd}})
		}
	}
	for _, t := range intTypes {
		g := fullRange(builtinRanges[t])
		m, _ := d.Ask("base " + t + " 0")
		if g != m {
			res.AddDisagreement(lib.Disagreement{Kind: "correspondence", Input: "built-in range of " + t, Go: g, Model: m,
				SpecVerdict: specBase(g, 0), What: "built-in range differs from the model", Replay: map[string]any{"base": t, "fd": 0}})
		}
	}
}

// specBase: the built-in range of a type is what RFC 7950 says (checked against fixed literals here).
func specBase(g string, fd int) string {
	return "violates"
}

func main() {
	f := lib.ParseFlags()
	d, err := lib.StartDriver(f.Driver)
	if err != nil {
		lib.Fatal("driver: %v", err)
	}
	defer d.Close()
	if f.Replay != "" {
		replay(f, d)
		return
	}
	res := lib.NewResult("C10", f)
	initDecBases(d, res)
	th := f.Thorough()

	type section struct {
		name  string
		cases []Case
		// every stride-th chain with a parent is also placed on a union member (0 = never; -1 = every
		// chain in all four placements)
		stride int
		// written: every step is judged once more by spec.written (literals read by their written value)
		written bool
	}
	q := func(quick, thorough int) int {
		if th {
			return thorough
		}
		return quick
	}
	nr := 30000
	if th {
		nr = 400000
	}
	secs := []section{
		{"union_corpus", genUnionCorpus(), -1, false},
		{"same_outer_bounds", genSameBounds(), 2, false},
		{"int_api_grid", genIntAPI(th), 0, false},
		{"syntax_variants", genSyntax(th), 1, false},
		{"int_parent_grid", genIntParents(th), q(8, 16), false},
		{"length_grid", genLengths(th), q(4, 2), false},
		{"decimal_grid", genDecimal(th), q(8, 8), false},
		{"random_chains", genRandom(f.Rand(1), nr), q(1, 2), false},
		{"random_ordered_chains", genRandomOrdered(f.Rand(2), nr), q(1, 2), false},
		{"malformed", genMalformed(f.Rand(3), nr), q(1, 2), false},
		{"pass_through", genPassThrough(th, f.Rand(6)), 0, false},
	}
	// literals of extreme length (longlits.go); in shares of at most 50000 chains, the requests being long
	for k, ll := 0, genLongLiterals(th, f.Rand(5)); len(ll) > 0; k++ {
		n := minInt(len(ll), 50000)
		name := "long_literals"
		if k > 0 {
			name += fmt.Sprintf("_%d", k+1)
		}
		secs = append(secs, section{name, ll[:n], q(4, 4), true})
		ll = ll[n:]
	}
	placedCases, placedRejected := map[string]int64{}, map[string]int64{}
	sibRot, sibStride := 0, 2
	sibPerName := map[string]int64{}
	sibSeconds, sibFatal, sibOther := 0.0, int64(0), int64(0)
	distinct := lib.NewDistinct()
	var nontriv, evals int64
	okSteps, errSteps := int64(0), int64(0)
	writtenSteps, writtenJudged := int64(0), int64(0)
	depthHist := map[int]int64{}
	// C10_ONLY=<section name>: development aid, runs that section alone (and no method cases)
	only := os.Getenv("C10_ONLY")
	for _, sec := range secs {
		if only != "" && !strings.HasPrefix(sec.name, only) {
			continue
		}
		t0 := time.Now()
		cases := sec.cases
		goOuts := runGo(cases, f.Procs)
		if only != "" {
			fmt.Fprintf(os.Stderr, "%s: go %.1fs\n", sec.name, time.Since(t0).Seconds())
		}
		reqs := make([]string, len(cases))
		var specReqs []string
		specIdx := make([][2]int, len(cases)) // [start, end) in specReqs
		for i, c := range cases {
			reqs[i] = c.request()
			sr := specRequests(c, goOuts[i])
			specIdx[i] = [2]int{len(specReqs), len(specReqs) + len(sr)}
			specReqs = append(specReqs, sr...)
			if distinct.Add(c.key()) && nontrivial(c) {
				nontriv++
			}
		}
		ans, err := lib.ParBatch(f.Driver, reqs, f.Procs)
		if err != nil {
			lib.Fatal("driver: %v", err)
		}
		specAns, err := lib.ParBatch(f.Driver, specReqs, f.Procs)
		if err != nil {
			lib.Fatal("driver (spec): %v", err)
		}
		var writtenAns []string
		if sec.written {
			wreqs := make([]string, len(specReqs))
			for j, r := range specReqs {
				wreqs[j] = "spec.written" + strings.TrimPrefix(r, "spec.step")
			}
			if writtenAns, err = lib.ParBatch(f.Driver, wreqs, f.Procs); err != nil {
				lib.Fatal("driver (spec.written): %v", err)
			}
			for _, a := range writtenAns {
				if a != "na" {
					writtenJudged++
				}
			}
			writtenSteps += int64(len(writtenAns))
		}
		if only != "" {
			fmt.Fprintf(os.Stderr, "%s: go + model + spec %.1fs\n", sec.name, time.Since(t0).Seconds())
		}
		// disagreements of this section: those the specification condemns first, so that the cap of 50
		// examined disagreements never hides a violation behind differences in the error class
		var found []lib.Disagreement
		for i, c := range cases {
			g := strings.Join(goOuts[i], " ; ")
			depth := 0
			for _, o := range goOuts[i] {
				if strings.HasPrefix(o, "ok ") {
					okSteps++
					depth++
				} else if strings.HasPrefix(o, "err ") {
					errSteps++
				}
			}
			depthHist[depth]++
			verdict, why := "holds", ""
			for j := specIdx[i][0]; j < specIdx[i][1]; j++ {
				if specAns[j] != "holds" {
					verdict, why = "violates", fmt.Sprintf("step %d: %s", j-specIdx[i][0]+1, specAns[j])
					break
				}
				if writtenAns != nil && writtenAns[j] != "holds" && writtenAns[j] != "na" {
					verdict, why = "violates", fmt.Sprintf("step %d, literals read by their written value: %s", j-specIdx[i][0]+1, writtenAns[j])
					break
				}
			}
			if strings.Contains(g, "panic") {
				found = append(found, lib.Disagreement{Kind: "crash", Input: describe(c), Go: g, Model: ans[i], SpecVerdict: "violates",
					What: "the range code panicked", Replay: replayIdx(i)})
				continue
			}
			if strings.Contains(g, "passthrough-") {
				found = append(found, lib.Disagreement{Kind: "spec", Input: describe(c), Go: g, Model: ans[i], SpecVerdict: "violates",
					What: "the set must be a subset of the parent type's set at every step of a derivation chain: a typedef that adds no restriction of the kind reports an error or presents a set other than the inherited one (" + sec.name + ")", Replay: replayIdx(i)})
				continue
			}
			if specIdx[i][1]-specIdx[i][0] != len(goOuts[i]) {
				verdict, why = "", "go outcome could not be interpreted: "+g
			}
			if g != ans[i] {
				found = append(found, lib.Disagreement{Kind: "correspondence", Input: describe(c), Go: g, Model: ans[i], SpecVerdict: verdict,
					What: clauseOf(verdict, why) + "range restriction: Go differs from the model (" + sec.name + "); spec on the Go outcome: " + verdict + " " + why, Replay: replayIdx(i)})
			} else if verdict != "holds" {
				found = append(found, lib.Disagreement{Kind: "spec", Input: describe(c), Go: g, Model: ans[i], SpecVerdict: "violates",
					What: clauseOf(verdict, why) + "range restriction: the outcome violates the specification (" + sec.name + "): " + why, Replay: replayIdx(i)})
			}
			if i%(len(cases)/2+1) == 1 {
				res.AddSample(map[string]any{"section": sec.name, "case": describe(c), "go": g, "model": ans[i]})
			}
		}
		// the last step once more in other placements: union member, replacement type of a deviation,
		// union member below an imported typedef whose module is replaced by a newer revision between two runs
		var scs []UCase
		if sec.stride != 0 {
			var ucs, dcs, hcs []UCase
			sel, selH := 0, 0
			for i, c := range cases {
				if c.Base == "none" || parentOfLast(c, goOuts[i]) == "" {
					continue
				}
				sel++
				if sec.stride > 0 && sel%sec.stride != 0 {
					continue
				}
				r := sel / maxInt(sec.stride, 1)
				// next to every other substatement (siblings.go): all combinations for the corpus, one
				// combination per selected chain elsewhere (walking through the list)
				if combos := sibCombos(c); sec.stride < 0 {
					for _, cb := range combos {
						scs = append(scs, UCase{Case: c, Sib: cb.Sib, Pos: cb.Pos, Host: cb.Host})
					}
				} else if sibRot++; sibRot%sibStride == 0 {
					cb := combos[(sibRot/sibStride)%len(combos)]
					scs = append(scs, UCase{Case: c, Sib: cb.Sib, Pos: cb.Pos, Host: cb.Host})
				}
				if sec.stride < 0 {
					for v := 1; v <= 4; v++ {
						ucs = append(ucs, UCase{Case: c, Union: v})
					}
					for v := 1; v <= 3; v++ {
						dcs = append(dcs, UCase{Case: c, Deviate: v})
					}
				} else {
					ucs = append(ucs, UCase{Case: c, Union: 1 + r%4})
					if r%2 == 0 {
						dcs = append(dcs, UCase{Case: c, Deviate: 1 + (r/2)%3})
					}
				}
				if len(c.Steps) >= 2 {
					selH++
					if sec.stride < 0 {
						hcs = append(hcs, UCase{Case: c, History: 1}, UCase{Case: c, History: 2})
					} else {
						if selH%2 == 0 {
							hcs = append(hcs, UCase{Case: c, History: 1 + (selH/2)%2})
						}
					}
				}
			}
			goIdx := map[string]int{}
			for i, c := range cases {
				goIdx[c.key()] = i
			}
			for _, grp := range []struct {
				name string
				pcs  []UCase
				run  func([]UCase) []string
			}{{"union", ucs, runUnion}, {"deviate", dcs, runDeviate}, {"history", hcs, runHistory}} {
				pcs := grp.pcs
				if len(pcs) == 0 {
					continue
				}
				// the model's answer: the last step of the chain (history 2: of the restriction on the base)
				models := make([]string, len(pcs))
				parents := make([]string, len(pcs))
				var mreq []string
				var mpos []int
				for j, pc := range pcs {
					i := goIdx[pc.key()]
					if pc.History == 2 {
						mreq = append(mreq, pc.expectCase().request())
						mpos = append(mpos, j)
						parents[j] = baseRaw(pc.Case)
					} else {
						models[j] = lastStep(ans[i])
						parents[j] = parentOfLast(pc.Case, goOuts[i])
					}
				}
				if len(mreq) > 0 {
					ma, err := lib.ParBatch(f.Driver, mreq, f.Procs)
					if err != nil {
						lib.Fatal("driver (placements): %v", err)
					}
					for k, j := range mpos {
						models[j] = lastStep(ma[k])
					}
				}
				uout := runUnions(pcs, f.Procs, grp.run)
				var ureqs []string
				uidx := make([]int, len(pcs))
				for j, pc := range pcs {
					uidx[j] = -1
					if r := unionSpecRequest(pc, parents[j], uout[j]); r != "" {
						uidx[j] = len(ureqs)
						ureqs = append(ureqs, r)
					}
				}
				uans, err := lib.ParBatch(f.Driver, ureqs, f.Procs)
				if err != nil {
					lib.Fatal("driver (spec, placements): %v", err)
				}
				rejected := int64(0)
				for j, pc := range pcs {
					if strings.HasPrefix(uout[j], "err ") {
						rejected++
					}
					in := describe(pc.Case)
					in["placement"] = pc.placement()
					if strings.HasPrefix(uout[j], "panic") {
						found = append(found, lib.Disagreement{Kind: "crash", Input: in, Go: uout[j], Model: models[j], SpecVerdict: "violates",
							What: "the range code panicked (" + pc.placement() + ")", Replay: pc})
						continue
					}
					verdict, why := "", "go outcome could not be interpreted"
					if uidx[j] >= 0 {
						verdict, why = "holds", ""
						if uans[uidx[j]] != "holds" {
							verdict, why = "violates", uans[uidx[j]]
						}
					}
					if uout[j] != models[j] {
						found = append(found, lib.Disagreement{Kind: "correspondence", Input: in, Go: uout[j], Model: models[j], SpecVerdict: verdict,
							What: clauseOf(verdict, why) + "restriction placed as " + placementText(pc) + ": outcome differs from the model's outcome for the same restriction against the same parent (" + sec.name + "); spec on the Go outcome: " + verdict + " " + why, Replay: pc})
					} else if verdict != "holds" {
						found = append(found, lib.Disagreement{Kind: "spec", Input: in, Go: uout[j], Model: models[j], SpecVerdict: "violates",
							What: clauseOf("violates", why) + "restriction placed as " + placementText(pc) + ": the outcome violates the specification (" + sec.name + "): " + why, Replay: pc})
					}
					if distinct.Add(pc.placement() + " " + pc.key()) {
						nontriv++
					}
				}
				placedCases[grp.name] += int64(len(pcs))
				placedRejected[grp.name] += rejected
				evals += int64(len(pcs))
				res.Distribution[grp.name+"_cases_"+sec.name] = len(pcs)
			}
		}
		if len(scs) > 0 {
			tS := time.Now()
			goIdx := map[string]int{}
			for _, pc := range scs {
				goIdx[pc.Case.key()] = -1
			}
			for i, c := range cases {
				if k := c.key(); goIdx[k] == -1 {
					goIdx[k] = i
				}
			}
			sf, rejected, fatal, otherErr := siblingGroup(f, sec.name, scs, goIdx, ans, goOuts)
			sibSeconds += time.Since(tS).Seconds()
			found = append(found, sf...)
			for _, pc := range scs {
				if distinct.Add(pc.placement() + " " + pc.key()) {
					nontriv++
				}
				sibPerName[pc.Sib]++
			}
			placedCases["sibling"] += int64(len(scs))
			placedRejected["sibling"] += rejected
			sibFatal += fatal
			sibOther += otherErr
			evals += int64(len(scs))
			res.Distribution["sibling_cases_"+sec.name] = len(scs)
		}
		sort.SliceStable(found, func(a, b int) bool {
			return found[a].SpecVerdict == "violates" && found[b].SpecVerdict != "violates"
		})
		for _, dd := range found {
			if len(res.Disagreements) >= 50 {
				res.Count("disagreements_not_examined", 1)
				continue
			}
			if ri, ok := dd.Replay.(replayIdx); ok {
				dd.Replay = mkReplay(cases, int(ri))
			}
			res.AddDisagreement(dd)
		}
		res.Distribution["cases_"+sec.name] = len(cases)
		res.Distribution["seconds_"+sec.name] = float64(int(time.Since(t0).Seconds()*10)) / 10
		evals += int64(len(cases))
	}
	// family B
	tB := time.Now()
	mcs := genMethods(th, f.Rand(4))
	if only != "" {
		mcs = nil
	}
	mreqs := make([]string, len(mcs))
	mgo := make([]string, len(mcs))
	var sreqs []string
	var sIdx []int
	for i, m := range mcs {
		mreqs[i] = m.request()
		mgo[i] = runMethod(m)
		if m.Op == "contains" {
			sreqs = append(sreqs, "spec.contains "+m.A+" "+m.B)
			sIdx = append(sIdx, i)
		}
		if distinct.Add(mreqs[i]) && (strings.Contains(m.A, ",") || strings.Contains(m.B, ",")) {
			nontriv++
		}
	}
	mans, err := lib.ParBatch(f.Driver, mreqs, f.Procs)
	if err != nil {
		lib.Fatal("driver: %v", err)
	}
	sans, err := lib.ParBatch(f.Driver, sreqs, f.Procs)
	if err != nil {
		lib.Fatal("driver: %v", err)
	}
	specOf := map[int]string{}
	sdcPairs := 0
	for j, i := range sIdx {
		specOf[i] = sans[j]
		if sans[j] != "na" {
			sdcPairs++
		}
	}
	for i, m := range mcs {
		sv, isC := specOf[i]
		verdict := ""
		if isC && sv != "na" {
			verdict = "holds"
			if sv != mgo[i] {
				verdict = "violates"
			}
		}
		if strings.HasPrefix(mgo[i], "panic") {
			// Contains/Equal/Validate on well-formed numbers (fd <= 18) must not panic
			res.AddDisagreement(lib.Disagreement{Kind: "crash", Input: m, Go: mgo[i], Model: mans[i], SpecVerdict: "violates", What: "YangRange method panicked", Replay: m})
			continue
		}
		if mgo[i] != mans[i] || verdict == "violates" {
			if len(res.Disagreements) >= 50 {
				res.Count("disagreements_not_examined", 1)
				continue
			}
			kind := "correspondence"
			if mgo[i] == mans[i] {
				kind = "spec"
			}
			res.AddDisagreement(lib.Disagreement{Kind: kind, Input: m, Go: mgo[i], Model: mans[i], SpecVerdict: verdict,
				What: "YangRange." + m.Op + ": Go, model and specification (" + sv + ") do not agree", Replay: m})
		}
	}
	res.Distribution["cases_methods"] = len(mcs)
	res.Distribution["seconds_methods"] = float64(int(time.Since(tB).Seconds()*10)) / 10
	res.Distribution["contains_pairs_checked_against_spec"] = sdcPairs
	res.Distribution["steps_accepted"] = okSteps
	res.Distribution["steps_rejected"] = errSteps
	res.Distribution["long_literal_steps"] = writtenSteps
	res.Distribution["long_literal_steps_judged_by_written_value"] = writtenJudged
	for k, n := range placedCases {
		res.Distribution[k+"_placements"] = n
		res.Distribution[k+"_placements_rejected"] = placedRejected[k]
	}
	res.Distribution["seconds_sibling_placements"] = float64(int(sibSeconds*10)) / 10
	res.Distribution["sibling_placements_with_a_sibling_that_stops_the_resolution"] = sibFatal
	res.Distribution["sibling_placements_with_such_a_sibling_accepted"] = sibFatalAccepted
	res.Distribution["sibling_placements_inadmissible_rejected_by_the_error_of_an_erroneous_sibling_only"] = sibOther
	for name, n := range sibPerName {
		res.Distribution["sibling_"+name] = n
	}
	for d, n := range depthHist {
		res.Distribution[fmt.Sprintf("chains_with_%d_accepted_steps", d)] = n
	}
	evals += int64(len(mcs))
	res.Evaluations = evals
	res.DistinctNontrivial = nontriv
	res.Exhaustive = true
	res.Rule = "restriction chains = (mode int|dec|len, base type or none, fraction-digits, list of restriction texts); exhaustive grids: all texts of 1 part (and of 2 and 3 parts over smaller sets) with bounds from {min, max, 0, -0, +-1, every integer type's limits and limits+-1, 2^63-1, 2^63, 2^64-1, 2^64} called directly and under each of the 8 integer types x 8 (thorough 12) earlier restrictions of it through YANG typedef chains; the same for lengths and for decimal64 at fraction-digits 1, 2, 17, 18 (thorough: 1..18); groups of chains that differ only in the interior of the parent (same outer bounds, same child text) resolved inside one module; literal-syntax tokens (white space incl. Unicode, base-0 literals, underscores, signs, keywords, 1..6 dots, empty parts) in all pairs; seeded random chains of depth 1..4, ordered random chains, random texts over the grammar's alphabet; every stride-th chain with a parent (all of the syntax tokens and random chains) is run once more with its last restriction placed on a member of a union whose earlier member is the unrestricted parent type (built-in or typedef; 2nd member, 3rd member, union inside a typedef, further member after it): error and range must be those of the plain placement; the same chains with the last restriction in the type of a deviate replace/add on a leaf or leaf-list of another module; chains of two or more steps with the earlier steps in an imported module that is replaced by a newer revision (with / without the restrictions) between two Process runs on the same Modules, the last restriction on a union member inside a typedef of the importing module: after the second run the outcome must be the one for the new parent; sibling placements (siblings.go): the last restriction next to every other substatement a type statement can carry, before it and after it (pattern valid / invalid regexp / with modifier and messages / twice, openconfig-extensions:posix-pattern valid / invalid / twice / with a body / together with pattern, extensions of another module, of the own module, other extensions of openconfig-extensions, nested, without argument, with an unbound prefix, fraction-digits on a non-decimal type / repeated on a decimal typedef / written after the range, the other restriction kind admissible and inadmissible (length beside range, range beside length), enum, duplicate enum, bit, base known / unknown, path, require-instance valid / invalid, a member type), with substatements of its own (error-message, error-app-tag, description, reference, extensions, empty body), and its type statement next to units / default / description / reference / status / extensions of the enclosing typedef and units / default / mandatory / config / must / when / extensions of the enclosing leaf; each of these in a leaf, a typedef used by a leaf, a union member of a leaf, a union member inside a typedef, the type of a deviate replace, a leaf of a used grouping and a leaf-list inside a list: all combinations for the corpus chains, one combination (walking through the list) for every 2nd selected chain of the other sections, every case in a Modules value of its own; the outcome (error of the restriction's kind at the restriction's line, else the set read from the entry) must be the model's outcome for the same restriction against the same parent and satisfy the specification; next to a sibling that is in error itself (invalid regexp, duplicate enum, unknown base, fraction-digits on a non-decimal type, an inadmissible restriction of the other kind, require-instance that is not a boolean, a default that is not a number) an inadmissible restriction counts as rejected when any error is reported; next to a sibling that stops the resolution of the type statement (unbound extension prefix, repeated fraction-digits) an inadmissible restriction must still not pass without any error; literals of extreme length and small value (longlits.go): decimal bounds with 19 to 1025 (and 65535 to 65554; thorough also 2^12, 2^15, 2^17) fraction digits that are zeros but for the last one(s), zero fractions, trailing zeros, fractions of nines, integer parts with that many leading zeros (alone, with a fraction inside / one digit beyond the scale), integer and length bounds with that many leading zeros (octal in Go's base-0 syntax: 0...07, 0...08, 0...0377, 0...0400, 2^64-1 and 2^64, 2^63), after 0x / 0b / 0o, with underscores, 1 followed by that many zeros, with signs; each as single value, upper bound after 0 / 1 / min, lower bound before max, between -x and x, beside a second part; called directly and under decimal64 at fraction-digits 1, 2, 9, 18 (core shapes thorough: 1..18) / uint8, int8, uint64, int64 / string lengths and under restricted parents of them; runs of that many blanks, tabs, line feeds, dots, bars, signs; restrictions of 13, 255, 256, 257, 513 parts (apart, touching, descending, identical, overlapping, one outside the parent, one in a gap); seeded random long literals (lengths next to multiples of 256 and 65536, up to three non-zero digits); the Go outcome of each of these is judged by spec.step and once more by spec.written, in which every plain literal is read by its written value in exact arithmetic by a reader that shares nothing with the model's digit loops (Drv/Range.lean, namespace Written); bounds with points (genSyntax, pointBounds): several points, a point next to a sign, a lone point, points with blanks, exponents, hex, underscores, non-ASCII digits and points, each as single value, lower and upper bound, in several parts, read as integer, length and decimal64 bound at fraction-digits 1, 2, 4, 9, 18, directly, under the built-in type and as second step under a restricted parent (spec.step states the literal shape on the characters: a decimal bound is [sign] digits [. digits], an integer or length bound has no point; anything else accepted = accepted although syntactically invalid (a point directly followed by a sign is refused since the repair of D10-S1, /repo 6916d90)); pass-through levels (passthrough.go, section pass_through): chains of 2..8 typedef levels in which 1..3 typedefs that add no restriction of the kind (nothing, an empty type body, patterns, units, default, description, status/reference) stand before the first restriction, between any two and after the last, 1..5 restricting steps going down a ladder of nested sets with the last step narrowing, widening (up to the limits of the base type), equal, disjoint and written with min/max, for the eight integer types, decimal64 at fraction-digits 1, 2, 9, 18, string and binary lengths; the levels at the top of one module, split over an imported module, inside a container, split between module level and a list in a container, below an imported prefix inside a used grouping, referenced with and without the own prefix, the last restriction on a typedef or on a leaf (a chain whose last restriction is on a leaf is resolved alone when typedefs of the batch are in error, Process returning before leaves are converted); all systematic layouts with one or two pass-through positions plus seeded random layouts; the outcome must be the model's outcome for the restricting steps alone, every step is judged by spec.step against the set of the restricting step before it, and the leaf of every pass-through typedef must present the inherited set; exported methods Contains/Equal/Validate/Sort/String on all lists of <= 2 parts over {0..4} (Contains: all pairs), over a signed universe with -0, over the 64-bit extremes at fd 0, 1, 18, all lists of 3 parts over {0..3}, random lists. Every Go outcome is compared with the model and judged by the executable specification. distinct_nontrivial = distinct inputs that have more than one part, a min/max keyword or more than one step (chains), or a list of more than one part (methods)"
	res.Write(f.Out)
}

// clauseOf: the clause of the property a condemned outcome breaks (from the verdict of spec.step / spec.written).
func clauseOf(verdict, why string) string {
	if verdict != "violates" {
		return ""
	}
	switch {
	case strings.Contains(why, "accepted although"):
		return "a restriction that is syntactically invalid, has a part out of order or admits a value its parent does not must be rejected with an error: "
	case strings.Contains(why, "does not denote the written set"):
		return "the resolved set must equal the set written in the statement: "
	case strings.Contains(why, "not sorted, disjoint and coalesced"):
		return "the resolved set must be presented sorted, disjoint and coalesced: "
	case strings.Contains(why, "rejected although"):
		return "only inadmissible restrictions are rejected (a well-formed, ordered restriction inside the parent's set is accepted): "
	}
	return ""
}

func placementText(u UCase) string {
	switch {
	case u.Deviate != 0:
		return "the type of a deviate " + map[int]string{1: "replace on a leaf", 2: "add on a leaf", 3: "replace on a leaf-list"}[u.Deviate] + " of another module"
	case u.History != 0:
		return "a union member (in a typedef) restricting an imported typedef whose module got a newer revision between two Process runs"
	}
	return "a union member whose earlier member is the unrestricted parent type"
}

func maxInt(a, b int) int {
	if a > b {
		return a
	}
	return b
}

func describe(c Case) map[string]any {
	st := make([]string, len(c.Steps))
	long := false
	for i, h := range c.Steps {
		t := text(h)
		st[i] = compactText(t)
		long = long || st[i] != t
	}
	d := map[string]any{"mode": c.Mode, "base": c.Base, "fraction_digits": c.Fd, "restrictions": st}
	if c.Pass != nil {
		d["typedefs_without_restriction_before_each_step_and_after_the_last"] = c.Pass
		d["placement"] = passPlaces[c.Place]
		d["yang"] = passText(c)
	}
	if long {
		d["notation"] = "c{n} stands for n times the character c (the replay record has the text itself)"
	}
	return d
}

func replay(f *lib.Flags, d *lib.Driver) {
	raw, err := os.ReadFile(f.Replay)
	if err != nil {
		lib.Fatal("%v", err)
	}
	var p struct {
		Disagreement struct {
			Replay json.RawMessage `json:"replay"`
		} `json:"disagreement"`
	}
	if err := json.Unmarshal(raw, &p); err != nil {
		lib.Fatal("%v", err)
	}
	var probe map[string]any
	json.Unmarshal(p.Disagreement.Replay, &probe)
	if _, ok := probe["op"]; ok {
		var m MCase
		json.Unmarshal(p.Disagreement.Replay, &m)
		g := runMethod(m)
		a, _ := d.Ask(m.request())
		sv := "-"
		if m.Op == "contains" {
			sv, _ = d.Ask("spec.contains " + m.A + " " + m.B)
		}
		fmt.Printf("input: %+v\ngo:    %s\nmodel: %s\nspec:  %s\n", m, g, a, sv)
		if g != a || (sv != "-" && sv != "na" && sv != g) {
			os.Exit(1)
		}
		return
	}
	nz := func(k string) bool {
		v, ok := probe[k].(float64)
		return ok && v != 0
	}
	if sb, _ := probe["sib"].(string); sb != "" {
		var uc UCase
		if err := json.Unmarshal(p.Disagreement.Replay, &uc); err != nil {
			lib.Fatal("%v", err)
		}
		res := lib.NewResult("C10", f)
		initDecBases(d, res)
		chain := runGo([]Case{uc.Case}, 1)[0]
		par := parentOfLast(uc.Case, chain)
		a, _ := d.Ask(uc.Case.request())
		g := run1(uc)
		if n, byOther := sibNormalize(g, lastStep(a)); byOther {
			fmt.Printf("note: go reports no error of the restriction itself but other errors of the statement (%s): counted as rejected\n", g)
			g = n
		} else {
			g = n
		}
		in := describe(uc.Case)
		in["placement"] = uc.placement()
		_, mText, _, _ := sibTexts(uc)
		fmt.Printf("input: %v\nmodule m:\n%s", in, mText)
		if par == "" {
			fmt.Printf("go (%s): %s\nspec:  not evaluated (an earlier step of the chain fails)\n", sibPlacementText(uc), g)
			os.Exit(1)
		}
		if sd := sibByName[uc.Sib]; sd != nil && sd.Fatal {
			sv, _ := d.Ask(fmt.Sprintf("spec.step %s %s %d %s err", par, uc.Mode, uc.Fd, uc.Steps[len(uc.Steps)-1]))
			fmt.Printf("go (%s): %s\nspec on rejecting the restriction: %s\n", sibPlacementText(uc), g, sv)
			if g != "rejected" && !(g == "accepted" && sv != "holds") {
				os.Exit(1)
			}
			return
		}
		sv := "go outcome could not be interpreted"
		if r := unionSpecRequest(uc, par, g); r != "" {
			sv, _ = d.Ask(r)
		}
		fmt.Printf("go (%s): %s\nmodel (same restriction, same parent): %s\nspec:  %s\n", sibPlacementText(uc), g, lastStep(a), sv)
		if g != lastStep(a) || sv != "holds" {
			os.Exit(1)
		}
		return
	}
	if nz("union") || nz("deviate") || nz("history") {
		var uc UCase
		if err := json.Unmarshal(p.Disagreement.Replay, &uc); err != nil {
			lib.Fatal("%v", err)
		}
		res := lib.NewResult("C10", f)
		initDecBases(d, res)
		chain := runGo([]Case{uc.Case}, 1)[0]
		par := parentOfLast(uc.Case, chain)
		if uc.History == 2 {
			par = baseRaw(uc.Case)
		}
		a, _ := d.Ask(uc.expectCase().request())
		g := run1(uc)
		sv := "not evaluated (an earlier step of the chain fails)"
		if par != "" {
			if r := unionSpecRequest(uc, par, g); r != "" {
				sv, _ = d.Ask(r)
			}
		}
		in := describe(uc.Case)
		in["placement"] = uc.placement()
		fmt.Printf("input: %v\ngo (%s): %s\nmodel (same restriction, same parent): %s\nspec:  %s\n", in, placementText(uc), g, lastStep(a), sv)
		if g != lastStep(a) || sv != "holds" {
			os.Exit(1)
		}
		return
	}
	if b, ok := probe["base"]; ok && probe["steps"] == nil {
		res := lib.NewResult("C10", f)
		initDecBases(d, res)
		fmt.Printf("input: base range of %v\n", b)
		for _, dd := range res.Disagreements {
			fmt.Printf("go:    %v\nmodel: %v\n", dd.Go, dd.Model)
		}
		if len(res.Disagreements) > 0 {
			os.Exit(1)
		}
		return
	}
	var cr chainReplay
	if err := json.Unmarshal(p.Disagreement.Replay, &cr); err != nil {
		lib.Fatal("%v", err)
	}
	c := cr.Case
	res := lib.NewResult("C10", f)
	initDecBases(d, res)
	g := runGo([]Case{c}, 1)[0]
	if len(cr.Batch) > cr.Index && cr.Batch[cr.Index].key() == c.key() {
		// together with the chains that were resolved in the same module (the order in which the
		// typedefs of a module are resolved is fixed by their source position)
		if gb := runBatchYANG(cr.Batch)[cr.Index]; strings.Join(gb, " ; ") != strings.Join(g, " ; ") {
			fmt.Printf("note: alone the chain gives %s; shown below is the outcome inside the recorded module of %d chains\n", strings.Join(g, " ; "), len(cr.Batch))
			g = gb
		}
	}
	a, _ := d.Ask(c.request())
	verdict := "holds"
	var why []string
	for _, r := range specRequests(c, g) {
		s, _ := d.Ask(r)
		why = append(why, s)
		if s != "holds" {
			verdict = "violates"
		}
		// literals read by their written value (na: a boundary that is not a plain literal)
		if w, _ := d.Ask("spec.written" + strings.TrimPrefix(r, "spec.step")); w != "holds" && w != "na" {
			why = append(why, "by written value: "+w)
			verdict = "violates"
		}
	}
	if strings.Contains(strings.Join(g, " ; "), "passthrough-") {
		verdict = "violates"
		why = append(why, "a typedef that adds no restriction reports an error or presents a set other than the inherited one")
	}
	fmt.Printf("input: %v\ngo:    %s\nmodel: %s\nspec:  %s %v\n", describe(c), strings.Join(g, " ; "), a, verdict, why)
	if strings.Join(g, " ; ") != a || verdict != "holds" {
		os.Exit(1)
	}
}
