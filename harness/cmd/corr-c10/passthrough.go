package main

// Pass-through levels (section pass_through; added for seeded change C10-n21).
//
// A derivation chain in which typedefs that add NOTHING of the restricted kind (no range / no length: nothing
// at all, an empty type body, only a pattern, units, a default, a description) stand between the restricting
// steps: 1..3 such levels before the first restriction, between any two, and after the last one; chains of 3..7
// levels in all, for every base kind (the eight integer types, decimal64, string and binary lengths), the levels
// in one module, split over an imported module, inside a container, split between the module level and a
// list inside a container, and inside a used grouping below an imported prefix; the last restriction on a
// typedef or directly on a leaf.  The levels without a restriction do not change the set: the chain must
// resolve exactly as the chain of its restricting steps alone (the model's answer for `Steps`), every
// accepted step is judged by spec.step against the set of the restricting step before it (intersection along
// the chain, "only ever narrow"), and a leaf of every pass-through typedef must present the inherited set.

import (
	"fmt"
	"math/rand"
	"os"
	"regexp"
	"runtime/debug"
	"strconv"
	"strings"

	"github.com/openconfig/goyang/pkg/yang"
)

func (c Case) passKey() string {
	if c.Pass == nil {
		return ""
	}
	s := " pass"
	for _, p := range c.Pass {
		s += strconv.Itoa(p)
	}
	return fmt.Sprintf("%s f%d p%d %s", s, c.Flavor, c.Place, c.LenBase)
}

// passLevel is one typedef of a rendered chain.
type passLevel struct {
	step int // index into Steps, -1 = pass-through
}

func (c Case) levels() []passLevel {
	var ls []passLevel
	for k := range c.Steps {
		for p := 0; p < c.Pass[k]; p++ {
			ls = append(ls, passLevel{-1})
		}
		ls = append(ls, passLevel{k})
	}
	for p := 0; p < c.Pass[len(c.Steps)]; p++ {
		ls = append(ls, passLevel{-1})
	}
	return ls
}

var passPlaces = []string{
	"all levels at the top of one module",
	"the first levels in an imported module, the others in the importing module",
	"all levels inside a container",
	"the first levels at the top of the module, the others in a list inside a container",
	"the first levels in an imported module, the others inside a grouping used in a container",
}

// passExtras: what a pass-through level carries: (body of the type statement, substatements of the typedef).
func passExtras(c Case, j int) (body, extra string) {
	v := (c.Flavor + j*3) % 8
	str := c.Mode == "len" && c.LenBase != "binary"
	switch v {
	case 0:
		return "", ""
	case 1:
		return " { }", ""
	case 2:
		if str {
			return " { pattern '[a-z0-9]*'; }", ""
		}
		return "", " units 'u';"
	case 3:
		return "", " units 'seconds';"
	case 4:
		if c.Mode == "len" {
			return "", " default 'abcde';"
		}
		return "", " default '1';"
	case 5:
		return "", " description 'adds nothing';"
	case 6:
		if str {
			return " { pattern '.*'; pattern '[^x]*'; }", " units 'u'; default 'abc';"
		}
		return " { }", " units 'u'; default '0';"
	}
	if str {
		return " { pattern 'a*' { error-message 'm'; } }", " status current;"
	}
	return "", " status current; reference 'r';"
}

type passRef struct{ ci, lv int }

type passRendered struct {
	m, n   string
	lineOf map[string]passRef // "m:12" -> chain, level
	// where the leaf of (chain, level) is: module and path of entry names
	leafMod  map[passRef]string
	leafPath map[passRef][]string
}

func passBuiltin(c Case) string {
	switch c.Mode {
	case "len":
		if c.LenBase == "binary" {
			return "binary"
		}
		return "string"
	case "dec":
		return "decimal64"
	}
	return c.Base
}

// renderPass writes the chains of a batch into module m (and the imported module n).
func renderPass(cases []Case) passRendered {
	r := passRendered{lineOf: map[string]passRef{}, leafMod: map[passRef]string{}, leafPath: map[passRef][]string{}}
	var mb, nb strings.Builder
	mb.WriteString("module m { namespace \"urn:m\"; prefix m; import n { prefix n; }\n")
	nb.WriteString("module n { namespace \"urn:n\"; prefix n;\n")
	mLine, nLine := 2, 2
	emit := func(mod string, s string, ref *passRef) {
		if mod == "n" {
			nb.WriteString(s + "\n")
			if ref != nil {
				r.lineOf["n:"+strconv.Itoa(nLine)] = *ref
			}
			nLine += 1 + strings.Count(s, "\n")
			return
		}
		mb.WriteString(s + "\n")
		if ref != nil {
			r.lineOf["m:"+strconv.Itoa(mLine)] = *ref
		}
		mLine += 1 + strings.Count(s, "\n")
	}
	for i, c := range cases {
		ls := c.levels()
		L := len(ls)
		split := 0 // levels below split form the first part
		if c.Place == 1 || c.Place == 3 || c.Place == 4 {
			split = 1 + (c.Flavor/8)%maxInt(L-1, 1)
			if split >= L {
				split = L - 1
			}
		}
		kw := "range"
		if c.Mode == "len" {
			kw = "length"
		}
		// the last restriction directly on a leaf (when it is the last level)
		leafLast := (c.Flavor/64)%2 == 1 && ls[L-1].step >= 0
		// opening of the second scope
		opened := false
		open := func() {
			switch c.Place {
			case 2:
				emit("m", fmt.Sprintf("container k%d {", i), nil)
			case 3:
				emit("m", fmt.Sprintf("container k%d { list q { key 'id'; leaf id { type string; }", i), nil)
			case 4:
				emit("m", fmt.Sprintf("container k%d { uses g%d; } grouping g%d {", i, i, i), nil)
			}
			opened = true
		}
		if c.Place == 2 {
			open()
		}
		for j, lv := range ls {
			first := j < split
			mod := "m"
			if first && (c.Place == 1 || c.Place == 4) {
				mod = "n"
			}
			if !first && !opened && (c.Place == 3 || c.Place == 4) {
				open()
			}
			var ref string
			switch {
			case j == 0:
				ref = passBuiltin(c)
			case mod == "m" && j-1 < split && (c.Place == 1 || c.Place == 4):
				ref = fmt.Sprintf("n:t%d_%d", i, j)
			case (c.Flavor/128)%2 == 1 && mod == "m":
				ref = fmt.Sprintf("m:t%d_%d", i, j) // own prefix
			default:
				ref = fmt.Sprintf("t%d_%d", i, j)
			}
			var body, extra string
			if lv.step >= 0 {
				fd := ""
				if c.Mode == "dec" && j == 0 {
					fd = fmt.Sprintf("fraction-digits %d; ", c.Fd)
				}
				body = fmt.Sprintf(" { %s%s '%s'; }", fd, kw, text(c.Steps[lv.step]))
			} else {
				body, extra = passExtras(c, j)
				if c.Mode == "dec" && j == 0 {
					body = fmt.Sprintf(" { fraction-digits %d; }", c.Fd)
				}
			}
			if body == "" {
				body = ";"
			}
			var path []string
			switch {
			case c.Place == 2 || (c.Place == 4 && !first):
				path = []string{fmt.Sprintf("k%d", i)}
			case c.Place == 3 && !first:
				path = []string{fmt.Sprintf("k%d", i), "q"}
			}
			path = append(path, fmt.Sprintf("l%d_%d", i, j+1))
			pr := passRef{i, j}
			r.leafMod[pr], r.leafPath[pr] = mod, path
			if leafLast && j == L-1 {
				emit(mod, fmt.Sprintf("leaf l%d_%d { type %s%s }", i, j+1, ref, body), &pr)
				continue
			}
			emit(mod, fmt.Sprintf("typedef t%d_%d { type %s%s%s } leaf l%d_%d { type t%d_%d; }", i, j+1, ref, body, extra, i, j+1, i, j+1), &pr)
		}
		switch {
		case opened && c.Place == 3:
			emit("m", "} }", nil)
		case opened:
			emit("m", "}", nil)
		}
	}
	mb.WriteString("}\n")
	nb.WriteString("}\n")
	r.m, r.n = mb.String(), nb.String()
	return r
}

var passErrLine = regexp.MustCompile(`(?s)^([mn])\.yang:(\d+):\d+: (?:bad range|bad length|negative length)?:? ?(.*)$`)

// runPassYANG evaluates a batch of chains with pass-through levels in one Modules value.  The outcome of a
// chain has one entry per restricting step, as that of runYANG.
func runPassYANG(cases []Case) (outs [][]string) {
	outs = make([][]string, len(cases))
	defer func() {
		if p := recover(); p != nil {
			for i := range outs {
				if outs[i] == nil {
					outs[i] = []string{fmt.Sprintf("panic %v %s", p, firstLines(string(debug.Stack()), 12))}
				}
			}
		}
	}()
	r := renderPass(cases)
	if dir := os.Getenv("C10_PASS_DEBUG"); dir != "" {
		os.WriteFile(dir+"/m.yang", []byte(r.m), 0o644)
		os.WriteFile(dir+"/n.yang", []byte(r.n), 0o644)
	}
	ms := yang.NewModules()
	for _, f := range [][2]string{{r.n, "n.yang"}, {r.m, "m.yang"}} {
		if err := ms.Parse(f[0], f[1]); err != nil {
			for i := range outs {
				outs[i] = []string{"parse-error " + firstLines(err.Error(), 2)}
			}
			return outs
		}
	}
	errs := ms.Process()
	failAt := map[int]int{}
	failClass := map[passRef]string{}
	for _, e := range errs {
		m := passErrLine.FindStringSubmatch(e.Error())
		if m == nil {
			if os.Getenv("C10_PASS_DEBUG") != "" {
				fmt.Fprintf(os.Stderr, "unmatched: %v\n", e)
			}
			continue
		}
		pr, ok := r.lineOf[m[1]+":"+m[2]]
		if !ok {
			if os.Getenv("C10_PASS_DEBUG") != "" {
				fmt.Fprintf(os.Stderr, "no line: %v\n", e)
			}
			continue
		}
		cl := classify(m[3])
		if strings.Contains(e.Error(), ": negative length: ") {
			cl = "negLength"
		}
		if old, ok := failAt[pr.ci]; !ok || pr.lv < old {
			failAt[pr.ci] = pr.lv
		}
		failClass[pr] = cl
	}
	roots := map[string]*yang.Entry{}
	for _, name := range []string{"m", "n"} {
		if mod := ms.Modules[name]; mod != nil {
			roots[name] = yang.ToEntry(mod)
		}
	}
	if roots["m"] == nil || roots["n"] == nil {
		for i := range outs {
			outs[i] = []string{"no-module"}
		}
		return outs
	}
	for i, c := range cases {
		ls := c.levels()
		fa, failed := failAt[i]
		var o []string
		prev := ""
		for j, lv := range ls {
			if failed && j >= fa {
				break
			}
			pr := passRef{i, j}
			e := roots[r.leafMod[pr]]
			for _, nm := range r.leafPath[pr] {
				if e != nil {
					e = e.Dir[nm]
				}
			}
			cur := "no-type"
			if e != nil && e.Type != nil {
				if c.Mode == "len" {
					cur = okOut(e.Type.Length)
				} else {
					cur = okOut(e.Type.Range)
				}
			}
			if lv.step >= 0 {
				o = append(o, cur)
				prev = cur
			} else if prev != "" && cur != prev {
				o = append(o, fmt.Sprintf("passthrough-changed level %d presents %s", j+1, cur))
			}
		}
		// Process reports the errors of typedefs and returns before any leaf is converted: the error of a
		// restriction written on a leaf is reported only when no typedef of the Modules value is in error.
		// Such a chain is resolved once more in a Modules value of its own.
		if !failed && len(errs) > 0 && len(cases) > 1 && (c.Flavor/64)%2 == 1 && ls[len(ls)-1].step >= 0 {
			outs[i] = runPassYANG([]Case{c})[0]
			continue
		}
		if failed {
			if ls[fa].step < 0 {
				o = append(o, fmt.Sprintf("passthrough-error level %d: %s", fa+1, failClass[passRef{i, fa}]))
			} else {
				o = append(o, "err "+failClass[passRef{i, fa}])
			}
		}
		outs[i] = o
	}
	return outs
}

// runBatchYANG resolves a batch of chains in one Modules value.
func runBatchYANG(cases []Case) [][]string {
	if len(cases) > 0 && cases[0].Pass != nil {
		return runPassYANG(cases)
	}
	return runYANG(cases)
}

// ---------------------------------------------------------------- generator

type passBase struct {
	mode, base, lenBase string
	fd                  int
	ladder              []string // nested restrictions, widest first
	finals              []string // further last steps: min/max forms, widenings up to the limits of the base type
}

func passBases() []passBase {
	var bs []passBase
	for _, t := range intTypes {
		lim := builtinRanges[t][0]
		lo, hi := lim.Min.String(), lim.Max.String()
		var ladder []string
		if strings.HasPrefix(t, "u") {
			ladder = []string{"1..200", "2..100|150..160", "3..90", "5..20|30..40", "6..19", "7..10", "8"}
		} else {
			ladder = []string{"-100..100", "-90..-60|-50..50|70..80", "-40..40", "-20..-10|0..20", "-15..-12|1..19", "2..10", "3"}
		}
		bs = append(bs, passBase{mode: "int", base: t, ladder: ladder,
			finals: []string{lo + ".." + hi, lo + "..0", "0.." + hi, hi, lo, "0..255", "0..127", "-128..127", "-1..1", "0", "1..11", "5..21", "4..20"}})
	}
	for _, fd := range []int{1, 2, 9, 18} {
		ladder := []string{"-9..9", "-8.5..-7|-6..8.1", "-5.5..5.5", "-2..-1|0..4.9", "0.1..4", "0.2..0.3|1..2", "1.5"}
		hi := map[int]string{1: "922337203685477580.7", 2: "92233720368547758.07", 9: "9223372036.854775807", 18: "9.223372036854775807"}[fd]
		lo := map[int]string{1: "-922337203685477580.8", 2: "-92233720368547758.08", 9: "-9223372036.854775808", 18: "-9.223372036854775808"}[fd]
		if fd == 18 {
			ladder[0] = "-9.1..9.1"
		}
		bs = append(bs, passBase{mode: "dec", base: "dec", fd: fd, ladder: ladder,
			finals: []string{lo + ".." + hi, lo + "..0", "0.." + hi, hi, lo, "-9.2..9.2", "0..5", "-0.1..0.1", "0", "0.1..4.1", "0..4"}})
	}
	for _, lb := range []string{"", "binary"} {
		bs = append(bs, passBase{mode: "len", base: "nil", lenBase: lb,
			ladder: []string{"1..200", "2..100|150..160", "3..90", "5..20|30..40", "6..19", "7..10", "8"},
			finals: []string{"0..18446744073709551615", "0..max", "min..18446744073709551615", "18446744073709551615", "0", "0..255", "5..20", "5..21", "4..20", "1..10", "0..9223372036854775808", "21..29", "1..11"}})
	}
	return bs
}

var passKeywordFinals = []string{"min..max", "min", "max", "min..0", "0..max", "min..1|2..max", "min..max|0", "1..max", "min..5", "min | max"}

// passLayouts: pass-through counts (one per position 0..r) with 1..3 levels at one position, and at two positions.
func passLayouts(r int) [][]int {
	var out [][]int
	for pos := 0; pos <= r; pos++ {
		for n := 1; n <= 3; n++ {
			p := make([]int, r+1)
			p[pos] = n
			out = append(out, p)
		}
	}
	for a := 0; a <= r; a++ {
		for b := a + 1; b <= r; b++ {
			p := make([]int, r+1)
			p[a], p[b] = 1, 1+(a+b)%2
			out = append(out, p)
		}
	}
	return out
}

func genPassThrough(thorough bool, rng *rand.Rand) []Case {
	var cs []Case
	seen := map[string]bool{}
	add := func(b passBase, pass []int, flavor, place int, steps ...string) {
		levels := len(steps)
		for _, p := range pass {
			levels += p
		}
		if levels < 2 || levels > 8 {
			return
		}
		hs := make([]string, len(steps))
		for i, s := range steps {
			hs[i] = hx(s)
		}
		c := Case{Mode: b.mode, Base: b.base, Fd: b.fd, Steps: hs, Pass: pass, Flavor: flavor, Place: place, LenBase: b.lenBase}
		if k := c.key(); !seen[k] {
			seen[k] = true
			cs = append(cs, c)
		}
	}
	rot := 0
	for _, b := range passBases() {
		finals := append(append(append([]string{}, b.ladder...), b.finals...), passKeywordFinals...)
		// systematic: r restricting steps (the first r-1 going down the ladder), every layout, every last step
		for r := 2; r <= 4; r++ {
			lays := passLayouts(r)
			for li, lay := range lays {
				if !thorough && r == 4 && li%3 != 0 {
					continue
				}
				for fi, fin := range finals {
					if !thorough && (fi+li+r)%2 == 1 && r > 2 {
						continue
					}
					rot++
					start := rot % 2
					steps := append([]string{}, b.ladder[start:start+r-1]...)
					steps = append(steps, fin)
					add(b, lay, rot*7+rot/5, rot%len(passPlaces), steps...)
				}
			}
		}
		// a single restriction above pass-through levels only (nothing inherited)
		for n := 1; n <= 3; n++ {
			for _, fin := range finals {
				rot++
				add(b, []int{n, rot % 2}, rot*7, rot%len(passPlaces), fin)
			}
		}
	}
	// seeded random: 1..5 restricting steps, 0..3 levels at every position (at least one in all), steps drawn
	// from the ladder in any order (so that earlier steps fail as well) and from the other forms
	n := 3000
	if thorough {
		n = 60000
	}
	bases := passBases()
	for k := 0; k < n; k++ {
		b := bases[rng.Intn(len(bases))]
		all := append(append(append([]string{}, b.ladder...), b.finals...), passKeywordFinals...)
		r := 1 + rng.Intn(5)
		pass := make([]int, r+1)
		tot := 0
		for tot == 0 {
			for i := range pass {
				pass[i] = 0
				if rng.Intn(2) == 0 {
					pass[i] = 1 + rng.Intn(3)
				}
				tot += pass[i]
			}
		}
		var steps []string
		at := rng.Intn(3)
		for i := 0; i < r; i++ {
			switch {
			case i == r-1 || rng.Intn(5) == 0:
				steps = append(steps, all[rng.Intn(len(all))])
			case at < len(b.ladder):
				steps = append(steps, b.ladder[at])
				at += 1 + rng.Intn(2)
			default:
				steps = append(steps, all[rng.Intn(len(all))])
			}
		}
		add(b, pass, rng.Intn(1<<12), rng.Intn(len(passPlaces)), steps...)
	}
	return cs
}

// passText: the modules of one case alone (for reports).
func passText(c Case) string {
	r := renderPass([]Case{c})
	s := r.m
	if c.Place == 1 || c.Place == 4 {
		s = r.n + s
	} else {
		s = strings.Replace(s, " import n { prefix n; }", "", 1)
	}
	return s
}
