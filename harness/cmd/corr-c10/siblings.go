// Sibling placements: the last restriction of a chain stands next to every other substatement a type
// statement can carry (before it and after it), carries substatements of its own, or its type
// statement stands next to the other substatements of the enclosing typedef / leaf — in a leaf, a
// typedef, a union member, a union inside a typedef, the type of a deviate replace, a leaf of a used
// grouping and a leaf-list inside a list.  The oracle is the one of every other placement: the
// restriction must be judged exactly as it is judged alone against the same parent (an inadmissible
// one reported with an error of its own at the restriction statement, an admissible one giving exactly
// the specified set), whatever else the type statement says.  Every case is resolved in a Modules
// value of its own, so that errors raised by the sibling statement cannot interfere with other cases.
package main

import (
	"fmt"
	"regexp"
	"runtime/debug"
	"strconv"
	"strings"
	"sync"

	"github.com/openconfig/goyang/pkg/yang"
	"verif/harness/lib"
)

// sibDef is one thing written next to the restriction.
type sibDef struct {
	Name string
	// Where: "type" = a substatement of the type statement, beside the restriction; "body" = substatements
	// of the restriction statement itself; "typedef" / "leaf" = a substatement of the enclosing typedef /
	// leaf, beside the type statement.
	Where string
	// Text per mode (int, dec, len); a mode that is missing does not take this sibling.  %FD% is replaced
	// by the fraction-digits of the chain.
	Text map[string]string
	// Steps: 0 = any chain, 1 = only chains of one step (restriction directly on the built-in type),
	// 2 = only chains of two or more steps (restriction on a typedef).
	Steps int
	// Fatal: the sibling makes the resolution of the type statement stop with an error of its own before
	// (or instead of) the range code's verdict is reported; then the only thing demanded is that an
	// inadmissible restriction does not pass without any error.
	Fatal bool
	// Erroneous: the sibling is (or may be taken to be) in error itself, so the statement is rejected
	// whatever the restriction says.  When the restriction is inadmissible and its own error is missing
	// while another error is reported, the restriction still counts as rejected with an error (which of
	// several errors of one type statement are reported is not what the property speaks about).
	Erroneous bool
}

func all3(s string) map[string]string { return map[string]string{"int": s, "dec": s, "len": s} }

var sibDefs = []sibDef{
	{Name: "pattern", Where: "type", Text: all3("pattern '[a-z]+';")},
	{Name: "pattern-invalid-regexp", Where: "type", Text: all3("pattern '[a-z';"), Erroneous: true},
	{Name: "pattern-modifier", Where: "type", Text: all3("pattern '[0-9]+' { modifier invert-match; error-message 'no'; error-app-tag 'tag'; }")},
	{Name: "pattern-twice", Where: "type", Text: all3("pattern 'a*'; pattern 'b*';")},
	{Name: "posix-pattern", Where: "type", Text: all3("oc-ext:posix-pattern '^a+$';")},
	{Name: "posix-pattern-invalid-regexp", Where: "type", Text: all3("oc-ext:posix-pattern '^(a';"), Erroneous: true},
	{Name: "posix-pattern-twice-one-invalid", Where: "type", Text: all3("oc-ext:posix-pattern '^a+$'; oc-ext:posix-pattern '^[b';"), Erroneous: true},
	{Name: "posix-pattern-with-body", Where: "type", Text: all3("oc-ext:posix-pattern '^[0-9]+$' { description 'd'; }")},
	{Name: "pattern-and-posix-pattern", Where: "type", Text: all3("pattern 'a+'; oc-ext:posix-pattern '^a+$';")},
	{Name: "extension-of-another-module", Where: "type", Text: all3("x:note 'n';")},
	{Name: "extension-posix-pattern-of-another-module", Where: "type", Text: all3("x:posix-pattern '^(a';")},
	{Name: "extension-other-of-openconfig-extensions", Where: "type", Text: all3("oc-ext:bar 'z';")},
	{Name: "extension-of-own-module", Where: "type", Text: all3("m:own-ext 'a';")},
	{Name: "extension-nested", Where: "type", Text: all3("x:note 'n' { x:note 'inner'; oc-ext:posix-pattern '^(a'; }")},
	{Name: "extension-without-argument", Where: "type", Text: all3("x:flag;")},
	{Name: "extension-unbound-prefix", Where: "type", Text: all3("zz:unknown 'a';"), Fatal: true},
	{Name: "fraction-digits-on-non-decimal", Where: "type", Text: map[string]string{"int": "fraction-digits 2;", "len": "fraction-digits 2;"}, Erroneous: true},
	{Name: "fraction-digits-again", Where: "type", Text: map[string]string{"dec": "fraction-digits %FD%;"}, Steps: 2, Fatal: true},
	{Name: "fraction-digits-after-range", Where: "fd", Text: map[string]string{"dec": ""}, Steps: 1},
	{Name: "other-restriction", Where: "type", Text: map[string]string{"int": "length '1..2';", "dec": "length '1..2';", "len": "range '1..2';"}},
	{Name: "other-restriction-inadmissible", Where: "type", Text: map[string]string{"int": "length '5..1';", "dec": "length '1..2..3';", "len": "range '5..1';"}, Erroneous: true},
	{Name: "enum", Where: "type", Text: all3("enum a; enum b { value 7; }")},
	{Name: "enum-duplicate", Where: "type", Text: all3("enum a; enum a;"), Erroneous: true},
	{Name: "bit", Where: "type", Text: all3("bit b0 { position 0; } bit b1;")},
	{Name: "base", Where: "type", Text: all3("base idn;")},
	{Name: "base-unknown", Where: "type", Text: all3("base nosuch;"), Erroneous: true},
	{Name: "path", Where: "type", Text: all3("path '../x';")},
	{Name: "require-instance", Where: "type", Text: all3("require-instance false;")},
	{Name: "require-instance-not-boolean", Where: "type", Text: all3("require-instance maybe;"), Erroneous: true},
	{Name: "member-type", Where: "type", Text: all3("type boolean;")},

	{Name: "restriction-with-messages", Where: "body", Text: all3("{ error-message 'e'; error-app-tag 't'; description 'd'; reference 'r'; }")},
	{Name: "restriction-with-extensions", Where: "body", Text: all3("{ oc-ext:posix-pattern '^(a'; x:note 'n'; }")},
	{Name: "restriction-with-empty-body", Where: "body", Text: all3("{ }")},

	{Name: "typedef-units", Where: "typedef", Text: all3("units 'u';")},
	{Name: "typedef-default", Where: "typedef", Text: all3("default '3';")},
	{Name: "typedef-units-default-not-a-number", Where: "typedef", Text: all3("units 'u'; default 'zz';"), Erroneous: true},
	{Name: "typedef-description-reference-status", Where: "typedef", Text: all3("description 'd'; reference 'r'; status deprecated;")},
	{Name: "typedef-extensions", Where: "typedef", Text: all3("oc-ext:posix-pattern '^(a'; x:note 'n';")},

	{Name: "leaf-units-default", Where: "leaf", Text: all3("units 'u'; default '3';")},
	{Name: "leaf-mandatory-config-must-when", Where: "leaf", Text: all3("mandatory true; config false; description 'd'; must '. != 0'; when '../x';")},
	{Name: "leaf-extensions", Where: "leaf", Text: all3("oc-ext:posix-pattern '^(a'; x:note 'n';")},
}

var sibByName = func() map[string]*sibDef {
	m := map[string]*sibDef{}
	for i := range sibDefs {
		m[sibDefs[i].Name] = &sibDefs[i]
	}
	return m
}()

// hosts: where the type statement carrying the restriction stands
const (
	hostLeaf = iota + 1
	hostTypedef
	hostUnionMember
	hostUnionInTypedef
	hostDeviate
	hostGrouping
	hostLeafList
	nHosts = hostLeafList
)

var hostText = map[int]string{
	hostLeaf: "the type of a leaf", hostTypedef: "the type of a typedef used by a leaf", hostUnionMember: "a member of the union of a leaf",
	hostUnionInTypedef: "a member of a union inside a typedef", hostDeviate: "the type of a deviate replace on a leaf of another module",
	hostGrouping: "the type of a leaf of a used grouping", hostLeafList: "the type of a leaf-list inside a list inside a container",
}

type sibCombo struct {
	Sib  string
	Pos  int // 1 = before the restriction (the type statement), 2 = after it
	Host int
}

func hostsFor(where string) []int {
	switch where {
	case "typedef":
		return []int{hostTypedef, hostUnionInTypedef}
	case "leaf":
		return []int{hostLeaf, hostUnionMember, hostGrouping}
	}
	return []int{hostLeaf, hostTypedef, hostUnionMember, hostUnionInTypedef, hostDeviate, hostGrouping, hostLeafList}
}

var comboCache sync.Map

// sibFatalAccepted counts admissible restrictions next to a sibling that was expected to stop the resolution and did not.
var sibFatalAccepted int64

// sibCombos lists every (sibling, position, host) that applies to a chain of this mode and depth.
func sibCombos(c Case) []sibCombo {
	deep := len(c.Steps) >= 2
	key := c.Mode + strconv.FormatBool(deep)
	if v, ok := comboCache.Load(key); ok {
		return v.([]sibCombo)
	}
	var out []sibCombo
	for _, s := range sibDefs {
		if _, ok := s.Text[c.Mode]; !ok {
			continue
		}
		if (s.Steps == 1 && deep) || (s.Steps == 2 && !deep) {
			continue
		}
		for _, h := range hostsFor(s.Where) {
			if s.Where == "body" || s.Where == "fd" {
				out = append(out, sibCombo{s.Name, 2, h})
				continue
			}
			out = append(out, sibCombo{s.Name, 1, h}, sibCombo{s.Name, 2, h})
		}
	}
	comboCache.Store(key, out)
	return out
}

const sibExtModules = "module openconfig-extensions { namespace \"urn:oc-ext\"; prefix oc-ext; extension posix-pattern { argument pattern; } extension bar { argument baz; } }\n"
const sibOtherModule = "module other-extensions { namespace \"urn:x\"; prefix x; extension posix-pattern { argument pattern; } extension note { argument text; } extension flag; }\n"

// sibTexts renders the modules of one case; hostLine is the line of m.yang on which the type statement with
// the restriction begins (the restriction statement begins on the same line).
func sibTexts(u UCase) (tText, mText string, hostLine int, err error) {
	sd := sibByName[u.Sib]
	if sd == nil {
		return "", "", 0, fmt.Errorf("unknown sibling %q", u.Sib)
	}
	c := u.Case
	n := len(c.Steps)
	kw, baseType, fdStmt := baseTypeText(c)
	st, ok := sd.Text[c.Mode]
	if !ok {
		return "", "", 0, fmt.Errorf("sibling %q does not apply to mode %s", u.Sib, c.Mode)
	}
	st = strings.ReplaceAll(st, "%FD%", strconv.Itoa(c.Fd))
	var chain strings.Builder
	lines := 0
	for k := 0; k < n-1; k++ {
		t := text(c.Steps[k])
		if k == 0 {
			fmt.Fprintf(&chain, "typedef c%d { type %s { %s%s '%s'; } }\n", k+1, baseType, fdStmt, kw, t)
		} else {
			fmt.Fprintf(&chain, "typedef c%d { type c%d { %s '%s'; } }\n", k+1, k, kw, t)
		}
		lines += 1 + strings.Count(t, "\n")
	}
	ref := baseType
	if n >= 2 {
		ref = fmt.Sprintf("c%d", n-1)
		if u.Host == hostDeviate {
			ref = "t:" + ref
		}
		fdStmt = ""
	}
	r := text(c.Steps[n-1])
	before, after, body, outerBefore, outerAfter := "", "", "", "", ""
	switch sd.Where {
	case "type":
		if u.Pos == 1 {
			before = st + " "
		} else {
			after = " " + st
		}
	case "body":
		body = " " + st
	case "fd":
		after, fdStmt = " "+strings.TrimSpace(fdStmt), ""
	case "typedef", "leaf":
		if u.Pos == 1 {
			outerBefore = st + " "
		} else {
			outerAfter = " " + st
		}
	}
	restr := fmt.Sprintf("%s '%s';", kw, r)
	if body != "" {
		restr = fmt.Sprintf("%s '%s'%s", kw, r, body)
	}
	typ := fmt.Sprintf("type %s { %s%s%s%s }", ref, fdStmt, before, restr, after)
	var host string
	switch u.Host {
	case hostLeaf:
		host = fmt.Sprintf("leaf l { %s%s%s }", outerBefore, typ, outerAfter)
	case hostTypedef:
		host = fmt.Sprintf("typedef td { %s%s%s } leaf l { type td; }", outerBefore, typ, outerAfter)
	case hostUnionMember:
		host = fmt.Sprintf("leaf l { %stype union { type boolean; %s }%s }", outerBefore, typ, outerAfter)
	case hostUnionInTypedef:
		host = fmt.Sprintf("typedef tu { %stype union { type boolean; %s }%s } leaf l { type tu; }", outerBefore, typ, outerAfter)
	case hostDeviate:
		host = fmt.Sprintf("deviation /t:a { deviate replace { %s } }", typ)
	case hostGrouping:
		host = fmt.Sprintf("grouping g { leaf l { %s%s%s } } uses g;", outerBefore, typ, outerAfter)
	case hostLeafList:
		host = fmt.Sprintf("container k { list q { key id; leaf id { type string; } leaf-list l { %s } } }", typ)
	default:
		return "", "", 0, fmt.Errorf("unknown host %d", u.Host)
	}
	head := "module m { namespace \"urn:m\"; prefix m; import openconfig-extensions { prefix oc-ext; } import other-extensions { prefix x; }"
	if u.Host == hostDeviate {
		tText = "module t { namespace \"urn:t\"; prefix t;\n" + chain.String() + "leaf a { type boolean; }\n}\n"
		mText = head + " import t { prefix t; } extension own-ext { argument a; } identity idn; leaf x { type string; }\n" + host + "\n}\n"
		return tText, mText, 2, nil
	}
	mText = head + " extension own-ext { argument a; } identity idn; leaf x { type string; }\n" + chain.String() + host + "\n}\n"
	return "", mText, 2 + lines, nil
}

var sibPos = regexp.MustCompile(`m\.yang:(\d+):\d+: `)

type sibError struct {
	line int
	kind string // bad range | bad length | negative length
	msg  string
}

// sibErrors takes an error text apart into the positioned messages of m.yang it consists of (the errors
// of the type of a deviate arrive as one error that prints the list) and returns those of the range code.
func sibErrors(s string) []sibError {
	var out []sibError
	idx := sibPos.FindAllStringSubmatchIndex(s, -1)
	wrapped := strings.Contains(s, "deviation has unresolvable type, [")
	for k, ix := range idx {
		end := len(s)
		if k+1 < len(idx) {
			end = idx[k+1][0]
		}
		seg := s[ix[1]:end]
		if k+1 < len(idx) {
			seg = strings.TrimSuffix(seg, " ")
		} else if wrapped {
			seg = strings.TrimSuffix(seg, "]")
		}
		ln, _ := strconv.Atoi(s[ix[2]:ix[3]])
		for _, kind := range []string{"bad range", "bad length", "negative length"} {
			if strings.HasPrefix(seg, kind+": ") {
				out = append(out, sibError{ln, kind, seg[len(kind)+2:]})
			}
		}
	}
	return out
}

// runSibling1 resolves one case.  Outcome: "err <class>" when an error of the restriction's own kind
// (bad range for range, bad length / negative length for length) is reported at the line of the
// restriction, else "ok <set>" read from the entry (from the syntax tree's resolved type when an error of
// the sibling kept the entry from getting a type).  Fatal siblings: "rejected" when Process or the entry
// tree reports any error at all, else "accepted".
func runSibling1(u UCase) (out string) {
	defer func() {
		if p := recover(); p != nil {
			out = fmt.Sprintf("panic %v %s", p, firstLines(string(debug.Stack()), 12))
		}
	}()
	tText, mText, hostLine, err := sibTexts(u)
	if err != nil {
		return "bad-case " + err.Error()
	}
	ms := yang.NewModules()
	for _, f := range [][2]string{{sibExtModules, "oc.yang"}, {sibOtherModule, "x.yang"}, {tText, "t.yang"}, {mText, "m.yang"}} {
		if f[0] == "" {
			continue
		}
		if err := ms.Parse(f[0], f[1]); err != nil {
			return "parse-error " + firstLines(err.Error(), 2)
		}
	}
	errs := ms.Process()
	mod := ms.Modules["m"]
	if mod == nil {
		return "no-module"
	}
	root := yang.ToEntry(mod)
	errs = append(errs, root.GetErrors()...)
	target := root
	if u.Host == hostDeviate {
		tm := ms.Modules["t"]
		if tm == nil {
			return "no-module"
		}
		target = yang.ToEntry(tm)
		errs = append(errs, target.GetErrors()...)
	}
	if sibByName[u.Sib].Fatal {
		if len(errs) > 0 {
			return "rejected"
		}
		return "accepted"
	}
	for _, e := range errs {
		for _, se := range sibErrors(e.Error()) {
			if (u.Mode == "len") != (se.kind != "bad range") {
				continue // the verdict on the sibling restriction of the other kind
			}
			if se.line != hostLine {
				continue
			}
			if se.kind == "negative length" {
				return "err negLength"
			}
			return "err " + classify(se.msg)
		}
	}
	// no error of the restriction: read the set
	var yt *yang.YangType
	member := func(t *yang.YangType) *yang.YangType {
		if t == nil || len(t.Type) != 2 {
			return nil
		}
		return t.Type[1]
	}
	astMember := func(t *yang.Type) *yang.YangType {
		if t == nil || len(t.Type) != 2 {
			return nil
		}
		return t.Type[1].YangType
	}
	typedefNamed := func(name string) *yang.Type {
		for _, td := range mod.Typedef {
			if td.Name == name {
				return td.Type
			}
		}
		return nil
	}
	leafType := func(e *yang.Entry) *yang.YangType {
		if e == nil {
			return nil
		}
		return e.Type
	}
	switch u.Host {
	case hostLeaf, hostGrouping:
		yt = leafType(root.Dir["l"])
	case hostTypedef:
		if yt = leafType(root.Dir["l"]); yt == nil {
			if t := typedefNamed("td"); t != nil {
				yt = t.YangType
			}
		}
	case hostUnionMember:
		if yt = member(leafType(root.Dir["l"])); yt == nil {
			for _, l := range mod.Leaf {
				if l.Name == "l" {
					yt = astMember(l.Type)
				}
			}
		}
	case hostUnionInTypedef:
		if yt = member(leafType(root.Dir["l"])); yt == nil {
			yt = astMember(typedefNamed("tu"))
		}
	case hostDeviate:
		yt = leafType(target.Dir["a"])
		if yt != nil && yt.Kind == yang.Ybool {
			yt = nil
			// an error of the sibling keeps every deviation from being applied: the resolved type of the statement
			if len(errs) == 0 {
				return "not-deviated"
			}
			if len(mod.Deviation) == 1 && len(mod.Deviation[0].Deviate) == 1 && mod.Deviation[0].Deviate[0].Type != nil {
				yt = mod.Deviation[0].Deviate[0].Type.YangType
			}
		}
	case hostLeafList:
		if k := root.Dir["k"]; k != nil && k.Dir["q"] != nil {
			yt = leafType(k.Dir["q"].Dir["l"])
		}
	}
	if yt == nil {
		return "no-type " + firstLines(fmt.Sprint(errs), 2)
	}
	flag := ""
	if sibByName[u.Sib].Erroneous && len(errs) > 0 {
		flag = sibOtherError
	}
	if u.Mode == "len" {
		return okOut(yt.Length) + flag
	}
	return okOut(yt.Range) + flag
}

// sibNormalize: an outcome marked sibOtherError is the model's error outcome when the model rejects the
// restriction (rejected, by the error of the sibling: the class of the restriction's own error is not
// observable), else the set that was read.
func sibNormalize(out, model string) (string, bool) {
	if !strings.HasSuffix(out, sibOtherError) {
		return out, false
	}
	if strings.HasPrefix(model, "err ") {
		return model, true
	}
	return strings.TrimSuffix(out, sibOtherError), false
}

// sibOtherError marks an outcome without an error of the restriction itself but with other errors, next to an erroneous sibling.
const sibOtherError = " !other-error"

func runSibling(cases []UCase) []string {
	outs := make([]string, len(cases))
	for i, u := range cases {
		outs[i] = runSibling1(u)
	}
	return outs
}

func sibPlacementText(u UCase) string {
	sd := sibByName[u.Sib]
	where := "?"
	if sd != nil {
		pos := map[int]string{1: "before", 2: "after"}[u.Pos]
		switch sd.Where {
		case "type":
			where = fmt.Sprintf("%s the restriction, in the same type statement: %s", pos, sd.Text[u.Mode])
		case "body":
			where = "as the body of the restriction statement: " + sd.Text[u.Mode]
		case "fd":
			where = "the mandatory fraction-digits statement written after the range"
		default:
			where = fmt.Sprintf("%s the type statement, in the enclosing %s: %s", pos, sd.Where, sd.Text[u.Mode])
		}
	}
	return fmt.Sprintf("%s, with sibling %q %s", hostText[u.Host], u.Sib, where)
}

// siblingGroup evaluates the sibling placements of one section and returns the disagreements.
// ans / goOuts are the model's and Go's outcomes of the plain chains, goIdx maps a chain's key to its index.
func siblingGroup(f *lib.Flags, secName string, pcs []UCase, goIdx map[string]int, ans []string, goOuts [][]string) (found []lib.Disagreement, rejected, fatal, otherErr int64) {
	uout := runUnions(pcs, f.Procs, runSibling)
	for j, pc := range pcs {
		var byOther bool
		if uout[j], byOther = sibNormalize(uout[j], lastStep(ans[goIdx[pc.Case.key()]])); byOther {
			otherErr++
		}
	}
	var reqs []string
	ridx := make([]int, len(pcs))
	parents := make([]string, len(pcs))
	models := make([]string, len(pcs))
	for j, pc := range pcs {
		i := goIdx[pc.Case.key()]
		parents[j] = parentOfLast(pc.Case, goOuts[i])
		models[j] = lastStep(ans[i])
		ridx[j] = -1
		last := pc.Steps[len(pc.Steps)-1]
		if sibByName[pc.Sib].Fatal {
			// is rejecting the restriction what the specification demands?
			ridx[j] = len(reqs)
			reqs = append(reqs, fmt.Sprintf("spec.step %s %s %d %s err", parents[j], pc.Mode, pc.Fd, last))
			continue
		}
		if r := unionSpecRequest(pc, parents[j], uout[j]); r != "" {
			ridx[j] = len(reqs)
			reqs = append(reqs, r)
		}
	}
	sans, err := lib.ParBatch(f.Driver, reqs, f.Procs)
	if err != nil {
		lib.Fatal("driver (spec, sibling placements): %v", err)
	}
	for j, pc := range pcs {
		if strings.HasPrefix(uout[j], "err ") || uout[j] == "rejected" {
			rejected++
		}
		if !strings.HasPrefix(uout[j], "panic") && !sibByName[pc.Sib].Fatal && uout[j] == models[j] && ridx[j] >= 0 && sans[ridx[j]] == "holds" {
			continue
		}
		in := describe(pc.Case)
		in["placement"] = pc.placement()
		in["where"] = sibPlacementText(pc)
		if _, m, _, err := sibTexts(pc); err == nil {
			in["module_m"] = m
		}
		if strings.HasPrefix(uout[j], "panic") {
			found = append(found, lib.Disagreement{Kind: "crash", Input: in, Go: uout[j], Model: models[j], SpecVerdict: "violates",
				What: "the type resolution panicked (" + pc.placement() + ")", Replay: pc})
			continue
		}
		if sibByName[pc.Sib].Fatal {
			fatal++
			switch {
			case uout[j] == "rejected":
			case uout[j] == "accepted" && sans[ridx[j]] == "holds":
				found = append(found, lib.Disagreement{Kind: "spec", Input: in, Go: uout[j], Model: models[j], SpecVerdict: "violates",
					What: "a restriction the specification rejects (syntactically invalid, bounds out of order, or not inside the parent's set) passed Process without any error; it stands in " + sibPlacementText(pc) + " (" + secName + ")", Replay: pc})
			case uout[j] == "accepted":
				sibFatalAccepted++
				// the sibling was expected to stop the resolution and did not; the restriction is admissible: nothing of C10
			default:
				found = append(found, lib.Disagreement{Kind: "correspondence", Input: in, Go: uout[j], Model: models[j], SpecVerdict: "",
					What: "sibling placement could not be evaluated (" + secName + "): " + uout[j], Replay: pc})
			}
			continue
		}
		verdict, why := "", "go outcome could not be interpreted"
		if ridx[j] >= 0 {
			verdict, why = "holds", ""
			if sans[ridx[j]] != "holds" {
				verdict, why = "violates", sans[ridx[j]]
			}
		}
		clause := ""
		if verdict == "violates" {
			clause = "an admissible restriction must give exactly the written set: "
			if strings.HasPrefix(models[j], "err ") {
				clause = "a restriction that is syntactically invalid, out of order or not inside the parent's set must be rejected with an error: "
			}
		}
		if uout[j] != models[j] {
			found = append(found, lib.Disagreement{Kind: "correspondence", Input: in, Go: uout[j], Model: models[j], SpecVerdict: verdict,
				What: clause + "restriction in " + sibPlacementText(pc) + ": outcome differs from the model's outcome for the same restriction against the same parent (" + secName + "); spec on the Go outcome: " + verdict + " " + why, Replay: pc})
		} else if verdict != "holds" {
			found = append(found, lib.Disagreement{Kind: "spec", Input: in, Go: uout[j], Model: models[j], SpecVerdict: "violates",
				What: clause + "restriction in " + sibPlacementText(pc) + ": the outcome violates the specification (" + secName + "): " + why, Replay: pc})
		}
	}
	return found, rejected, fatal, otherErr
}
