// Files-on-disk runs of corr-c11.
//
// Process "searches for a .yang file" when an import or include names something that was not read
// explicitly (Modules.Path / AddPath).  Once loaded such a module is a loaded module like any
// other: the identity tables must be those of fresh Modules that were handed the same texts.
// A disk case carries a source set whose files are named <module>[@<revision>].yang and a list
// of splits; per split the child writes the files that are NOT handed over into a fresh directory
// on the search path, hands the others to Parse, calls Process, reads the loaded set off the
// Modules value and compares the rendered result with that of fresh Modules which get exactly
// the loaded texts through Parse (the reference runs, which the model and the specification are
// compared with as for every other case).
//
// Excluded (counted, not compared): the shape of finding D04-P1 (known_findings.txt) - something
// is read from the path AFTER the linking walk of process(), because a submodule was handed over
// that no handed-over module reaches (the walk starts at the modules only), or the walk stopped.
// The generator never hands a submodule over without its module; the child checks the links.
package main

import (
	"errors"
	"fmt"
	"math/rand"
	"os"
	"path/filepath"
	"sort"
	"strconv"
	"strings"

	"github.com/openconfig/goyang/pkg/yang"
	"verif/harness/lib"
)

type fileInfo struct {
	full, name, owner string
	sub               bool
	imports, includes []string
}

// inspectFile parses one text by itself: header, imports, includes.
func inspectFile(f srcFile) (fi fileInfo, ok bool) {
	defer func() {
		if recover() != nil {
			ok = false
		}
	}()
	ms := yang.NewModules()
	if ms.Parse(f.Text, f.Name) != nil {
		return fi, false
	}
	all := append(distinctMods(ms.Modules), distinctMods(ms.SubModules)...)
	if len(all) != 1 {
		return fi, false
	}
	m := all[0]
	fi = fileInfo{full: m.FullName(), name: m.Name, sub: m.Kind() == "submodule"}
	if m.BelongsTo != nil {
		fi.owner = m.BelongsTo.Name
	}
	for _, i := range m.Import {
		fi.imports = append(fi.imports, i.Name)
	}
	for _, i := range m.Include {
		fi.includes = append(fi.includes, i.Name)
	}
	return fi, true
}

func joinInts(l []int) string {
	s := make([]string, len(l))
	for i, x := range l {
		s[i] = strconv.Itoa(x)
	}
	if len(s) == 0 {
		return "-"
	}
	return strings.Join(s, ",")
}

func splitInts(s string) []int {
	var out []int
	if s == "-" {
		return out
	}
	for _, f := range strings.Split(s, ",") {
		if i, err := strconv.Atoi(f); err == nil {
			out = append(out, i)
		}
	}
	return out
}

func equalInts(a, b []int) bool {
	if len(a) != len(b) {
		return false
	}
	for i := range a {
		if a[i] != b[i] {
			return false
		}
	}
	return true
}

func pickFiles(files []srcFile, idx []int) []srcFile {
	out := make([]srcFile, 0, len(idx))
	for _, i := range idx {
		if i >= 0 && i < len(files) {
			out = append(out, files[i])
		}
	}
	return out
}

// diskVariant turns a source set into a disk case: files renamed to <full name>.yang, and up to
// five splits: each single module alone (only the importer / only the declaring module handed
// over), the modules nobody imports (the tops of the import chains), all modules without the
// submodules, everything but one file.  A submodule is handed over only together with its module.
func diskVariant(tc tcase, rng *rand.Rand) (tcase, bool) {
	n := len(tc.Files)
	if n < 2 {
		return tc, false
	}
	out := tcase{Tag: "disk " + tc.Tag, Runs: 2, Disk: true}
	infos := make([]fileInfo, n)
	names := map[string]bool{}
	present := map[string]bool{}
	for i, f := range tc.Files {
		fi, ok := inspectFile(f)
		if !ok || strings.ContainsAny(fi.full, "/\\:") {
			return tc, false
		}
		infos[i] = fi
		nm := fi.full + ".yang"
		if names[nm] {
			return tc, false
		}
		names[nm] = true
		present[fi.name] = true
		out.Files = append(out.Files, srcFile{Name: nm, Text: f.Text})
	}
	edge := false
	importedByOther := map[string]bool{}
	var mods []int
	modIdx := map[string][]int{}
	for i, fi := range infos {
		if !fi.sub {
			mods = append(mods, i)
			modIdx[fi.name] = append(modIdx[fi.name], i)
		}
		for _, x := range fi.imports {
			if x != fi.name {
				importedByOther[x] = true
			}
			edge = edge || present[x]
		}
		for _, x := range fi.includes {
			edge = edge || present[x]
		}
	}
	if !edge || len(mods) == 0 {
		return tc, false
	}
	seen := map[string]bool{}
	add := func(h []int, rev bool) {
		in := map[int]bool{}
		for _, i := range h {
			in[i] = true
		}
		var keep []int
		for _, i := range h {
			if infos[i].sub {
				ok := false
				for _, o := range modIdx[infos[i].owner] {
					ok = ok || in[o]
				}
				if !ok {
					continue
				}
			}
			keep = append(keep, i)
		}
		hasMod := false
		for _, i := range keep {
			hasMod = hasMod || !infos[i].sub
		}
		if !hasMod || len(keep) >= n || len(out.Splits) >= 5 {
			return
		}
		sorted := append([]int(nil), keep...)
		sort.Ints(sorted)
		if seen[joinInts(sorted)] {
			return
		}
		seen[joinInts(sorted)] = true
		if rev {
			for i, j := 0, len(keep)-1; i < j; i, j = i+1, j-1 {
				keep[i], keep[j] = keep[j], keep[i]
			}
		}
		out.Splits = append(out.Splits, keep)
	}
	sh := append([]int(nil), mods...)
	rng.Shuffle(len(sh), func(i, j int) { sh[i], sh[j] = sh[j], sh[i] })
	for k, m := range sh {
		if k < 3 {
			add([]int{m}, false)
		}
	}
	var tops []int
	for _, m := range mods {
		if !importedByOther[infos[m].name] {
			tops = append(tops, m)
		}
	}
	add(tops, false)
	add(mods, true)
	for k := 0; k < 2; k++ {
		x := rng.Intn(n)
		var h []int
		for i := 0; i < n; i++ {
			if i != x {
				h = append(h, i)
			}
		}
		add(h, k == 1)
	}
	return out, len(out.Splits) > 0
}

type diskRun struct {
	dump   string
	loaded []int
	excl   string
}

// goDisk: the files that are not handed over are written to a fresh directory on the search path,
// the handed ones go to Parse in the given order, then Process.  The working directory of the
// child is an empty directory (findFile looks into "." first).
func goDisk(files []srcFile, handed []int) (r diskRun) {
	defer func() {
		if x := recover(); x != nil {
			r = diskRun{dump: fmt.Sprintf("crash panic: %v", x)}
		}
	}()
	dir, err := os.MkdirTemp("", "corr-c11-lib-")
	if err != nil {
		return diskRun{excl: "tempdir: " + err.Error()}
	}
	defer os.RemoveAll(dir)
	if d, err := filepath.EvalSymlinks(dir); err == nil {
		dir = d
	}
	isH := map[int]bool{}
	for _, i := range handed {
		isH[i] = true
	}
	byName := map[string]int{}
	for i, f := range files {
		byName[f.Name] = i
		if isH[i] {
			continue
		}
		if strings.ContainsAny(f.Name, "/\\") {
			return diskRun{excl: "file name with a separator"}
		}
		if err := os.WriteFile(filepath.Join(dir, f.Name), []byte(f.Text), 0o644); err != nil {
			return diskRun{excl: "write: " + err.Error()}
		}
	}
	ms := yang.NewModules()
	ms.AddPath(dir)
	for _, i := range handed {
		if i < 0 || i >= len(files) {
			return diskRun{excl: "bad split"}
		}
		if err := ms.Parse(files[i].Text, files[i].Name); err != nil {
			return diskRun{dump: "loaderr"}
		}
	}
	walkRoots := distinctMods(ms.Modules)
	errs := ms.Process()
	// files found on the path are known to goyang under their full path: positions are compared
	// under the bare file name, as for texts handed over directly
	bare := make([]error, len(errs))
	for i, e := range errs {
		bare[i] = errors.New(strings.ReplaceAll(e.Error(), dir+string(filepath.Separator), ""))
	}
	r.dump = renderGo(ms, bare)
	fileOf := func(m *yang.Module) string {
		if m == nil || m.Source == nil {
			return ""
		}
		loc := m.Source.Location()
		for k := 0; k < 2; k++ {
			if i := strings.LastIndexByte(loc, ':'); i >= 0 {
				loc = loc[:i]
			}
		}
		return strings.TrimPrefix(loc, dir+string(filepath.Separator))
	}
	// what the linking walk of process() reached: from the modules present at its start through
	// the include and import statements it linked
	reach := map[*yang.Module]bool{}
	var walk func(m *yang.Module)
	walk = func(m *yang.Module) {
		if m == nil || reach[m] {
			return
		}
		reach[m] = true
		for _, i := range m.Include {
			walk(i.Module)
		}
		for _, i := range m.Import {
			walk(i.Module)
		}
	}
	for _, m := range walkRoots {
		walk(m)
	}
	have := map[int]bool{}
	for _, m := range append(distinctMods(ms.Modules), distinctMods(ms.SubModules)...) {
		i, ok := byName[fileOf(m)]
		if !ok {
			r.excl = "loaded set not reconstructible"
			return r
		}
		if !have[i] {
			have[i] = true
			r.loaded = append(r.loaded, i)
		}
		if !reach[m] && r.dump != "linkfail" {
			if isH[i] {
				r.excl = "D04-P1 shape (a handed-over submodule that the linking walk does not reach): " + files[i].Name
			} else {
				r.excl = "D04-P1 shape (a file was read from the path after the linking walk): " + files[i].Name
			}
		}
	}
	// texts that were read but are in no table (an unrevisioned module displaced by a revision of
	// the same name): handed over, or named by an error
	addFile := func(i int) {
		if !have[i] {
			have[i] = true
			r.loaded = append(r.loaded, i)
		}
	}
	for _, i := range handed {
		addFile(i)
	}
	for _, e := range bare {
		if f, _, _, _ := lib.ErrClass(e.Error()); f != "-" {
			if i, ok := byName[f]; ok {
				addFile(i)
			}
		}
	}
	sort.Ints(r.loaded)
	return r
}

// childDisk answers a disk case: reference runs (fresh Modules, the loaded texts through Parse)
// first, then one entry per split whose result differs, then the meta entries.
func childDisk(rq childReq) childAns {
	var ans childAns
	runs := make([]diskRun, len(rq.Splits))
	for s, h := range rq.Splits {
		runs[s] = goDisk(rq.Files, h)
	}
	loaded := make([]int, len(rq.Files))
	for i := range loaded {
		loaded[i] = i
	}
	for _, r := range runs {
		if r.excl == "" && !strings.HasPrefix(r.dump, "crash") && r.dump != "loaderr" {
			loaded = r.loaded
			break
		}
	}
	sub := pickFiles(rq.Files, loaded)
	stc := tcase{Files: sub}
	for k := 0; k < rq.Runs; k++ {
		ans.Dumps = append(ans.Dumps, goDump(sub, stc.order(k), k == rq.Runs-1))
	}
	var meta []string
	for s, r := range runs {
		switch {
		case strings.HasPrefix(r.dump, "crash"):
			ans.Dumps = append(ans.Dumps, fmt.Sprintf("%s (files-on-disk run, files %v handed to Parse)", r.dump, rq.Splits[s]))
		case r.excl != "":
			meta = append(meta, fmt.Sprintf("disk-excluded %d %s", s, r.excl))
		default:
			ref := ans.Dumps[0]
			if !equalInts(r.loaded, loaded) {
				sf := pickFiles(rq.Files, r.loaded)
				ref = goDump(sf, tcase{Files: sf}.order(0), false)
			}
			if r.dump != ref {
				ans.Dumps = append(ans.Dumps, fmt.Sprintf("disk-differs %d %s %s ### %s", s, joinInts(r.loaded), ref, r.dump))
			}
			meta = append(meta, fmt.Sprintf("disk-ran %d %d", s, len(r.loaded)-len(rq.Splits[s])))
		}
	}
	ans.Dumps = append(ans.Dumps, "disk-loaded "+joinInts(loaded))
	ans.Dumps = append(ans.Dumps, meta...)
	return ans
}

// splitMeta separates the meta entries of a disk answer from the dumps.
func splitMeta(g []string) (dumps []string, loaded []int, hasLoaded bool, ran, found, excluded int, exclWhy []string) {
	for _, d := range g {
		switch {
		case strings.HasPrefix(d, "disk-loaded "):
			loaded, hasLoaded = splitInts(strings.TrimPrefix(d, "disk-loaded ")), true
		case strings.HasPrefix(d, "disk-ran "):
			ran++
			fs := strings.Fields(d)
			if len(fs) == 3 {
				if k, err := strconv.Atoi(fs[2]); err == nil && k > 0 {
					found++
				}
			}
		case strings.HasPrefix(d, "disk-excluded "):
			excluded++
			exclWhy = append(exclWhy, d)
		default:
			dumps = append(dumps, d)
		}
	}
	return
}

// diskSeeds: witnesses for the files-on-disk runs.
func diskSeeds() []tcase {
	mk := func(tag string, splits [][]int, files ...string) tcase {
		tc := tcase{Tag: "disk seed " + tag, Runs: 2, Disk: true, Splits: splits}
		for i := 0; i+1 < len(files); i += 2 {
			tc.Files = append(tc.Files, srcFile{Name: files[i], Text: files[i+1]})
		}
		return tc
	}
	return []tcase{
		mk("only the importer handed over, the module that declares the bases found on the path", [][]int{{0}, {1}},
			"lazymain.yang", `module lazymain { namespace "urn:lazymain"; prefix lm; import lazybase { prefix b; } identity LEAF { base b:MID; } leaf ref { type identityref { base b:ROOT; } } }`,
			"lazybase.yang", `module lazybase { namespace "urn:lazybase"; prefix lb; identity ROOT; identity MID { base ROOT; } }`),
		mk("top of an import chain handed over, identities in every link, a submodule of the last", [][]int{{0}, {0, 1}, {2}, {1}, {0, 2}},
			"top.yang", `module top { namespace "urn:top"; prefix t; import mid { prefix m; } import low { prefix l; } identity T { base m:M; base l:S; } leaf-list r { type identityref { base l:L; } } }`,
			"mid.yang", `module mid { namespace "urn:mid"; prefix m; import low { prefix l; } identity M { base l:L; } typedef tr { type identityref { base l:S; } } leaf viatd { type tr; } }`,
			"low.yang", `module low { namespace "urn:low"; prefix l; include low-sub; identity L; }`,
			"low-sub.yang", `submodule low-sub { belongs-to low { prefix l; } identity S { base L; } }`),
		mk("the module handed over, its submodules (nested include) found on the path", [][]int{{0}, {0, 1}, {0, 2}, {3}},
			"m.yang", `module m { namespace "urn:m"; prefix m; include s1; identity top; identity c { base deep; } leaf l { type union { type identityref { base deep; } type identityref { base m:mid; } } } }`,
			"s1.yang", `submodule s1 { belongs-to m { prefix m; } include s2; identity mid { base top; } }`,
			"s2.yang", `submodule s2 { belongs-to m { prefix mm; } identity deep { base mm:mid; } }`,
			"n.yang", `module n { namespace "urn:n"; prefix n; import m { prefix m; } identity far { base m:deep; } }`),
		mk("revisions on disk: import by revision-date and without", [][]int{{0}, {0, 1}},
			"a.yang", `module a { namespace "urn:a"; prefix a; import b { prefix b; revision-date 2020-01-01; } import c { prefix c; } identity x { base b:t; base c:t; } }`,
			"b@2020-01-01.yang", `module b { namespace "urn:b"; prefix b; revision 2020-01-01; identity t; identity u { base t; } }`,
			"c@2021-02-02.yang", `module c { namespace "urn:c"; prefix c; revision 2021-02-02; identity t; }`,
			"c@2019-02-02.yang", `module c { namespace "urn:c"; prefix c; revision 2019-02-02; identity t; identity old { base t; } }`),
		mk("cycle and dangling base through a module found on the path", [][]int{{0}, {1}},
			"m.yang", `module m { namespace "urn:m"; prefix m; import n { prefix n; } identity a { base n:b; } identity d { base n:nosuch; } }`,
			"n.yang", `module n { namespace "urn:n"; prefix n; import m { prefix m; } identity b { base m:a; } }`),
	}
}
